#!/bin/sh
# usage: importbenign.sh <id>...  -- copies /tmp/benign-<id>/SEED/{patch.diff,README.md} into benign/<id>, removes the worktree, runs the control
here=$(cd "$(dirname "$0")" && pwd)
for id in "$@"; do
	p=$(echo "$id" | sed 's/[a-z]$//')
	mkdir -p "$here/benign/$id"
	cp /tmp/benign-$id/SEED/patch.diff /tmp/benign-$id/SEED/README.md "$here/benign/$id/" || continue
	git -C /repo worktree remove --force /tmp/benign-$id; rm -rf /tmp/benign-$id
	echo "== $id"
	LINES_MAX=${LINES_MAX:-40} SEED_WT=/tmp/triage2 ONTOCHECK_BIN=${ONTOCHECK_BIN:-/tmp/ontocheck-frozen} "$here/benigncheck.sh" "$id" "$p" | cut -c1-700
done
