#!/bin/sh
# usage: seedall.sh [jobs]  -- runs every seeded change against its property's quick check (scratch worktrees, frozen binary)
# and every benign refactor under benign/ (must stay silent). Prints one line per change.
here=$(cd "$(dirname "$0")" && pwd)
jobs=${1:-4}
"$here/build.sh" || exit 2
cp "$here/bin/ontocheck" /tmp/ontocheck-frozen
mkdir -p /tmp/seedall
ls "$here/seeded" | grep -E '^C[0-9]+[a-z]?$' > /tmp/seedall/ids
one() {
	s=$1; slot=$2; p=$(echo "$s" | sed 's/[a-z]$//')
	out=$(SEED_WT=/tmp/seedall-wt$slot ONTOCHECK_BIN=/tmp/ontocheck-frozen LINES_MAX=400 "$here/seedcheck.sh" "$s" "$p" 2>&1)
	echo "$out" > /tmp/seedall/$s.log
	if echo "$out" | grep -q "^VIOLATION property=$p"; then echo "caught $s: $(echo "$out" | grep -m2 '^  violated' | cut -c1-150 | tr '\n' ';')"; else echo "MISSED $s: $(echo "$out" | grep -m1 '^property' | cut -c1-160)"; fi
}
i=0
for s in $(cat /tmp/seedall/ids); do
	slot=$((i % jobs)); i=$((i+1))
	echo "$s $slot"
done > /tmp/seedall/plan
benign() {
	b=$1; slot=$2; p=$(echo "$b" | sed 's/[a-z]$//')
	out=$(SEED_WT=/tmp/seedall-wt$slot ONTOCHECK_BIN=/tmp/ontocheck-frozen LINES_MAX=400 "$here/benigncheck.sh" "$b" "$p" 2>&1)
	echo "$out" > /tmp/seedall/benign-$b.log
	if echo "$out" | grep -q "^VIOLATION"; then echo "FALSE-ALARM benign/$b: $(echo "$out" | grep -m3 -E '^  (violated|undecided)' | cut -c1-150 | tr '\n' ';')"; else echo "silent benign/$b: $(echo "$out" | grep -m1 '^property' | cut -c1-120)"; fi
}
j=0
for b in $(ls "$here/benign" 2>/dev/null); do
	slot=$((j % jobs)); j=$((j+1))
	echo "$b $slot"
done > /tmp/seedall/bplan
for slot in $(seq 0 $((jobs-1))); do
	( grep " $slot\$" /tmp/seedall/plan | while read s sl; do one "$s" "$sl"; done
	  grep " $slot\$" /tmp/seedall/bplan | while read b sl; do benign "$b" "$sl"; done
	  git -C /repo worktree remove --force /tmp/seedall-wt$slot 2>/dev/null ) &
done
wait
