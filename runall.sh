#!/bin/sh
# usage: runall.sh [tier] [jobs]  -- runs every claimed check, prints one summary line each
tier=${1:-quick}; jobs=${2:-4}
here=$(cd "$(dirname "$0")" && pwd)
"$here/build.sh" || exit 2
mkdir -p /tmp/verif-out
python3 -c "import json;print('\n'.join(c['property_id'] for c in json.load(open('$here/MANIFEST.json'))['checks']))" > /tmp/verif-out/ids
cat /tmp/verif-out/ids | xargs -P "$jobs" -I{} sh -c "$here/run.sh {} $tier > /tmp/verif-out/{}.$tier.log 2>&1; echo \"{} rc=\$?\" >> /tmp/verif-out/{}.$tier.log"
for p in $(cat /tmp/verif-out/ids); do grep -E "^(property|VIOLATION|C[0-9]+ rc=)" /tmp/verif-out/$p.$tier.log | cut -c1-200 | tr '\n' ' '; echo; done
