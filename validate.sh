#!/bin/sh
# validates MANIFEST.json and every evidence file against the given schemas
python3-vt - <<'PY'
import json,glob,jsonschema,sys
jsonschema.validate(json.load(open('/verif/MANIFEST.json')),json.load(open('/root/.vp/MANIFEST.schema.json')))
es=json.load(open('/root/.vp/EVIDENCE.schema.json'))
bad=0
for f in sorted(glob.glob('/verif/evidence/*.json')):
    try: jsonschema.validate(json.load(open(f)),es)
    except Exception as e: print("BAD",f,str(e)[:200]); bad+=1
print("manifest ok; evidence files bad:",bad)
sys.exit(1 if bad else 0)
PY
