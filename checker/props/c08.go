package props

import (
	"fmt"
	"go/token"
	"go/types"
	"sort"
	"strings"

	"golang.org/x/tools/go/ssa"

	"verif/checker/an"
)

func init() {
	register(&Prop{ID: "C08", Patterns: []string{"./smartcontract/storage", "./smartcontract/service/native/ong", "./core/store/overlaydb"}, Run: runC08})
}

func runC08(c *an.Ctx) {
	const sp = "smartcontract/storage"
	c.Explanation = "A5 frame + A4 confine on the EVM StateDB: (frame) every StateDB field that any EVM-facing mutator writes (directly or through package helpers) is read by Snapshot and stored back by RevertToSnapshot, and the memdb that holds all slots/nonces/code/balances is cloned by Snapshot and re-installed by Revert; " +
		"(depth) the saved memdb is, on every path, the result of a fresh MemDB.DeepClone of the live memdb (never a shared or earlier clone); DeepClone stores every MemDB field and gives every slice field a fresh backing array; the saved self-destruct set is a fresh map filled from the live one; logs are saved as a length and restored by reslicing and every other writer of logs is an append; refund is saved/restored by value; " +
		"(confine) no EVM-facing mutator reaches OverlayDB.Put/Delete or CacheDB.Commit, so every observable mutation lives in the cloned memdb. With the memdb's own map semantics (assumed) revert restores the observable state for any nesting."
	c.Assumptions = append(c.Assumptions, "MemDB behaves as an ordered map over its kvData/nodeData arrays (C03/C04)", "the shared *rand.Rand in MemDB only chooses skip-list tower heights (not observable)", "CacheDB.keyScratch is a scratch buffer rebuilt before each use")
	if !controlConfine(c) {
		return
	}
	stateDB, _ := c.P.Obj(sp + ".StateDB").(*types.TypeName)
	snapT, _ := c.P.Obj(sp + ".snapshot").(*types.TypeName)
	memDB, _ := c.P.Obj("core/store/overlaydb.MemDB").(*types.TypeName)
	snapshotFn := mustFunc(c, sp+".(*StateDB).Snapshot")
	revertFn := mustFunc(c, sp+".(*StateDB).RevertToSnapshot")
	deepClone := mustFunc(c, "core/store/overlaydb.(*MemDB).DeepClone")
	if stateDB == nil || snapT == nil || memDB == nil || snapshotFn == nil || revertFn == nil || deepClone == nil {
		c.Undecide("anchor|StateDB/snapshot/MemDB", "anchors must resolve", "-", "type not found")
		return
	}
	memdbField := c.P.Field(sp + ".CacheDB.memdb")
	// ---- frame
	notMutator := map[string]string{"Prepare": "per-transaction initialisation", "Snapshot": "", "RevertToSnapshot": "", "DiscardSnapshot": "", "Commit": "end of transaction", "CommitToCacheDB": "end of transaction"}
	inScope := func(fn *ssa.Function) bool { return an.FuncPkgPath(fn) == an.RepoMod+"/"+sp }
	written := map[*types.Var][]an.FieldWrite{}
	snapUnit := map[*ssa.Function]bool{}
	for _, root := range []*ssa.Function{snapshotFn, revertFn} {
		for _, g := range an.InlineReach(root) {
			snapUnit[g] = true
		}
	}
	if dsf := c.P.Func(sp + ".(*StateDB).DiscardSnapshot"); dsf != nil {
		for _, g := range an.InlineReach(dsf) {
			snapUnit[g] = true
		}
	}
	unitWrites := func(root *ssa.Function) []an.FieldWrite {
		var out []an.FieldWrite
		for _, g := range an.InlineReach(root) {
			out = append(out, an.DirectFieldWrites(g)...)
		}
		return out
	}
	var mutators []*ssa.Function
	ms := c.P.SSA.MethodSets.MethodSet(types.NewPointer(stateDB.Type()))
	for i := 0; i < ms.Len(); i++ {
		fn := c.P.SSA.MethodValue(ms.At(i))
		if fn == nil || fn.Blocks == nil {
			continue
		}
		if _, skip := notMutator[fn.Name()]; skip {
			continue
		}
		// private helpers the snapshot mechanism itself is split into are part of that mechanism
		if snapUnit[fn] {
			continue
		}
		mutators = append(mutators, fn)
		an.FieldWritesTransitive(fn, inScope, 3, map[*ssa.Function]bool{}, written)
	}
	c.Count("functions_analysed", len(mutators))
	c.RequireMin("EVM-facing StateDB methods", len(mutators), 25)
	snapReads := map[*types.Var]bool{}
	for _, g := range an.InlineReach(snapshotFn) {
		for f := range an.FieldReads(g) {
			snapReads[f] = true
		}
	}
	revWrites := map[*types.Var]bool{}
	for _, w := range unitWrites(revertFn) {
		if w.Kind == "store" {
			revWrites[w.Field] = true
		}
	}
	exempt := map[string]string{"CacheDB.keyScratch": "scratch buffer, rebuilt by makePrefixedKey before every use"}
	var wnames []string
	for f, ws := range written {
		owner := ownerName(f, stateDB, c)
		name := owner + "." + f.Name()
		wnames = append(wnames, name)
		key := "frame|StateDB|" + name
		if why, ok := exempt[name]; ok {
			c.Note(key, "field written by mutators", c.P.Rel(ws[0].In.Pos()), "exempt: "+why)
			continue
		}
		if owner == "?" {
			continue // a field of a type not reachable from StateDB (a local value)
		}
		if owner != "StateDB" {
			c.Violate(key, "every field a StateDB mutator writes is captured by Snapshot and restored by RevertToSnapshot", c.P.Rel(ws[0].In.Pos()),
				"a mutator writes "+name+", which the snapshot mechanism does not know about")
			continue
		}
		ok := snapReads[f] && revWrites[f]
		c.Check(ok, key, "every field a StateDB mutator writes is captured by Snapshot and restored by RevertToSnapshot", c.P.Rel(ws[0].In.Pos()),
			fmt.Sprintf("%s is written (e.g. in %s) but Snapshot reads it: %v, RevertToSnapshot restores it: %v", name, ws[0].In.Parent().Name(), snapReads[f], revWrites[f]))
	}
	sort.Strings(wnames)
	c.Extra["fields_written_by_mutators"] = wnames
	c.RequireMin("StateDB fields written by mutators (Suicided, logs, refund)", len(wnames), 3)
	// memdb: mutators reach MemDB.Put/Delete through the cache; Snapshot must clone, Revert must install
	c.Check(revWrites[memdbField] && memdbField != nil, "frame|StateDB|CacheDB.memdb-restored", "RevertToSnapshot re-installs the saved memdb (all slots, nonces, code and balances live there)", c.P.Rel(revertFn.Pos()), "no store to CacheDB.memdb in RevertToSnapshot")

	// ---- depth: Snapshot
	snapStores := map[string]ssa.Value{}
	var snapAlloc ssa.Value
	for _, w := range unitWrites(snapshotFn) {
		if w.Kind == "store" && ownerName(w.Field, snapT, c) == "snapshot" {
			snapStores[w.Field.Name()] = w.Val
			if fa, ok := w.In.(*ssa.Store).Addr.(*ssa.FieldAddr); ok {
				snapAlloc = fa.X
			}
		}
	}
	for _, f := range an.StructFields(snapT.Type()) {
		_, ok := snapStores[f.Name()]
		c.Check(ok, "depth|Snapshot|stores-snapshot."+f.Name(), "Snapshot fills every field of the snapshot record", c.P.Rel(snapshotFn.Pos()), "snapshot."+f.Name()+" is never assigned")
	}
	if v, ok := snapStores["changes"]; ok {
		bad := ""
		var srcs []ssa.Value
		for _, s0 := range an.AllSources(v) {
			srcs = append(srcs, an.Deref(snapshotFn, s0)...)
		}
		for _, s := range srcs {
			call, isC := s.(*ssa.Call)
			if !isC || call.Call.StaticCallee() != deepClone {
				bad = "a value that is not a DeepClone result flows into snapshot.changes: " + s.String() + " at " + c.P.Rel(s.Pos())
				continue
			}
			if f := fieldOfLoad(an.Deref(snapshotFn, call.Call.Args[0])[0]); f != memdbField {
				bad = "DeepClone is not applied to the live cacheDB.memdb"
			}
		}
		c.Check(bad == "", "depth|Snapshot|changes-is-fresh-deep-clone", "on every path the saved memdb is a fresh DeepClone of the live memdb (no sharing with the live memdb or another snapshot)", c.P.Rel(snapshotFn.Pos()), bad)
	}
	if v, ok := snapStores["suicided"]; ok {
		dv := an.Deref(snapshotFn, v)
		mk, isMk := dv[0].(*ssa.MakeMap)
		isMk = isMk && len(dv) == 1
		filled := false
		if isMk {
			for _, ref := range *mk.Referrers() {
				if mu, isMu := ref.(*ssa.MapUpdate); isMu {
					// key/value come from ranging over self.Suicided (possibly handed to a copying helper)
					for _, b := range mk.Parent().Blocks {
						for _, in := range b.Instrs {
							if rg, isR := in.(*ssa.Range); isR {
								for _, rx := range an.Deref(snapshotFn, rg.X) {
									if f := fieldOfLoad(rx); f != nil && f.Name() == "Suicided" {
										filled = true
									}
								}
							}
						}
					}
					_ = mu
				}
			}
		}
		c.Check(isMk && filled, "depth|Snapshot|suicided-is-fresh-copy", "the saved self-destruct set is a fresh map filled from the live one", c.P.Rel(snapshotFn.Pos()), "snapshot.suicided is not a new map populated by ranging over self.Suicided")
	}
	if v, ok := snapStores["logsSize"]; ok {
		good := false
		if call, isC := v.(*ssa.Call); isC {
			if bi, isB := call.Call.Value.(*ssa.Builtin); isB && bi.Name() == "len" {
				if f := fieldOfLoad(call.Call.Args[0]); f != nil && f.Name() == "logs" {
					good = true
				}
			}
		}
		c.Check(good, "depth|Snapshot|logsSize-is-len-logs", "the log list is saved as its current length", c.P.Rel(snapshotFn.Pos()), "snapshot.logsSize is not len(self.logs)")
	}
	if v, ok := snapStores["refund"]; ok {
		f := fieldOfLoad(v)
		c.Check(f != nil && f.Name() == "refund", "depth|Snapshot|refund-by-value", "the refund counter is saved by value", c.P.Rel(snapshotFn.Pos()), "snapshot.refund is not self.refund")
	}
	// appended to self.snapshots
	appended := false
	for _, w := range unitWrites(snapshotFn) {
		if w.Kind == "store" && w.Field.Name() == "snapshots" {
			if call, isC := w.Val.(*ssa.Call); isC {
				if bi, isB := call.Call.Value.(*ssa.Builtin); isB && bi.Name() == "append" && snapAlloc != nil {
					appended = true
				}
			}
		}
	}
	c.Check(appended, "depth|Snapshot|pushes-record", "Snapshot pushes the new record on the snapshot stack", c.P.Rel(snapshotFn.Pos()), "self.snapshots is not extended by append")
	// ---- depth: Revert
	for _, w := range unitWrites(revertFn) {
		if w.Kind != "store" {
			continue
		}
		want := map[string]string{"memdb": "changes", "Suicided": "suicided", "refund": "refund"}
		if src, ok := want[w.Field.Name()]; ok {
			f := fieldOfLoad(w.Val)
			c.Check(f != nil && f.Name() == src && ownerName(f, snapT, c) == "snapshot", "depth|RevertToSnapshot|"+w.Field.Name()+"<-snapshot."+src, "RevertToSnapshot restores the field from the matching snapshot field", c.P.Rel(w.In.Pos()),
				"restored from "+an.AccessPath(w.Val))
		}
		if w.Field.Name() == "logs" {
			sl, isS := w.Val.(*ssa.Slice)
			good := false
			if isS && sl.Low == nil && sl.High != nil {
				if f := fieldOfLoad(sl.High); f != nil && f.Name() == "logsSize" {
					if g := fieldOfLoad(sl.X); g != nil && g.Name() == "logs" {
						good = true
					}
				}
			}
			c.Check(good, "depth|RevertToSnapshot|logs-resliced", "the log list is restored by reslicing the live (append-only) list to the saved length", c.P.Rel(w.In.Pos()), "logs is not self.logs[:sn.logsSize]")
		}
	}
	// the record used is snapshots[idx]
	{
		ok := false
		for _, b := range revertFn.Blocks {
			for _, in := range b.Instrs {
				if ia, isIA := in.(*ssa.IndexAddr); isIA {
					if f := fieldOfLoad(ia.X); f != nil && f.Name() == "snapshots" && ia.Index == ssa.Value(revertFn.Params[1]) {
						ok = true
					}
				}
			}
		}
		c.Check(ok, "same-subject|RevertToSnapshot|record-is-snapshots[idx]", "the record restored is the one at the requested index", c.P.Rel(revertFn.Pos()), "snapshots is not indexed by the idx parameter")
	}
	// ---- logs append-only
	{
		bad := ""
		n := 0
		for _, fn := range c.P.RepoSrcFuncs(sp) {
			if fn == revertFn || fn.Name() == "NewStateDB" {
				continue
			}
			inRevert := false
			for _, g := range an.InlineReach(revertFn) {
				if g == fn {
					inRevert = true
				}
			}
			if inRevert {
				continue
			}
			for _, w := range an.DirectFieldWrites(fn) {
				if w.Field.Name() != "logs" || ownerName(w.Field, stateDB, c) != "StateDB" {
					continue
				}
				n++
				good := false
				if call, isC := w.Val.(*ssa.Call); isC {
					if bi, isB := call.Call.Value.(*ssa.Builtin); isB && bi.Name() == "append" {
						if f := fieldOfLoad(call.Call.Args[0]); f != nil && f.Name() == "logs" {
							good = true
						}
					}
				}
				if !good {
					bad = an.FuncName(fn) + " at " + c.P.Rel(w.In.Pos())
				}
			}
		}
		c.Check(bad == "" && n >= 1, "depth|StateDB.logs|append-only", "outside RevertToSnapshot the log list only grows by append (so a saved length identifies a prefix)", "-", "non-append write of logs in "+bad)
	}
	// ---- DeepClone
	{
		stores := map[string]ssa.Value{}
		for _, w := range unitWrites(deepClone) {
			if w.Kind == "store" && ownerName(w.Field, memDB, c) == "MemDB" {
				stores[w.Field.Name()] = w.Val
			}
		}
		ptrExempt := map[string]string{"rnd": "shared PRNG: only tower heights depend on it", "cmp": "stateless comparer"}
		for _, f := range an.StructFields(memDB.Type()) {
			v, ok := stores[f.Name()]
			key := "depth|MemDB.DeepClone|" + f.Name()
			if !ok {
				c.Violate(key, "DeepClone copies every field of MemDB", c.P.Rel(deepClone.Pos()), "field "+f.Name()+" is not set in the clone: the clone would not be an equal map")
				continue
			}
			switch f.Type().Underlying().(type) {
			case *types.Slice:
				fresh := true
				for _, dv := range an.Deref(deepClone, v) {
					one := false
					if call, isC := dv.(*ssa.Call); isC {
						if bi, isB := call.Call.Value.(*ssa.Builtin); isB && bi.Name() == "append" {
							if sl, isS := call.Call.Args[0].(*ssa.Slice); isS {
								if _, isA := sl.X.(*ssa.Alloc); isA {
									one = true
								}
							}
							if _, isMk := call.Call.Args[0].(*ssa.MakeSlice); isMk {
								one = true
							}
						}
					}
					if mk, isMk := dv.(*ssa.MakeSlice); isMk {
						one = copiesInto(mk.Parent(), dv)
					}
					fresh = fresh && one
				}
				c.Check(fresh, key, "every slice field of the clone has a fresh backing array (append onto a new empty slice, or make+copy)", c.P.Rel(deepClone.Pos()), "clone."+f.Name()+" shares its backing array with the original")
			case *types.Pointer, *types.Interface, *types.Map:
				if why, isEx := ptrExempt[f.Name()]; isEx {
					c.Note(key, "reference field shared with the original", c.P.Rel(deepClone.Pos()), "exempt: "+why)
				} else {
					c.Violate(key, "reference-typed fields of MemDB must be deep-copied or exempted with a reason", c.P.Rel(deepClone.Pos()), "field "+f.Name()+" is shared by reference")
				}
			default:
				c.Hold(key, "value field copied", c.P.Rel(deepClone.Pos()), "")
			}
		}
	}
	// ---- confinement
	cg := c.P.CallGraph()
	sinks := resolveAll(c, []string{"core/store/overlaydb.(*OverlayDB).Put", "core/store/overlaydb.(*OverlayDB).Delete", sp + ".(*CacheDB).Commit"})
	for _, m := range mutators {
		r := cg.Reach([]*ssa.Function{m}, an.ReachOpts{})
		for _, s := range sinks {
			key := fmt.Sprintf("confine|(*StateDB).%s|%s", m.Name(), an.FuncName(s))
			if r.Has(s) {
				c.Violate(key, "an EVM-visible mutation never writes through to the block overlay (it would survive a revert)", c.P.Rel(m.Pos()), "call path: "+strings.Join(r.Path(s), " -> "))
			} else {
				c.Hold(key, "an EVM-visible mutation never writes through to the block overlay (it would survive a revert)", c.P.Rel(m.Pos()), "")
			}
		}
	}
}

// ownerName names the struct type that declares field f, among the struct
// types reachable by reference from StateDB (and the snapshot record);
// "?" for fields of unrelated types (locals such as a decoded EthAccount).
func ownerName(f *types.Var, hint *types.TypeName, c *an.Ctx) string {
	if ownerCache == nil {
		ownerCache = map[*types.Var]string{}
		seen := map[*types.Named]bool{}
		var walk func(t types.Type)
		walk = func(t types.Type) {
			switch x := t.(type) {
			case *types.Pointer:
				walk(x.Elem())
			case *types.Slice:
				walk(x.Elem())
			case *types.Array:
				walk(x.Elem())
			case *types.Map:
				walk(x.Key())
				walk(x.Elem())
			case *types.Named:
				if seen[x] {
					return
				}
				seen[x] = true
				if st, ok := x.Underlying().(*types.Struct); ok {
					for i := 0; i < st.NumFields(); i++ {
						ownerCache[st.Field(i)] = x.Obj().Name()
						walk(st.Field(i).Type())
					}
				}
			}
		}
		for _, tn := range []string{"smartcontract/storage.StateDB", "smartcontract/storage.snapshot"} {
			if o, ok := c.P.Obj(tn).(*types.TypeName); ok {
				walk(o.Type())
			}
		}
	}
	if n, ok := ownerCache[f]; ok {
		return n
	}
	return "?"
}

var ownerCache map[*types.Var]string

// copiesInto: fn contains copy(dst, ...) with dst == v.
func copiesInto(fn *ssa.Function, v ssa.Value) bool {
	for _, k := range an.Calls(fn) {
		if bi, ok := k.Common().Value.(*ssa.Builtin); ok && bi.Name() == "copy" && k.Common().Args[0] == v {
			return true
		}
	}
	return false
}

var _ = token.ADD
