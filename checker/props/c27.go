package props

import (
	"fmt"
	"go/token"

	"golang.org/x/tools/go/ssa"

	"verif/checker/an"
)

func init() {
	register(&Prop{ID: "C27", Patterns: []string{"./merkle"}, Run: runC27})
}

// hashShape describes what a function feeds to sha256.Sum256: the constant
// first byte and the parameters appended after it (in order, whole).
type hashShape struct {
	prefix string
	parts  []string
	ok     bool
	why    string
}

func shapeOfHash(fn *ssa.Function) hashShape {
	var sum *ssa.Call
	for _, k := range an.Calls(fn) {
		if f := k.Common().StaticCallee(); f != nil && f.String() == "crypto/sha256.Sum256" {
			if sum != nil {
				return hashShape{why: "more than one sha256.Sum256 call"}
			}
			sum, _ = k.(*ssa.Call)
		}
	}
	if sum == nil {
		return hashShape{why: "no sha256.Sum256 call"}
	}
	sh := hashShape{}
	v := sum.Call.Args[0]
	var rev []string
	for i := 0; i < 8; i++ {
		k, ok := v.(*ssa.Call)
		if !ok {
			break
		}
		bi, isB := k.Call.Value.(*ssa.Builtin)
		if !isB || bi.Name() != "append" || len(k.Call.Args) != 2 {
			return hashShape{why: "hash input is not built by append"}
		}
		rev = append(rev, wholeParam(fn, k.Call.Args[1]))
		v = k.Call.Args[0]
	}
	// v must be a one-byte slice literal with a constant element
	sl, ok := v.(*ssa.Slice)
	if !ok {
		return hashShape{why: "hash input does not start with a byte literal"}
	}
	al, isA := sl.X.(*ssa.Alloc)
	if !isA || al.Referrers() == nil {
		return hashShape{why: "hash input does not start with a byte literal"}
	}
	for _, r := range *al.Referrers() {
		if ia, isI := r.(*ssa.IndexAddr); isI && ia.Referrers() != nil {
			for _, r2 := range *ia.Referrers() {
				if st, isSt := r2.(*ssa.Store); isSt {
					if k, isK := st.Val.(*ssa.Const); isK && k.Value != nil {
						sh.prefix = k.Value.String()
					}
				}
			}
		}
	}
	for i := len(rev) - 1; i >= 0; i-- {
		sh.parts = append(sh.parts, rev[i])
	}
	sh.ok = sh.prefix != ""
	if !sh.ok {
		sh.why = "prefix byte is not a constant"
	}
	// the function returns the digest
	for _, r := range an.Returns(fn) {
		if len(r.Results) != 1 {
			sh.ok, sh.why = false, "does not return a single digest"
			continue
		}
		if src := an.Origin(r.Results[0]); src != ssa.Value(sum) {
			if ct, isCT := r.Results[0].(*ssa.ChangeType); !isCT || ct.X != ssa.Value(sum) {
				sh.ok, sh.why = false, "returned value is not the sha256 digest of the prefixed input"
			}
		}
	}
	return sh
}

// wholeParam: v is the full contents of a parameter of fn (a slice parameter,
// or p[:] of an array parameter); returns its name, or "?".
func wholeParam(fn *ssa.Function, v ssa.Value) string {
	if p, ok := v.(*ssa.Parameter); ok {
		return p.Name()
	}
	if sl, ok := v.(*ssa.Slice); ok && sl.Low == nil && sl.High == nil {
		if al, isA := sl.X.(*ssa.Alloc); isA && al.Referrers() != nil {
			for _, r := range *al.Referrers() {
				if st, isSt := r.(*ssa.Store); isSt && st.Addr == ssa.Value(al) {
					if p, isP := st.Val.(*ssa.Parameter); isP {
						return p.Name()
					}
				}
			}
		}
	}
	return "?"
}

func runC27(c *an.Ctx) {
	c.Explanation = "A2/A5 structure rules on the cross-chain merkle path code: (1) leaf and interior hashes are domain separated: HashLeaf/hash_leaf hash a constant prefix byte followed by the whole value, HashChildren/hash_children a different constant prefix followed by the whole left and the whole right child, and the exported and method variants agree; " +
		"(2) in MerkleProve the running hash starts, on every path, as HashLeaf of exactly the value read from the path — the same value that is returned as proven — and is afterwards updated only by HashChildren of (sibling, running) or (running, sibling) with the sibling read from the path; (3) the value is returned only on the edge where the running hash equals the given root; (4) every read's eof/irregular result is consumed. " +
		"Decides these necessary conditions of 'no path proves a value whose leaf hash is not in the list'; that generated paths verify (MerkleLeafPath/MerkleHashes index arithmetic) is algorithmic and not decided."
	if !controlGuard(c) {
		return
	}
	m := "merkle"
	leaf, child := mustFunc(c, m+".HashLeaf"), mustFunc(c, m+".HashChildren")
	mleaf, mchild := mustFunc(c, m+".TreeHasher.hash_leaf"), mustFunc(c, m+".TreeHasher.hash_children")
	prove := mustFunc(c, m+".MerkleProve")
	if leaf == nil || child == nil || mleaf == nil || mchild == nil || prove == nil {
		return
	}
	sl, sc, sml, smc := shapeOfHash(leaf), shapeOfHash(child), shapeOfHash(mleaf), shapeOfHash(mchild)
	c.Check(sl.ok && len(sl.parts) == 1 && sl.parts[0] == leaf.Params[0].Name(), "domain|HashLeaf|prefix-then-whole-value", "a leaf hash is sha256(constant prefix || the whole value)", c.P.Rel(leaf.Pos()), fmt.Sprintf("prefix=%q parts=%v %s", sl.prefix, sl.parts, sl.why))
	c.Check(sc.ok && len(sc.parts) == 2 && sc.parts[0] == child.Params[0].Name() && sc.parts[1] == child.Params[1].Name(), "domain|HashChildren|prefix-then-left-right", "an interior hash is sha256(constant prefix || whole left || whole right)", c.P.Rel(child.Pos()), fmt.Sprintf("prefix=%q parts=%v %s", sc.prefix, sc.parts, sc.why))
	c.Check(sl.ok && sc.ok && sl.prefix != sc.prefix, "domain|leaf-vs-interior|different-prefix", "leaf and interior hashes use different prefix bytes (an interior node can never be presented as a leaf)", c.P.Rel(leaf.Pos()), fmt.Sprintf("leaf prefix %q, interior prefix %q", sl.prefix, sc.prefix))
	c.Check(sml.ok && smc.ok && sml.prefix == sl.prefix && smc.prefix == sc.prefix && len(sml.parts) == 1 && len(smc.parts) == 2 && sml.parts[0] != "?" && smc.parts[0] != "?" && smc.parts[1] != "?",
		"siblings|TreeHasher-vs-exported|same-shape", "the tree builder's hash_leaf/hash_children hash exactly like HashLeaf/HashChildren (roots computed by one verify with the other)", c.P.Rel(mleaf.Pos()),
		fmt.Sprintf("hash_leaf %q %v; hash_children %q %v", sml.prefix, sml.parts, smc.prefix, smc.parts))

	// (2) MerkleProve
	var valueRead ssa.Value
	var hashReads []ssa.Value
	for _, k := range an.Calls(prove) {
		o := an.CalleeObj(k.Common())
		if o == nil {
			continue
		}
		switch o.Name() {
		case "NextVarBytes":
			for _, e := range an.Extracts(k.Value())[0] {
				valueRead = e
			}
		case "NextHash":
			for _, e := range an.Extracts(k.Value())[0] {
				hashReads = append(hashReads, e)
			}
		}
	}
	c.Check(valueRead != nil && len(hashReads) >= 1, "prove|MerkleProve|reads", "the path is read as one value followed by (direction, sibling hash) pairs", c.P.Rel(prove.Pos()), "NextVarBytes / NextHash reads not found")
	// the running hash: the phi compared with the root
	root := prove.Params[1]
	var cmp *ssa.BinOp
	for _, v := range an.FindValues(prove, func(v ssa.Value) bool {
		b, ok := v.(*ssa.BinOp)
		return ok && (b.Op == token.NEQ || b.Op == token.EQL) && (b.X == ssa.Value(root) || b.Y == ssa.Value(root))
	}) {
		cmp = v.(*ssa.BinOp)
	}
	if cmp == nil {
		c.Violate("prove|MerkleProve|compares-root", "acceptance compares the computed hash with the given root", c.P.Rel(prove.Pos()), "no comparison with the root parameter")
		return
	}
	running := cmp.X
	if running == ssa.Value(root) {
		running = cmp.Y
	}
	// enumerate the sources of the running hash
	okInit, okStep, nInit, nStep := true, true, 0, 0
	seen := map[ssa.Value]bool{}
	var walk func(v ssa.Value)
	walk = func(v ssa.Value) {
		if seen[v] {
			return
		}
		seen[v] = true
		switch x := v.(type) {
		case *ssa.Phi:
			for _, e := range x.Edges {
				walk(e)
			}
		case *ssa.Call:
			callee := x.Call.StaticCallee()
			switch callee {
			case leaf:
				nInit++
				if x.Call.Args[0] != valueRead {
					okInit = false
				}
			case child:
				nStep++
				a, b := x.Call.Args[0], x.Call.Args[1]
				isSib := func(v ssa.Value) bool {
					for _, h := range hashReads {
						if v == h {
							return true
						}
					}
					return false
				}
				isRun := func(v ssa.Value) bool { _, isPhi := v.(*ssa.Phi); return isPhi && seen[v] }
				if !(isSib(a) && isRun(b) || isRun(a) && isSib(b)) {
					okStep = false
				}
			default:
				okInit = false
			}
		default:
			okInit = false
		}
	}
	walk(running)
	c.Check(okInit && nInit == 1, "prove|MerkleProve|starts-as-leaf-hash-of-value", "the running hash starts, on every path, as HashLeaf of exactly the value read from the path", c.P.Rel(prove.Pos()), fmt.Sprintf("%d HashLeaf sources; another source feeds the running hash or HashLeaf is applied to something else", nInit))
	c.Check(okStep && nStep == 2, "prove|MerkleProve|steps-are-HashChildren", "the running hash is updated only by HashChildren(sibling, running) or HashChildren(running, sibling) with the sibling read from the path", c.P.Rel(prove.Pos()), fmt.Sprintf("%d HashChildren steps", nStep))
	// (3) returned value and guard
	fail := an.ATrue
	if cmp.Op == token.EQL {
		fail = an.AFalse
	}
	g := &an.Guard{Name: "hash != root", FailValue: fail, MatchValue: func(v ssa.Value) bool { return v == ssa.Value(cmp) }}
	okRet := true
	v := an.Guarded(c.P, prove, []*an.Guard{g}, func(in ssa.Instruction) bool {
		r, ok := in.(*ssa.Return)
		if !ok || len(r.Results) != 2 {
			return false
		}
		if k, isK := r.Results[0].(*ssa.Const); isK && k.Value == nil {
			return false // failure return (nil value)
		}
		if r.Results[0] != valueRead {
			okRet = false
		}
		return true
	}, false)
	c.Check(v.Holds && v.ActionSites >= 1 && okRet, "prove|MerkleProve|value-only-if-root-matches", "the value is returned as proven only on the edge where the computed hash equals the root, and it is the very value whose leaf hash was computed", c.P.Rel(prove.Pos()), v.Witness)
	// (4) decoder discipline
	decoderRuleFuncs(c, "decoder", nil, []*ssa.Function{prove})
}
