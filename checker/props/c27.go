package props

import (
	"fmt"
	"go/constant"
	"go/token"
	"go/types"
	"sort"
	"strings"

	"golang.org/x/tools/go/ssa"

	"verif/checker/an"
)

func init() {
	register(&Prop{ID: "C27", Patterns: []string{"./merkle"}, Run: runC27})
}

// hashShape describes what a function feeds to sha256.Sum256: the constant
// first byte and the parameters appended after it (in order, whole).
type hashShape struct {
	prefix string
	parts  []string
	ok     bool
	why    string
}

func shapeOfHash(fn *ssa.Function) hashShape {
	var sum *ssa.Call
	for _, k := range an.Calls(fn) {
		if f := k.Common().StaticCallee(); f != nil && f.String() == "crypto/sha256.Sum256" {
			if sum != nil {
				return hashShape{why: "more than one sha256.Sum256 call"}
			}
			sum, _ = k.(*ssa.Call)
		}
	}
	if sum == nil {
		return hashShape{why: "no sha256.Sum256 call"}
	}
	sh := hashShape{}
	parts, why := preimageParts(fn, sum, sum.Call.Args[0])
	if why != "" {
		return hashShape{why: why}
	}
	if len(parts) == 0 || !strings.HasPrefix(parts[0], "#") {
		return hashShape{why: "hash input does not start with a constant byte"}
	}
	sh.prefix = parts[0][1:]
	for _, p := range parts[1:] {
		if strings.HasPrefix(p, "#") {
			return hashShape{why: "a second constant byte inside the hash input"}
		}
		sh.parts = append(sh.parts, p)
	}
	sh.ok = true
	// the function returns the digest
	for _, r := range an.Returns(fn) {
		if len(r.Results) != 1 {
			sh.ok, sh.why = false, "does not return a single digest"
			continue
		}
		if src := an.Origin(r.Results[0]); src != ssa.Value(sum) {
			if ct, isCT := r.Results[0].(*ssa.ChangeType); !isCT || ct.X != ssa.Value(sum) {
				sh.ok, sh.why = false, "returned value is not the sha256 digest of the prefixed input"
			}
		}
	}
	return sh
}

// wholeParam: v is the full contents of a parameter of fn (a slice parameter,
// or p[:] of an array parameter); returns its name, or "?".
func wholeParam(fn *ssa.Function, v ssa.Value) string {
	if p, ok := v.(*ssa.Parameter); ok {
		return p.Name()
	}
	if sl, ok := v.(*ssa.Slice); ok && sl.Low == nil && sl.High == nil {
		if al, isA := sl.X.(*ssa.Alloc); isA && al.Referrers() != nil {
			for _, r := range *al.Referrers() {
				if st, isSt := r.(*ssa.Store); isSt && st.Addr == ssa.Value(al) {
					if p, isP := st.Val.(*ssa.Parameter); isP {
						return p.Name()
					}
				}
			}
		}
	}
	return "?"
}

func runC27(c *an.Ctx) {
	c.Explanation = "A2/A5 structure rules on the cross-chain merkle path code: (1) leaf and interior hashes are domain separated: HashLeaf/hash_leaf hash a constant prefix byte followed by the whole value, HashChildren/hash_children a different constant prefix followed by the whole left and the whole right child, and the exported and method variants agree; " +
		"(2) in MerkleProve the running hash starts, on every path, as HashLeaf of exactly the value read from the path — the same value that is returned as proven — and is afterwards updated only by HashChildren of (sibling, running) or (running, sibling) with the sibling read from the path; (3) the value is returned only on the edge where the running hash equals the given root; (4) every read's eof/irregular result is consumed. " +
		"Decides these necessary conditions of 'no path proves a value whose leaf hash is not in the list'; that generated paths verify (MerkleLeafPath/MerkleHashes index arithmetic) is algorithmic and not decided."
	if !controlGuard(c) {
		return
	}
	m := "merkle"
	leaf, child := mustFunc(c, m+".HashLeaf"), mustFunc(c, m+".HashChildren")
	mleaf, mchild := mustFunc(c, m+".TreeHasher.hash_leaf"), mustFunc(c, m+".TreeHasher.hash_children")
	prove := mustFunc(c, m+".MerkleProve")
	if leaf == nil || child == nil || mleaf == nil || mchild == nil || prove == nil {
		return
	}
	sl, sc, sml, smc := shapeOfHash(leaf), shapeOfHash(child), shapeOfHash(mleaf), shapeOfHash(mchild)
	c.Check(sl.ok && len(sl.parts) == 1 && sl.parts[0] == leaf.Params[0].Name(), "domain|HashLeaf|prefix-then-whole-value", "a leaf hash is sha256(constant prefix || the whole value)", c.P.Rel(leaf.Pos()), fmt.Sprintf("prefix=%q parts=%v %s", sl.prefix, sl.parts, sl.why))
	c.Check(sc.ok && len(sc.parts) == 2 && sc.parts[0] == child.Params[0].Name() && sc.parts[1] == child.Params[1].Name(), "domain|HashChildren|prefix-then-left-right", "an interior hash is sha256(constant prefix || whole left || whole right)", c.P.Rel(child.Pos()), fmt.Sprintf("prefix=%q parts=%v %s", sc.prefix, sc.parts, sc.why))
	c.Check(sl.ok && sc.ok && sl.prefix != sc.prefix, "domain|leaf-vs-interior|different-prefix", "leaf and interior hashes use different prefix bytes (an interior node can never be presented as a leaf)", c.P.Rel(leaf.Pos()), fmt.Sprintf("leaf prefix %q, interior prefix %q", sl.prefix, sc.prefix))
	c.Check(sml.ok && smc.ok && sml.prefix == sl.prefix && smc.prefix == sc.prefix && len(sml.parts) == 1 && len(smc.parts) == 2 && sml.parts[0] != "?" && smc.parts[0] != "?" && smc.parts[1] != "?",
		"siblings|TreeHasher-vs-exported|same-shape", "the tree builder's hash_leaf/hash_children hash exactly like HashLeaf/HashChildren (roots computed by one verify with the other)", c.P.Rel(mleaf.Pos()),
		fmt.Sprintf("hash_leaf %q %v; hash_children %q %v", sml.prefix, sml.parts, smc.prefix, smc.parts))

	// (2) MerkleProve
	var valueRead ssa.Value
	var hashReads []ssa.Value
	var proveCalls []ssa.CallInstruction
	for _, g := range an.InlineReach(prove) {
		proveCalls = append(proveCalls, an.Calls(g)...)
	}
	for _, k := range proveCalls {
		o := an.CalleeObj(k.Common())
		if o == nil {
			continue
		}
		switch o.Name() {
		case "NextVarBytes":
			for _, e := range an.Extracts(k.Value())[0] {
				valueRead = e
			}
		case "NextHash":
			for _, e := range an.Extracts(k.Value())[0] {
				hashReads = append(hashReads, e)
			}
		}
	}
	c.Check(valueRead != nil && len(hashReads) >= 1, "prove|MerkleProve|reads", "the path is read as one value followed by (direction, sibling hash) pairs", c.P.Rel(prove.Pos()), "NextVarBytes / NextHash reads not found")
	// the running hash: the phi compared with the root
	root := prove.Params[1]
	var cmp *ssa.BinOp
	for _, v := range an.FindValues(prove, func(v ssa.Value) bool {
		b, ok := v.(*ssa.BinOp)
		return ok && (b.Op == token.NEQ || b.Op == token.EQL) && (b.X == ssa.Value(root) || b.Y == ssa.Value(root))
	}) {
		cmp = v.(*ssa.BinOp)
	}
	if cmp == nil {
		c.Violate("prove|MerkleProve|compares-root", "acceptance compares the computed hash with the given root", c.P.Rel(prove.Pos()), "no comparison with the root parameter")
		return
	}
	running := cmp.X
	if running == ssa.Value(root) {
		running = cmp.Y
	}
	// enumerate the sources of the running hash
	okInit, okStep, nInit, nStep := true, true, 0, 0
	type vkey struct {
		v ssa.Value
		n int
	}
	seen := map[vkey]bool{}
	runPhi := map[ssa.Value]bool{}
	resolvesTo := func(v ssa.Value, ctx []*ssa.Call, pred func(ssa.Value) bool) bool {
		ds := an.DerefCtx(prove, v, ctx)
		if len(ds) == 0 {
			return false
		}
		for _, d := range ds {
			if !pred(d.V) {
				return false
			}
		}
		return true
	}
	var walk func(v ssa.Value, ctx []*ssa.Call)
	walk = func(v ssa.Value, ctx []*ssa.Call) {
		k := vkey{v, len(ctx)}
		if seen[k] {
			return
		}
		seen[k] = true
		// through the private helpers MerkleProve is split into (fold loop, combine step)
		if exp, ok := an.DerefStep(prove, v, ctx); ok {
			// a helper's failure returns (placeholder hash, non-nil error) do not feed the comparison when the
			// caller tests that error
			errTested := false
			if ex, isEx := v.(*ssa.Extract); isEx {
				if call, isC := ex.Tuple.(*ssa.Call); isC {
					n := call.Call.Signature().Results().Len()
					for _, e := range an.Extracts(call)[n-1] {
						if e.Referrers() == nil {
							continue
						}
						for _, r := range *e.Referrers() {
							if b, isB := r.(*ssa.BinOp); isB && (b.Op == token.NEQ || b.Op == token.EQL) {
								errTested = true
							}
						}
					}
				}
			}
			for _, e := range exp {
				if errTested && an.FailingReturn(e.Ret) {
					continue
				}
				walk(e.V, e.Ctx)
			}
			return
		}
		switch x := v.(type) {
		case *ssa.Phi:
			runPhi[x] = true
			for _, e := range x.Edges {
				walk(e, ctx)
			}
		case *ssa.Call:
			callee := x.Call.StaticCallee()
			switch callee {
			case leaf:
				nInit++
				if !resolvesTo(x.Call.Args[0], ctx, func(d ssa.Value) bool { return d == valueRead }) {
					okInit = false
				}
			case child:
				nStep++
				a, b := x.Call.Args[0], x.Call.Args[1]
				isSib := func(v ssa.Value) bool {
					return resolvesTo(v, ctx, func(d ssa.Value) bool {
						for _, h := range hashReads {
							if d == h {
								return true
							}
						}
						return false
					})
				}
				isRun := func(v ssa.Value) bool {
					// the running hash: a loop-carried value of this walk, possibly handed on as a parameter
					for cur, cctx, i := v, ctx, 0; i < 4; i++ {
						if _, isPhi := cur.(*ssa.Phi); isPhi && runPhi[cur] {
							return true
						}
						exp, ok := an.DerefStep(prove, cur, cctx)
						if !ok || len(exp) != 1 {
							return false
						}
						cur, cctx = exp[0].V, exp[0].Ctx
					}
					return false
				}
				if !(isSib(a) && isRun(b) || isRun(a) && isSib(b)) {
					okStep = false
				}
			default:
				okInit = false
			}
		default:
			okInit = false
		}
	}
	walk(running, nil)
	c.Check(okInit && nInit == 1, "prove|MerkleProve|starts-as-leaf-hash-of-value", "the running hash starts, on every path, as HashLeaf of exactly the value read from the path", c.P.Rel(prove.Pos()), fmt.Sprintf("%d HashLeaf sources; another source feeds the running hash or HashLeaf is applied to something else", nInit))
	c.Check(okStep && nStep >= 1, "prove|MerkleProve|steps-are-HashChildren", "the running hash is updated only by HashChildren(sibling, running) or HashChildren(running, sibling) with the sibling read from the path", c.P.Rel(prove.Pos()), fmt.Sprintf("%d HashChildren steps", nStep))
	// (3) returned value and guard
	fail := an.ATrue
	if cmp.Op == token.EQL {
		fail = an.AFalse
	}
	g := &an.Guard{Name: "hash != root", FailValue: fail, MatchValue: func(v ssa.Value) bool { return v == ssa.Value(cmp) }}
	okRet := true
	v := an.Guarded(c.P, prove, []*an.Guard{g}, func(in ssa.Instruction) bool {
		r, ok := in.(*ssa.Return)
		if !ok || len(r.Results) != 2 {
			return false
		}
		if k, isK := r.Results[0].(*ssa.Const); isK && k.Value == nil {
			return false // failure return (nil value)
		}
		if r.Results[0] != valueRead {
			okRet = false
		}
		return true
	}, false)
	c.Check(v.Holds && v.ActionSites >= 1 && okRet, "prove|MerkleProve|value-only-if-root-matches", "the value is returned as proven only on the edge where the computed hash equals the root, and it is the very value whose leaf hash was computed", c.P.Rel(prove.Pos()), v.Witness)
	// (4) decoder discipline
	decoderRuleFuncs(c, "decoder", nil, []*ssa.Function{prove})
}

// preimageParts decomposes the byte string handed to the hash into its parts, in order: "#<c>" for a constant byte,
// the parameter name for the whole contents of a parameter, "?" for anything else. Two constructions are understood:
// a chain of appends onto an empty or literal slice, and a local fixed-size array filled by constant-index stores
// and copy() into constant sub-ranges that tile the array exactly.
func preimageParts(fn *ssa.Function, at ssa.Instruction, v ssa.Value) ([]string, string) {
	constByteSlice := func(v ssa.Value) (string, bool) {
		// []byte{c} : slice of a one-element array literal
		sl, ok := v.(*ssa.Slice)
		if !ok {
			return "", false
		}
		al, isA := sl.X.(*ssa.Alloc)
		if !isA || al.Referrers() == nil {
			return "", false
		}
		arr, isArr := al.Type().(*types.Pointer).Elem().Underlying().(*types.Array)
		if !isArr || arr.Len() != 1 {
			return "", false
		}
		for _, r := range *al.Referrers() {
			if ia, isI := r.(*ssa.IndexAddr); isI && ia.Referrers() != nil {
				for _, r2 := range *ia.Referrers() {
					if st, isSt := r2.(*ssa.Store); isSt {
						if k, isK := st.Val.(*ssa.Const); isK && k.Value != nil {
							return "#" + k.Value.String(), true
						}
					}
				}
			}
		}
		return "", false
	}
	// (1) append chain
	if _, isCall := v.(*ssa.Call); isCall {
		var rev []string
		for i := 0; i < 8; i++ {
			k, ok := v.(*ssa.Call)
			if !ok {
				break
			}
			bi, isB := k.Call.Value.(*ssa.Builtin)
			if !isB || bi.Name() != "append" || len(k.Call.Args) != 2 {
				return nil, "hash input is not built by append"
			}
			if cb, isC := constByteSlice(k.Call.Args[1]); isC {
				rev = append(rev, cb)
			} else {
				rev = append(rev, wholeParam(fn, k.Call.Args[1]))
			}
			v = k.Call.Args[0]
		}
		var parts []string
		if cb, isC := constByteSlice(v); isC {
			parts = append(parts, cb)
		} else if mk, isMk := v.(*ssa.MakeSlice); isMk {
			if l, isK := mk.Len.(*ssa.Const); !isK || l.Value == nil || constant.Sign(l.Value) != 0 {
				return nil, "hash input starts with a non-empty buffer"
			}
		} else if k, isK := v.(*ssa.Const); !isK || k.Value != nil {
			return nil, "hash input does not start with a byte literal or an empty slice"
		}
		for i := len(rev) - 1; i >= 0; i-- {
			parts = append(parts, rev[i])
		}
		return parts, ""
	}
	// (2) a local fixed-size array, sliced whole
	sl, ok := v.(*ssa.Slice)
	if !ok || sl.Low != nil || sl.High != nil {
		return nil, "hash input is neither an append chain nor a whole local array"
	}
	al, isA := sl.X.(*ssa.Alloc)
	if !isA || al.Referrers() == nil {
		return nil, "hash input is neither an append chain nor a whole local array"
	}
	arr, isArr := al.Type().(*types.Pointer).Elem().Underlying().(*types.Array)
	if !isArr {
		return nil, "hash input is not an array"
	}
	type seg struct {
		lo, hi int64
		what   string
	}
	var segs []seg
	constInt := func(v ssa.Value, def int64) (int64, bool) {
		if v == nil {
			return def, true
		}
		k, isK := v.(*ssa.Const)
		if !isK || k.Value == nil {
			return 0, false
		}
		n, exact := constant.Int64Val(k.Value)
		return n, exact
	}
	for _, r := range *al.Referrers() {
		switch x := r.(type) {
		case *ssa.IndexAddr:
			i, okI := constInt(x.Index, 0)
			if !okI || x.Referrers() == nil {
				return nil, "the array is written at a computed index"
			}
			for _, r2 := range *x.Referrers() {
				if st, isSt := r2.(*ssa.Store); isSt && st.Addr == ssa.Value(x) {
					if !st.Block().Dominates(at.Block()) {
						return nil, "a byte of the hash input is written conditionally"
					}
					if k, isK := st.Val.(*ssa.Const); isK && k.Value != nil {
						segs = append(segs, seg{i, i + 1, "#" + k.Value.String()})
					} else {
						segs = append(segs, seg{i, i + 1, "?"})
					}
				}
			}
		case *ssa.Slice:
			if x == sl {
				continue
			}
			lo, okLo := constInt(x.Low, 0)
			hi, okHi := constInt(x.High, arr.Len())
			if !okLo || !okHi || x.Referrers() == nil {
				return nil, "the array is written through a computed sub-range"
			}
			for _, r2 := range *x.Referrers() {
				k, isC := r2.(*ssa.Call)
				if !isC {
					continue
				}
				bi, isB := k.Call.Value.(*ssa.Builtin)
				if !isB || bi.Name() != "copy" || k.Call.Args[0] != ssa.Value(x) {
					continue
				}
				if !k.Block().Dominates(at.Block()) {
					return nil, "part of the hash input is copied conditionally"
				}
				what := wholeParam(fn, k.Call.Args[1])
				// the copied source must fill the sub-range exactly
				if srcSl, isS := k.Call.Args[1].(*ssa.Slice); isS {
					if sa, isSA := srcSl.X.Type().Underlying().(*types.Pointer); isSA {
						if sarr, isArr2 := sa.Elem().Underlying().(*types.Array); isArr2 && sarr.Len() != hi-lo {
							// copy(dst[lo:], src) with an open upper bound writes exactly len(src) bytes when they fit
							if x.High == nil && lo+sarr.Len() <= arr.Len() {
								hi = lo + sarr.Len()
							} else {
								what = "?"
							}
						}
					}
				} else {
					what = "?" // a slice of unknown length may leave bytes of the range unset
				}
				segs = append(segs, seg{lo, hi, what})
			}
		}
	}
	sort.Slice(segs, func(i, j int) bool { return segs[i].lo < segs[j].lo })
	pos := int64(0)
	var parts []string
	for _, s := range segs {
		if s.lo != pos {
			return nil, "the parts written into the array do not tile it"
		}
		pos = s.hi
		parts = append(parts, s.what)
	}
	if pos != arr.Len() {
		return nil, "the array is not completely filled"
	}
	return parts, ""
}
