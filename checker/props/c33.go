package props

import (
	"fmt"
	"go/token"
	"go/types"

	"golang.org/x/tools/go/ssa"

	"verif/checker/an"
)

func init() {
	register(&Prop{ID: "C33", Patterns: []string{"./smartcontract/service/native/cross_chain/...", "./core/signature"}, Run: runC33})
}

func runC33(c *an.Ctx) {
	const hs = "smartcontract/service/native/cross_chain/header_sync"
	c.Explanation = "A11 siblings + A2 guard on header_sync.VerifyHeader (sibling of the ledger's verifyHeader, C32): a side-chain header is accepted only if (a) the number of listed bookkeepers reaches 2/3 of the consensus peer set (the 3*listed < 2*peers comparison guards success), (b) no iteration over the listed bookkeepers completes for a key that is not a member of the peer set governing that height, " +
		"(c) no iteration completes for a key that was already seen — the listed keys are pairwise distinct, so the count in (a) is a count of distinct peers, (d) VerifyMultiSignature over header.Hash(), header.Bookkeepers and header.SigData succeeded with the threshold equal to the number of listed bookkeepers (every listed peer must have signed). Decides these necessary conditions for all headers; cryptographic soundness is assumed."
	if !controlGuard(c) {
		return
	}
	fn := mustFunc(c, hs+".VerifyHeader")
	vms := mustObj(c, "core/signature.VerifyMultiSignature")
	if fn == nil || vms == nil {
		return
	}
	success := func(guards []*an.Guard) (int, string) {
		w := ""
		n := an.RunAllFail(fn, guards, nil, false, func(r *an.Result) {
			for _, ret := range an.Returns(fn) {
				for _, st := range r.StatesAt(ret) {
					if a := r.Eval(ret.Results[0], st); a.K != an.KNonNil {
						w = c.P.Rel(ret.Pos()) + " via " + r.Witness(c.P, st)
					}
				}
			}
		})
		return n, w
	}
	// (a) threshold
	// 3*listed < 2*peers, in any spelling (mirrored, negated, factors on either side of the product)
	mulBy := func(v ssa.Value, k string) ssa.Value {
		m, ok := v.(*ssa.BinOp)
		if !ok || m.Op != token.MUL {
			return nil
		}
		if isConstVal(k)(m.Y) {
			return m.X
		}
		if isConstVal(k)(m.X) {
			return m.Y
		}
		return nil
	}
	isListed3 := func(v ssa.Value) bool { return mulBy(v, "3") != nil }
	isPeers2 := func(v ssa.Value) bool { return mulBy(v, "2") != nil }
	thrMatch := func(v ssa.Value) bool { m, _ := relMatch(v, token.LSS, isListed3, isPeers2); return m }
	thrs := relGuards("3*listed < 2*peers", token.LSS, isListed3, isPeers2)
	n, w := success(thrs)
	c.Check(n == 1 && w == "", "guard|VerifyHeader|two-thirds", "a header is accepted only if the listed bookkeepers number at least two thirds of the consensus peer set", c.P.Rel(fn.Pos()), fmt.Sprintf("%d threshold comparisons; %s", n, w))
	// the counted list and peer set
	okSubj := false
	findAll := func(match func(ssa.Value) bool) []ssa.Value {
		var out []ssa.Value
		for _, g := range an.InlineReach(fn) {
			out = append(out, an.FindValues(g, match)...)
		}
		return out
	}
	derefField := func(v ssa.Value, name string) bool {
		ds := an.Deref(fn, v)
		if len(ds) == 0 {
			return false
		}
		for _, d := range ds {
			if f := fieldOfLoad(d); f == nil || f.Name() != name {
				return false
			}
		}
		return true
	}
	hdr := fn.Params[1].Name()
	for _, v := range findAll(thrMatch) {
		b := v.(*ssa.BinOp)
		listed, peers := mulBy(b.X, "3"), mulBy(b.Y, "2")
		if listed == nil || peers == nil {
			listed, peers = mulBy(b.Y, "3"), mulBy(b.X, "2")
		}
		lenArg := func(x ssa.Value) ssa.Value {
			if cv, isCv := x.(*ssa.Convert); isCv {
				x = cv.X
			}
			k, isC := x.(*ssa.Call)
			if !isC || len(k.Call.Args) != 1 {
				return nil
			}
			if bi, isB := k.Call.Value.(*ssa.Builtin); !isB || bi.Name() != "len" {
				return nil
			}
			return k.Call.Args[0]
		}
		if la, pa := lenArg(listed), lenArg(peers); la != nil && pa != nil && an.AccessPathIn(fn, la) == hdr+".Bookkeepers" && derefField(pa, "PeerMap") {
			okSubj = true
		}
	}
	c.Check(okSubj, "same-subject|VerifyHeader|threshold-operands", "the threshold compares the header's bookkeeper list with the governing consensus peer map", c.P.Rel(fn.Pos()), "operands changed")
	// (b) membership
	var peerMap ssa.Value
	member := &an.Guard{Name: "bookkeeper is a consensus peer", FailValue: an.AFalse, MatchValue: func(v ssa.Value) bool {
		e, ok := v.(*ssa.Extract)
		if !ok || e.Index != 1 {
			return false
		}
		l, isL := e.Tuple.(*ssa.Lookup)
		if !isL || !l.CommaOk {
			return false
		}
		if !derefField(l.X, "PeerMap") {
			return false
		}
		peerMap = l.X
		return true
	}}
	noIterationCompletesWhenFailing(c, "forall|VerifyHeader|every-bookkeeper-is-peer", "every listed bookkeeper is a member of the consensus peer set: no iteration completes for a non-member", fn, []*an.Guard{member}, nil)
	_ = peerMap
	// (c) distinct
	seen := &an.Guard{Name: "key already listed", FailValue: an.ATrue, MatchValue: func(v ssa.Value) bool {
		l, ok := v.(*ssa.Lookup)
		if !ok || l.CommaOk {
			return false
		}
		_, isMk := l.X.(*ssa.MakeMap)
		if !isMk {
			return false
		}
		if _, isMap := l.X.Type().Underlying().(*types.Map); !isMap {
			return false
		}
		call, isC := l.Index.(*ssa.Call)
		return isC && call.Call.StaticCallee() != nil && (call.Call.StaticCallee().Name() == "PubkeyID" || call.Call.StaticCallee().Name() == "PubKeyToHex")
	}}
	if len(findAll(seen.MatchValue)) == 0 {
		c.Violate("distinct|VerifyHeader|no-repeated-bookkeeper", "listing the same peer several times does not count extra: a repeated key aborts verification (or the threshold counts a set keyed by key id)", c.P.Rel(fn.Pos()),
			"no set keyed by vconfig.PubkeyID(bookkeeper) is consulted: len(header.Bookkeepers) counts repeats and VerifyMultiSignature marks keys by list position")
	} else {
		noIterationCompletesWhenFailing(c, "distinct|VerifyHeader|no-repeated-bookkeeper", "listing the same peer several times does not count extra: no iteration completes for a key that was already seen", fn, []*an.Guard{seen}, nil)
		// the set is updated with the same key in every continuing iteration
		okIns := false
		for _, v := range findAll(seen.MatchValue) {
			l := v.(*ssa.Lookup)
			for _, ref := range *l.X.Referrers() {
				if mu, isMu := ref.(*ssa.MapUpdate); isMu && mu.Key == l.Index {
					okIns = true
				}
			}
		}
		c.Check(okIns, "distinct|VerifyHeader|seen-set-updated", "every accepted key is recorded in the seen-set under the same key id", c.P.Rel(fn.Pos()), "the set is never updated with the looked-up key")
	}
	// (d) signatures
	sg := an.GuardForFuncs("VerifyMultiSignature", vms)
	n, w = success([]*an.Guard{sg})
	c.Check(n == 1 && w == "", "guard|VerifyHeader|signatures", "a header is accepted only after VerifyMultiSignature succeeded", c.P.Rel(fn.Pos()), w)
	for _, k := range an.CallsToReach(fn, vms) {
		args := argsNoRecv(k.Common())
		okM := false
		if call, isC := args[2].(*ssa.Call); isC {
			if bi, isB := call.Call.Value.(*ssa.Builtin); isB && bi.Name() == "len" && an.AccessPathIn(fn, call.Call.Args[0]) == hdr+".Bookkeepers" {
				okM = true
			}
		}
		c.Check(okM, "same-subject|VerifyHeader|threshold-is-all-listed", "the number of signatures verified equals the number of listed bookkeepers (each listed peer must have signed; the 2/3 bound is on the list)", c.P.Rel(k.Pos()),
			"the threshold passed to VerifyMultiSignature is "+args[2].String()+", not len(header.Bookkeepers): fewer signatures than counted peers would be verified")
		c.Check(an.AccessPathIn(fn, args[1]) == hdr+".Bookkeepers" && an.AccessPathIn(fn, args[3]) == hdr+".SigData", "same-subject|VerifyHeader|keys-and-sigs", "keys and signatures verified are the header's own", c.P.Rel(k.Pos()), an.AccessPath(args[1])+"/"+an.AccessPath(args[3]))
		okHash := false
		if sl, isS := args[0].(*ssa.Slice); isS {
			if call, isC := an.Origin(&ssa.UnOp{Op: token.MUL, X: sl.X}).(*ssa.Call); isC && call.Call.StaticCallee() != nil && call.Call.StaticCallee().Name() == "Hash" && an.AccessPathIn(fn, recvOf(&call.Call)) == hdr {
				okHash = true
			}
		}
		c.Check(okHash, "same-subject|VerifyHeader|signed-data", "the data verified is header.Hash()", c.P.Rel(k.Pos()), "data argument changed")
	}
	// callers: ProcessHeader stores the header only after VerifyHeader
	if ph := mustFunc(c, hs+".ProcessHeader"); ph != nil {
		put := mustObj(c, hs+".PutBlockHeader")
		upd := mustObj(c, hs+".UpdateConsensusPeer")
		v := an.Guarded(c.P, ph, []*an.Guard{an.GuardForFuncs("VerifyHeader", funcObj(fn))}, func(in ssa.Instruction) bool { return isCallTo(in, put, upd) }, false)
		c.Check(v.Holds && v.GuardSites == 1 && v.ActionSites >= 1, "guard|ProcessHeader|verify-before-store", "a side-chain header is stored (and may change the peer set) only after VerifyHeader succeeded", c.P.Rel(ph.Pos()), v.Witness)
	}
}
