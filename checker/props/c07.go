package props

import (
	"fmt"
	"go/token"
	"go/types"

	"golang.org/x/tools/go/ssa"

	"verif/checker/an"
)

func init() {
	register(&Prop{ID: "C07", Patterns: []string{"./smartcontract/service/evm", "./vm/evm", "./core/store/ledgerstore", "./smartcontract/storage", "./smartcontract/service/native/ong"}, Run: runC07})
}

func runC07(c *an.Ctx) {
	const ev = "smartcontract/service/evm"
	c.Explanation = "A2/A3 on the EIP-155 state transition: (1) preCheck returns an error, before buying gas, when the transaction nonce is above or below the account nonce (nonce checking enabled); (2) TransitionDb touches no state (StateDB mutators, evm.Call/Create, refund) unless preCheck succeeded, so a nonce-rejected transaction changes nothing, and HandleEIP155Transaction marks the cache as failed (SetDbErr) on every error return; " +
		"(3) after preCheck every path to the result passes exactly one sender-nonce increment — SetNonce(from, GetNonce+1) in the call branch or in the failed-precondition branch, or evm.Create, whose body increments the caller's nonce before running init code; (4) the fee credited to the fee receiver and the reported UsedGas are computed from gasUsed() evaluated after refundGas, and the credit lies on every path to the result. " +
		"Decides these structural necessary conditions for all transactions; ONG conservation as an arithmetic identity and the gasLimit*gasPrice+value bound are not decided."
	if !controlGuard(c) {
		return
	}
	pre := mustFunc(c, ev+".(*StateTransition).preCheck")
	tdb := mustFunc(c, ev+".(*StateTransition).TransitionDb")
	buyGas := mustFunc(c, ev+".(*StateTransition).buyGas")
	refund := mustFunc(c, ev+".(*StateTransition).refundGas")
	gasUsed := mustFunc(c, ev+".(*StateTransition).gasUsed")
	if pre == nil || tdb == nil || buyGas == nil || refund == nil || gasUsed == nil {
		return
	}
	stateDB, _ := c.P.Obj("vm/evm.StateDB").(*types.TypeName)
	if stateDB == nil {
		c.Undecide("anchor|vm/evm.StateDB", "anchors must resolve", "-", "interface not found")
		return
	}
	method := func(n string) *types.Func {
		o, _, _ := types.LookupFieldOrMethod(stateDB.Type(), true, stateDB.Pkg(), n)
		f, _ := o.(*types.Func)
		return f
	}
	// (1)
	{
		// comparisons between the account nonce (GetNonce) and the transaction nonce (Nonce), in any spelling,
		// normalised to "account nonce <op> transaction nonce"
		isCallNamed := func(v ssa.Value, name string) bool {
			k, ok := v.(*ssa.Call)
			return ok && an.CalleeObj(&k.Call) != nil && an.CalleeObj(&k.Call).Name() == name
		}
		type nonceCmp struct {
			v      ssa.Value
			fail   an.Abs // outcome of v on a mismatch in the covered direction
			pass   an.Abs
			covers string
		}
		var cmps []nonceCmp
		for _, g := range an.InlineReach(pre) {
			for _, v := range an.FindValues(g, func(v ssa.Value) bool { _, isB := v.(*ssa.BinOp); return isB }) {
				b := v.(*ssa.BinOp)
				op := b.Op
				switch {
				case isCallNamed(b.X, "GetNonce") && isCallNamed(b.Y, "Nonce"):
				case isCallNamed(b.X, "Nonce") && isCallNamed(b.Y, "GetNonce"):
					op = mirrorOp[op]
				default:
					continue
				}
				switch op {
				case token.LSS:
					cmps = append(cmps, nonceCmp{v, an.ATrue, an.AFalse, "<"})
				case token.GEQ:
					cmps = append(cmps, nonceCmp{v, an.AFalse, an.ATrue, "<"})
				case token.GTR:
					cmps = append(cmps, nonceCmp{v, an.ATrue, an.AFalse, ">"})
				case token.LEQ:
					cmps = append(cmps, nonceCmp{v, an.AFalse, an.ATrue, ">"})
				case token.NEQ:
					cmps = append(cmps, nonceCmp{v, an.ATrue, an.AFalse, "!="})
				case token.EQL:
					cmps = append(cmps, nonceCmp{v, an.AFalse, an.ATrue, "!="})
				}
			}
		}
		covered := map[string]bool{}
		for _, k := range cmps {
			covered[k.covers] = true
		}
		c.Check(len(cmps) >= 1 && (covered["!="] || covered["<"] && covered[">"]), "shape|preCheck|nonce-comparisons", "the account nonce is compared with the transaction nonce in both directions", c.P.Rel(pre.Pos()), fmt.Sprintf("%d comparisons, directions %v", len(cmps), covered))
		extra := map[ssa.Value]an.Abs{}
		for _, g := range an.InlineReach(pre) {
			for _, k := range an.Calls(g) {
				if o := an.CalleeObj(k.Common()); o != nil && o.Name() == "CheckNonce" {
					extra[k.Value()] = an.ATrue
				}
			}
		}
		for i, k := range cmps {
			cmp := k.v
			g := &an.Guard{Name: "nonce mismatch", FailValue: k.fail, MatchValue: func(v ssa.Value) bool { return v == cmp }}
			ex := map[ssa.Value]an.Abs{}
			for kk, v := range extra {
				ex[kk] = v
			}
			// the other comparisons say "no mismatch in their direction"
			for j, o := range cmps {
				if j != i {
					ex[o.v] = o.pass
				}
			}
			v := an.GuardedX(c.P, pre, []*an.Guard{g}, ex, func(in ssa.Instruction) bool { return isCallTo(in, funcObj(buyGas)) }, false)
			c.Check(v.Holds && v.ActionSites == 1, fmt.Sprintf("guard|preCheck|nonce-%s-before-buyGas", k.covers), "a transaction whose nonce differs from the account nonce is rejected before gas is bought", c.P.Rel(cmp.Pos()), v.Witness)
			// and the return is a failure
			bad := ""
			an.RunAllFail(pre, []*an.Guard{g}, ex, false, func(r *an.Result) {
				for _, ret := range an.Returns(pre) {
					for _, st := range r.StatesAt(ret) {
						if a := r.Eval(ret.Results[1], st); a.K != an.KNonNil {
							bad = c.P.Rel(ret.Pos())
						}
					}
				}
			})
			c.Check(bad == "", fmt.Sprintf("guard|preCheck|nonce-%s-is-error", k.covers), "a nonce mismatch makes preCheck return an error", c.P.Rel(cmp.Pos()), "non-error return reachable at "+bad)
		}
	}
	// (2)
	mutators := map[string]bool{"SetNonce": true, "AddBalance": true, "SubBalance": true, "SetState": true, "SetCode": true, "Suicide": true, "AddLog": true, "AddRefund": true, "SubRefund": true, "CreateAccount": true, "RevertToSnapshot": true, "Snapshot": true}
	isEffect := func(in ssa.Instruction) bool {
		k, ok := in.(ssa.CallInstruction)
		if !ok {
			return false
		}
		o := an.CalleeObj(k.Common())
		if o == nil {
			return false
		}
		if sig, _ := o.Type().(*types.Signature); sig != nil && sig.Recv() != nil {
			rt := sig.Recv().Type().String()
			if (types.Identical(sig.Recv().Type(), stateDB.Type()) || rt == "*"+an.RepoMod+"/smartcontract/storage.StateDB") && mutators[o.Name()] {
				return true
			}
			if rt == "*"+an.RepoMod+"/vm/evm.EVM" && (o.Name() == "Call" || o.Name() == "Create") {
				return true
			}
		}
		return o == funcObj(refund) || o == funcObj(buyGas)
	}
	{
		g := an.GuardForFuncs("preCheck", funcObj(pre))
		g.FailModes = [][]an.Abs{{an.AUnknown, an.ANonNil}} // the bool result is the adjusted-gas flag, not a verdict
		v := an.Guarded(c.P, tdb, []*an.Guard{g}, isEffect, false)
		c.Check(v.Holds && v.GuardSites == 1 && v.ActionSites >= 5, "guard|TransitionDb|effects-after-preCheck", "a transaction rejected by preCheck (wrong nonce) changes no state: every mutation lies behind its success", c.P.Rel(tdb.Pos()), fmt.Sprintf("%d effect sites; %s", v.ActionSites, v.Witness))
	}
	if h := mustFunc(c, ls+".(*StateStore).HandleEIP155Transaction"); h != nil {
		setErr := mustObj(c, "smartcontract/storage.(*CacheDB).SetDbErr")
		var failing []ssa.Instruction
		q := &an.Query{Fn: h}
		r := q.Run()
		for _, ret := range an.Returns(h) {
			for _, st := range r.StatesAt(ret) {
				if a := r.Eval(ret.Results[2], st); a.K != an.KNil {
					failing = append(failing, ret)
					break
				}
			}
		}
		ok, why := an.MustPass(c.P, h, callsIn(h, setErr), failing, nil)
		c.Check(ok && len(failing) >= 2, "sequence|HandleEIP155Transaction|error-marks-cache", "every error of the EVM transition (incl. a nonce error) marks the block's cache as failed, so the block is rejected rather than half-applied", c.P.Rel(h.Pos()), why)
	}
	// (3) exactly one nonce increment
	{
		setNonce := method("SetNonce")
		getNonce := method("GetNonce")
		var incs []ssa.Instruction
		var tdbCalls []ssa.CallInstruction
		for _, g := range an.InlineReach(tdb) {
			tdbCalls = append(tdbCalls, an.Calls(g)...)
		}
		nSet, nCreate := 0, 0
		for _, k := range tdbCalls {
			o := an.CalleeObj(k.Common())
			if o == nil {
				continue
			}
			if o == setNonce {
				nSet++
				// argument is GetNonce(...)+1
				arg := argsNoRecv(k.Common())[1]
				b, isB := arg.(*ssa.BinOp)
				good := false
				if isB && b.Op == token.ADD {
					if one, isK := b.Y.(*ssa.Const); isK && one.Value != nil && one.Value.String() == "1" {
						if g, isC := b.X.(*ssa.Call); isC && an.CalleeObj(&g.Call) == getNonce {
							good = true
						}
					}
				}
				c.Check(good, "shape|TransitionDb|SetNonce-arg", "the sender nonce is set to its current value plus one", c.P.Rel(k.Pos()), "argument is "+arg.String())
				incs = append(incs, k)
			}
			if o.Name() == "Create" && o.Pkg() != nil && o.Pkg().Path() == an.RepoMod+"/vm/evm" {
				nCreate++
				incs = append(incs, k)
			}
		}
		c.Check(nSet >= 1 && nCreate == 1, "shape|TransitionDb|nonce-increment-sites", "the sender nonce is incremented by SetNonce(from, GetNonce+1) (call branch, failed-precondition branch) or by evm.Create (contract creation)", c.P.Rel(tdb.Pos()), fmt.Sprintf("%d SetNonce sites, %d Create sites", nSet, nCreate))
		ok, why := an.MustPassToSuccess(c.P, tdb, incs)
		c.Check(ok, "sequence|TransitionDb|at-least-one-nonce-increment", "every path to a result increments the sender nonce", c.P.Rel(tdb.Pos()), why)
		twice := ""
		for _, k := range incs {
			r := (&an.Query{Fn: tdb, Start: k}).Run()
			for _, o := range incs {
				if r.Reaches(o) {
					twice = c.P.Rel(k.Pos()) + " then " + c.P.Rel(o.Pos())
				}
			}
		}
		c.Check(twice == "", "sequence|TransitionDb|at-most-one-nonce-increment", "no path increments the sender nonce twice", c.P.Rel(tdb.Pos()), twice)
		// evm.create increments the caller's nonce before any snapshot / init code
		if cr := mustFunc(c, "vm/evm.(*EVM).create"); cr != nil {
			var sn []ssa.Instruction
			for _, k := range an.Calls(cr) {
				if an.CalleeObj(k.Common()) == setNonce {
					if b, isB := argsNoRecv(k.Common())[1].(*ssa.BinOp); isB && b.Op == token.ADD {
						sn = append(sn, k)
					}
				}
			}
			var later []ssa.Instruction
			for _, k := range an.Calls(cr) {
				if o := an.CalleeObj(k.Common()); o != nil && (o.Name() == "Snapshot" || o.Name() == "run") {
					later = append(later, k)
				}
			}
			ok, why := an.MustPass(c.P, cr, sn, later, nil)
			c.Check(ok && len(sn) == 1 && len(later) >= 1, "sequence|EVM.create|nonce-before-init-code", "contract creation increments the creator's nonce before the snapshot and before init code runs (so a reverted creation still consumes the nonce)", c.P.Rel(cr.Pos()), why)
		}
	}
	// (4) fee after refund
	{
		refunds := callsIn(tdb, funcObj(refund))
		gus := callsIn(tdb, funcObj(gasUsed))
		ok, why := an.MustPass(c.P, tdb, refunds, gus, nil)
		c.Check(ok && len(refunds) == 1 && len(gus) >= 1, "sequence|TransitionDb|gasUsed-after-refund", "the gas figure used for the fee and for the result is taken after the refund was applied", c.P.Rel(tdb.Pos()), why)
		// fee credit uses a gasUsed() call
		addBal := method("AddBalance")
		fee := false
		var credits []ssa.Instruction
		for _, k := range an.CallsToReach(tdb, addBal) {
			args := argsNoRecv(k.Common())
			if fieldOfLoad(args[0]) != nil && fieldOfLoad(args[0]).Name() == "GasReceiver" {
				credits = append(credits, k)
				if dependsOnCall(args[1], gasUsed, 0) {
					fee = true
				}
			}
		}
		c.Check(fee && len(credits) == 1, "same-subject|TransitionDb|fee-is-gasUsed*price", "the amount credited to the fee receiver is computed from gasUsed()", c.P.Rel(tdb.Pos()), "fee amount does not derive from a gasUsed() call")
		ok, why = an.MustPassToSuccess(c.P, tdb, credits)
		c.Check(ok, "sequence|TransitionDb|fee-credit-on-every-result", "the fee receiver is credited on every path to a result", c.P.Rel(tdb.Pos()), why)
		// UsedGas field of the result
		used := false
		for _, g := range an.InlineReach(tdb) {
			for _, w := range an.DirectFieldWrites(g) {
				if w.Field.Name() == "UsedGas" && dependsOnCall(w.Val, gasUsed, 0) {
					used = true
				}
			}
		}
		c.Check(used, "same-subject|TransitionDb|UsedGas-is-gasUsed", "the reported UsedGas is gasUsed()", c.P.Rel(tdb.Pos()), "UsedGas does not derive from a gasUsed() call")
	}
	// (5) ONG is moved, never overwritten (seed C07c)
	ongOverwriteRule(c)
}

// dependsOnCall: v is computed from the result of a call to fn.
func dependsOnCall(v ssa.Value, fn *ssa.Function, depth int) bool {
	if depth > 8 {
		return false
	}
	if k, ok := v.(*ssa.Call); ok && k.Call.StaticCallee() == fn {
		return true
	}
	// the value returned by a private helper of the same package: what the helper returns
	if k, ok := v.(*ssa.Call); ok {
		if callee := k.Call.StaticCallee(); callee != nil && callee.Blocks != nil && callee.Pkg == fn.Pkg && callee.Object() != nil && !callee.Object().Exported() && callee.Signature.Results().Len() == 1 {
			for _, r := range an.Returns(callee) {
				if dependsOnCall(r.Results[0], fn, depth+1) {
					return true
				}
			}
		}
	}
	if in, ok := v.(ssa.Instruction); ok {
		for _, op := range in.Operands(nil) {
			if *op != nil && dependsOnCall(*op, fn, depth+1) {
				return true
			}
		}
	}
	return false
}
