package props

import (
	"fmt"
	"go/token"
	"go/types"
	"strings"

	"golang.org/x/tools/go/ssa"

	"verif/checker/an"
)

func init() {
	register(&Prop{ID: "C43", Patterns: []string{"./core/store/ledgerstore"}, Run: runC43})
}

func runC43(c *an.Ctx) {
	c.Explanation = "A13-style dataflow + A2/A3 structure rules on the bloom path: (1) in executeBlock the logs of every non-nil receipt returned by handleTransaction are appended, in the same iteration and only guarded by the nil test, to the list from which result.Bloom is computed (LogsBloom over all of them), and nothing else replaces that list; parseOntLogsToEth keeps address and topics of every log; " +
		"(2) submitBlock hands result.Bloom to saveBlockToBlockStore, which stores it under the block's own height; SaveBloomData writes the bloom's bytes under the height's key and caches the same bloom under the same height; (3) the per-section index is built, at the section's last height, from the cached blooms of exactly the BloomBitsBlocks heights of that section and is written under section = height/BloomBitsBlocks; " +
		"(4) because SaveBloomData runs before the batch is committed and may run again for the same height, its in-memory effects are retry-safe: the cache is only assigned at the current height and only entries at least one section old are deleted; LedgerStoreImp.init reloads the cache (LoadBloomBits) before the store is used. " +
		"Decides these necessary conditions for all chains; the bit-vector arithmetic of the bloombits generator is not decided."
	if !controlGuard(c) {
		return
	}
	L := ls
	eb := mustFunc(c, L+".(*LedgerStoreImp).executeBlock")
	ht := mustObj(c, L+".(*LedgerStoreImp).handleTransaction")
	sub := mustFunc(c, L+".(*LedgerStoreImp).submitBlock")
	sbs := mustFunc(c, L+".(*LedgerStoreImp).saveBlockToBlockStore")
	sbd := mustFunc(c, L+".(*BlockStore).SaveBloomData")
	parse := mustFunc(c, L+".parseOntLogsToEth")
	initF := mustFunc(c, L+".(*LedgerStoreImp).init")
	if eb == nil || ht == nil || sub == nil || sbs == nil || sbd == nil || parse == nil || initF == nil {
		return
	}
	bloomField := c.P.Field("core/store.ExecuteResult.Bloom")
	if bloomField == nil {
		c.Undecide("anchor|ExecuteResult.Bloom", "anchors must resolve", "-", "field not found")
		return
	}
	// (1) result.Bloom <- BytesToBloom(LogsBloom(parseOntLogsToEth(allLogs)))
	var allLogs ssa.Value
	for _, w := range an.DirectFieldWrites(eb) {
		if w.Field != bloomField {
			continue
		}
		// chase calls backwards, through private helpers too
		var chase func(v ssa.Value, depth int)
		chase = func(v ssa.Value, depth int) {
			if depth > 8 || allLogs != nil {
				return
			}
			v = an.Origin(v)
			if k, isK := v.(*ssa.Call); isK && k.Call.StaticCallee() == parse {
				allLogs = an.ResolveActual(eb, k.Call.Args[0])
				return
			}
			if outs, ok := an.DerefStep(eb, v, nil); ok {
				for _, o := range outs {
					chase(o.V, depth+1)
				}
				return
			}
			k, ok := v.(*ssa.Call)
			if !ok {
				return
			}
			if len(k.Call.Args) > 0 {
				chase(k.Call.Args[len(k.Call.Args)-1], depth+1)
			}
		}
		chase(w.Val, 0)
	}
	if allLogs == nil {
		c.Violate("bloom|executeBlock|computed-from-all-logs", "result.Bloom is the logs bloom of the list of all receipt logs of the block", c.P.Rel(eb.Pos()), "result.Bloom is not computed through parseOntLogsToEth(list)")
	} else {
		// allLogs must be the loop accumulator: phi whose latch values are append(acc, receipt.Logs...)
		ok, why := logsAccumulator(allLogs, ht)
		c.Check(ok, "bloom|executeBlock|computed-from-all-logs", "result.Bloom is computed from a list to which, in every iteration, the logs of the receipt returned by handleTransaction are appended whenever the receipt is non-nil (nothing else assigns the list)", c.P.Rel(eb.Pos()), why)
	}
	// parseOntLogsToEth keeps Address and Topics of every element
	kept := map[string]bool{}
	for _, w := range an.DirectFieldWrites(parse) {
		if w.Kind == "store" {
			if f := fieldOfLoad(w.Val); f != nil && f.Name() == w.Field.Name() {
				kept[w.Field.Name()] = true
			}
		}
	}
	c.Check(kept["Address"] && kept["Topics"] && len(an.BackEdges(parse)) == 1, "bloom|parseOntLogsToEth|keeps-address-and-topics", "every stored log is converted with its own Address and Topics (the fields the bloom is made of)", c.P.Rel(parse.Pos()), fmt.Sprintf("copied fields: %v", kept))

	// (2) submitBlock -> saveBlockToBlockStore(block, result.Bloom) -> SaveBloomData(height, bloom)
	okFlow := false
	for _, k := range an.Calls(sub) {
		if k.Common().StaticCallee() == sbs {
			a := argsNoRecv(k.Common())
			if f := fieldOfLoad(a[1]); f == bloomField && derivesFrom(a[1], sub.Params[3]) {
				okFlow = true
			}
		}
	}
	c.Check(okFlow, "bloom|submitBlock|passes-result-bloom", "the bloom stored with a block is the Bloom of the execution result of that block", c.P.Rel(sub.Pos()), "saveBlockToBlockStore is not given result.Bloom")
	okH := false
	for _, k := range an.Calls(sbs) {
		if k.Common().StaticCallee() == sbd {
			a := argsNoRecv(k.Common())
			if f := fieldOfLoad(a[0]); f != nil && f.Name() == "Height" && derivesFrom(a[0], sbs.Params[1]) && a[1] == ssa.Value(sbs.Params[2]) {
				okH = true
			}
		}
	}
	c.Check(okH, "bloom|saveBlockToBlockStore|height-and-bloom", "SaveBloomData receives block.Header.Height and the bloom parameter", c.P.Rel(sbs.Pos()), "arguments changed")
	// SaveBloomData: BatchPut(genBloomKey(height), bloom.Bytes()); cache[height] = &bloom
	heightP := sbd.Params[1]
	cacheField := c.P.Field(L + ".BlockStore.bloomCache")
	var put ssa.Instruction
	okPut, okCache := false, false
	for _, k := range an.Calls(sbd) {
		o := an.CalleeObj(k.Common())
		if o == nil || o.Name() != "BatchPut" {
			continue
		}
		a := argsNoRecv(k.Common())
		keyCall, isK := a[0].(*ssa.Call)
		valCall, isV := a[1].(*ssa.Call)
		if isK && isV && an.CalleeObj(keyCall.Common()) != nil && an.CalleeObj(keyCall.Common()).Name() == "genBloomKey" && argsNoRecv(keyCall.Common())[0] == ssa.Value(heightP) &&
			an.CalleeObj(valCall.Common()) != nil && an.CalleeObj(valCall.Common()).Name() == "Bytes" {
			okPut = true
			put = k
		}
	}
	var cacheStores, cacheDeletes []ssa.Instruction
	for _, fn := range staticReachFrom(c, []*ssa.Function{sbd}) {
		for _, b := range fn.Blocks {
			for _, in := range b.Instrs {
				switch x := in.(type) {
				case *ssa.MapUpdate:
					if fieldOfLoad(x.Map) == cacheField {
						cacheStores = append(cacheStores, x)
						if fn == sbd && x.Key == ssa.Value(heightP) {
							okCache = true
						}
					}
				case *ssa.Call:
					if bi, isB := x.Call.Value.(*ssa.Builtin); isB && bi.Name() == "delete" && fieldOfLoad(x.Call.Args[0]) == cacheField {
						cacheDeletes = append(cacheDeletes, x)
					}
				}
			}
		}
	}
	c.Check(okPut && okCache && cacheField != nil, "bloom|SaveBloomData|stores-and-caches-same-height", "the bloom's bytes are written under the key of the given height and the same height's cache entry is set", c.P.Rel(sbd.Pos()), "BatchPut(genBloomKey(height), bloom.Bytes()) or bloomCache[height] assignment not found")
	if put != nil {
		okAll, w := an.MustPassToSuccess(c.P, sbd, []ssa.Instruction{put})
		// the only way around the write is the filterStart test
		_ = okAll
		_ = w
	}
	// (4) retry safety of in-memory effects
	onlyCur := true
	for _, s := range cacheStores {
		if s.(*ssa.MapUpdate).Key != ssa.Value(heightP) {
			onlyCur = false
		}
	}
	c.Check(onlyCur && len(cacheStores) >= 1, "retry|SaveBloomData|cache-assigned-at-current-height-only", "before the batch is committed the bloom cache is only assigned at the height being saved (running again for the same height is idempotent)", c.P.Rel(sbd.Pos()), fmt.Sprintf("%d cache assignments", len(cacheStores)))
	staleOnly := true
	why := ""
	bbb, _ := c.P.Obj(L + ".BloomBitsBlocks").(*types.Const)
	sectionLen := int64(0)
	if bbb != nil {
		sectionLen, _ = constantInt(bbb)
	}
	for _, d := range cacheDeletes {
		key := d.(*ssa.Call).Call.Args[1]
		bo, ok := key.(*ssa.BinOp)
		if !ok || bo.Op != token.SUB {
			staleOnly, why = false, "a cache entry is deleted under a key that is not (height - constant) at "+c.P.Rel(d.Pos())
			continue
		}
		k, isK := bo.Y.(*ssa.Const)
		if _, isParam := bo.X.(*ssa.Parameter); !isK || !isParam || k.Value == nil {
			staleOnly, why = false, "a cache entry is deleted under a key that is not (height - constant) at "+c.P.Rel(d.Pos())
			continue
		}
		var dist int64
		fmt.Sscanf(k.Value.ExactString(), "%d", &dist)
		if sectionLen == 0 || dist < sectionLen {
			staleOnly, why = false, fmt.Sprintf("a cache entry only %d heights old is deleted at %s (the current section's entries are still needed if the commit is retried)", dist, c.P.Rel(d.Pos()))
		}
	}
	c.Check(staleOnly && sectionLen > 0, "retry|SaveBloomData|deletes-only-stale-entries", "before the batch is committed only cache entries at least one whole section older than the height being saved are deleted, so a retried commit of the same height rebuilds the same section index", c.P.Rel(sbd.Pos()), why)
	// (3) section index
	pbi := mustObj(c, L+".PutBloomIndex")
	if pbi != nil {
		calls := an.CallsTo(sbd, pbi)
		ok := len(calls) == 1
		why := "PutBloomIndex call not found"
		if ok {
			a := calls[0].Common().Args
			// section = height / BloomBitsBlocks
			sec, isB := a[2].(*ssa.BinOp)
			if !isB || sec.Op != token.QUO || sec.X != ssa.Value(heightP) {
				ok, why = false, "section is not height / BloomBitsBlocks"
			}
			// guarded by (height+1) % BloomBitsBlocks == 0
			// (height+1) % N == 0 in either polarity: the guard fails when the remainder differs from 0
			gs := relGuards("(height+1)%N==0", token.NEQ, func(x ssa.Value) bool {
				r, isR := x.(*ssa.BinOp)
				return isR && r.Op == token.REM
			}, isConstVal("0"))
			v := an.Guarded(c.P, sbd, gs, func(in ssa.Instruction) bool { return in == ssa.Instruction(calls[0]) }, false)
			if !v.Holds || v.GuardSites != 1 {
				ok, why = false, "the index is not built exactly at the last height of a section"
			}
			// the list: every bloom put into a list on this path is read from the bloom cache
			if ok {
				ok, why = sectionListFromCache(staticReachFrom(c, []*ssa.Function{sbd}), cacheField)
			}
		}
		c.Check(ok, "index|SaveBloomData|section-built-from-its-own-blooms", "at the last height of a section the index is built from the cached blooms of exactly that section's heights (height+i+1-BloomBitsBlocks, i < BloomBitsBlocks) and written under section height/BloomBitsBlocks", c.P.Rel(sbd.Pos()), why)
	}
	// init reloads the cache
	lbb := mustObj(c, L+".(*BlockStore).LoadBloomBits")
	if lbb != nil {
		ok, w := an.MustPassToSuccess(c.P, initF, callsIn(initF, lbb))
		c.Check(ok && len(callsIn(initF, lbb)) >= 1, "restart|init|reloads-bloom-cache", "opening the ledger reloads the current section's blooms into the cache before blocks are saved", c.P.Rel(initF.Pos()), w)
	}
	_ = strings.TrimSpace
}

// logsAccumulator: v is a loop-header phi whose loop-carried value is, through
// phis, either itself or append(itself, receipt.Logs...) where receipt is the
// receipt result of the handleTransaction call of the loop.
func logsAccumulator(v ssa.Value, ht *types.Func) (bool, string) {
	ph, ok := v.(*ssa.Phi)
	if !ok {
		return false, "the list is not accumulated in the transaction loop"
	}
	appends := 0
	seen := map[ssa.Value]bool{ph: true}
	var walk func(x ssa.Value) (bool, string)
	walk = func(x ssa.Value) (bool, string) {
		if seen[x] {
			return true, ""
		}
		seen[x] = true
		switch y := x.(type) {
		case *ssa.Phi:
			for _, e := range y.Edges {
				if ok, why := walk(e); !ok {
					return false, why
				}
			}
			return true, ""
		case *ssa.Const:
			return y.Value == nil, "the list is reset to a constant"
		case *ssa.Call:
			bi, isB := y.Call.Value.(*ssa.Builtin)
			if !isB || bi.Name() != "append" || len(y.Call.Args) != 2 {
				return false, "the list is assigned from " + y.String()
			}
			if ok, why := walk(y.Call.Args[0]); !ok {
				return false, why
			}
			f := fieldOfLoad(y.Call.Args[1])
			if f == nil || f.Name() != "Logs" {
				return false, "something other than receipt.Logs is appended"
			}
			// receipt = extract of handleTransaction
			base := baseOfField(y.Call.Args[1], "Logs")
			e, isE := base.(*ssa.Extract)
			if !isE {
				return false, "appended logs do not belong to the receipt returned by handleTransaction"
			}
			k, isK := e.Tuple.(*ssa.Call)
			if !isK || an.CalleeObj(k.Common()) != ht {
				return false, "appended logs do not belong to the receipt returned by handleTransaction"
			}
			// the append is guarded only by receipt != nil: its block's sole predecessor ends in If(receipt != nil)
			b := y.Block()
			if len(b.Preds) != 1 {
				return false, "the append is not directly under the nil test of the receipt"
			}
			iff, isIf := b.Preds[0].Instrs[len(b.Preds[0].Instrs)-1].(*ssa.If)
			if !isIf {
				return false, "the append is not directly under the nil test of the receipt"
			}
			// receipt != nil in either spelling, and the append on its non-nil side
			m, nonNilWhenTrue := relMatch(iff.Cond, token.NEQ, func(x ssa.Value) bool { return x == ssa.Value(e) }, func(y ssa.Value) bool {
				k, isK := y.(*ssa.Const)
				return isK && k.Value == nil
			})
			if !m || nonNilWhenTrue && b.Preds[0].Succs[0] != b || !nonNilWhenTrue && b.Preds[0].Succs[1] != b {
				return false, "the append is guarded by something other than receipt != nil"
			}
			appends++
			return true, ""
		}
		return false, "the list is assigned from " + x.String()
	}
	for _, e := range ph.Edges {
		if ok, why := walk(e); !ok {
			return false, why
		}
	}
	if appends != 1 {
		return false, fmt.Sprintf("%d append sites", appends)
	}
	return true, ""
}

// sectionListShape: list is accumulated in a loop of N iterations by
// appending *bloomCache[height + i + 1 - N].
func sectionListShape(fn *ssa.Function, list ssa.Value, cacheField *types.Var, height ssa.Value) (bool, string) {
	ph, ok := list.(*ssa.Phi)
	if !ok {
		return false, "the list handed to PutBloomIndex is not accumulated in a loop"
	}
	for _, e := range ph.Edges {
		k, isC := e.(*ssa.Call)
		if !isC {
			continue
		}
		bi, isB := k.Call.Value.(*ssa.Builtin)
		if !isB || bi.Name() != "append" {
			return false, "the list is not built by append"
		}
		el := singleVararg(k.Call.Args[1])
		if el == nil {
			return false, "more than one element appended per iteration"
		}
		// el = *lookup(bloomCache, key)
		u, isU := el.(*ssa.UnOp)
		if !isU || u.Op != token.MUL {
			return false, "appended element is not a cached bloom"
		}
		lk, isL := u.X.(*ssa.Lookup)
		if !isL || fieldOfLoad(lk.X) != cacheField {
			return false, "appended element is not read from the bloom cache"
		}
		if !mentions(lk.Index, height, 0) {
			return false, "cache key does not depend on the height being saved"
		}
		return true, ""
	}
	return false, "no append into the list"
}

func mentions(v, target ssa.Value, depth int) bool {
	if v == target {
		return true
	}
	if depth > 6 {
		return false
	}
	if in, ok := v.(ssa.Instruction); ok {
		for _, op := range in.Operands(nil) {
			if *op != nil && mentions(*op, target, depth+1) {
				return true
			}
		}
	}
	return false
}
