package props

import (
	"fmt"
	"golang.org/x/tools/go/ssa"
	"strings"

	"verif/checker/an"
)

func init() {
	register(&Prop{ID: "C42", Patterns: []string{"./..."}, Run: runC42})
}

var preExecRoots = []string{
	ls + ".(*LedgerStoreImp).PreExecuteContractWithParam",
	ls + ".(*LedgerStoreImp).PreExecuteContract",
	ls + ".(*LedgerStoreImp).PreExecuteContractBatch",
	ls + ".(*LedgerStoreImp).PreExecuteEIP155",
	ls + ".(*LedgerStoreImp).PreExecuteEip155Tx",
	ls + ".(*LedgerStoreImp).TraceEip155Tx",
	ls + ".(*LedgerStoreImp).executeEip155Tx",
}

func runC42(c *an.Ctx) {
	c.Explanation = "A4 confine: in the refined VTA call graph (asynchronous eventbus/log boundary cut, callbacks bound at call sites, go statements followed) " +
		"no function that writes persisted ledger state (LevelDB Put/Delete/Batch*, the three stores' CommitTo, OverlayDB.CommitTo, merkle file Append/Flush, " +
		"setCurrentBlock/setHeaderIndex) is reachable from any pre-execution entry point; and every OverlayDB a pre-execution root uses is created inside it. " +
		"Decides the structural necessary condition 'no write path exists'; does not decide that LevelDB reads are side-effect free."
	c.Assumptions = append(c.Assumptions,
		"messages posted to ontology-eventbus actors and log output are not effects of the posting call (cut table)",
		"reflection / cgo callbacks do not reach ledger stores (none of the sinks is exported to cgo or registered by reflection)")
	if !controlConfine(c) {
		return
	}
	cg := c.P.CallGraph()
	roots := resolveAll(c, preExecRoots)
	sinks := resolveAll(c, persistentSinkNames)
	c.RequireMin("pre-execution roots", len(roots), 7)
	c.RequireMin("persistent-write sinks", len(sinks), 14)
	// sinks must be live in the program at all (reachable from block commit),
	// otherwise the sink table is stale and the rule is vacuous.
	if sb := mustFunc(c, ls+".(*LedgerStoreImp).submitBlock"); sb != nil {
		r := cg.Reach([]*ssa.Function{sb}, an.ReachOpts{})
		live := 0
		for _, s := range sinks {
			if r.Has(s) {
				live++
			}
		}
		c.RequireMin("sinks reachable from submitBlock (positive control on the real graph)", live, 8)
	}
	confineNoReach(c, cg, "no persisted-state writer is reachable from a pre-execution entry point", roots, sinks, an.ReachOpts{})

	// each root builds its own overlay: calls to NewOverlayDB inside the
	// roots' own bodies or their direct helpers
	newOverlay := mustFunc(c, "core/store/overlaydb.NewOverlayDB")
	if newOverlay != nil {
		for _, name := range []string{
			ls + ".(*LedgerStoreImp).PreExecuteContractWithParam",
			ls + ".(*LedgerStoreImp).PreExecuteEIP155",
			ls + ".(*LedgerStoreImp).executeEip155Tx",
		} {
			fn := mustFunc(c, name)
			if fn == nil {
				continue
			}
			n := 0
			if an.CallsStatically(fn, newOverlay, 2) {
				n = 1
			}
			c.Check(n >= 1, "fresh-overlay|"+an.FuncName(fn), "a pre-execution root executes on an overlay it creates itself (overlaydb.NewOverlayDB reached by static calls from its body, depth <= 2)",
				c.P.Rel(fn.Pos()), "no call to overlaydb.NewOverlayDB in the body: execution would share an overlay with block processing")
			// ... and on nothing else: every CacheDB the root handles is, on every path, storage.NewCacheDB over an overlay
			// created in this very call (through private helpers such as GetCacheDB) - not an object taken from a pool,
			// a field or a channel that block processing may also hold
			nc, bad := 0, ""
			for _, b := range fn.Blocks {
				for _, in := range b.Instrs {
					v, isV := in.(ssa.Value)
					if !isV || !strings.HasSuffix(v.Type().String(), "smartcontract/storage.CacheDB") {
						continue
					}
					switch in.(type) {
					case *ssa.Call, *ssa.Phi, *ssa.Extract, *ssa.UnOp:
					default:
						continue
					}
					nc++
					for _, d := range an.Deref(fn, v) {
						for _, s := range an.AllSources(d) {
							k, isCall := s.(*ssa.Call)
							if !isCall || k.Call.StaticCallee() == nil || k.Call.StaticCallee().Name() != "NewCacheDB" {
								bad = fmt.Sprintf("%s at %s is not a CacheDB created here (it comes from %s)", v.Name(), c.P.Rel(in.Pos()), s.String())
								continue
							}
							for _, od := range an.Deref(fn, k.Call.Args[0]) {
								for _, os := range an.AllSources(od) {
									ok2, isC2 := os.(*ssa.Call)
									if !isC2 || ok2.Call.StaticCallee() == nil || ok2.Call.StaticCallee().Name() != "NewOverlayDB" {
										bad = fmt.Sprintf("the cache at %s is not built over a new overlay (over %s)", c.P.Rel(k.Pos()), os.String())
									}
								}
							}
						}
					}
				}
			}
			c.Check(bad == "" && nc >= 1, "fresh-cache|"+an.FuncName(fn), "every cache a pre-execution root executes on is created in that call over a new overlay of the committed state (never a pooled or shared object)", c.P.Rel(fn.Pos()), bad)
		}
	}
}
