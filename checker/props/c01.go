package props

import (
	"fmt"
	"go/token"
	"go/types"
	"sort"
	"strings"

	"golang.org/x/tools/go/ssa"

	"verif/checker/an"
)

func init() {
	register(&Prop{ID: "C01", Patterns: []string{"./..."}, Run: runC01})
}

// linear evaluates v as base+offset where base is an SSA value that is not
// itself an addition/subtraction of a constant.
func linear(v ssa.Value) (ssa.Value, int64, bool) {
	off := int64(0)
	for i := 0; i < 6; i++ {
		b, ok := v.(*ssa.BinOp)
		if !ok || (b.Op != token.ADD && b.Op != token.SUB) {
			return v, off, true
		}
		k, isK := b.Y.(*ssa.Const)
		if !isK || k.Value == nil {
			return v, off, true
		}
		n, exact := k.Int64(), true
		if !exact {
			return v, off, false
		}
		if b.Op == token.ADD {
			off += n
		} else {
			off -= n
		}
		v = b.X
	}
	return v, off, true
}

func runC01(c *an.Ctx) {
	c.Explanation = "A3 sequence + A4 confine on the commit and recovery mechanism: (1) submitBlock commits block store, event store, state store in this order and only then advances the in-memory height, every commit error aborts; " +
		"(2) batch discipline: between NewBatch and CommitTo nothing reachable from the save* helpers writes LevelDB directly, a LevelDB batch only reaches the database in BatchCommit (BatchPut/BatchDelete never write through), and the three CommitTo methods are called only by submitBlock, recoverStore and the reset helpers; " +
		"(3) LedgerStoreImp.init loads the current block, the header index and runs recoverStore, in order, before reporting success; recoverStore replays, per block, execute -> save state -> save events -> commit events -> commit state, never touches the block store, " +
		"and replays exactly the heights stateHeight+1 .. blockHeight (linear range rule over the loop's induction variable); (4) StateStore.init rejects a block-merkle tree size that disagrees with the height, NewFileHashStore checks the hash file and seeks to the size derived from the committed tree size (a torn tail is overwritten); " +
		"(5) the merkle hash file is appended only through CompactMerkleTree. Decides the structural mechanism recovery relies on, for all crash points; does not decide that replay recomputes identical state (that is C02's determinism)."
	if !controlGuard(c) || !controlConfine(c) {
		return
	}
	submit := mustFunc(c, lsImp+"submitBlock")
	recover := mustFunc(c, lsImp+"recoverStore")
	if sbm := mustFunc(c, lsImp+"submitBlock"); sbm != nil && recover != nil {
		replayCoversCommit(c, sbm, recover)
		if eb := c.P.Func(lsImp + "executeBlock"); eb != nil {
			replayReadsNoBlockStore(c, eb)
		}
	}
	initF := mustFunc(c, lsImp+"init")
	if submit == nil || recover == nil || initF == nil {
		return
	}
	// (1)
	sequenceOnSuccess(c, "sequence", "commit order block store -> event store -> state store -> in-memory height, each error tested (recovery assumes state height <= block height)", submit, []seqStep{
		step(c, "blockStore.NewBatch", ls+".(*BlockStore).NewBatch"),
		step(c, "saveBlockToBlockStore", lsImp+"saveBlockToBlockStore"),
		step(c, "saveBlockToStateStore", lsImp+"saveBlockToStateStore"),
		step(c, "blockStore.CommitTo", ls+".(*BlockStore).CommitTo"),
		step(c, "eventStore.CommitTo", ls+".(*EventStore).CommitTo"),
		step(c, "stateStore.CommitTo", ls+".(*StateStore).CommitTo"),
		step(c, "setCurrentBlock", lsImp+"setCurrentBlock"),
	}, true)
	for _, nb := range []string{"StateStore", "EventStore"} {
		o := mustObj(c, ls+".(*"+nb+").NewBatch")
		if o == nil {
			continue
		}
		var saves []ssa.Instruction
		saves = append(saves, callsIn(submit, mustObj(c, lsImp+"saveBlockToStateStore"), mustObj(c, lsImp+"saveBlockToEventStore"))...)
		ok, why := an.MustPass(c.P, submit, callsIn(submit, o), saves, nil)
		c.Check(ok && len(callsIn(submit, o)) == 1, "sequence|submitBlock|"+nb+".NewBatch<save", "a fresh batch is opened on the "+nb+" before anything is saved into it", c.P.Rel(submit.Pos()), why)
	}
	// (3) init order
	sequenceOnSuccess(c, "sequence", "opening the ledger loads the current block, rebuilds the header index and runs recovery, in order, each error aborts", initF, []seqStep{
		step(c, "loadCurrentBlock", lsImp+"loadCurrentBlock"),
		step(c, "loadHeaderIndexList", lsImp+"loadHeaderIndexList"),
		step(c, "recoverStore", lsImp+"recoverStore"),
	}, true)
	sequenceOnSuccess(c, "sequence", "recovery replays each missing block: fresh batches, execute, save state, save events, commit events, commit state — in order, each error aborts", recover, []seqStep{
		step(c, "stateStore.NewBatch", ls+".(*StateStore).NewBatch"),
		step(c, "executeBlock", lsImp+"executeBlock"),
		step(c, "saveBlockToStateStore", lsImp+"saveBlockToStateStore"),
		step(c, "saveBlockToEventStore", lsImp+"saveBlockToEventStore"),
		step(c, "eventStore.CommitTo", ls+".(*EventStore).CommitTo"),
		step(c, "stateStore.CommitTo", ls+".(*StateStore).CommitTo"),
	}, false)
	replayRange(c, recover)

	// (2) batch discipline on the call graph
	cg := c.P.CallGraph()
	direct := resolveAll(c, []string{
		"core/store/leveldbstore.(*LevelDBStore).Put", "core/store/leveldbstore.(*LevelDBStore).Delete", "core/store/leveldbstore.(*LevelDBStore).BatchCommit",
	})
	var saveRoots []*ssa.Function
	for _, n := range []string{"saveBlockToBlockStore", "saveBlockToStateStore", "saveBlockToEventStore", "tryPruneBlock"} {
		if f := mustFunc(c, lsImp+n); f != nil {
			saveRoots = append(saveRoots, f)
		}
	}
	confineNoReach(c, cg, "the save* helpers only fill the open batches: no direct LevelDB write and no commit is reachable from them", saveRoots, direct, an.ReachOpts{})
	// recovery never writes the block store
	blockWrites := resolveAll(c, []string{ls + ".(*BlockStore).CommitTo", ls + ".(*BlockStore).SaveBlock", ls + ".(*BlockStore).SaveCurrentBlock", ls + ".(*BlockStore).SaveBlockHash", ls + ".(*BlockStore).NewBatch"})
	confineNoReach(c, cg, "recovery replays into the state and event stores only; the block store (the source of truth) is not written", []*ssa.Function{recover}, blockWrites, an.ReachOpts{})
	// a LevelDB batch reaches the database only in BatchCommit; Put/Delete only from the store's own Put/Delete
	for _, spec := range []struct{ sink, onlyFrom string }{
		{"(*github.com/syndtr/goleveldb/leveldb.DB).Write", "(*core/store/leveldbstore.LevelDBStore).BatchCommit"},
		{"(*github.com/syndtr/goleveldb/leveldb.DB).Put", "(*core/store/leveldbstore.LevelDBStore).Put"},
		{"(*github.com/syndtr/goleveldb/leveldb.DB).Delete", "(*core/store/leveldbstore.LevelDBStore).Delete"},
	} {
		var sink *ssa.Function
		for fn := range cg.G.Nodes {
			if fn != nil && fn.String() == spec.sink {
				sink = fn
			}
		}
		if sink == nil {
			c.Undecide("anchor|"+spec.sink, "anchors must resolve", "-", "goleveldb method not found in the program")
			continue
		}
		n := 0
		for _, e := range cg.Callers(sink) {
			if !c.P.InRepo(e.Caller.Func) {
				continue
			}
			if strings.Contains(an.FuncPkgPath(e.Caller.Func), "/core/store/leveldbstore") {
				n++
				name := an.FuncName(e.Caller.Func)
				c.Check(name == spec.onlyFrom, "confine|"+spec.sink+"|"+name, "LevelDB is written only at the designated points: a batch reaches the database only in BatchCommit (BatchPut/BatchDelete never write through), single writes only in Put/Delete",
					c.P.Rel(e.Site.Pos()), name+" writes the database directly; a partially filled batch would become durable before CommitTo")
			}
		}
		c.RequireMin("callers of "+spec.sink+" in leveldbstore", n, 1)
	}
	// who may commit
	allowedCommit := map[string]bool{"submitBlock": true, "recoverStore": true, "ClearAll": true, "CheckStorage": true, "InitLedgerStoreWithGenesisBlock": true}
	for _, st := range []string{"StateStore", "BlockStore", "EventStore"} {
		f := mustFunc(c, ls+".(*"+st+").CommitTo")
		if f == nil {
			continue
		}
		// private helpers of an allowed committer are looked through (the sequence rules above cover them by
		// entering them from submitBlock / recoverStore)
		callers := entryCallers(c, cg, f, func(g *ssa.Function) bool { return allowedCommit[g.Name()] })
		var cs []*ssa.Function
		for g := range callers {
			cs = append(cs, g)
		}
		sort.Slice(cs, func(i, j int) bool { return cs[i].String() < cs[j].String() })
		for _, g := range cs {
			c.Check(allowedCommit[g.Name()], "confine|"+st+".CommitTo|"+an.FuncName(g), "store batches are committed only by submitBlock, recoverStore and the reset/check helpers (or private helpers called only from them)", c.P.Rel(callers[g].Pos()), "unexpected committer")
		}
	}

	// (4) consistency checks at open
	if si := mustFunc(c, ls+".(*StateStore).init"); si != nil {
		// the comparison of the block-merkle tree size with height+1, in either polarity (the height is init's
		// parameter whatever it is called; the test may sit in a private helper)
		isMismatchTest := func(v ssa.Value) (an.Abs, ssa.Value, bool) {
			b, ok := v.(*ssa.BinOp)
			if !ok || (b.Op != token.NEQ && b.Op != token.EQL) || len(si.Params) != 2 {
				return an.AUnknown, nil, false
			}
			size := ssa.Value(nil)
			for _, side := range [][2]ssa.Value{{b.X, b.Y}, {b.Y, b.X}} {
				base, off, _ := linear(side[1])
				if off == 1 && an.AccessPathIn(si, base) == si.Params[1].Name() {
					size = side[0]
				}
			}
			if size == nil {
				return an.AUnknown, nil, false
			}
			if b.Op == token.NEQ {
				return an.ATrue, size, true
			}
			return an.AFalse, size, true
		}
		cmp := an.FindValues(si, func(v ssa.Value) bool { _, _, ok := isMismatchTest(v); return ok })
		if len(cmp) >= 1 {
			mism, size, _ := isMismatchTest(cmp[0])
			g := &an.Guard{Name: "treeSize != height+1", FailValue: mism, MatchValue: func(v ssa.Value) bool { return v == cmp[0] }}
			// an empty (never persisted) tree is accepted: the rule speaks about a non-empty one
			extra := map[ssa.Value]an.Abs{}
			for _, v := range an.FindValues(si, func(v ssa.Value) bool { _, isB := v.(*ssa.BinOp); return isB }) {
				b := v.(*ssa.BinOp)
				isZero := func(x ssa.Value) bool {
					k, isK := x.(*ssa.Const)
					return isK && k.Value != nil && k.Value.String() == "0"
				}
				switch {
				case b.X == size && isZero(b.Y) && (b.Op == token.GTR || b.Op == token.NEQ), b.Y == size && isZero(b.X) && (b.Op == token.LSS || b.Op == token.NEQ):
					extra[b] = an.ATrue
				case (b.X == size && isZero(b.Y) || b.Y == size && isZero(b.X)) && b.Op == token.EQL:
					extra[b] = an.AFalse
				}
			}
			bad := ""
			an.RunAllFail(si, []*an.Guard{g}, extra, false, func(r *an.Result) {
				for _, ret := range an.Returns(si) {
					for _, st := range r.StatesAt(ret) {
						if a := r.Eval(ret.Results[0], st); a.K != an.KNonNil {
							bad = c.P.Rel(ret.Pos())
						}
					}
				}
			})
			c.Check(bad == "", "guard|StateStore.init|tree-size-vs-height", "the state store refuses to open when the persisted block-merkle tree size disagrees with the committed height", c.P.Rel(si.Pos()), "success return reachable at "+bad)
		} else {
			c.Violate("guard|StateStore.init|tree-size-vs-height", "the state store refuses to open when the persisted block-merkle tree size disagrees with the committed height", c.P.Rel(si.Pos()), "comparison treeSize != currBlockHeight+1 not found")
		}
	}
	if nf := mustFunc(c, "merkle.NewFileHashStore"); nf != nil {
		seqRule := "the hash file is checked against the committed tree size and positioned at the committed size before use (a torn tail after a crash is overwritten, not appended after)"
		// the consistency check, wherever it is written (in NewFileHashStore itself or in a private helper of it): the
		// file's size is compared with a quantity computed from the committed tree size, and the store is not handed
		// out on the "file is shorter" outcome
		var short []*an.Guard
		var shortBounds []ssa.Value
		for _, g := range an.InlineReach(nf) {
			for _, v := range an.FindValues(g, func(v ssa.Value) bool { _, isB := v.(*ssa.BinOp); return isB }) {
				b := v.(*ssa.BinOp)
				var fail an.Abs
				bound := b.Y
				if fromFileSize(b.Y) {
					bound = b.X
				}
				switch {
				case b.Op == token.LSS && fromFileSize(b.X) && dependsOnParamVia(nf, b.Y, nf.Params[1], 0),
					b.Op == token.GTR && fromFileSize(b.Y) && dependsOnParamVia(nf, b.X, nf.Params[1], 0):
					fail = an.ATrue
				case b.Op == token.GEQ && fromFileSize(b.X) && dependsOnParamVia(nf, b.Y, nf.Params[1], 0),
					b.Op == token.LEQ && fromFileSize(b.Y) && dependsOnParamVia(nf, b.X, nf.Params[1], 0):
					fail = an.AFalse
				default:
					continue
				}
				shortBounds = append(shortBounds, bound)
				bb := b
				short = append(short, &an.Guard{Name: "file size < committed hashes", FailValue: fail, MatchValue: func(x ssa.Value) bool { return x == ssa.Value(bb) }})
			}
		}
		if len(short) == 0 {
			c.Violate("guard|merkle.NewFileHashStore|file-not-shorter-than-committed", seqRule, c.P.Rel(nf.Pos()), "no comparison of the file's size (Stat().Size()) with the size computed from the committed tree size")
		} else {
			v := an.GuardedReturns(c.P, nf, short, an.SuccessSpecFor(nf.Signature), false)
			c.Check(v.Holds && v.ActionSites >= 1, "guard|merkle.NewFileHashStore|file-not-shorter-than-committed", seqRule, c.P.Rel(nf.Pos()), "a store is returned although the file holds fewer hashes than the committed tree: "+v.Witness)
		}
		sequenceOnSuccess(c, "sequence", seqRule, nf, []seqStep{
			step(c, "file.Seek", "os.(*File).Seek"),
		}, true)
		okArg := false
		seekKey := ""
		for _, k := range an.CallsToReach(nf, mustObj(c, "os.(*File).Seek")) {
			args := argsNoRecv(k.Common())
			if w, isC := args[1].(*ssa.Const); isC && w.Value != nil && w.Value.String() == "0" && dependsOnParamVia(nf, args[0], nf.Params[1], 0) {
				okArg = true
				seekKey = exprKey(nf, args[0], 0)
			}
		}
		c.Check(okArg, "same-subject|NewFileHashStore|seek-to-committed-size", "the seek offset is computed from the committed tree size, from the start of the file", c.P.Rel(nf.Pos()), "Seek offset does not depend on tree_size or is not SeekStart")
		// what the file's size is checked against is the very offset the file is then positioned at
		if okArg && len(shortBounds) > 0 {
			same := true
			for _, b := range shortBounds {
				if exprKey(nf, b, 0) != seekKey {
					same = false
				}
			}
			c.Check(same, "same-subject|NewFileHashStore|checked-size-is-seek-offset", "the size the hash file must at least have is the offset writing resumes at (both computed the same way from the committed tree size)", c.P.Rel(nf.Pos()),
				"file size compared with "+exprKey(nf, shortBounds[0], 0)+" but positioned at "+seekKey)
		}
	}
	// (5) who appends the hash file
	if ap := mustFunc(c, "merkle.(*fileHashStore).Append"); ap != nil {
		for _, e := range cg.Callers(ap) {
			if !c.P.InRepo(e.Caller.Func) || strings.HasSuffix(c.P.Fset.Position(e.Caller.Func.Pos()).Filename, "_test.go") {
				continue
			}
			n := an.FuncName(e.Caller.Func)
			c.Check(strings.HasPrefix(n, "(*merkle.CompactMerkleTree)."), "confine|fileHashStore.Append|"+n, "the merkle hash file is appended only by CompactMerkleTree", c.P.Rel(e.Site.Pos()), "unexpected writer of the hash file")
		}
	}
}

func mustBase(v ssa.Value) ssa.Value {
	b, _, _ := linear(v)
	return b
}

// dependsOnParam: v is computed (through calls, arithmetic, conversions) from p.
func dependsOnParam(v ssa.Value, p *ssa.Parameter, depth int) bool {
	if v == p {
		return true
	}
	if depth > 8 {
		return false
	}
	if in, ok := v.(ssa.Instruction); ok {
		for _, op := range in.Operands(nil) {
			if *op != nil && dependsOnParam(*op, p, depth+1) {
				return true
			}
		}
	}
	return false
}

// dependsOnParamVia is dependsOnParam for a value that may live in a private helper of root: a helper's parameter
// stands for the argument it was given.
func dependsOnParamVia(root *ssa.Function, v ssa.Value, p *ssa.Parameter, depth int) bool {
	if v == ssa.Value(p) {
		return true
	}
	if depth > 10 {
		return false
	}
	if q, isP := v.(*ssa.Parameter); isP {
		if a := an.ResolveActual(root, q); a != ssa.Value(q) {
			return dependsOnParamVia(root, a, p, depth+1)
		}
		return false
	}
	if in, ok := v.(ssa.Instruction); ok {
		for _, op := range in.Operands(nil) {
			if *op != nil && dependsOnParamVia(root, *op, p, depth+1) {
				return true
			}
		}
	}
	return false
}

// fromFileSize: v is (a conversion of) the result of Size() on a file's FileInfo.
func fromFileSize(v ssa.Value) bool {
	for i := 0; i < 4; i++ {
		switch x := v.(type) {
		case *ssa.Convert:
			v = x.X
			continue
		case *ssa.ChangeType:
			v = x.X
			continue
		case *ssa.Call:
			if x.Call.Method != nil && x.Call.Method.Name() == "Size" {
				if nm, isN := types.Unalias(x.Call.Value.Type()).(*types.Named); isN && nm.Obj().Pkg() != nil && (nm.Obj().Pkg().Path() == "io/fs" || nm.Obj().Pkg().Path() == "os") {
					return true
				}
			}
		}
		return false
	}
	return false
}

// replayRange decides the fixed C01 defect's rule: the loop in recoverStore
// that fetches blocks by height replays exactly stateHeight+1 .. blockHeight.
func replayRange(c *an.Ctx, fn *ssa.Function) {
	key := "range|recoverStore|replays-stateHeight+1..blockHeight"
	rule := "recovery replays exactly the blocks the state store is missing: first replayed height = committed state height + 1, last = block-store height (linear rule over the loop's induction variable)"
	getHash := mustObj(c, ls+".(*BlockStore).GetBlockHash")
	if getHash == nil {
		return
	}
	calls := an.CallsToReach(fn, getHash)
	if len(calls) != 1 {
		c.Undecide(key, rule, c.P.Rel(fn.Pos()), fmt.Sprintf("%d GetBlockHash calls", len(calls)))
		return
	}
	// when the loop body lives in a helper, the height is the helper's parameter: follow it to the loop
	arg := an.ResolveActual(fn, argsNoRecv(calls[0].Common())[0])
	base, off, ok := linear(arg)
	phi, isPhi := base.(*ssa.Phi)
	if !ok || !isPhi {
		c.Undecide(key, rule, c.P.Rel(calls[0].Pos()), "height argument is not induction variable + constant")
		return
	}
	// initial value and step
	var init ssa.Value
	step := int64(0)
	for i, e := range phi.Edges {
		pred := phi.Block().Preds[i]
		if phi.Block().Dominates(pred) {
			b, o, _ := linear(e)
			if b == phi {
				step = o
			}
		} else {
			init = e
		}
	}
	if init == nil || step != 1 {
		c.Undecide(key, rule, c.P.Rel(calls[0].Pos()), "loop is not a unit-step counting loop")
		return
	}
	ib, ioff, _ := linear(init)
	first := ioff + off
	// loop condition
	hdr := phi.Block()
	iff, isIf := hdr.Instrs[len(hdr.Instrs)-1].(*ssa.If)
	if !isIf {
		c.Undecide(key, rule, c.P.Rel(calls[0].Pos()), "loop header has no condition")
		return
	}
	cond, isB := iff.Cond.(*ssa.BinOp)
	if !isB {
		c.Undecide(key, rule, c.P.Rel(calls[0].Pos()), "loop condition is not a comparison")
		return
	}
	cb, coff, _ := linear(cond.X)
	bb, boff, _ := linear(cond.Y)
	op := cond.Op
	if cb != phi && bb == ssa.Value(phi) {
		// bound (op) i: mirror
		cb, coff, bb, boff = bb, boff, cb, coff
		op = map[token.Token]token.Token{token.LSS: token.GTR, token.GTR: token.LSS, token.LEQ: token.GEQ, token.GEQ: token.LEQ}[op]
	}
	if cb != phi {
		c.Undecide(key, rule, c.P.Rel(calls[0].Pos()), "loop condition does not test the induction variable")
		return
	}
	// the condition may be the exit test (`if i > last { break }`): the iteration continues on its false edge
	if body := calls[0].Block(); body.Parent() == hdr.Parent() && !hdr.Succs[0].Dominates(body) && hdr.Succs[1].Dominates(body) {
		op = map[token.Token]token.Token{token.LSS: token.GEQ, token.GEQ: token.LSS, token.LEQ: token.GTR, token.GTR: token.LEQ}[op]
	}
	// last i satisfies i+coff (op) bound+boff
	var lastRel int64 // last replayed height = bound + lastRel
	switch op {
	case token.LSS:
		lastRel = boff - coff - 1 + off
	case token.LEQ:
		lastRel = boff - coff + off
	default:
		c.Undecide(key, rule, c.P.Rel(calls[0].Pos()), "loop condition operator "+cond.Op.String())
		return
	}
	// identify the symbols: init base must be the state store's height, bound the block store's
	stateOK, blockOK := false, false
	if e, isE := ib.(*ssa.Extract); isE {
		if k, isC := e.Tuple.(*ssa.Call); isC && k.Call.StaticCallee() != nil && strings.HasSuffix(k.Call.StaticCallee().String(), "StateStore).GetCurrentBlock") && e.Index == 1 {
			stateOK = true
		}
	}
	if k, isC := bb.(*ssa.Call); isC && k.Call.StaticCallee() != nil && k.Call.StaticCallee().Name() == "GetCurrentBlockHeight" {
		blockOK = true
	}
	detail := fmt.Sprintf("first replayed height = stateHeight%+d, last replayed height = blockHeight%+d (state symbol ok=%v, block symbol ok=%v)", first, lastRel, stateOK, blockOK)
	if !stateOK || !blockOK {
		c.Undecide(key, rule, c.P.Rel(calls[0].Pos()), detail)
		return
	}
	c.Check(first == 1 && lastRel == 0, key, rule, c.P.Rel(calls[0].Pos()), detail)
	// the block fetched by that hash is the one executed
	c.Count("callsites_analysed", 1)
}
