package props

import (
	"fmt"
	"go/token"
	"strings"

	"golang.org/x/tools/go/ssa"

	"verif/checker/an"
)

const kb = "p2pserver/dht/kbucket"

func init() {
	register(&Prop{ID: "C37", Patterns: []string{"./p2pserver/dht/kbucket"}, Run: runC37})
}

func runC37(c *an.Ctx) {
	c.Explanation = "A2 guards + A4 who-may-insert + A11 siblings + A14 critical sections on the DHT routing table: (1) peers enter a bucket only through Bucket.PushFront, called only by RouteTable.Update, and every such call is unreachable when the capacity comparison of the bucket being pushed to (Len() against bucketsize) fails and when Bucket.Has reported the peer as present — no bucket can grow beyond the bucket size, no peer is inserted twice; " +
		"(2) Update, Remove and NearestPeers select the bucket the same way: the common-prefix length with the local id, clamped to the last bucket; (3) every mutation of the table (PushFront, MoveToFront, Remove, nextBucket) happens between tabLock.Lock and the deferred Unlock; (4) Bucket.Split moves a peer to the new bucket exactly when it removes it from the old one (same element, one append per removal); " +
		"(5) NearestPeers sorts the candidates with a comparator on the XOR distance to the target before truncating to the requested count. Decides these structural necessary conditions for all update/remove sequences; that every peer of a bucket has the matching prefix length after unfolding, and the completeness of the nearest set, are algorithmic and not decided."
	if !controlGuard(c) {
		return
	}
	update := mustFunc(c, kb+".(*RouteTable).Update")
	remove := mustFunc(c, kb+".(*RouteTable).Remove")
	nearest := mustFunc(c, kb+".(*RouteTable).NearestPeers")
	next := mustFunc(c, kb+".(*RouteTable).nextBucket")
	split := mustFunc(c, kb+".(*Bucket).Split")
	push := mustObj(c, kb+".(*Bucket).PushFront")
	has := mustObj(c, kb+".(*Bucket).Has")
	blen := mustObj(c, kb+".(*Bucket).Len")
	if update == nil || remove == nil || nearest == nil || next == nil || split == nil || push == nil || has == nil || blen == nil {
		return
	}
	fns := c.P.RepoSrcFuncs(kb)
	// (1) who may insert
	nPush := 0
	for _, fn := range fns {
		if strings.HasSuffix(c.P.Fset.Position(fn.Pos()).Filename, "_test.go") {
			continue
		}
		for _, k := range an.CallsTo(fn, push) {
			nPush++
			// Update itself, or a private helper that only Update calls (the rules below enter it from Update)
			inUpdate := false
			for _, g := range an.InlineReach(update) {
				if g == fn {
					inUpdate = true
				}
			}
			onlyFromUpdate := fn == update
			if inUpdate && fn != update {
				onlyFromUpdate = true
				for _, g := range fns {
					if g == update || strings.HasSuffix(c.P.Fset.Position(g.Pos()).Filename, "_test.go") {
						continue
					}
					for _, kk := range an.Calls(g) {
						if kk.Common().StaticCallee() == fn && g != fn {
							onlyFromUpdate = false
						}
					}
				}
			}
			c.Check(onlyFromUpdate, "confine|Bucket.PushFront|"+an.FuncName(fn), "peers are inserted into a bucket only by RouteTable.Update", c.P.Rel(k.Pos()), "new inserter")
		}
	}
	c.RequireMin("Bucket.PushFront call sites", nPush, 1)
	isPush := func(in ssa.Instruction) bool { return isCallTo(in, push) }
	capacity := &an.Guard{Name: "Len() vs bucketsize", MatchValue: func(v ssa.Value) bool { return false }}
	// comparisons of a Bucket.Len() result with rt.bucketsize
	asNoRoom := map[ssa.Value]an.Abs{}
	nCmp := 0
	// "there is room": Len() < bucketsize, in any spelling (bucketsize > Len(), !(Len() >= bucketsize), ...)
	isLenCall := func(x ssa.Value) bool {
		k, isK := x.(*ssa.Call)
		return isK && an.CalleeObj(k.Common()) == blen
	}
	isBucketSize := func(y ssa.Value) bool {
		f := fieldOfLoad(y)
		return f != nil && f.Name() == "bucketsize"
	}
	lenCallOf := func(cmp ssa.Value) *ssa.Call {
		b := cmp.(*ssa.BinOp)
		if isLenCall(b.X) {
			return b.X.(*ssa.Call)
		}
		return b.Y.(*ssa.Call)
	}
	for _, v := range an.FindValues(update, func(v ssa.Value) bool { m, _ := relMatch(v, token.LSS, isLenCall, isBucketSize); return m }) {
		nCmp++
		if _, roomWhenTrue := relMatch(v, token.LSS, isLenCall, isBucketSize); roomWhenTrue {
			asNoRoom[v] = an.AFalse
		} else {
			asNoRoom[v] = an.ATrue
		}
	}
	_ = capacity
	v := an.GuardedX(c.P, update, nil, asNoRoom, isPush, false)
	c.Check(v.Holds && nCmp >= 2 && v.ActionSites >= 1, "guard|RouteTable.Update|insert-only-with-room", "a peer is pushed into a bucket only on the edge where that bucket's Len() is below the bucket size", c.P.Rel(update.Pos()), v.Witness)
	// each push is dominated by a capacity comparison on the same bucket value; a push made in a private helper
	// (addNewPeer(bucket, pair)) is judged at each call of that helper in Update, for the bucket passed there
	okSame := true
	type pushAt struct {
		at   ssa.Instruction
		recv ssa.Value
	}
	var pushesAt []pushAt
	for _, k := range an.CallsToReach(update, push) {
		recv := recvOf(k.Common())
		if k.Parent() == update {
			pushesAt = append(pushesAt, pushAt{k, recv})
			continue
		}
		p, isP := recv.(*ssa.Parameter)
		sites := an.SitesOf(update, k.Parent())
		if !isP || len(sites) == 0 {
			okSame = false
			continue
		}
		for i, fp := range k.Parent().Params {
			if fp != p {
				continue
			}
			for _, s := range sites {
				if s.Parent() == update && i < len(s.Call.Args) {
					pushesAt = append(pushesAt, pushAt{s, s.Call.Args[i]})
				} else {
					okSame = false
				}
			}
		}
	}
	for _, pa := range pushesAt {
		found := false
		for cmp := range asNoRoom {
			lk := lenCallOf(cmp)
			if recvOf(lk.Common()) == pa.recv && lk.Block().Dominates(pa.at.Block()) {
				found = true
			}
		}
		if !found {
			okSame = false
		}
	}
	if len(pushesAt) == 0 {
		okSame = false
	}
	c.Check(okSame, "same-subject|RouteTable.Update|capacity-of-the-pushed-bucket", "the capacity test that guards an insertion is on the very bucket that is pushed to", c.P.Rel(update.Pos()), "a push is not dominated by Len() of its own bucket")
	present := &an.Guard{Name: "Bucket.Has", FailModes: [][]an.Abs{{an.ATrue}}, MatchCall: func(k ssa.CallInstruction) bool { return an.CalleeObj(k.Common()) == has }}
	v = an.Guarded(c.P, update, []*an.Guard{present}, isPush, false)
	c.Check(v.Holds && v.GuardSites >= 1, "guard|RouteTable.Update|insert-only-if-absent", "a peer that is already in its bucket is moved to the front, never pushed again", c.P.Rel(update.Pos()), v.Witness)

	// (2) bucket selection
	for _, fn := range []*ssa.Function{update, remove, nearest} {
		n, why := 0, "no Buckets[...] access indexed by the clamped prefix length"
		ok := true
		var unfolds []ssa.Instruction
		for _, k := range an.Calls(fn) {
			if f := k.Common().StaticCallee(); f == next {
				unfolds = append(unfolds, k)
			}
		}
		// fn and the private helpers it is split into (the clamp helper itself indexes nothing)
		var blocks []*ssa.BasicBlock
		for _, g := range an.InlineReach(fn) {
			blocks = append(blocks, g.Blocks...)
		}
		for _, b := range blocks {
			for _, in := range b.Instrs {
				ia, isIA := in.(*ssa.IndexAddr)
				if !isIA {
					continue
				}
				if f := fieldOfLoad(ia.X); f == nil || f.Name() != "Buckets" {
					continue
				}
				lens, w := clampedCPL(ia.Index)
				if w != "" {
					// NearestPeers also walks the neighbouring buckets by loop index
					if fn != nearest {
						ok, why = false, c.P.Rel(ia.Pos())+": "+w
					}
					continue
				}
				n++
				// the length the index was clamped with is the table's length at the access: no unfolding in between
				for _, k := range unfolds {
					if !(&an.Query{Fn: fn, Start: k}).Run().Reaches(ia) {
						continue
					}
					cut := map[ssa.Instruction]bool{}
					for _, l := range lens {
						cut[l] = true
					}
					if (&an.Query{Fn: fn, Start: k, Cut: cut}).Run().Reaches(ia) {
						ok, why = false, c.P.Rel(ia.Pos())+": the index was clamped with the number of buckets read before nextBucket() at "+c.P.Rel(k.Pos())+" changed it"
					}
				}
			}
		}
		c.Check(ok && n >= 1, "siblings|"+an.FuncName(fn)+"|bucket-is-clamped-cpl", "every bucket access selects the bucket by the common-prefix length with the local id, clamped to the current last bucket (the same rule in Update, Remove and NearestPeers)", c.P.Rel(fn.Pos()), why)
	}

	// (3) critical sections
	for _, fn := range []*ssa.Function{update, remove} {
		var lock ssa.Instruction
		deferred := false
		for _, k := range an.Calls(fn) {
			o := an.CalleeObj(k.Common())
			if o == nil {
				continue
			}
			if f := fieldOfLoadAddr(recvOf(k.Common())); f != "tabLock" {
				continue
			}
			switch o.Name() {
			case "Lock":
				if _, isCall := k.(*ssa.Call); isCall && lock == nil {
					lock = k
				}
			case "Unlock":
				if _, isDefer := k.(*ssa.Defer); isDefer {
					deferred = true
				} else {
					lock = nil
					deferred = false
				}
			}
		}
		ok := lock != nil && deferred
		if ok {
			for _, k := range an.Calls(fn) {
				o := an.CalleeObj(k.Common())
				if o == nil {
					continue
				}
				switch o.Name() {
				case "PushFront", "MoveToFront", "Remove", "nextBucket":
					if strings.HasSuffix(an.FuncPkgPath(fn), "kbucket") && !lock.Block().Dominates(k.Block()) {
						ok = false
					}
				}
			}
		}
		c.Check(ok, "atomic|"+an.FuncName(fn)+"|mutations-under-tabLock", "the table is mutated only between tabLock.Lock and the deferred Unlock", c.P.Rel(fn.Pos()), "a bucket mutation is not dominated by tabLock.Lock, or the lock is released early")
	}
	// nextBucket is only called from Update (under the lock) or itself
	for _, fn := range fns {
		for _, k := range an.Calls(fn) {
			if k.Common().StaticCallee() == next {
				c.Check(fn == update || fn == next, "confine|nextBucket|"+an.FuncName(fn), "the table is unfolded only from Update (under the table lock)", c.P.Rel(k.Pos()), "new caller of nextBucket")
			}
		}
	}

	// (4) Split: one PushBack per Remove, same element
	var removes, pushes []ssa.CallInstruction
	for _, k := range an.Calls(split) {
		if f := k.Common().StaticCallee(); f != nil {
			switch f.String() {
			case "(*container/list.List).Remove":
				removes = append(removes, k)
			case "(*container/list.List).PushBack":
				pushes = append(pushes, k)
			}
		}
	}
	okSplit := len(removes) == 1 && len(pushes) == 1
	if okSplit {
		okSplit = removes[0].Block() == pushes[0].Block()
		// the pushed value is the Value of the removed element
		pv := pushes[0].Common().Args[1]
		re := removes[0].Common().Args[1]
		// e.Value, possibly asserted to its concrete type and boxed again (pair := e.Value.(T); PushBack(pair))
		for i := 0; i < 5; i++ {
			switch x := pv.(type) {
			case *ssa.MakeInterface:
				pv = x.X
			case *ssa.TypeAssert:
				pv = x.X
			case *ssa.Extract:
				if ta, isTA := x.Tuple.(*ssa.TypeAssert); isTA {
					pv = ta.X
				}
			case *ssa.UnOp:
				// a local copy of the asserted value (spilled because a field of it is read)
				if al, isAl := x.X.(*ssa.Alloc); isAl && al.Referrers() != nil {
					var stored ssa.Value
					n := 0
					for _, r := range *al.Referrers() {
						if st, isSt := r.(*ssa.Store); isSt && st.Addr == ssa.Value(al) {
							stored = st.Val
							n++
						}
					}
					if n == 1 {
						pv = stored
					}
				}
			}
		}
		if u, ok := pv.(*ssa.UnOp); ok {
			if fa, isFA := u.X.(*ssa.FieldAddr); !isFA || fa.X != re {
				okSplit = false
			}
		} else {
			okSplit = false
		}
	}
	c.Check(okSplit, "pair|Bucket.Split|moved-iff-removed", "Split appends an element to the new bucket exactly when it removes that element from the old one", c.P.Rel(split.Pos()), fmt.Sprintf("%d removals, %d appends", len(removes), len(pushes)))

	// (5) NearestPeers sorts before truncating; the comparator compares distances
	var sortCall ssa.Instruction
	for _, k := range an.Calls(nearest) {
		f := k.Common().StaticCallee()
		if f == nil {
			continue
		}
		// the sorter's own sort() method, or sort.Sort / sort.Stable applied to the sorter directly
		if f.Name() == "sort" && strings.Contains(f.String(), "peerDistanceSorter") {
			sortCall = k
		}
		if (f.String() == "sort.Sort" || f.String() == "sort.Stable") && len(k.Common().Args) == 1 {
			a := k.Common().Args[0]
			if mi, isMI := a.(*ssa.MakeInterface); isMI {
				a = mi.X
			}
			if strings.Contains(a.Type().String(), "peerDistanceSorter") {
				sortCall = k
			}
		}
	}
	okSort := sortCall != nil
	if okSort {
		for _, b := range nearest.Blocks {
			for _, in := range b.Instrs {
				if sl, isSl := in.(*ssa.Slice); isSl && sl.High != nil {
					if f := fieldOfLoad(sl.X); f != nil && f.Name() == "peers" && !sortCall.Block().Dominates(sl.Block()) {
						okSort = false
					}
				}
			}
		}
	}
	c.Check(okSort, "order|NearestPeers|sorted-before-truncation", "candidates are sorted by distance before the list is cut to the requested count", c.P.Rel(nearest.Pos()), "truncation is not dominated by the sort")
	if less := mustFunc(c, kb+".(*peerDistanceSorter).Less"); less != nil {
		ok := false
		for _, k := range an.Calls(less) {
			if f := k.Common().StaticCallee(); f != nil && f.String() == "bytes.Compare" {
				a0, a1 := k.Common().Args[0], k.Common().Args[1]
				if mentionsFieldName(a0, "distance") && mentionsFieldName(a1, "distance") {
					ok = true
				}
			}
		}
		c.Check(ok, "order|peerDistanceSorter.Less|compares-distance", "the comparator orders candidates by their XOR distance to the target", c.P.Rel(less.Pos()), "Less does not compare the distance fields")
	}
	if ap := mustFunc(c, kb+".(*peerDistanceSorter).appendPeer"); ap != nil {
		ok := false
		for _, k := range an.Calls(ap) {
			if o := an.CalleeObj(k.Common()); o != nil && o.Name() == "Distance" {
				if f := fieldOfLoad(recvOf(k.Common())); f != nil && f.Name() == "target" {
					ok = true
				}
			}
		}
		c.Check(ok, "order|peerDistanceSorter.appendPeer|distance-to-target", "each candidate's distance is computed to the query target", c.P.Rel(ap.Pos()), "distance is not target.Distance(peer)")
	}
}

// clampedCPL: idx is phi(cpl, len(rt.Buckets)-1) with cpl a CommonPrefixLen result.
// clampedCPL decides whether idx is min(CommonPrefixLen(..), len(rt.Buckets)-1): a merge whose leaves are the
// prefix length and "number of buckets minus one", the latter chosen exactly when the prefix length is not below
// the number of buckets. It returns the loads of rt.Buckets whose length was used (for the freshness rule).
func clampedCPL(idx ssa.Value) (lens []ssa.Instruction, why string) {
	if call, isCall := idx.(*ssa.Call); isCall {
		return clampedByHelper(call)
	}
	ph, ok := idx.(*ssa.Phi)
	if !ok {
		return nil, "the index is not a clamped prefix length"
	}
	isCPL := func(v ssa.Value) bool {
		if cv, isCv := v.(*ssa.Convert); isCv {
			v = cv.X
		}
		k, isK := v.(*ssa.Call)
		if !isK {
			return false
		}
		f := k.Call.StaticCallee()
		return f != nil && f.Name() == "CommonPrefixLen"
	}
	lenOfBuckets := func(v ssa.Value) ssa.Instruction {
		k, isC := v.(*ssa.Call)
		if !isC {
			return nil
		}
		if bi, isB := k.Call.Value.(*ssa.Builtin); !isB || bi.Name() != "len" {
			return nil
		}
		if f := fieldOfLoad(k.Call.Args[0]); f == nil || f.Name() != "Buckets" {
			return nil
		}
		ld, _ := k.Call.Args[0].(*ssa.UnOp)
		if ld == nil {
			return nil
		}
		return ld
	}
	lastBucket := func(v ssa.Value) ssa.Instruction {
		x, isB := v.(*ssa.BinOp)
		if !isB || x.Op != token.SUB {
			return nil
		}
		if k, isK := x.Y.(*ssa.Const); !isK || k.Int64() != 1 {
			return nil
		}
		return lenOfBuckets(x.X)
	}
	cpl, clamp := false, false
	seen := map[*ssa.Phi]bool{}
	var walk func(p *ssa.Phi)
	walk = func(p *ssa.Phi) {
		if seen[p] {
			return
		}
		seen[p] = true
		for i, e := range p.Edges {
			switch {
			case isCPL(e):
				cpl = true
			case lastBucket(e) != nil:
				clamp = true
				lens = append(lens, lastBucket(e))
				// the clamp is taken exactly when cpl >= len(Buckets): simple diamond only
				pred := p.Block().Preds[i]
				if len(pred.Preds) == 1 {
					if iff, isIf := pred.Preds[0].Instrs[len(pred.Preds[0].Instrs)-1].(*ssa.If); isIf {
						if cmp, isCmp := iff.Cond.(*ssa.BinOp); isCmp {
							onTrue := pred.Preds[0].Succs[0] == pred
							var want token.Token
							switch {
							case isCPL(cmp.X) && lenOfBuckets(cmp.Y) != nil:
								want = token.GEQ
								if !onTrue {
									want = token.LSS
								}
							case lenOfBuckets(cmp.X) != nil && isCPL(cmp.Y):
								want = token.LEQ
								if !onTrue {
									want = token.GTR
								}
							case isCPL(cmp.X) && lastBucket(cmp.Y) != nil:
								want = token.GTR
								if !onTrue {
									want = token.LEQ
								}
							default:
								continue
							}
							// the comparison reads the number of buckets too: either read makes the index current
							for _, o := range []ssa.Value{cmp.X, cmp.Y} {
								if l := lenOfBuckets(o); l != nil {
									lens = append(lens, l)
								} else if l := lastBucket(o); l != nil {
									lens = append(lens, l)
								}
							}
							if cmp.Op != want {
								why = "the last bucket is chosen under the condition '" + cmp.Op.String() + "', not exactly when the prefix length reaches the number of buckets"
							}
						}
					}
				}
			default:
				if q, isPhi := e.(*ssa.Phi); isPhi {
					walk(q)
				} else {
					why = "the index can be a value that is neither the prefix length nor the last bucket"
				}
			}
		}
	}
	walk(ph)
	if why == "" && !(cpl && clamp) {
		why = "the index is not the prefix length clamped to the last bucket"
	}
	return lens, why
}

// clampedByHelper: the index is computed by a private helper of the table, h(cpl), every return of which is either
// its parameter - on the side of the comparison where the parameter is below the number of buckets - or
// len(Buckets)-1 - on the other side. The helper reads the number of buckets when it is called, so the call itself
// is the "length read" for the freshness rule.
func clampedByHelper(call *ssa.Call) (lens []ssa.Instruction, why string) {
	h := call.Call.StaticCallee()
	if h == nil || h.Blocks == nil || h.Object() == nil || h.Object().Exported() || h.Pkg != call.Parent().Pkg {
		return nil, "the index is not a clamped prefix length"
	}
	isCPLCall := func(v ssa.Value) bool {
		if cv, isCv := v.(*ssa.Convert); isCv {
			v = cv.X
		}
		k, isK := v.(*ssa.Call)
		return isK && k.Call.StaticCallee() != nil && k.Call.StaticCallee().Name() == "CommonPrefixLen"
	}
	var param *ssa.Parameter
	for i, a := range call.Call.Args {
		// the prefix length, directly or as the (re-assigned) local that holds it
		ok := isCPLCall(a)
		if ph, isPhi := a.(*ssa.Phi); isPhi && !ok {
			for _, e := range ph.Edges {
				ok = ok || isCPLCall(e)
			}
		}
		if ok && i < len(h.Params) {
			param = h.Params[i]
		}
	}
	if param == nil {
		return nil, "the bucket index helper is not given the common-prefix length"
	}
	lenOfBuckets := func(v ssa.Value) bool {
		k, isC := v.(*ssa.Call)
		if !isC {
			return false
		}
		if bi, isB := k.Call.Value.(*ssa.Builtin); !isB || bi.Name() != "len" {
			return false
		}
		f := fieldOfLoad(k.Call.Args[0])
		return f != nil && f.Name() == "Buckets"
	}
	lastBucket := func(v ssa.Value) bool {
		x, isB := v.(*ssa.BinOp)
		if !isB || x.Op != token.SUB {
			return false
		}
		k, isK := x.Y.(*ssa.Const)
		return isK && k.Int64() == 1 && lenOfBuckets(x.X)
	}
	// side(b): +1 if block b is only reachable where param >= len(Buckets), -1 where param < len(Buckets), 0 unknown
	side := func(b *ssa.BasicBlock) int {
		for d := b; d != nil; d = d.Idom() {
			p := d.Idom()
			if p == nil {
				break
			}
			iff, isIf := p.Instrs[len(p.Instrs)-1].(*ssa.If)
			if !isIf || len(d.Preds) != 1 || d.Preds[0] != p {
				continue
			}
			cmp, isCmp := iff.Cond.(*ssa.BinOp)
			if !isCmp {
				continue
			}
			onTrue := p.Succs[0] == d
			x, y := cmp.X, cmp.Y
			if cv, isCv := x.(*ssa.Convert); isCv {
				x = cv.X
			}
			ge := 0 // +1: cond true means param >= len; -1: cond true means param < len
			switch {
			case x == ssa.Value(param) && lenOfBuckets(y) && cmp.Op == token.GEQ:
				ge = 1
			case x == ssa.Value(param) && lenOfBuckets(y) && cmp.Op == token.LSS:
				ge = -1
			case x == ssa.Value(param) && lastBucket(y) && cmp.Op == token.GTR:
				ge = 1
			case x == ssa.Value(param) && lastBucket(y) && cmp.Op == token.LEQ:
				ge = -1
			case lenOfBuckets(x) && y == ssa.Value(param) && cmp.Op == token.LEQ:
				ge = 1
			case lenOfBuckets(x) && y == ssa.Value(param) && cmp.Op == token.GTR:
				ge = -1
			default:
				continue
			}
			if !onTrue {
				ge = -ge
			}
			return ge
		}
		return 0
	}
	nParam, nLast := 0, 0
	for _, r := range an.Returns(h) {
		if len(r.Results) != 1 {
			return nil, "the bucket index helper does not return one index"
		}
		for _, v := range an.AllSources(r.Results[0]) {
			if cv, isCv := v.(*ssa.Convert); isCv {
				v = cv.X
			}
			switch {
			case v == ssa.Value(param):
				nParam++
				if side(r.Block()) != -1 {
					return nil, "the bucket index helper returns the prefix length where it is not known to be below the number of buckets"
				}
			case lastBucket(v):
				nLast++
				if side(r.Block()) != 1 {
					return nil, "the bucket index helper returns the last bucket where the prefix length may have a bucket of its own"
				}
			default:
				return nil, "the bucket index helper can return a value that is neither the prefix length nor the last bucket"
			}
		}
	}
	if nParam == 0 || nLast == 0 {
		return nil, "the bucket index helper does not clamp the prefix length to the last bucket"
	}
	return []ssa.Instruction{call}, ""
}

func fieldOfLoadAddr(v ssa.Value) string {
	if fa, ok := v.(*ssa.FieldAddr); ok {
		if f := an.FieldOf(fa); f != nil {
			return f.Name()
		}
	}
	if f := fieldOfLoad(v); f != nil {
		return f.Name()
	}
	return ""
}

func mentionsFieldName(v ssa.Value, name string) bool {
	seen := map[ssa.Value]bool{}
	var walk func(v ssa.Value, d int) bool
	walk = func(v ssa.Value, d int) bool {
		if v == nil || seen[v] || d > 8 {
			return false
		}
		seen[v] = true
		if fa, ok := v.(*ssa.FieldAddr); ok {
			if f := an.FieldOf(fa); f != nil && f.Name() == name {
				return true
			}
		}
		if in, ok := v.(ssa.Instruction); ok {
			for _, op := range in.Operands(nil) {
				if *op != nil && walk(*op, d+1) {
					return true
				}
			}
		}
		return false
	}
	return walk(v, 0)
}
