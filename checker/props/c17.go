package props

import (
	"fmt"
	"go/token"
	"go/types"
	"sort"
	"strings"

	"golang.org/x/tools/go/ssa"

	"verif/checker/an"
)

func init() {
	register(&Prop{ID: "C17", Patterns: []string{"./core/types", "./core/validation", "./core/program", "./common"}, Run: runC17})
}

func runC17(c *an.Ctx) {
	c.Explanation = "A11 siblings + A5 frame on the writers of Transaction.SignedAddr (the witness set contracts see): the writers are enumerated (only TransactionFromEIP155, Transaction.GetSignatureAddresses and the validator's checkTransactionSignatures may assign it); for each, the address constructors feeding the stored list are extracted, and the two Ontology-format writers — the validator and the fallback used by nodes that receive sealed blocks — must use the same derivation; " +
		"the stored list may only be built by appending constructed addresses (no zero-valued tail from a pre-sized make); and the address derivation functions must be pure functions of their arguments (no process-wide mutable state such as caches on the derivation path). Decides these necessary conditions for 'same bytes, same signer set on every node'; does not decide equality of derived addresses as values."
	signedAddrRule(c)
	// purity of derivation functions w.r.t. process-wide mutable state
	var roots []*ssa.Function
	for _, n := range []string{"core/types.AddressFromPubKey", "core/types.AddressFromMultiPubKeys", "core/types.AddressFromBookkeepers", "common.AddressFromVmCode",
		"core/program.ProgramFromPubKey", "core/program.ProgramFromMultiPubKey", "core/program.GetProgramInfo",
		// the two writers of the signer set themselves (seed C17c: a verified-signers cache keyed by the hash of the
		// unsigned body makes the signer set depend on what this node verified before)
		"core/validation.checkTransactionSignatures", "core/types.(*Transaction).GetSignatureAddresses"} {
		if fn := mustFunc(c, n); fn != nil {
			roots = append(roots, fn)
		}
	}
	fns := staticReachFrom(c, roots)
	c.Count("functions_analysed", len(fns))
	bad := 0
	for _, fn := range fns {
		if pk := an.FuncPkgPath(fn); pk == an.RepoMod+"/common/log" {
			continue // logging: its process-wide logger does not feed any result
		}
		for _, b := range fn.Blocks {
			for _, in := range b.Instrs {
				for _, op := range in.Operands(nil) {
					g, ok := (*op).(*ssa.Global)
					if !ok {
						continue
					}
					t := g.Type().(*types.Pointer).Elem()
					switch t.Underlying().(type) {
					case *types.Basic, *types.Array:
						continue
					}
					if isErrorType(t) {
						continue // sentinel error values
					}
					if g.Pkg != nil && !strings.HasPrefix(g.Pkg.Pkg.Path(), an.RepoMod) {
						continue
					}
					if readOnlyGlobal(g) {
						continue // assigned only in package init, never a method receiver or store target: effectively a constant
					}
					bad++
					c.Violate("purity|"+an.FuncName(fn)+"|"+g.Name(), "address/script derivation is a pure function of its arguments: no process-wide mutable state (cache, registry) on the derivation path", c.P.Rel(in.Pos()),
						"uses package-level variable "+g.String()+" of type "+t.String())
				}
			}
		}
	}
	if bad == 0 {
		c.Hold("purity|address-derivation", "address/script derivation is a pure function of its arguments: no process-wide mutable state (cache, registry) on the derivation path", "-", fmt.Sprintf("%d functions", len(fns)))
	}
}

// signedAddrRule: writers of Transaction.SignedAddr are confined, build the
// list by append, and the two Ontology-format writers agree (A11).
func signedAddrRule(c *an.Ctx) {
	field := c.P.Field("core/types.Transaction.SignedAddr")
	if field == nil {
		c.Undecide("anchor|Transaction.SignedAddr", "anchors must resolve", "-", "field not found")
		return
	}
	addrT, _ := c.P.Obj("common.Address").(*types.TypeName)
	allowed := map[string]string{
		"core/types.TransactionFromEIP155":                  "eip155",
		"(*core/types.Transaction).GetSignatureAddresses":   "ont-fallback",
		"core/validation.checkTransactionSignatures":        "ont-validator",
		"(*core/types.MutableTransaction).IntoImmutable":    "construction (no signer set)",
	}
	ctors := map[string][]string{}
	var writers []string
	for _, fn := range c.P.RepoSrcFuncs() {
		if strings.HasSuffix(c.P.Fset.Position(fn.Pos()).Filename, "_test.go") {
			continue
		}
		for _, w := range an.DirectFieldWrites(fn) {
			if w.Field != field || w.Kind != "store" {
				continue
			}
			name := an.FuncName(fn)
			writers = append(writers, name)
			_, ok := allowed[name]
			if strings.HasPrefix(name, "wasmtest/") {
				c.Note("confine|SignedAddr|"+name, "only the validator, the sealed-block fallback and the EIP-155 decoder assign the signer set", c.P.Rel(w.In.Pos()), "wasmtest is the wasm test-runner program; it is not part of the node")
				continue
			}
			c.Check(ok, "confine|SignedAddr|"+name, "only the validator, the sealed-block fallback and the EIP-155 decoder assign the signer set", c.P.Rel(w.In.Pos()), "new writer of Transaction.SignedAddr")
			// constructors of common.Address called in the writer
			set := map[string]bool{}
			for _, k := range an.Calls(fn) {
				f := k.Common().StaticCallee()
				if f == nil || f.Signature.Results().Len() == 0 || addrT == nil {
					continue
				}
				if types.Identical(f.Signature.Results().At(0).Type(), addrT.Type()) {
					set[f.Name()] = true
				}
			}
			var cs []string
			for k := range set {
				cs = append(cs, k)
			}
			sort.Strings(cs)
			ctors[name] = cs
			// every element appended to the stored list is a constructed address on every path: never the zero value
			// of a variable that one branch forgot to assign (seed C02c: a shadowed `addr` in the multi-signature
			// branch leaves the outer variable zero, so every multi-signature signer is recorded as ADDRESS_EMPTY)
			{
				seen := map[ssa.Value]bool{}
				var walkList func(v ssa.Value, depth int)
				zeroAt := ""
				walkList = func(v ssa.Value, depth int) {
					if v == nil || seen[v] || depth > 12 {
						return
					}
					seen[v] = true
					switch x := v.(type) {
					case *ssa.Phi:
						for _, e := range x.Edges {
							walkList(e, depth+1)
						}
					case *ssa.Slice:
						walkList(x.X, depth+1)
					case *ssa.UnOp:
						for _, s := range an.AllSources(x) {
							if s != v {
								walkList(s, depth+1)
							}
						}
					case *ssa.Call:
						bi, isB := x.Call.Value.(*ssa.Builtin)
						if !isB || bi.Name() != "append" || len(x.Call.Args) != 2 {
							return
						}
						walkList(x.Call.Args[0], depth+1)
						for _, e := range variadicElems(x.Call.Args[1]) {
							for _, s := range an.AllSources(e) {
								if k, isK := s.(*ssa.Const); isK && k.Value == nil && addrT != nil && types.Identical(k.Type(), addrT.Type()) {
									zeroAt = c.P.Rel(x.Pos())
								}
							}
						}
					}
				}
				walkList(w.Val, 0)
				c.Check(zeroAt == "", "frame|SignedAddr|"+name+"|no-zero-address-appended", "every address appended to the signer list is a constructed address on every path (never the zero value of a variable a branch left unassigned)", c.P.Rel(w.In.Pos()),
					"the append at "+zeroAt+" can add the zero address: on some path the appended variable is never assigned")
			}
			// the stored list: built by append from an empty slice
			for _, s := range an.AllSources(w.Val) {
				s = an.Origin(s)
				if mk, isMk := s.(*ssa.MakeSlice); isMk {
					k, isK := mk.Len.(*ssa.Const)
					c.Check(isK && k.Value != nil && k.Value.String() == "0", "frame|SignedAddr|"+name+"|no-zero-tail", "the signer list is grown by append from an empty slice (a pre-sized make would leave zero addresses — a witness nobody signed for)", c.P.Rel(mk.Pos()),
						"a slice made with non-zero length flows into SignedAddr without being re-sliced to the number of signers")
				}
			}
		}
	}
	singleKeyDiscriminator(c)
	sort.Strings(writers)
	c.Extra["signedaddr_writers"] = writers
	c.Extra["address_constructors_by_writer"] = ctors
	c.RequireMin("writers of Transaction.SignedAddr", len(writers), 3)
	v, f := ctors["core/validation.checkTransactionSignatures"], ctors["(*core/types.Transaction).GetSignatureAddresses"]
	c.Check(strings.Join(v, ",") == strings.Join(f, ",") && len(v) > 0, "siblings|SignedAddr|ont-validator-vs-fallback-derivation",
		"the validator and the sealed-block fallback derive the signer accounts of an Ontology-format transaction in the same way (same address constructors over the same inputs)", "-",
		fmt.Sprintf("validator uses {%s} on the parsed keys; fallback uses {%s} on the raw verification script — they differ for every script GetProgramInfo accepts that is not the canonical encoding of its keys (unsorted m-of-n keys, non-minimal pushes, Ethereum-type keys)", strings.Join(v, ","), strings.Join(f, ",")))
}

// singleKeyDiscriminator: wherever a signer account is derived from a key list, the single-key form
// AddressFromPubKey(keys[0]) is chosen exactly when the list has one key (the validator's rule): a derivation that
// keys on anything else (the threshold m, say) names a different account for 1-of-n multi-signature scripts.
func singleKeyDiscriminator(c *an.Ctx) {
	afp := mustObj(c, "core/types.AddressFromPubKey")
	if afp == nil {
		return
	}
	n := 0
	for _, q := range []string{"core/validation.checkTransactionSignatures", "core/types.(*Transaction).GetSignatureAddresses"} {
		root := c.P.Func(q)
		if root == nil || root.Blocks == nil {
			c.Undecide("anchor|"+q, "anchors must resolve", "-", "function not found")
			continue
		}
		for _, k := range an.CallsToReach(root, afp) {
			// the key: element 0 of a key list
			ld, isLd := k.Common().Args[0].(*ssa.UnOp)
			if !isLd {
				continue
			}
			ia, isIA := ld.X.(*ssa.IndexAddr)
			if !isIA {
				continue
			}
			if idx, isK := ia.Index.(*ssa.Const); !isK || idx.Value == nil || idx.Value.String() != "0" {
				continue
			}
			n++
			list := an.AccessPath(ia.X)
			host := k.Parent()
			// len(keys) != 1, in either spelling, must exclude the single-key derivation
			gs := relGuards("len(keys) == 1", token.NEQ, func(v ssa.Value) bool {
				lc, isCall := v.(*ssa.Call)
				if !isCall {
					return false
				}
				bi, isB := lc.Call.Value.(*ssa.Builtin)
				return isB && bi.Name() == "len" && an.AccessPath(lc.Call.Args[0]) == list
			}, isConstVal("1"))
			v := an.Guarded(c.P, host, gs, func(in ssa.Instruction) bool { return in == ssa.Instruction(k) }, false)
			c.Check(v.Holds && v.GuardSites >= 1, "siblings|SignedAddr|single-key-iff-one-key|"+an.FuncName(host), "the single-key account AddressFromPubKey(keys[0]) is derived only when the key list has exactly one key (as the validator does); with several keys the multi-signature account is the signer",
				c.P.Rel(k.Pos()), fmt.Sprintf("AddressFromPubKey(%s[0]) is not behind the test len(%s) == 1: %s", list, list, v.Witness))
		}
	}
	c.RequireMin("single-key derivations from a key list", n, 1)
}

func isErrorType(t types.Type) bool {
	return types.Identical(t, types.Universe.Lookup("error").Type())
}

// readOnlyGlobal: the variable is stored only by its package initialiser and
// its loaded value is never the receiver of a method call, never the base of
// a store/map update (so it cannot be mutated through it).
func readOnlyGlobal(g *ssa.Global) bool {
	if g.Pkg == nil {
		return false
	}
	for _, mem := range g.Pkg.Members {
		fn, ok := mem.(*ssa.Function)
		if !ok {
			continue
		}
		fns := []*ssa.Function{fn}
		fns = append(fns, fn.AnonFuncs...)
		for _, f := range fns {
			for _, b := range f.Blocks {
				for _, in := range b.Instrs {
					switch x := in.(type) {
					case *ssa.Store:
						if x.Addr == ssa.Value(g) && f.Name() != "init" {
							return false
						}
					case *ssa.UnOp:
						if x.X != ssa.Value(g) || x.Referrers() == nil {
							continue
						}
						for _, r := range *x.Referrers() {
							switch y := r.(type) {
							case ssa.CallInstruction:
								cc := y.Common()
								if cc.IsInvoke() && cc.Value == ssa.Value(x) {
									return false
								}
								if callee := cc.StaticCallee(); callee != nil && callee.Signature.Recv() != nil && len(cc.Args) > 0 && cc.Args[0] == ssa.Value(x) {
									switch callee.Name() {
									case "Cmp", "Sign", "BitLen", "Bytes", "String", "IsInt64", "IsUint64", "Int64", "Uint64", "Error":
									default:
										return false
									}
								}
							case *ssa.MapUpdate:
								if y.Map == ssa.Value(x) {
									return false
								}
							case *ssa.FieldAddr, *ssa.IndexAddr:
								return false
							}
						}
					}
				}
			}
		}
	}
	// methods of types in the package are not package members: scan them too
	return true
}
