package props

import (
	"fmt"

	"golang.org/x/tools/go/ssa"

	"verif/checker/an"
)

// newestBlockWinsRule (C35, added for seed C35c): the expected nonce of a sender that is not yet in the shared context
// is taken from the validator's per-block nonce window, and the *newest* block that mentions the sender must win. The
// window is ordered oldest to newest, so a scan over it either runs in ascending order without leaving the loop on a
// hit (the last hit wins) or runs in descending order. An ascending scan that stops at the first hit yields the oldest
// recorded nonce: a stale transaction then passes Verify.
func newestBlockWinsRule(c *an.Ctx, vf *ssa.Function, noncesF *typesVar) {
	n, bad := 0, ""
	for _, g := range an.InlineReach(vf) {
		// a loop is its header with the union of the natural loops of all its back edges (`if c { x = y }` at the end
		// of a body gives two back edges once go/ssa removes the empty join block)
		bodies := map[*ssa.BasicBlock]map[*ssa.BasicBlock]bool{}
		var hdrs []*ssa.BasicBlock
		for _, e := range an.BackEdges(g) {
			if bodies[e[1]] == nil {
				bodies[e[1]] = map[*ssa.BasicBlock]bool{}
				hdrs = append(hdrs, e[1])
			}
			for b := range an.LoopBlocks(e[0], e[1]) {
				bodies[e[1]][b] = true
			}
		}
		for _, hdr := range hdrs {
			body := bodies[hdr]
			scans := false
			for b := range body {
				for _, in := range b.Instrs {
					l, isL := in.(*ssa.Lookup)
					if !isL {
						continue
					}
					// the map looked up is an element of the nonces window
					src := an.Origin(l.X)
					if ld, isLd := src.(*ssa.UnOp); isLd {
						if ia, isIA := ld.X.(*ssa.IndexAddr); isIA && fieldOfLoad(ia.X) == noncesF {
							scans = true
						}
					}
					if ex, isEx := src.(*ssa.Extract); isEx {
						if nx, isNx := ex.Tuple.(*ssa.Next); isNx {
							if rg, isRg := nx.Iter.(*ssa.Range); isRg && fieldOfLoad(rg.X) == noncesF {
								scans = true
							}
						}
					}
				}
			}
			if !scans {
				continue
			}
			n++
			// direction: a counter phi of the header that starts at 0 / -1 and is incremented is ascending
			descending := false
			for _, in := range hdr.Instrs {
				ph, isPhi := in.(*ssa.Phi)
				if !isPhi {
					continue
				}
				for i, ed := range ph.Edges {
					if !hdr.Dominates(hdr.Preds[i]) {
						continue
					}
					if b, isB := ed.(*ssa.BinOp); isB && b.X == ssa.Value(ph) && b.Op.String() == "-" {
						descending = true
					}
				}
			}
			if descending {
				continue
			}
			// ascending: every way out of the loop goes through the header
			for b := range body {
				if b == hdr {
					continue
				}
				for _, in := range b.Instrs {
					if _, isRet := in.(*ssa.Return); isRet {
						bad = fmt.Sprintf("the ascending scan of the nonce window in %s returns from inside the loop at %s: the oldest block that mentions the sender wins", an.FuncName(g), c.P.Rel(in.Pos()))
					}
				}
				for _, s := range b.Succs {
					if !body[s] {
						bad = fmt.Sprintf("the ascending scan of the nonce window in %s leaves the loop at %s before the newest block was examined", an.FuncName(g), c.P.Rel(loopPos(b)))
					}
				}
			}
		}
	}
	c.Check(n >= 1 && bad == "", "order|IncrementValidator.Verify|newest-block-wins", "the expected nonce of a sender comes from the newest cached block that mentions it: the window (oldest first) is scanned to its end, or newest first", c.P.Rel(vf.Pos()), fmt.Sprintf("%d scans of the nonce window; %s", n, bad))
}
