package props

import (
	"strings"

	"golang.org/x/tools/go/ssa"

	"verif/checker/an"
)

// iteratorValuesNotUsedAfterAdvance (C44, added for seed C44c): Key()/Value() of a store iterator return the
// iterator's own buffers (goleveldb reuses them on the next step), so a slice obtained from the iterator is valid only
// until the iterator is advanced. In every function that drives an iterator, no use of a Key()/Value() result (or of
// a sub-slice of it) is reachable from a Next() on the same iterator without first passing the call that produced a
// fresh result. Copy-then-use is fine (the copy is made before the advance); "read, advance, then hand the slices to a
// callback" is not.
func iteratorValuesNotUsedAfterAdvance(c *an.Ctx, pkgs ...string) {
	isIterRecv := func(k ssa.CallInstruction) ssa.Value {
		cc := k.Common()
		var recv ssa.Value
		if cc.IsInvoke() {
			recv = cc.Value
		} else if cc.StaticCallee() != nil && cc.StaticCallee().Signature.Recv() != nil && len(cc.Args) > 0 {
			recv = cc.Args[0]
		}
		if recv == nil {
			return nil
		}
		ts := recv.Type().String()
		if strings.HasSuffix(ts, "StoreIterator") || strings.HasSuffix(ts, "storage.Iter") || strings.HasSuffix(ts, "overlaydb.JoinIter") || strings.HasSuffix(ts, "iterator.Iterator") {
			return recv
		}
		return nil
	}
	nFn, nVals := 0, 0
	for _, fn := range c.P.RepoSrcFuncs(pkgs...) {
		if strings.HasSuffix(c.P.Fset.Position(fn.Pos()).Filename, "_test.go") {
			continue
		}
		type read struct {
			call ssa.CallInstruction
			recv ssa.Value
		}
		var reads []read
		var nexts []read
		for _, k := range an.Calls(fn) {
			o := an.CalleeObj(k.Common())
			if o == nil {
				continue
			}
			recv := isIterRecv(k)
			if recv == nil {
				continue
			}
			switch o.Name() {
			case "Key", "Value":
				// the iterator type's own Key/Value forwarders are not consumers
				if fn.Signature.Recv() != nil && (fn.Name() == "Key" || fn.Name() == "Value") {
					continue
				}
				reads = append(reads, read{k, recv})
			case "Next":
				nexts = append(nexts, read{k, recv})
			}
		}
		if len(reads) == 0 || len(nexts) == 0 {
			continue
		}
		nFn++
		sameIter := func(a, b ssa.Value) bool {
			return a == b || an.AccessPath(a) != "" && an.AccessPath(a) == an.AccessPath(b)
		}
		for _, rd := range reads {
			v := rd.call.Value()
			if v == nil {
				continue
			}
			nVals++
			// uses of the slice and of its sub-slices
			var uses []ssa.Instruction
			seen := map[ssa.Value]bool{}
			var collect func(x ssa.Value, depth int)
			collect = func(x ssa.Value, depth int) {
				if seen[x] || depth > 6 || x.Referrers() == nil {
					return
				}
				seen[x] = true
				for _, r := range *x.Referrers() {
					if _, isDbg := r.(*ssa.DebugRef); isDbg {
						continue
					}
					uses = append(uses, r)
					switch y := r.(type) {
					case *ssa.Slice:
						collect(y, depth+1)
					case *ssa.Phi:
						collect(y, depth+1)
					}
				}
			}
			collect(v, 0)
			cut := map[ssa.Instruction]bool{}
			for _, o := range reads {
				if sameIter(o.recv, rd.recv) && an.CalleeObj(o.call.Common()).Name() == an.CalleeObj(rd.call.Common()).Name() {
					cut[o.call] = true
				}
			}
			bad := ""
			for _, nx := range nexts {
				if !sameIter(nx.recv, rd.recv) {
					continue
				}
				r := (&an.Query{Fn: fn, Start: nx.call, Cut: cut, NoInline: true}).Run()
				for _, u := range uses {
					if r.Reaches(u) {
						bad = "the " + an.CalleeObj(rd.call.Common()).Name() + "() result read at " + c.P.Rel(rd.call.Pos()) + " is used at " + c.P.Rel(u.Pos()) + " after the iterator was advanced at " + c.P.Rel(nx.call.Pos())
					}
				}
			}
			c.Check(bad == "", "iterator|"+an.FuncName(fn)+"|"+an.CalleeObj(rd.call.Common()).Name()+"-not-used-after-Next", "a key/value slice obtained from a store iterator is not used after the iterator is advanced (the iterator reuses its buffers)", c.P.Rel(rd.call.Pos()), bad)
		}
	}
	c.RequireMin("functions that read and advance a store iterator", nFn, 2)
	c.Count("iterator_values_checked", nVals)
}
