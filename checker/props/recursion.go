package props

import (
	"fmt"
	"go/ast"
	"go/token"
	"go/types"
	"strings"

	"golang.org/x/tools/go/ssa"

	"verif/checker/an"
)

// sccJustify decides how the recursion of scc is bounded.
//   "bound"    every cycle edge is unreachable once a counter/depth bound of its caller is exceeded, and the bounded quantity grows along the edge
//   "detector-each-level" every cycle edge is guarded by the detector in its caller
//   "detector-at-entry"   every call into the component from outside is guarded by the detector
//   ""         unjustified
func sccJustify(c *an.Ctx, scc *an.SCC, detector []*an.Guard, allFuncs []*ssa.Function) (string, string) {
	edges := scc.CycleEdges(an.StaticEdges)
	cutBy := map[int]string{}
	for i, e := range edges {
		if e.Site == nil {
			continue // closure creation edge; never cut
		}
		for _, g := range an.BoundGuards(e.Caller) {
			v := an.Guarded(c.P, e.Caller, []*an.Guard{g}, func(in ssa.Instruction) bool { return in == ssa.Instruction(e.Site) }, false)
			if strings.Contains(g.Name, " == ") && !growsByOne(e) {
				continue // an equality bound is only sound for a counter stepped by exactly one
			}
			if v.Holds && v.GuardSites > 0 && (grows(e) || sinkGrows(c, e, g)) {
				cutBy[i] = "bound"
				break
			}
		}
		if cutBy[i] == "" {
			// input-consuming: a checked read on a source that is handed to the callee
			g := &an.Guard{Name: "checked read", MatchCall: func(k ssa.CallInstruction) bool {
				f := k.Common().StaticCallee()
				if f == nil || f.Signature.Recv() == nil || !strings.HasSuffix(f.Signature.Recv().Type().String(), "common.ZeroCopySource") || !strings.HasPrefix(f.Name(), "Next") {
					return false
				}
				passed := false
				for _, a := range e.Site.Common().Args {
					if a == k.Common().Args[0] {
						passed = true
					}
				}
				return passed
			}}
			// fail mode: eof (last bool result) true
			g.FailModes = nil
			for _, k := range an.Calls(e.Caller) {
				if g.MatchCall(k) {
					n := k.Common().StaticCallee().Signature.Results().Len()
					m := make([]an.Abs, n)
					m[n-1] = an.ATrue
					g.FailModes = [][]an.Abs{m}
					break
				}
			}
			if g.FailModes != nil {
				// only reads with identical result arity share the mode; restrict the match to that arity
				arity := len(g.FailModes[0])
				inner := g.MatchCall
				g.MatchCall = func(k ssa.CallInstruction) bool {
					return inner(k) && k.Common().StaticCallee().Signature.Results().Len() == arity
				}
				v := an.Guarded(c.P, e.Caller, []*an.Guard{g}, func(in ssa.Instruction) bool { return in == ssa.Instruction(e.Site) }, false)
				if v.Holds && v.GuardSites > 0 {
					cutBy[i] = "bound"
				}
			}
		}
		if cutBy[i] == "" && len(detector) > 0 {
			v := an.Guarded(c.P, e.Caller, detector, func(in ssa.Instruction) bool { return in == ssa.Instruction(e.Site) }, false)
			if v.Holds && v.GuardSites > 0 {
				cutBy[i] = "detector"
			}
		}
	}
	// is the component acyclic once the cut edges are removed?
	adj := map[*ssa.Function][]*ssa.Function{}
	why := ""
	for i, e := range edges {
		if cutBy[i] == "" {
			adj[e.Caller] = append(adj[e.Caller], e.Callee)
		}
	}
	state := map[*ssa.Function]int{}
	var cyc func(f *ssa.Function) bool
	cyc = func(f *ssa.Function) bool {
		state[f] = 1
		for _, g := range adj[f] {
			if state[g] == 1 {
				why = fmt.Sprintf("cycle through %s -> %s is not cut by a growing depth/count bound nor by the detector", an.FuncName(f), an.FuncName(g))
				return true
			}
			if state[g] == 0 && cyc(g) {
				return true
			}
		}
		state[f] = 2
		return false
	}
	cyclic := false
	for _, f := range scc.Funcs {
		if state[f] == 0 && cyc(f) {
			cyclic = true
			break
		}
	}
	if cyclic && relayBound(c, scc, edges) {
		return "bound", ""
	}
	if !cyclic {
		kind := "bound"
		for _, k := range cutBy {
			if k == "detector" {
				kind = "detector-each-level"
			}
		}
		return kind, ""
	}
	if len(detector) > 0 {
		entry := true
		nEntry := 0
		for _, f := range allFuncs {
			if scc.Has(f) {
				continue
			}
			for _, e := range an.StaticEdges(f) {
				if e.Site == nil || !scc.Has(e.Callee) {
					continue
				}
				nEntry++
				e := e
				v := an.Guarded(c.P, f, detector, func(in ssa.Instruction) bool { return in == ssa.Instruction(e.Site) }, false)
				if !(v.Holds && v.GuardSites > 0) {
					entry = false
					why = fmt.Sprintf("%s enters the recursion at %s without a successful cycle/depth detection", an.FuncName(f), c.P.Rel(e.Site.Pos()))
				}
			}
		}
		if entry && nEntry > 0 {
			return "detector-at-entry", ""
		}
	}
	return "", why
}

// sinkGrows: the bound is on the size of an output sink parameter and every
// path to the recursive call writes to that sink first.
func sinkGrows(c *an.Ctx, e an.CallEdge, g *an.Guard) bool {
	if !strings.Contains(g.Name, "Bytes") && !strings.Contains(g.Name, "Size") && !strings.Contains(g.Name, "len") {
		return false
	}
	var writes []ssa.Instruction
	for _, k := range an.Calls(e.Caller) {
		callee := k.Common().StaticCallee()
		if callee == nil || !strings.HasPrefix(callee.Name(), "Write") {
			continue
		}
		if p, ok := recvOf(k.Common()).(*ssa.Parameter); ok && p != nil {
			writes = append(writes, k)
		}
	}
	if len(writes) == 0 {
		return false
	}
	ok, _ := an.MustPass(c.P, e.Caller, writes, []ssa.Instruction{e.Site}, nil)
	return ok
}

// grows: along the edge the bounded quantity increases: an integer argument
// is param+k (k>0), or a pointer parameter is forwarded and the caller
// increments through it, or a receiver field is incremented in the caller.
func grows(e an.CallEdge) bool {
	for _, a := range e.Site.Common().Args {
		if b, ok := a.(*ssa.BinOp); ok && b.Op == token.ADD {
			if k, isK := b.Y.(*ssa.Const); isK && k.Value != nil && k.Value.String() != "0" {
				if _, isP := b.X.(*ssa.Parameter); isP {
					return true
				}
			}
		}
		if p, ok := a.(*ssa.Parameter); ok {
			if _, isPtr := p.Type().Underlying().(interface{ Elem() interface{} }); isPtr {
				_ = isPtr
			}
			// *p incremented somewhere in the caller
			for _, b := range e.Caller.Blocks {
				for _, in := range b.Instrs {
					if st, isSt := in.(*ssa.Store); isSt && st.Addr == ssa.Value(p) {
						if bo, isB := st.Val.(*ssa.BinOp); isB && bo.Op == token.ADD {
							return true
						}
					}
				}
			}
		}
	}
	// a field of the receiver/struct incremented in the caller (evm.depth++)
	for _, b := range e.Caller.Blocks {
		for _, in := range b.Instrs {
			if st, isSt := in.(*ssa.Store); isSt {
				if _, isF := st.Addr.(*ssa.FieldAddr); isF {
					if bo, isB := st.Val.(*ssa.BinOp); isB && bo.Op == token.ADD {
						if k, isK := bo.Y.(*ssa.Const); isK && k.Value != nil && k.Value.String() == "1" {
							return true
						}
					}
				}
			}
		}
	}
	return false
}

// loopCompleteness (A8-L): in a function that other code relies on as a
// complete traversal, a `for range` whose body always leaves the loop in the
// first iteration (its last statement is a return) covers only its first
// element. Decided on the syntax tree (go/ssa fuses the blocks of such loops).
func loopCompleteness(c *an.Ctx, root *ssa.Function, keyPrefix string) int {
	n := 0
	// the traversal and the private helpers it is split into; loops are keyed by the traversal and by the type
	// ranged over (numbered in source order), not by the helper they sit in or by variable names
	ord := map[string]int{}
	for _, fn := range an.InlineReach(root) {
		syn := fn.Syntax()
		if syn == nil {
			continue
		}
		_, pk := c.P.FileOf(fn.Pos())
		ast.Inspect(syn, func(nd ast.Node) bool {
			// a range loop, or the same traversal written as an index loop `for i := ..; i < len(X); ..`
			var over ast.Expr
			var body *ast.BlockStmt
			switch x := nd.(type) {
			case *ast.RangeStmt:
				over, body = x.X, x.Body
			case *ast.ForStmt:
				if x.Cond != nil {
					ast.Inspect(x.Cond, func(m ast.Node) bool {
						if call, isCall := m.(*ast.CallExpr); isCall && len(call.Args) == 1 {
							if id, isID := call.Fun.(*ast.Ident); isID && id.Name == "len" {
								over = call.Args[0]
							}
						}
						return true
					})
				}
				body = x.Body
			}
			if over == nil || body == nil {
				return true
			}
			n++
			what := "?"
			if pk != nil && pk.TypesInfo != nil {
				if t := pk.TypesInfo.TypeOf(over); t != nil {
					what = strings.ReplaceAll(t.String(), an.RepoMod+"/", "")
				}
			}
			ord[what]++
			leaves := false
			if l := len(body.List); l > 0 {
				leaves = alwaysReturns(body.List[l-1])
			}
			key := fmt.Sprintf("%s|%s|range-over:%s#%d", keyPrefix, an.FuncName(root), what, ord[what])
			c.Check(!leaves, key, "a traversal that callers rely on to visit every element must not leave its range loop unconditionally in the first iteration", c.P.Rel(nd.Pos()),
				"the loop over "+types.ExprString(over)+" ("+what+") returns at the end of its first iteration: only the first element is examined")
			return true
		})
	}
	return n
}

// alwaysReturns: the statement ends the function on every path through it.
func alwaysReturns(s ast.Stmt) bool {
	switch x := s.(type) {
	case *ast.ReturnStmt:
		return true
	case *ast.BlockStmt:
		return len(x.List) > 0 && alwaysReturns(x.List[len(x.List)-1])
	case *ast.IfStmt:
		return x.Else != nil && alwaysReturns(x.Body) && alwaysReturns(x.Else)
	}
	return false
}

// growsByOne: an integer argument of the recursive call is param+1.
func growsByOne(e an.CallEdge) bool {
	for _, a := range e.Site.Common().Args {
		if b, ok := a.(*ssa.BinOp); ok && b.Op == token.ADD {
			if k, isK := b.Y.(*ssa.Const); isK && k.Value != nil && k.Value.String() == "1" {
				if _, isP := b.X.(*ssa.Parameter); isP {
					return true
				}
			}
		}
	}
	return false
}

// structuralOnDecoded: every cycle edge of the component passes a value taken
// (by type switch / assertion) from an element of a slice field of the
// caller's own parameter of named type T, and objects of type T are allocated
// only inside components that are themselves bounded (the decoder): the
// recursion walks a finite tree whose depth the decoder bounded. Returns the
// type name, or "".
func structuralOnDecoded(c *an.Ctx, scc *an.SCC, boundedAllocators map[*ssa.Function]bool, scope []*ssa.Function) (string, string) {
	var tname *types.Named
	for _, e := range scc.CycleEdges(an.StaticEdges) {
		if e.Site == nil {
			return "", "closure edge"
		}
		ok := false
		for _, a := range e.Site.Common().Args {
			nm := namedOfType(a.Type())
			if nm == nil {
				continue
			}
			// a comes from a type assertion on an element of param.<field>[i]
			src := a
			if ex, isE := src.(*ssa.Extract); isE {
				src = ex.Tuple
			}
			ta, isTA := src.(*ssa.TypeAssert)
			if !isTA {
				continue
			}
			el := ta.X
			u, isU := el.(*ssa.UnOp)
			if !isU {
				continue
			}
			ia, isIA := u.X.(*ssa.IndexAddr)
			if !isIA {
				continue
			}
			base := ia.X
			if lu, isL := base.(*ssa.UnOp); isL {
				if fa, isFA := lu.X.(*ssa.FieldAddr); isFA {
					if p, isP := fa.X.(*ssa.Parameter); isP && namedOfType(p.Type()) != nil && namedOfType(p.Type()).Obj() == nm.Obj() {
						ok = true
						tname = nm
					}
				}
			}
		}
		if !ok {
			return "", "a recursive call does not descend into a member of its own parameter"
		}
	}
	if tname == nil {
		return "", "no cycle edge"
	}
	// allocation sites of T
	for _, fn := range scope {
		if strings.HasSuffix(c.P.Fset.Position(fn.Pos()).Filename, "_test.go") {
			continue
		}
		for _, b := range fn.Blocks {
			for _, in := range b.Instrs {
				if al, ok := in.(*ssa.Alloc); ok {
					if nm := namedOfType(al.Type()); nm != nil && nm.Obj() == tname.Obj() && !boundedAllocators[fn] {
						return "", tname.Obj().Name() + " is also allocated in " + an.FuncName(fn) + ", which is not a depth-bounded decoder"
					}
				}
			}
		}
	}
	return tname.Obj().Name(), ""
}

// relayBound: a recursion spread over several functions is bounded when one integer parameter per function carries
// a depth that every edge of the component passes on unchanged or increased by a positive constant, every cycle
// contains an edge that increases it, and every cycle contains an edge that is unreachable once its caller's depth
// parameter exceeds a constant. (The single-function case - check and increment on the same edge - is decided by
// the per-edge rule.)
func relayBound(c *an.Ctx, scc *an.SCC, edges []an.CallEdge) bool {
	inSCC := map[*ssa.Function]bool{}
	for _, f := range scc.Funcs {
		inSCC[f] = true
	}
	paramOfGuard := func(f *ssa.Function, g *an.Guard) *ssa.Parameter {
		for _, b := range f.Blocks {
			for _, in := range b.Instrs {
				bo, ok := in.(*ssa.BinOp)
				if !ok || !g.MatchValue(bo) {
					continue
				}
				x, _, nop, _, isCmp := an.BoundOperand(bo)
				if !isCmp || (nop != token.GTR && nop != token.GEQ) {
					continue
				}
				if cv, isC := x.(*ssa.Convert); isC {
					x = cv.X
				}
				if p, isP := x.(*ssa.Parameter); isP {
					return p
				}
			}
		}
		return nil
	}
	for _, start := range scc.Funcs {
		for _, g0 := range an.BoundGuards(start) {
			p0 := paramOfGuard(start, g0)
			if p0 == nil {
				continue
			}
			depth := map[*ssa.Function]*ssa.Parameter{start: p0}
			ok := true
			for changed := true; changed && ok; {
				changed = false
				for _, e := range edges {
					if e.Site == nil {
						ok = false
						break
					}
					d := depth[e.Caller]
					if d == nil {
						continue
					}
					args := e.Site.Common().Args
					found := -1
					for j, a := range args {
						if a == ssa.Value(d) {
							found = j
						}
						if b, isB := a.(*ssa.BinOp); isB && b.Op == token.ADD && b.X == ssa.Value(d) {
							if k, isK := b.Y.(*ssa.Const); isK && k.Value != nil && k.Int64() > 0 {
								found = j
							}
						}
					}
					if found < 0 || found >= len(e.Callee.Params) {
						ok = false
						break
					}
					if cur := depth[e.Callee]; cur == nil {
						depth[e.Callee] = e.Callee.Params[found]
						changed = true
					} else if cur != e.Callee.Params[found] {
						ok = false
						break
					}
				}
			}
			if !ok || len(depth) != len(scc.Funcs) {
				continue
			}
			grow, guarded := map[int]bool{}, map[int]bool{}
			for i, e := range edges {
				d := depth[e.Caller]
				for _, a := range e.Site.Common().Args {
					if b, isB := a.(*ssa.BinOp); isB && b.Op == token.ADD && b.X == ssa.Value(d) {
						grow[i] = true
					}
				}
				for _, g := range an.BoundGuards(e.Caller) {
					if paramOfGuard(e.Caller, g) != d {
						continue
					}
					e := e
					v := an.Guarded(c.P, e.Caller, []*an.Guard{g}, func(in ssa.Instruction) bool { return in == ssa.Instruction(e.Site) }, false)
					if v.Holds && v.GuardSites > 0 {
						guarded[i] = true
					}
				}
			}
			acyclicWithout := func(cut map[int]bool) bool {
				adj := map[*ssa.Function][]*ssa.Function{}
				for i, e := range edges {
					if !cut[i] {
						adj[e.Caller] = append(adj[e.Caller], e.Callee)
					}
				}
				state := map[*ssa.Function]int{}
				var cyc func(f *ssa.Function) bool
				cyc = func(f *ssa.Function) bool {
					state[f] = 1
					for _, g := range adj[f] {
						if state[g] == 1 || (state[g] == 0 && cyc(g)) {
							return true
						}
					}
					state[f] = 2
					return false
				}
				for _, f := range scc.Funcs {
					if state[f] == 0 && cyc(f) {
						return false
					}
				}
				return true
			}
			if acyclicWithout(grow) && acyclicWithout(guarded) {
				return true
			}
		}
	}
	return false
}
