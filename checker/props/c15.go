package props

import (
	"golang.org/x/tools/go/ssa"

	"verif/checker/an"
)

func init() {
	register(&Prop{ID: "C15", Patterns: []string{"./vm/neovm/...", "./smartcontract/service/neovm"}, Run: runC15})
}

func neovmFuncs(c *an.Ctx) []*ssa.Function {
	var out []*ssa.Function
	for _, fn := range c.P.RepoSrcFuncs("vm/neovm", "smartcontract/service/neovm") {
		out = append(out, fn)
	}
	return out
}

func runC15(c *an.Ctx) {
	c.Explanation = "A1 order over every function of vm/neovm, vm/neovm/types and smartcontract/service/neovm (the executor, the value types, the syscall handlers): every loop that ranges over a Go map is classified as commutative (keyed stores, counting), collect-then-sort (appended to a slice that is sorted before any other use, possibly by every caller), exists-failure exit, or it is a violation (a result computed from whichever entry the runtime yields first, an ordered sink fed in map order); " +
		"getMapSortedKey must remain collect-then-sort, and wall-clock/random/environment reads are forbidden on these paths. Decides independence from map iteration order structurally for all programs; does not decide equality of results."
	cg := c.P.CallGraph()
	fns := neovmFuncs(c)
	n := orderRuleFuncs(c, cg, fns, map[string]string{}, "order", nil, func(fn *ssa.Function) string { return an.FuncName(fn) })
	c.RequireMin("map-range loops in the NeoVM packages", n, 2)
	// every other function that ranges over MapValue.Data is listed above; functions that need an order take it from getMapSortedKey
	dataField := c.P.Field("vm/neovm/types.MapValue.Data")
	if dataField == nil {
		c.Undecide("anchor|MapValue.Data", "anchors must resolve", "-", "field not found")
		return
	}
	rangers := 0
	for _, fn := range fns {
		for _, l := range an.MapLoops(fn) {
			if f := fieldOfLoad(l.Range.X); f == dataField {
				rangers++
			}
		}
	}
	c.RequireMin("loops over MapValue.Data", rangers, 2)
}
