package props

import (
	"fmt"
	"go/types"
	"strings"

	"golang.org/x/tools/go/ssa"

	"verif/checker/an"
)

// scratchConfinement: CacheDB.keyScratch is a buffer that every keyed operation of the cache overwrites. A slice of
// it handed to anything that keeps it (an iterator's range, a returned key, another object's field) changes under
// its holder at the next operation - an iterator created with such a prefix walks a different range in each layer.
// Decided as an escape rule: every value derived from the field (loads, re-slices, what makePrefixedKey returns for
// it, what a private helper returns) is used only by the cache's own non-retaining consumers - MemDB.Put/Get/Delete
// and the backend's Get, which copy or only read the key - or stored back into the field.
func scratchConfinement(c *an.Ctx) {
	const st = "smartcontract/storage"
	field := c.P.Field(st + ".CacheDB.keyScratch")
	if field == nil {
		c.Undecide("anchor|CacheDB.keyScratch", "anchors must resolve", "-", "field not found")
		return
	}
	mk := c.P.Func(st + ".makePrefixedKey")
	if mk == nil {
		c.Undecide("anchor|makePrefixedKey", "anchors must resolve", "-", "function not found")
		return
	}
	allowedCallee := func(k ssa.CallInstruction) bool {
		if o := an.CalleeObj(k.Common()); o != nil {
			full := o.FullName()
			switch {
			case strings.HasSuffix(full, "overlaydb.MemDB).Put"), strings.HasSuffix(full, "overlaydb.MemDB).Get"), strings.HasSuffix(full, "overlaydb.MemDB).Delete"):
				return true
			case strings.HasSuffix(full, "overlaydb.OverlayDB).Get"):
				// the block overlay looks the key up in its memdb and in the store; neither keeps it
				return true
			case o.Name() == "Get" && k.Common().IsInvoke():
				// the backend (common.PersistStore / OverlayStore) looks the key up and does not keep it
				return true
			}
		}
		if bi, ok := k.Common().Value.(*ssa.Builtin); ok {
			switch bi.Name() {
			case "len", "cap", "copy", "append":
				return true
			}
		}
		return false
	}
	fns := c.P.RepoSrcFuncs(st)
	returnsScratch := map[*ssa.Function]bool{mk: true} // makePrefixedKey(dst, ..) returns dst (re-sliced/regrown)
	nLoads, bad := 0, ""
	for round := 0; round < 4; round++ {
		changed := false
		for _, fn := range fns {
			if strings.HasSuffix(c.P.Fset.Position(fn.Pos()).Filename, "_test.go") {
				continue
			}
			tainted := map[ssa.Value]bool{}
			for again := true; again; {
				again = false
				for _, b := range fn.Blocks {
					for _, in := range b.Instrs {
						v, ok := in.(ssa.Value)
						if !ok || tainted[v] {
							continue
						}
						t := false
						switch x := in.(type) {
						case *ssa.UnOp:
							t = fieldOfLoad(x) == field
							if t && round == 0 {
								nLoads++
							}
						case *ssa.Slice:
							t = tainted[x.X]
						case *ssa.Phi:
							for _, e := range x.Edges {
								t = t || tainted[e]
							}
						case *ssa.ChangeType:
							t = tainted[x.X]
						case *ssa.Call:
							if callee := x.Call.StaticCallee(); callee != nil && returnsScratch[callee] {
								if callee == mk {
									t = tainted[x.Call.Args[0]]
								} else {
									t = true
								}
							}
							if bi, isB := x.Call.Value.(*ssa.Builtin); isB && bi.Name() == "append" {
								t = tainted[x.Call.Args[0]]
							}
						}
						if t {
							tainted[v] = true
							again = true
						}
					}
				}
			}
			for v := range tainted {
				if v.Referrers() == nil {
					continue
				}
				for _, ref := range *v.Referrers() {
					switch x := ref.(type) {
					case *ssa.DebugRef, *ssa.Slice, *ssa.Phi, *ssa.ChangeType, *ssa.IndexAddr, *ssa.UnOp:
					case *ssa.Store:
						if x.Val == v && an.FieldOf(x.Addr) != field {
							bad = fmt.Sprintf("%s stores the scratch key somewhere else at %s", an.FuncName(fn), c.P.Rel(x.Pos()))
						}
					case *ssa.Return:
						if fn.Object() != nil && fn.Object().Exported() {
							bad = fmt.Sprintf("%s returns the scratch key to its caller at %s", an.FuncName(fn), c.P.Rel(x.Pos()))
						} else if !returnsScratch[fn] {
							returnsScratch[fn] = true
							changed = true
						}
					case ssa.CallInstruction:
						if callee := x.Common().StaticCallee(); callee != nil && (callee == mk || returnsScratch[callee] && callee != mk) {
							continue
						}
						if !allowedCallee(x) {
							bad = fmt.Sprintf("%s hands the scratch key to %s at %s", an.FuncName(fn), callName(x), c.P.Rel(x.Pos()))
						}
					default:
						if _, isV := ref.(ssa.Value); isV {
							if _, isIface := ref.(*ssa.MakeInterface); isIface {
								bad = fmt.Sprintf("%s boxes the scratch key at %s", an.FuncName(fn), c.P.Rel(ref.Pos()))
							}
						}
					}
				}
			}
		}
		if !changed {
			break
		}
	}
	c.RequireMin("reads of CacheDB.keyScratch", nLoads, 1)
	c.Check(bad == "", "alias|CacheDB.keyScratch|never-retained", "the cache's reusable key buffer is only ever given to consumers that copy or merely read it (MemDB.Put/Get/Delete, backend Get): nothing that outlives the call - an iterator's range in particular - may hold a slice of it", "smartcontract/storage/cachedb.go", bad)
}

func callName(k ssa.CallInstruction) string {
	if o := an.CalleeObj(k.Common()); o != nil {
		if o.Pkg() != nil {
			return o.Pkg().Name() + "." + o.Name()
		}
		return o.Name()
	}
	if bi, ok := k.Common().Value.(*ssa.Builtin); ok {
		return bi.Name()
	}
	return "a function value"
}

var _ = types.Typ
