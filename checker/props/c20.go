package props

import (
	"fmt"
	"go/token"
	"go/types"
	"strings"

	"golang.org/x/tools/go/ssa"

	"verif/checker/an"
)

func init() {
	register(&Prop{ID: "C20", Patterns: []string{"./core/types", "./common"}, Run: runC20})
}

func runC20(c *an.Ctx) {
	const ct = "core/types"
	c.Explanation = "A6 codec + A5 frame + A2 guard on block/header encoding: Header and Block writer/reader token sequences agree (widths, length-prefix kinds, nesting, order); Header.Hash hashes exactly serializationUnsigned, which reads every Header field except the signer list, the signatures and the hash cache; " +
		"Block.Deserialization rejects duplicates through a set keyed by the transaction hash — the membership lookup guards both the continuation of the loop and success, and every continuing iteration inserts the hash it looked up — and accepts only if Header.TransactionsRoot equals ComputeMerkleRoot of exactly the hashes of the transactions it appended. Decides these necessary conditions for all byte strings; byte-exact re-encoding of public keys is not decided."
	if !controlGuard(c) {
		return
	}
	codecAgree(c, "codec|Header", ct, "Header", "Serialization", "Deserialization")
	codecAgree(c, "codec|Block", ct, "Block", "Serialization", "Deserialization")
	codecAgree(c, "codec|CrossChainMsg", ct, "CrossChainMsg", "Serialization", "Deserialization")
	// hash coverage
	hdr, _ := c.P.Obj(ct + ".Header").(*types.TypeName)
	unsigned := mustFunc(c, ct+".(*Header).serializationUnsigned")
	hashFn := mustFunc(c, ct+".(*Header).Hash")
	if hdr != nil && unsigned != nil && hashFn != nil {
		reads := an.FieldReads(unsigned)
		excluded := map[string]string{"Bookkeepers": "signer list", "SigData": "signatures", "hash": "hash cache"}
		for _, f := range an.StructFields(hdr.Type()) {
			key := "frame|Header.Hash|" + f.Name()
			if why, ok := excluded[f.Name()]; ok {
				c.Check(!reads[f], key, "the block hash does not cover the "+why, c.P.Rel(unsigned.Pos()), f.Name()+" is serialized into the hashed bytes")
				continue
			}
			c.Check(reads[f], key, "the block hash covers every header field except the signer list and signatures", c.P.Rel(unsigned.Pos()), "field "+f.Name()+" is not part of serializationUnsigned: two headers differing only in it would have the same hash")
		}
		// Hash() = sha256(sha256(serializationUnsigned))
		uns := callsIn(hashFn, funcObj(unsigned))
		sums := 0
		var others []string
		for _, g := range an.InlineReach(hashFn) {
			for _, k := range an.Calls(g) {
				if f := k.Common().StaticCallee(); f != nil && f.String() == "crypto/sha256.Sum256" {
					sums++
				}
				if f := k.Common().StaticCallee(); f != nil && strings.HasSuffix(f.Signature.String(), "common.ZeroCopySink)") && f != unsigned {
					others = append(others, f.Name())
				}
			}
		}
		c.Check(len(uns) == 1 && sums == 2 && len(others) == 0, "frame|Header.Hash|hashes-unsigned-serialization", "Header.Hash is the double SHA-256 of serializationUnsigned and nothing else", c.P.Rel(hashFn.Pos()), fmt.Sprintf("unsigned calls %d, sha256 calls %d, other writers %v", len(uns), sums, others))
	}
	// Block.Deserialization
	bd := mustFunc(c, ct+".(*Block).Deserialization")
	txHash := mustObj(c, ct+".(*Transaction).Hash")
	merkle := mustFunc(c, "common.ComputeMerkleRoot")
	if bd == nil || txHash == nil || merkle == nil {
		return
	}
	hashCalls := an.CallsToReach(bd, txHash)
	c.Check(len(hashCalls) == 1, "shape|Block.Deserialization|one-tx-hash", "each decoded transaction is hashed once", c.P.Rel(bd.Pos()), fmt.Sprintf("%d calls", len(hashCalls)))
	if len(hashCalls) != 1 {
		return
	}
	hv := hashCalls[0].Value()
	// the function that holds the decoding loop: Deserialization itself or the private helper the loop was moved to
	root := bd
	bd = hashCalls[0].Parent()
	// duplicates: lookup in a fresh map keyed by this hash
	var set ssa.Value
	dup := &an.Guard{Name: "hash already seen", FailValue: an.ATrue, MatchValue: func(v ssa.Value) bool {
		// seen[h] on a set (map to bool) or the presence bit of `_, dup := seen[h]`
		l, ok := v.(*ssa.Lookup)
		if ex, isEx := v.(*ssa.Extract); isEx && ex.Index == 1 {
			l, ok = ex.Tuple.(*ssa.Lookup)
			ok = ok && l.CommaOk
		} else if ok && l.CommaOk {
			return false
		}
		if !ok {
			return false
		}
		if _, isMap := l.X.Type().Underlying().(*types.Map); !isMap {
			return false
		}
		if an.Origin(l.Index) != hv && l.Index != hv {
			return false
		}
		set = l.X
		return true
	}}
	noIterationCompletesWhenFailing(c, "forall|Block.Deserialization|no-duplicate-continues", "a transaction whose hash was already seen in this block aborts decoding (set membership on the transaction hash)", bd, []*an.Guard{dup}, nil)
	if set != nil {
		_, fresh := set.(*ssa.MakeMap)
		var ups []ssa.Instruction
		good := true
		for _, ref := range *set.Referrers() {
			if mu, ok := ref.(*ssa.MapUpdate); ok {
				ups = append(ups, mu)
				if mu.Key != hv && an.Origin(mu.Key) != hv {
					good = false
				}
			}
		}
		// every continuing iteration inserts
		cut := map[ssa.Instruction]bool{}
		for _, u := range ups {
			cut[u] = true
		}
		skips := false
		for _, e := range an.BackEdges(bd) {
			if !an.LoopBlocks(e[0], e[1])[hashCalls[0].Block()] {
				continue
			}
			r := (&an.Query{Fn: bd, Cut: cut, Start: e[1].Instrs[0]}).Run()
			if r.Reaches(e[0].Instrs[len(e[0].Instrs)-1]) {
				skips = true
			}
		}
		c.Check(fresh && good && len(ups) >= 1 && !skips, "distinct|Block.Deserialization|set-of-all-hashes", "the duplicate test is against a fresh set into which every accepted transaction's hash is inserted (not just the previous one)", c.P.Rel(bd.Pos()),
			fmt.Sprintf("fresh map: %v, inserts keyed by the tx hash: %v (%d), an iteration can continue without inserting: %v", fresh, good, len(ups), skips))
	} else {
		c.Violate("distinct|Block.Deserialization|set-of-all-hashes", "the duplicate test is a set membership on the transaction hash", c.P.Rel(bd.Pos()), "no map lookup keyed by the transaction hash")
	}
	// root comparison
	var rootCmp ssa.Value
	bd = root
	for _, g := range an.InlineReach(bd) {
		for _, v := range an.FindValues(g, func(v ssa.Value) bool {
			b, ok := v.(*ssa.BinOp)
			if !ok || (b.Op != token.NEQ && b.Op != token.EQL) {
				return false
			}
			return strings.HasSuffix(an.AccessPath(b.X), ".TransactionsRoot") || strings.HasSuffix(an.AccessPath(b.Y), ".TransactionsRoot")
		}) {
			rootCmp = v
		}
	}
	if rootCmp == nil {
		c.Violate("guard|Block.Deserialization|tx-root", "a block is accepted only if the header's transaction root matches the decoded transactions", c.P.Rel(bd.Pos()), "comparison with Header.TransactionsRoot not found")
		return
	}
	mismatch := an.ATrue
	if rootCmp.(*ssa.BinOp).Op == token.EQL {
		mismatch = an.AFalse
	}
	g := &an.Guard{Name: "root mismatch", FailValue: mismatch, MatchValue: func(v ssa.Value) bool { return v == rootCmp }}
	v := an.Guarded(c.P, bd, []*an.Guard{g}, func(in ssa.Instruction) bool {
		r, ok := in.(*ssa.Return)
		if !ok {
			return false
		}
		k, isC := r.Results[0].(*ssa.Const)
		return isC && k.Value == nil
	}, false)
	c.Check(v.Holds && v.ActionSites >= 1, "guard|Block.Deserialization|tx-root", "a block is accepted only if the header's transaction root matches the decoded transactions", c.P.Rel(bd.Pos()), v.Witness)
	// the computed side: ComputeMerkleRoot(hashes) where hashes collects hv per iteration
	b := rootCmp.(*ssa.BinOp)
	comp := b.X
	if strings.HasSuffix(an.AccessPath(b.X), ".TransactionsRoot") {
		comp = b.Y
	}
	okRoot := false
	if call, isC := an.Origin(comp).(*ssa.Call); isC && call.Call.StaticCallee() == merkle {
		var srcs []ssa.Value
		for _, d := range an.Deref(bd, call.Call.Args[0]) {
			srcs = append(srcs, an.AllSources(d)...)
		}
		for _, s := range srcs {
			if ap, isA := s.(*ssa.Call); isA {
				if bi, isB := ap.Call.Value.(*ssa.Builtin); isB && bi.Name() == "append" && len(ap.Call.Args) == 2 {
					// appended element is hv (through the varargs array)
					if sl, isS := ap.Call.Args[1].(*ssa.Slice); isS {
						if al, isAl := sl.X.(*ssa.Alloc); isAl {
							for _, ref := range *al.Referrers() {
								if ia, isI := ref.(*ssa.IndexAddr); isI {
									for _, r2 := range *ia.Referrers() {
										if st, isSt := r2.(*ssa.Store); isSt && (st.Val == hv || an.Origin(st.Val) == hv) {
											okRoot = true
										}
									}
								}
							}
						}
					}
				}
			}
		}
	}
	c.Check(okRoot, "same-subject|Block.Deserialization|root-over-decoded-hashes", "the root compared with the header is ComputeMerkleRoot over the hashes of the decoded transactions, one per transaction", c.P.Rel(bd.Pos()), "computed side is not ComputeMerkleRoot(list appended with each tx hash)")
	// every iteration appends both the hash and the transaction
	txsField := c.P.Field(ct + ".Block.Transactions")
	appendsTx := false
	for _, g := range an.InlineReach(bd) {
		for _, w := range an.DirectFieldWrites(g) {
			if w.Field == txsField && w.Kind == "store" {
				appendsTx = true
			}
		}
	}
	c.Check(appendsTx, "shape|Block.Deserialization|appends-transactions", "decoded transactions are appended to the block", c.P.Rel(bd.Pos()), "no store to Block.Transactions")
}
