package props

import (
	"fmt"
	"go/token"
	"go/types"
	"strings"

	"golang.org/x/tools/go/ssa"

	"verif/checker/an"
)

// executionInputsRule: the result of executing a block is a function of the block and of the committed state only.
// ExecuteBlock also runs on candidate blocks that may never be committed, so (a) nothing reachable from block
// execution may write a field of the long-lived store objects (a value remembered from one execution and used by the
// next would make results depend on which candidates this process happened to execute), and (b) the global
// parameters (gas table) are re-read for every block above genesis, before any transaction of the block runs, from a
// fresh overlay of the committed state - never from the overlay a block is being executed on.
func executionInputsRule(c *an.Ctx, fns []*ssa.Function) {
	lsPkg := c.P.Pkg(ls)
	if lsPkg == nil {
		c.Undecide("anchor|"+ls, "anchors must resolve", "-", "package not loaded")
		return
	}
	longLived := func(t types.Type) *types.Named {
		if p, ok := t.Underlying().(*types.Pointer); ok {
			t = p.Elem()
		}
		n, ok := t.(*types.Named)
		if !ok || n.Obj().Pkg() == nil || !strings.HasSuffix(n.Obj().Pkg().Path(), ls) {
			return nil
		}
		if _, isS := n.Underlying().(*types.Struct); !isS {
			return nil
		}
		return n
	}
	nScanned, nViol := 0, 0
	for _, fn := range fns {
		if !strings.HasSuffix(an.FuncPkgPath(fn), ls) || strings.HasSuffix(c.P.Fset.Position(fn.Pos()).Filename, "_test.go") {
			continue
		}
		nScanned++
		for _, w := range an.DirectFieldWrites(fn) {
			var base ssa.Value
			switch x := w.In.(type) {
			case *ssa.Store:
				if fa, ok := x.Addr.(*ssa.FieldAddr); ok {
					base = fa.X
				}
			}
			if base == nil {
				// map update / delete of a map held in a field: find the owner through the load
				var m ssa.Value
				switch x := w.In.(type) {
				case *ssa.MapUpdate:
					m = x.Map
				case *ssa.Call:
					m = x.Call.Args[0]
				}
				if u, ok := m.(*ssa.UnOp); ok {
					if fa, ok := u.X.(*ssa.FieldAddr); ok {
						base = fa.X
					}
				}
			}
			if base == nil {
				continue
			}
			owner := longLived(base.Type())
			if owner == nil {
				continue
			}
			// a value built inside this very function (a fresh result object) is not process state
			if _, isAlloc := an.Origin(base).(*ssa.Alloc); isAlloc {
				continue
			}
			nViol++
			c.Violate(fmt.Sprintf("inputs|%s|writes-%s.%s", an.FuncName(fn), owner.Obj().Name(), w.Field.Name()),
				"block execution (also run on candidate blocks that are never committed) writes no field of the long-lived store objects: its result depends on the block and the committed state only",
				c.P.Rel(w.In.Pos()), "execution remembers process-local state in "+owner.Obj().Name()+"."+w.Field.Name())
		}
	}
	c.RequireMin("ledger store functions on the execution path scanned for writes to store objects", nScanned, 10)
	if nViol == 0 {
		c.Hold("inputs|block-execution|no-writes-to-store-objects", "block execution writes no field of the long-lived store objects", "-", fmt.Sprintf("%d functions", nScanned))
	}

	eb := mustFunc(c, ls+".(*LedgerStoreImp).executeBlock")
	refresh := mustObj(c, ls+".refreshGlobalParam")
	handle := mustObj(c, ls+".(*LedgerStoreImp).handleTransaction")
	newOverlay := mustObj(c, ls+".(*StateStore).NewOverlayDB")
	newCache := mustObj(c, "smartcontract/storage.NewCacheDB")
	if eb == nil || refresh == nil || handle == nil || newOverlay == nil || newCache == nil {
		return
	}
	assume := map[ssa.Value]an.Abs{}
	for _, v := range an.FindValues(eb, func(v ssa.Value) bool {
		b, ok := v.(*ssa.BinOp)
		if !ok {
			return false
		}
		k, isK := b.Y.(*ssa.Const)
		if !isK || k.Value == nil || k.Uint64() != 0 {
			return false
		}
		f := fieldOfLoad(b.X)
		return f != nil && f.Name() == "Height"
	}) {
		b := v.(*ssa.BinOp)
		switch b.Op {
		case token.NEQ, token.GTR:
			assume[v] = an.ATrue
		case token.EQL:
			assume[v] = an.AFalse
		}
	}
	cut := map[ssa.Instruction]bool{}
	for _, fn := range an.InlineReach(eb) {
		for _, k := range an.CallsTo(fn, refresh) {
			cut[k] = true
			// the parameters are read from a fresh overlay of the committed state
			ok := false
			if nc, isCall := an.Origin(argsNoRecv(k.Common())[1]).(*ssa.Call); isCall && an.CalleeObj(nc.Common()) == newCache {
				if no, isCall := an.Origin(nc.Call.Args[0]).(*ssa.Call); isCall && an.CalleeObj(no.Common()) == newOverlay {
					ok = true
				}
			}
			c.Check(ok, "inputs|"+an.FuncName(fn)+"|params-read-from-committed-state", "the global parameters are read through a fresh overlay of the committed state (stateStore.NewOverlayDB()), not through the overlay a block is being executed on", c.P.Rel(k.Pos()),
				"the state refreshGlobalParam reads is not NewCacheDB(stateStore.NewOverlayDB())")
		}
	}
	res := (&an.Query{Fn: eb, Assume: assume, Cut: cut}).Run()
	nh := 0
	for _, fn := range an.InlineReach(eb) {
		for _, k := range an.CallsTo(fn, handle) {
			nh++
			st := res.StatesAt(k)
			w := ""
			if len(st) > 0 {
				w = res.Witness(c.P, st[0])
			}
			c.Check(len(st) == 0, "inputs|executeBlock|params-refreshed-before-every-block", "above genesis, no transaction of a block is executed before the global parameters were re-read for this block", c.P.Rel(k.Pos()),
				"handleTransaction is reachable without refreshGlobalParam: "+w)
		}
	}
	c.RequireMin("refreshGlobalParam call sites on the block-execution path", len(cut), 1)
	c.RequireMin("handleTransaction call sites in block execution", nh, 1)
}
