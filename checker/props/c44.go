package props

import (
	"fmt"

	"golang.org/x/tools/go/ssa"

	"verif/checker/an"
)

func init() {
	register(&Prop{ID: "C44", Patterns: []string{"./smartcontract/...", "./core/store/ledgerstore"}, Run: runC44})
}

func runC44(c *an.Ctx) {
	c.Explanation = "A2 guard (cut-set query on the SSA CFG with constant-phi folding and wrapper discovery): every call of CacheDB.PutContract in the repository is unreachable " +
		"when the preceding CacheDB.GetContract (directly or through a discovered wrapper such as ensureContractUndeployed) reports 'destroyed' or an error, and the address checked is the " +
		"address of the contract being stored; MigrateContractStorage/CleanContractStorage mark the old address destroyed (DeleteContract -> SetContractDestroyed) before touching storage, and every " +
		"iteration of the migration loop both Puts under the new address and Deletes the old key; NeoVM StoragePut/StorageDelete are unreachable unless checkStorageContext " +
		"(GetContract returns a live contract) succeeded. Decides these structural necessary conditions for all inputs; does not decide that iterating while writing visits every entry."
	c.Assumptions = append(c.Assumptions, "GetContract's result convention (item, destroyed, err) is as declared; the guard's failure modes are {err != nil}, {destroyed} for deployment and {err != nil}, {item == nil} for storage writes")
	if !controlGuard(c) {
		return
	}
	// the slices an iterator hands out are valid only until it is advanced (seed C44c)
	iteratorValuesNotUsedAfterAdvance(c, "smartcontract/storage", "smartcontract/service/neovm", "smartcontract/service/native/utils", "smartcontract/service/native/governance")
	getContract := mustObj(c, "smartcontract/storage.(*CacheDB).GetContract")
	putContract := mustObj(c, "smartcontract/storage.(*CacheDB).PutContract")
	if getContract == nil || putContract == nil {
		return
	}
	match := func(k ssa.CallInstruction) bool { return an.CalleeObj(k.Common()) == getContract }
	undeployed := &an.Guard{Name: "GetContract: not destroyed, no error", MatchCall: match,
		FailModes: [][]an.Abs{{an.AUnknown, an.ATrue, an.AUnknown}, {an.AUnknown, an.AUnknown, an.ANonNil}}}
	exists := &an.Guard{Name: "GetContract: live contract, no error", MatchCall: match,
		FailModes: [][]an.Abs{{an.ANil, an.AUnknown, an.AUnknown}, {an.AUnknown, an.AUnknown, an.ANonNil}}}

	cands := c.P.RepoSrcFuncs("smartcontract", "core/store/ledgerstore")
	c.Count("functions_analysed", len(cands))
	g1, w1 := an.DiscoverWrappers(cands, []*an.Guard{undeployed}, 3, nil)
	g2, w2 := an.DiscoverWrappers(cands, []*an.Guard{exists}, 3, nil)
	c.Extra["discovered_wrappers_undeployed"] = w1
	c.Extra["discovered_wrappers_live_contract"] = w2
	c.RequireMin("discovered 'contract undeployed' wrappers (neovm.ensureContractUndeployed, wasmvm.(*WasmVmService).ensureContractUndeployed)", len(w1), 2)

	n := guardedCalls(c, "guard-destroyed", "PutContract is reachable only after GetContract reported not-destroyed without error (directly or via a discovered wrapper)",
		putContract, g1, nil, nil)
	c.RequireMin("PutContract call sites", n, 2)

	// the address checked is the address of the contract stored
	addrM := mustObj(c, "core/payload.(*DeployCode).Address")
	sites := callSitesInRepo(c.P, putContract)
	for _, fn := range sortedFuncs(sites) {
		for _, put := range sites[fn] {
			subject := argsNoRecv(put.Common())[0]
			key := fmt.Sprintf("same-subject|%s|PutContract", an.FuncName(fn))
			ok, why := false, "no guard call whose address argument is <stored contract>.Address()"
			for _, k := range an.Calls(fn) {
				isG := false
				for _, g := range g1 {
					if g.MatchCall(k) {
						isG = true
					}
				}
				if !isG {
					continue
				}
				for _, a := range argsNoRecv(k.Common()) {
					if call, isCall := an.Origin(a).(*ssa.Call); isCall && an.CalleeObj(&call.Call) == addrM && an.Origin(recvOf(&call.Call)) == an.Origin(subject) {
						ok = true
					}
				}
			}
			c.Check(ok, key, "the address passed to the destroyed-check is the address of the very contract that is stored", c.P.Rel(put.Pos()), why)
		}
	}

	// storage writers of the NeoVM service
	put := mustObj(c, "smartcontract/storage.(*CacheDB).Put")
	del := mustObj(c, "smartcontract/storage.(*CacheDB).Delete")
	// checkStorageContext must itself be a live-contract guard ...
	csc := mustFunc(c, "smartcontract/service/neovm.checkStorageContext")
	if csc != nil {
		isW := an.IsWrapper(csc, []*an.Guard{exists}, false)
		c.Check(isW, "wrapper|smartcontract/service/neovm.checkStorageContext",
			"checkStorageContext returns a non-nil error whenever GetContract reports an error or no live contract (item == nil, which is what a destroyed address yields)",
			c.P.Rel(csc.Pos()), "a success return is reachable with GetContract failing: for item == nil && err == nil the function returns errors.NewDetailErr(nil, ...), which is nil")
	}
	// ... and the storage syscalls must be unreachable unless it succeeded
	// (decided independently of the previous obligation, with
	// checkStorageContext taken as the guard by table).
	g2 = append(g2, an.GuardForFuncs("checkStorageContext", funcObj(csc)))
	for _, name := range []string{"smartcontract/service/neovm.StoragePut", "smartcontract/service/neovm.StorageDelete"} {
		fn := mustFunc(c, name)
		if fn == nil || put == nil || del == nil || csc == nil {
			continue
		}
		v := an.Guarded(c.P, fn, g2, func(in ssa.Instruction) bool { return isCallTo(in, put, del) }, false)
		key := "guard-live-contract|" + an.FuncName(fn)
		rule := "NeoVM storage writes are reachable only after checkStorageContext (or GetContract) succeeded"
		if v.ActionSites == 0 {
			c.Undecide(key, rule, c.P.Rel(fn.Pos()), "no CacheDB.Put/Delete call found in the storage syscall")
		} else if v.Holds && v.GuardSites > 0 {
			c.Hold(key, rule, c.P.Rel(fn.Pos()), "")
		} else {
			c.Violate(key, rule, c.P.Rel(fn.Pos()), "write reachable with the context check failing or absent: "+v.Witness)
		}
	}

	// destruction is recorded before storage is touched
	delContract := mustObj(c, "smartcontract/storage.(*CacheDB).DeleteContract")
	setDestroyed := mustObj(c, "smartcontract/storage.(*CacheDB).SetContractDestroyed")
	newIter := mustObj(c, "smartcontract/storage.(*CacheDB).NewIterator")
	cleanData := mustObj(c, "smartcontract/storage.(*CacheDB).CleanContractStorageData")
	for _, name := range []string{"smartcontract/storage.(*CacheDB).MigrateContractStorage", "smartcontract/storage.(*CacheDB).CleanContractStorage"} {
		fn := mustFunc(c, name)
		if fn == nil || delContract == nil {
			continue
		}
		var targets []ssa.Instruction
		targets = append(targets, callsIn(fn, put, del, newIter, cleanData)...)
		for _, r := range an.Returns(fn) {
			targets = append(targets, r)
		}
		ok, why := an.MustPass(c.P, fn, callsIn(fn, delContract), targets, nil)
		c.Check(ok && len(callsIn(fn, delContract)) > 0, "destroy-first|"+an.FuncName(fn), "the old address is deleted and marked destroyed (DeleteContract) before any storage entry is moved/removed and on every path to return",
			c.P.Rel(fn.Pos()), why)
	}
	if fn := mustFunc(c, "smartcontract/storage.(*CacheDB).DeleteContract"); fn != nil && setDestroyed != nil {
		var rets []ssa.Instruction
		for _, r := range an.Returns(fn) {
			rets = append(rets, r)
		}
		ok, why := an.MustPass(c.P, fn, callsIn(fn, setDestroyed), rets, nil)
		c.Check(ok, "destroy-first|DeleteContract->SetContractDestroyed", "DeleteContract always records the destroyed mark", c.P.Rel(fn.Pos()), why)
	}
	iterNext := mustObj(c, "core/store/common.StoreIterator.Next")
	if iterNext == nil {
		return
	}
	if fn := mustFunc(c, "smartcontract/storage.(*CacheDB).MigrateContractStorage"); fn != nil {
		loopIterationsMustCallAt(c, "migrate-loop", "every iteration of the migration loop (the loop that advances the storage iterator) stores the entry under the new address and deletes the old key", fn, iterNext, put, del)
	}
	if fn := mustFunc(c, "smartcontract/storage.(*CacheDB).CleanContractStorageData"); fn != nil {
		loopIterationsMustCallAt(c, "clean-loop", "every iteration of the clean loop (the loop that advances the storage iterator) deletes the visited key", fn, iterNext, del)
	}
}
