package props

import (
	"fmt"
	"go/token"
	"strings"

	"golang.org/x/tools/go/ssa"

	"verif/checker/an"
)

// endorseSigsDistinctRule: the fallback of commitDone counts one vote per element of EndorseSigs[peer], so "distinct
// peers" rests on the invariant that a peer's list holds at most one non-empty endorsement per proposer. Decided
// structurally on the only writer of the table: (a) EndorseSigs is updated only by addBlockEndorsementLocked; (b)
// every update that grows an existing list (append to something that is not a fresh empty list) is unreachable when
// the list already holds an entry for the same proposer (the duplicate scan's comparison is true) and the new
// endorsement is not the empty one; other updates store a fresh one-element list.
func endorseSigsDistinctRule(c *an.Ctx) {
	const vb = "consensus/vbft"
	field := c.P.Field(vb + ".CandidateInfo.EndorseSigs")
	add := mustFunc(c, vb+".(*BlockPool).addBlockEndorsementLocked")
	if field == nil {
		c.Undecide("anchor|CandidateInfo.EndorseSigs", "anchors must resolve", "-", "field not found")
		return
	}
	if add == nil {
		return
	}
	// (a) who writes the table
	nUpd := 0
	for _, fn := range c.P.RepoSrcFuncs(vb) {
		if strings.HasSuffix(c.P.Fset.Position(fn.Pos()).Filename, "_test.go") {
			continue
		}
		for _, w := range an.DirectFieldWrites(fn) {
			if w.Field != field || w.Kind == "store" {
				continue
			}
			nUpd++
			root := fn
			for root.Parent() != nil {
				root = root.Parent()
			}
			inAdd := false
			for _, g := range an.InlineReach(add) {
				if g == root {
					inAdd = true
				}
			}
			c.Check(inAdd, "confine|EndorseSigs|"+an.FuncName(fn), "the per-peer endorsement lists are updated only by addBlockEndorsementLocked (which keeps one entry per peer and proposer)", c.P.Rel(w.In.Pos()), "new writer of CandidateInfo.EndorseSigs")
		}
	}
	// (a vacuity guard only: how many update statements the one writer uses is its own business)
	c.RequireMin("updates of CandidateInfo.EndorseSigs", nUpd, 1)

	// (b) growing updates
	if len(add.Params) < 4 {
		c.Undecide("shape|addBlockEndorsementLocked|params", "anchors must resolve", c.P.Rel(add.Pos()), "unexpected signature")
		return
	}
	newSig := add.Params[3]
	baseIsNew := func(v ssa.Value) bool {
		// a load of a field of the new endorsement (the parameter)
		ld, ok := v.(*ssa.UnOp)
		if !ok || ld.Op != token.MUL {
			return false
		}
		fa, isFA := ld.X.(*ssa.FieldAddr)
		return isFA && an.ResolveActual(add, fa.X) == ssa.Value(newSig)
	}
	fieldNameOf := func(v ssa.Value) string {
		if f := fieldOfLoad(v); f != nil {
			return f.Name()
		}
		return ""
	}
	sameProposer := &an.Guard{Name: "existing.EndorsedProposer == new.EndorsedProposer", FailValue: an.ATrue, MatchValue: func(v ssa.Value) bool {
		b, ok := v.(*ssa.BinOp)
		if !ok || b.Op != token.EQL || fieldNameOf(b.X) != "EndorsedProposer" || fieldNameOf(b.Y) != "EndorsedProposer" {
			return false
		}
		return baseIsNew(b.X) != baseIsNew(b.Y)
	}}
	// side condition: the new endorsement is a non-empty one
	extra := map[ssa.Value]an.Abs{}
	for _, g := range an.InlineReach(add) {
		for _, v := range an.FindValues(g, func(v ssa.Value) bool { return fieldNameOf(v) == "ForEmpty" && baseIsNew(v) }) {
			extra[v] = an.AFalse
		}
	}
	nGrow := 0
	isGrowingUpdate := func(in ssa.Instruction) bool {
		mu, ok := in.(*ssa.MapUpdate)
		if !ok || fieldOfLoad(mu.Map) != field {
			return false
		}
		k, isCall := mu.Value.(*ssa.Call)
		if !isCall {
			return false
		}
		bi, isB := k.Call.Value.(*ssa.Builtin)
		if !isB || bi.Name() != "append" {
			return false
		}
		return !isFreshSlice(k.Call.Args[0])
	}
	v := an.GuardedX(c.P, add, []*an.Guard{sameProposer}, extra, func(in ssa.Instruction) bool {
		if isGrowingUpdate(in) {
			nGrow++
			return true
		}
		return false
	}, true) // the comparison sits in a scan of the existing list: judged for a list that has entries
	c.Check(v.Holds && v.GuardSites >= 1 && v.ActionSites >= 1, "distinct|addBlockEndorsementLocked|one-entry-per-peer-and-proposer",
		"a peer's endorsement list grows by a non-empty endorsement only when the list holds no entry for that proposer yet (commitDone counts list entries as votes of distinct peers)", c.P.Rel(add.Pos()),
		fmt.Sprintf("%d duplicate tests, %d growing updates; a growing update is reachable although an entry for the same proposer exists: %s", v.GuardSites, v.ActionSites, v.Witness))
}
