package props

import (
	"fmt"
	"strings"


	"verif/checker/an"
)

// decoderRule applies A7 to every source function of the given packages that
// reads from a ZeroCopySource; returns (functions with reads, read sites).
func decoderRule(c *an.Ctx, keyPrefix string, pkgs ...string) (int, int) {
	return decoderRuleEx(c, keyPrefix, nil, pkgs...)
}

// staticReachFrom returns the repository functions reachable from roots by
// static calls (depth-first), roots included.
func staticReachFrom(c *an.Ctx, roots []*ssaFn) []*ssaFn {
	seen := map[*ssaFn]bool{}
	var out []*ssaFn
	var walk func(f *ssaFn)
	walk = func(f *ssaFn) {
		if f == nil || seen[f] || f.Blocks == nil || !c.P.InRepo(f) {
			return
		}
		seen[f] = true
		out = append(out, f)
		for _, k := range an.Calls(f) {
			walk(k.Common().StaticCallee())
		}
		for _, a := range f.AnonFuncs {
			walk(a)
		}
	}
	for _, r := range roots {
		walk(r)
	}
	return out
}

// decoderRuleFuncs applies A7 to the given functions.
func decoderRuleFuncs(c *an.Ctx, keyPrefix string, exemptEOF map[string]string, fns []*ssaFn) (int, int) {
	nf, nr := 0, 0
	for _, fn := range fns {
		issues, st := an.CheckDecoder(c.P, fn)
		if st.Reads == 0 {
			continue
		}
		nf++
		nr += st.Reads
		c.Count("callsites_analysed", st.Reads)
		if len(issues) == 0 {
			c.Hold(keyPrefix+"|"+an.FuncName(fn), "decoder discipline: irregular/eof results consumed, input-derived sizes bounded before use", c.P.Rel(fn.Pos()), fmt.Sprintf("%d reads, %d canonical-form sites, %d size uses", st.Reads, st.IrregularSites, st.SizeUses))
			continue
		}
		for _, is := range issues {
			if why, ok := exemptEOF[an.FuncName(fn)]; ok && is.Rule == "eof-dropped" {
				c.Note(keyPrefix+"|"+is.Rule+"|"+is.Key, "decoder discipline ("+is.Rule+")", c.P.Rel(is.Pos), "decided by reading: "+why)
				continue
			}
			c.Violate(keyPrefix+"|"+is.Rule+"|"+is.Key, "decoder discipline ("+is.Rule+")", c.P.Rel(is.Pos), is.Detail)
		}
	}
	return nf, nr
}

// decoderRuleEx: exempt maps a function name to the reason why the eof rule
// does not apply to it (decided by reading).
func decoderRuleEx(c *an.Ctx, keyPrefix string, exemptEOF map[string]string, pkgs ...string) (int, int) {
	nf, nr := 0, 0
	for _, fn := range c.P.RepoSrcFuncs(pkgs...) {
		if strings.HasSuffix(c.P.Fset.Position(fn.Pos()).Filename, "_test.go") {
			continue
		}
		issues, st := an.CheckDecoder(c.P, fn)
		if st.Reads == 0 {
			continue
		}
		nf++
		nr += st.Reads
		c.Count("callsites_analysed", st.Reads)
		if len(issues) == 0 {
			c.Hold(keyPrefix+"|"+an.FuncName(fn), "decoder discipline: irregular/eof results consumed, input-derived sizes bounded before use", c.P.Rel(fn.Pos()), fmt.Sprintf("%d reads, %d canonical-form sites, %d size uses", st.Reads, st.IrregularSites, st.SizeUses))
			continue
		}
		for _, is := range issues {
			if why, ok := exemptEOF[an.FuncName(fn)]; ok && is.Rule == "eof-dropped" {
				c.Note(keyPrefix+"|"+is.Rule+"|"+is.Key, "decoder discipline ("+is.Rule+")", c.P.Rel(is.Pos), "decided by reading: "+why)
				continue
			}
			c.Violate(keyPrefix+"|"+is.Rule+"|"+is.Key, "decoder discipline ("+is.Rule+")", c.P.Rel(is.Pos), is.Detail)
		}
	}
	return nf, nr
}
