// Package props instantiates the analyzers with repository-specific slots,
// one file per claimed property.
package props

import (
	"fmt"
	"sort"

	"verif/checker/an"
)

// Prop is a registered property check.
type Prop struct {
	ID       string
	Patterns []string // packages to load from the repository
	Run      func(c *an.Ctx)
}

var registry = map[string]*Prop{}

func register(p *Prop) { registry[p.ID] = p }

// Get returns the check for an id.
func Get(id string) *Prop { return registry[id] }

// IDs lists the registered property ids.
func IDs() []string {
	var out []string
	for k := range registry {
		out = append(out, k)
	}
	sort.Strings(out)
	return out
}

// ---- small helpers shared by property files ----

// mustFunc resolves a function or records an undecided obligation.
func mustFunc(c *an.Ctx, q string) *ssaFn {
	fn := c.P.Func(q)
	if fn == nil || fn.Blocks == nil {
		c.Undecide("anchor|"+q, "every anchor named in a slot table must resolve through type information", "-",
			fmt.Sprintf("function %s not found (renamed or removed): the rule cannot be evaluated", q))
		return nil
	}
	// a function a property names is a unit with rules of its own: queries rooted in its callers treat a call to
	// it as one step; only helpers the property does not know (e.g. ones a refactoring introduced) are entered
	an.AddOpaqueUnit(fn)
	return fn
}
