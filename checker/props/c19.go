package props

import (
	"fmt"
	"go/token"
	"strings"

	"golang.org/x/tools/go/ssa"

	"verif/checker/an"
)

func init() {
	register(&Prop{ID: "C19", Patterns: []string{"./core/types", "./core/payload"}, Run: runC19})
}

func runC19(c *an.Ctx) {
	const ct = "core/types"
	c.Explanation = "A5/A2/A3/A7 on transaction decoding: (1) Transaction.Serialization writes nothing but tx.Raw; (2) on the Ontology path Raw is assigned exactly the source bytes [pstart, pend) (BackUp(lenAll); NextBytes(lenAll) with lenAll = pend - pstart, pstart taken before the first read, pend after the last) — one encoding by construction; " +
		"(3) the hash is computed from the bytes [pstart, pos) with pos taken after the unsigned part and before the first read of the signature section, so signatures cannot influence it; (4) the size limits MAX_TX_SIZE and TX_MAX_SIG_SIZE guard the success return / the signature loop in every entry point; " +
		"(5) every decoder in core/types and core/payload obeys the decoder discipline (irregular consumed, eof not lost, decoded integers bounded before sizing/slicing); (6) the EIP-155 payload, whose Raw is produced by re-encoding, is decoded only with the strict rlp.DecodeBytes (which rejects trailing bytes) — the stream decoder rlp.Decode/NewStream is not used in these packages. Decides these necessary conditions for all byte strings; RLP's own canonicity is assumed."
	c.Assumptions = append(c.Assumptions, "go-ethereum's rlp.DecodeBytes accepts only canonical RLP with no trailing bytes")
	if !controlGuard(c) {
		return
	}
	deser := mustFunc(c, ct+".(*Transaction).Deserialization")
	ser := mustFunc(c, ct+".(*Transaction).Serialization")
	if deser == nil || ser == nil {
		return
	}
	// units with rules of their own below (declared before any query is run)
	mustFunc(c, ct+".(*Transaction).decodeEip155")
	mustFunc(c, ct+".TransactionFromRawBytes")
	mustFunc(c, ct+".(*Transaction).deserializeOntUnsigned")
	// the format probe (a helper such as isEip155TxBytes, or the same two-byte peek written in place) reads bytes
	// before the start position is taken and must give them back on every path that goes on decoding: from a
	// successful probe read, neither the start-position call nor the EIP-155 decoder is reachable without passing a
	// BackUp of the amount read
	probeReads := map[ssa.Instruction]bool{}
	{
		nb := mustObj(c, "common.(*ZeroCopySource).NextBytes")
		bu := mustObj(c, "common.(*ZeroCopySource).BackUp")
		posObj := mustObj(c, "common.(*ZeroCopySource).Pos")
		dec := mustObj(c, ct+".(*Transaction).decodeEip155")
		if nb != nil && bu != nil && posObj != nil && dec != nil {
			poss := an.CallsTo(deser, posObj)
			var targets []ssa.Instruction
			if len(poss) > 0 {
				targets = append(targets, poss[0])
			}
			targets = append(targets, callsIn(deser, dec)...)
			ok, why, n := true, "", 0
			for _, rd := range an.CallsToReach(deser, nb) {
				// a probe read is one from which the start position is still to be taken
				if len(poss) == 0 || !(&an.Query{Fn: deser, Start: rd}).Run().Reaches(poss[0]) {
					continue
				}
				n++
				probeReads[rd] = true
				assume := map[ssa.Value]an.Abs{}
				for _, e := range an.Extracts(rd.Value())[1] {
					assume[e] = an.AFalse
				}
				cut := map[ssa.Instruction]bool{}
				for _, b := range an.CallsToReach(deser, bu) {
					if an.AccessPath(argsNoRecv(b.Common())[0]) == an.AccessPath(argsNoRecv(rd.Common())[0]) {
						cut[b] = true
					}
				}
				r := (&an.Query{Fn: deser, Start: rd, Assume: assume, Cut: cut}).Run()
				for _, tg := range targets {
					if r.Reaches(tg) {
						ok, why = false, "decoding goes on at "+c.P.Rel(tg.Pos())+" after the probe read at "+c.P.Rel(rd.Pos())+" without a BackUp of the same amount"
					}
				}
			}
			c.Check(ok && n >= 1, "pair|Transaction.Deserialization|peek-restores-position", "the transaction-format probe gives back the bytes it read, so decoding starts at the transaction's first byte", c.P.Rel(deser.Pos()), fmt.Sprintf("%d probe reads; %s", n, why))
		}
	}
	// (1)
	{
		bad := ""
		n := 0
		for _, k := range an.Calls(ser) {
			callee := k.Common().StaticCallee()
			if callee == nil || callee.Signature.Recv() == nil || !strings.HasSuffix(callee.Signature.Recv().Type().String(), "common.ZeroCopySink") {
				continue
			}
			n++
			if callee.Name() != "WriteBytes" || !strings.HasSuffix(an.AccessPath(k.Common().Args[1]), ".Raw") {
				bad = callee.Name() + " at " + c.P.Rel(k.Pos())
			}
		}
		c.Check(n == 1 && bad == "", "shape|Transaction.Serialization|writes-only-Raw", "a transaction serializes to exactly its stored raw bytes", c.P.Rel(ser.Pos()), bad)
	}
	// (2),(3)
	posM := mustObj(c, "common.(*ZeroCopySource).Pos")
	nextBytes := mustObj(c, "common.(*ZeroCopySource).NextBytes")
	backUp := mustObj(c, "common.(*ZeroCopySource).BackUp")
	unsigned := mustObj(c, ct+".(*Transaction).deserializeOntUnsigned")
	readVarUint := mustObj(c, "common.(*ZeroCopySource).ReadVarUint")
	rawSigDeser := mustObj(c, ct+".(*RawSig).Deserialization")
	if posM != nil && nextBytes != nil && backUp != nil && unsigned != nil && readVarUint != nil && rawSigDeser != nil {
		poss := an.CallsTo(deser, posM)
		c.Check(len(poss) == 3, "shape|Transaction.Deserialization|three-positions", "start, end-of-unsigned and end positions are taken", c.P.Rel(deser.Pos()), fmt.Sprintf("%d Pos() calls", len(poss)))
		if len(poss) == 3 {
			pstart, pos, pend := poss[0], poss[1], poss[2]
			// pstart before any read
			var reads []ssa.Instruction
			for _, rd := range callsIn(deser, unsigned, readVarUint, rawSigDeser, nextBytes) {
				if !probeReads[rd] {
					reads = append(reads, rd) // the probe's own read is given back (rule above)
				}
			}
			ok, why := an.MustPass(c.P, deser, []ssa.Instruction{pstart}, reads, map[ssa.Value]an.Abs{})
			c.Check(ok, "sequence|Transaction.Deserialization|pstart-before-reads", "the start position is taken before anything is read", c.P.Rel(pstart.Pos()), why)
			// pos after unsigned, before sig section
			ok1, why1 := an.MustPass(c.P, deser, callsIn(deser, unsigned), []ssa.Instruction{pos}, nil)
			ok2, why2 := an.MustPass(c.P, deser, []ssa.Instruction{pos}, callsIn(deser, readVarUint, rawSigDeser), nil)
			c.Check(ok1 && ok2, "sequence|Transaction.Deserialization|hash-range-ends-before-signatures", "the hashed range ends after the unsigned content and before the first byte of the signature section is read", c.P.Rel(pos.Pos()), why1+why2)
			// pend after the sig loop: every RawSig read precedes... pend must be reachable only after the loop exit: sig reads cannot follow pend
			q := &an.Query{Fn: deser, Start: pend}
			r := q.Run()
			late := ""
			for _, k := range callsIn(deser, rawSigDeser, readVarUint, unsigned) {
				if r.Reaches(k) {
					late = c.P.Rel(k.Pos())
				}
			}
			c.Check(late == "", "sequence|Transaction.Deserialization|pend-after-last-read", "the end position is taken after the last read", c.P.Rel(pend.Pos()), "a read at "+late+" follows the end position")
			// hash input
			// reread(v, lo, hi): v is the first result of NextBytes(hi-lo) on the source, re-read after BackUp of the
			// same amount - followed through the private helpers Deserialization is split into
			reread := func(v ssa.Value, lo, hi ssa.Value) bool {
				ds := an.DerefCtx(deser, v, nil)
				if len(ds) == 0 {
					return false
				}
				for _, dc := range ds {
					d := dc.V
					e, isE := d.(*ssa.Extract)
					if !isE || e.Index != 0 {
						return false
					}
					nb, isC := e.Tuple.(*ssa.Call)
					if !isC || an.CalleeObj(&nb.Call) != nextBytes || !an.RereadOK(nb) {
						return false
					}
					for _, nc := range an.DerefCtx(deser, nb.Call.Args[1], dc.Ctx) {
						n := nc.V
						sub, isB := n.(*ssa.BinOp)
						if !isB || sub.Op != token.SUB {
							return false
						}
						okX, okY := false, false
						for _, x := range an.DerefCtx(deser, sub.X, nc.Ctx) {
							okX = okX || x.V == hi
						}
						for _, y := range an.DerefCtx(deser, sub.Y, nc.Ctx) {
							okY = okY || y.V == lo
						}
						if !okX || !okY {
							return false
						}
					}
				}
				return true
			}
			okHash := false
			var sums []ssa.CallInstruction
			for _, g := range an.InlineReach(deser) {
				for _, k := range an.Calls(g) {
					if f := k.Common().StaticCallee(); f != nil && f.String() == "crypto/sha256.Sum256" {
						sums = append(sums, k)
					}
				}
			}
			if len(sums) >= 1 {
				okHash = reread(sums[0].Common().Args[0], pstart.Value(), pos.Value())
			}
			c.Check(okHash, "same-subject|Transaction.Deserialization|hash-input", "the transaction hash is sha256(sha256(bytes[pstart:pos])) of the consumed source bytes", c.P.Rel(deser.Pos()), "hash input is not the re-read range pos-pstart")
			// Raw
			okRaw := false
			var rawStores []ssa.Instruction
			for _, g := range an.InlineReach(deser) {
				for _, w := range an.DirectFieldWrites(g) {
					if w.Kind != "store" || w.Field.Name() != "Raw" {
						continue
					}
					if reread(w.Val, pstart.Value(), pend.Value()) {
						okRaw = true
						rawStores = append(rawStores, w.In)
					}
				}
			}
			// ... on every path: once the end position is taken, no success return is reachable without that assignment
			// (a Raw set by the caller beforehand must not survive: it may contain bytes the decoder never consumed)
			if okRaw {
				cut := map[ssa.Instruction]bool{}
				for _, s := range rawStores {
					cut[s] = true
				}
				r := (&an.Query{Fn: deser, Start: pend, Cut: cut}).Run()
				always := true
				for _, ret := range an.SuccessReturns(deser) {
					if r.Reaches(ret) {
						always = false
					}
				}
				c.Check(always, "sequence|Transaction.Deserialization|Raw-assigned-on-every-success-path", "every successful Ontology-format decode assigns tx.Raw from the consumed range (a pre-set Raw never survives)", c.P.Rel(deser.Pos()), "a success return is reachable after the end position was taken without assigning tx.Raw")
			}
			c.Check(okRaw, "same-subject|Transaction.Deserialization|Raw-is-consumed-bytes", "tx.Raw is exactly the consumed source bytes [pstart, pend)", c.P.Rel(deser.Pos()), "Raw is not assigned from the re-read range pend-pstart")
		}
	}
	// (4) size limits
	maxGuard := func(fn *ssa.Function, constName string) []*an.Guard {
		lim := map[string]string{"MAX_TX_SIZE": "1048576", "TX_MAX_SIG_SIZE": "16"}[constName]
		return relGuards("> "+constName, token.GTR, func(v ssa.Value) bool { _, isK := v.(*ssa.Const); return !isK }, isConstVal(lim))
	}
	isSuccess := func(in ssa.Instruction) bool {
		r, ok := in.(*ssa.Return)
		if !ok {
			return false
		}
		k, isC := r.Results[len(r.Results)-1].(*ssa.Const)
		return isC && k.Value == nil
	}
	for _, name := range []string{ct + ".(*Transaction).Deserialization", ct + ".(*Transaction).decodeEip155", ct + ".TransactionFromRawBytes"} {
		fn := mustFunc(c, name)
		if fn == nil {
			continue
		}
		extra := map[ssa.Value]an.Abs{}
		if fn == deser {
			// the EIP-155 branch has its own limit in decodeEip155
			for _, k := range an.Calls(fn) {
				if f := k.Common().StaticCallee(); f != nil && f.Name() == "isEip155TxBytes" {
					extra[k.Value()] = an.AFalse
				}
			}
		}
		v := an.GuardedX(c.P, fn, maxGuard(fn, "MAX_TX_SIZE"), extra, isSuccess, false)
		c.Check(v.Holds && v.GuardSites == 1, "guard|"+fn.Name()+"|MAX_TX_SIZE", "inputs above the transaction size limit are rejected", c.P.Rel(fn.Pos()), v.Witness)
	}
	{
		v := an.Guarded(c.P, deser, maxGuard(deser, "TX_MAX_SIG_SIZE"), func(in ssa.Instruction) bool { return isCallTo(in, rawSigDeser) }, false)
		c.Check(v.Holds && v.GuardSites == 1, "guard|Deserialization|TX_MAX_SIG_SIZE", "no signature set is decoded when the announced count exceeds the limit", c.P.Rel(deser.Pos()), v.Witness)
	}
	// (5)
	var roots []*ssa.Function
	for _, n := range []string{ct + ".(*Transaction).Deserialization", ct + ".TransactionFromRawBytes", ct + ".(*RawSig).Deserialization", ct + ".(*RawSig).GetSig",
		"core/payload.(*InvokeCode).Deserialization", "core/payload.(*DeployCode).Deserialization", "core/payload.(*EIP155Code).Deserialization", ct + ".(*MutableTransaction).Deserialization"} {
		if f := c.P.Func(n); f != nil {
			roots = append(roots, f)
		}
	}
	c.RequireMin("transaction decoding roots", len(roots), 6)
	nf, nr := decoderRuleFuncs(c, "decoder", nil, staticReachFrom(c, roots))
	c.RequireMin("decoding functions reachable from transaction decoding", nf, 6)
	c.RequireMin("read sites", nr, 25)
	// (6) strict RLP
	n := 0
	for _, fn := range c.P.RepoSrcFuncs("core/types", "core/payload") {
		for _, k := range an.Calls(fn) {
			f := k.Common().StaticCallee()
			if f == nil || !strings.HasPrefix(an.FuncPkgPath(f), "github.com/ethereum/go-ethereum/rlp") {
				continue
			}
			switch f.Name() {
			case "DecodeBytes":
				n++
				c.Hold("strict-rlp|"+an.FuncName(fn)+"|DecodeBytes", "EIP-155 payloads are decoded with the strict byte decoder", c.P.Rel(k.Pos()), "")
			case "Decode", "NewStream", "NewListStream":
				c.Violate("strict-rlp|"+an.FuncName(fn)+"|"+f.Name(), "the stream decoder accepts trailing bytes after the first RLP value; a re-encoded transaction would then have several accepted encodings", c.P.Rel(k.Pos()), "use rlp.DecodeBytes")
			}
		}
	}
	c.RequireMin("strict RLP decode sites", n, 1)
}
