package props

import (
	"fmt"
	"go/ast"
	"go/constant"
	"go/token"
	"go/types"
	"sort"
	"strings"

	"golang.org/x/tools/go/ssa"

	"verif/checker/an"
)

func init() {
	register(&Prop{ID: "C24", Patterns: []string{"./p2pserver/message/types", "./p2pserver/link", "./p2pserver/common"}, Run: runC24})
}

const p2pTypes = "p2pserver/message/types"

func runC24(c *an.Ctx) {
	c.Explanation = "A2 guard + A10 registry + A7 decoder discipline on the P2P wire decoder: ReadMessage allocates the payload buffer (make with the header's length) and returns a message only after the magic test, the length <= MAX_PAYLOAD_LEN test and the checksum test passed, and only if the message's own Deserialization succeeded; " +
		"every message type whose CmdType is a constant has a case in makeEmptyMessage that returns that very type; every decoding function in p2pserver/message/types (and the peer-id/common decoders) consumes the `irregular` result of each canonical-form read, never drops an `eof` that no later read re-tests, and never uses an integer decoded from the payload as an allocation size, slice bound or index without a dominating bound " +
		"(for a slice bound: against the length of the sliced object, or a counting loop over the same value that appends one element per iteration without a wrapping conversion). Decides 'no panic / no over-allocation / non-canonical rejected' structurally for every payload; does not decide byte-exact round trip of nested core types (C19/C20)."
	if !controlGuard(c) {
		return
	}
	// --- ReadMessage
	rm := mustFunc(c, p2pTypes+".ReadMessage")
	if rm != nil {
		isMake := func(in ssa.Instruction) bool { _, ok := in.(*ssa.MakeSlice); return ok }
		isOK := func(in ssa.Instruction) bool {
			r, ok := in.(*ssa.Return)
			if !ok {
				return false
			}
			k, isC := r.Results[len(r.Results)-1].(*ssa.Const)
			return isC && k.Value == nil
		}
		both := func(in ssa.Instruction) bool { return isMake(in) || isOK(in) }
		// "hdr.<field> <op> other" in any spelling (operands mirrored, operator negated)
		byField := func(name string, op token.Token) []*an.Guard {
			isF := func(x ssa.Value) bool { return strings.HasSuffix(an.AccessPath(x), "."+name) }
			return relGuards("hdr."+name, op, isF, func(y ssa.Value) bool { return !isF(y) })
		}
		for _, tc := range []struct {
			g    []*an.Guard
			act  func(ssa.Instruction) bool
			name string
			rule string
		}{
			{byField("Magic", token.NEQ), both, "magic", "a frame with the wrong network magic is rejected before any payload allocation"},
			{byField("Length", token.GTR), both, "length", "a frame announcing more than MAX_PAYLOAD_LEN bytes is rejected before the payload buffer is allocated"},
			{byField("Checksum", token.NEQ), isOK, "checksum", "a frame whose payload checksum does not match is rejected"},
		} {
			v := an.Guarded(c.P, rm, tc.g, tc.act, false)
			c.Check(v.Holds && v.GuardSites == 1 && v.ActionSites >= 1, "guard|ReadMessage|"+tc.name, tc.rule, c.P.Rel(rm.Pos()), fmt.Sprintf("guard sites %d; %s", v.GuardSites, v.Witness))
		}
		// the bound compared is MAX_PAYLOAD_LEN and the allocation size is the checked length
		okBound, okSize := false, false
		maxPayload, _ := c.P.Obj("p2pserver/common.MAX_PAYLOAD_LEN").(*types.Const)
		var rmBlocks []*ssa.BasicBlock
		for _, g := range an.InlineReach(rm) {
			rmBlocks = append(rmBlocks, g.Blocks...)
		}
		isLength := func(v ssa.Value) bool {
			for _, d := range an.Deref(rm, v) {
				if cv, isCv := d.(*ssa.Convert); isCv {
					d = cv.X
				}
				if !strings.HasSuffix(an.AccessPathIn(rm, d), ".Length") {
					return false
				}
			}
			return true
		}
		for _, b := range rmBlocks {
			for _, in := range b.Instrs {
				if bo, ok := in.(*ssa.BinOp); ok {
					isMax := func(y ssa.Value) bool {
						k, isK := y.(*ssa.Const)
						return isK && maxPayload != nil && k.Value != nil && constant.Compare(k.Value, token.EQL, maxPayload.Val())
					}
					if m, _ := relMatch(bo, token.GTR, func(x ssa.Value) bool { _, isK := x.(*ssa.Const); return !isK && isLength(x) }, isMax); m {
						okBound = true
					}
				}
				if mk, ok := in.(*ssa.MakeSlice); ok {
					l := mk.Len
					if cv, isCv := l.(*ssa.Convert); isCv {
						l = cv.X
					}
					if isLength(l) {
						okSize = true
					}
				}
			}
		}
		c.Check(okBound, "same-subject|ReadMessage|length-vs-MAX_PAYLOAD_LEN", "the announced length is compared with MAX_PAYLOAD_LEN", c.P.Rel(rm.Pos()), "comparison constant changed")
		c.Check(okSize, "same-subject|ReadMessage|alloc-size-is-checked-length", "the only allocation is the payload buffer of the checked length", c.P.Rel(rm.Pos()), "make size is not hdr.Length")
		// Deserialization error tested
		deser := mustObj(c, p2pTypes+".Message.Deserialization")
		if deser != nil {
			v := an.Guarded(c.P, rm, []*an.Guard{an.GuardForFuncs("Message.Deserialization", deser)}, isOK, false)
			c.Check(v.Holds && v.GuardSites == 1, "guard|ReadMessage|deserialization-error", "a payload that its message type fails to decode is rejected", c.P.Rel(rm.Pos()), v.Witness)
		}
	}
	// --- registry
	registryRule(c)
	// --- decoders
	var roots []*ssa.Function
	for _, fn := range c.P.RepoSrcFuncs(p2pTypes) {
		if fn.Name() == "Deserialization" || fn.Name() == "ReadMessage" || fn.Name() == "readMessageHeader" {
			roots = append(roots, fn)
		}
	}
	c.RequireMin("p2p Deserialization roots", len(roots), 21)
	nf, nr := decoderRuleFuncs(c, "decoder", map[string]string{
		"p2pserver/message/types.readMessageHeader": "the source is a fixed-size header buffer filled by io.ReadFull; the four reads consume exactly MSG_HDR_LEN bytes",
	}, staticReachFrom(c, roots))
	c.RequireMin("decoding functions reachable from the p2p message decoders (incl. nested core types)", nf, 25)
	c.RequireMin("read sites", nr, 100)
}

// registryRule (A10): CmdType constants vs makeEmptyMessage cases.
func registryRule(c *an.Ctx) {
	mk := mustFunc(c, p2pTypes+".makeEmptyMessage")
	pk := c.P.Pkg(p2pTypes)
	if mk == nil || pk == nil {
		return
	}
	decl := c.P.FuncDecl(mk)
	if decl == nil {
		c.Undecide("registry|makeEmptyMessage", "registry must be analysable", c.P.Rel(mk.Pos()), "no syntax")
		return
	}
	cases := map[string]string{} // cmd constant -> type name
	ast.Inspect(decl, func(n ast.Node) bool {
		cc, ok := n.(*ast.CaseClause)
		if !ok {
			return true
		}
		for _, e := range cc.List {
			tv, ok := pk.TypesInfo.Types[e]
			if !ok || tv.Value == nil || tv.Value.Kind() != constant.String {
				continue
			}
			for _, st := range cc.Body {
				if r, isR := st.(*ast.ReturnStmt); isR && len(r.Results) == 1 {
					if t := pk.TypesInfo.TypeOf(r.Results[0]); t != nil {
						if p, isP := t.(*types.Pointer); isP {
							if nmd, isN := p.Elem().(*types.Named); isN {
								cases[constant.StringVal(tv.Value)] = nmd.Obj().Name()
							}
						}
					}
				}
			}
		}
		return true
	})
	c.RequireMin("makeEmptyMessage cases", len(cases), 21)
	msgIface, _ := c.P.Obj(p2pTypes + ".Message").(*types.TypeName)
	if msgIface == nil {
		c.Undecide("anchor|types.Message", "anchors must resolve", "-", "interface not found")
		return
	}
	iface := msgIface.Type().Underlying().(*types.Interface)
	exempt := map[string]string{"RawBlockHeader": "encode-only variant of BlkHeader (sent, never decoded as such: the wire type is the same headers command)", "UnknownMessage": "fallback for unknown commands"}
	var names []string
	scope := pk.Types.Scope()
	for _, n := range scope.Names() {
		tn, ok := scope.Lookup(n).(*types.TypeName)
		if !ok || types.IsInterface(tn.Type()) {
			continue
		}
		if types.Implements(types.NewPointer(tn.Type()), iface) {
			names = append(names, n)
		}
	}
	sort.Strings(names)
	c.RequireMin("message types", len(names), 21)
	for _, n := range names {
		fn := c.P.Func(p2pTypes + ".(*" + n + ").CmdType")
		key := "registry|" + n
		rule := "every message type with a constant command has a makeEmptyMessage case that constructs that very type (otherwise it is decoded as UnknownMessage or as another type)"
		if fn == nil {
			c.Undecide(key, rule, "-", "CmdType not found")
			continue
		}
		var cmd string
		konst := false
		for _, r := range an.Returns(fn) {
			if k, ok := r.Results[0].(*ssa.Const); ok && k.Value != nil && k.Value.Kind() == constant.String {
				cmd, konst = constant.StringVal(k.Value), true
			}
		}
		if why, ok := exempt[n]; ok {
			c.Note(key, rule, c.P.Rel(fn.Pos()), "exempt: "+why)
			continue
		}
		if !konst {
			c.Undecide(key, rule, c.P.Rel(fn.Pos()), "CmdType does not return a constant")
			continue
		}
		got, ok := cases[cmd]
		c.Check(ok && got == n, key, rule, c.P.Rel(fn.Pos()), fmt.Sprintf("command %q maps to %q in makeEmptyMessage", cmd, got))
	}
}
