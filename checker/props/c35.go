package props

import (
	"fmt"
	"go/token"
	"strings"

	"golang.org/x/tools/go/ssa"

	"verif/checker/an"
)

func init() {
	register(&Prop{ID: "C35", Patterns: []string{"./txnpool/common", "./validator/increment", "./consensus/vbft"}, Run: runC35})
}

func storeKind(v ssa.Value) string {
	switch x := v.(type) {
	case *ssa.Const:
		return "reset"
	case *ssa.MakeSlice:
		return "reset"
	case *ssa.Slice:
		return "reslice"
	case *ssa.Call:
		if bi, ok := x.Call.Value.(*ssa.Builtin); ok && bi.Name() == "append" {
			return "append"
		}
	}
	return "other"
}

func runC35(c *an.Ctx) {
	c.Explanation = "A2 guard + pairing on the EVM nonce mechanisms: (1) in the pool, a transaction replaces a pooled transaction with the same sender and nonce only on the edge where its gas price is strictly above the 1% bump of the old one, and the replaced slot is the one looked up with the new transaction's own nonce; " +
		"(2) every VBFT site that selects pool transactions for a proposal appends a transaction only on the Verify(...) == nil edge of the increment validator, with one nonce context (a fresh map) shared by all Verify calls of that selection, and a received proposal is processed only if every one of its transactions passed Verify with a shared context; " +
		"(3) the increment validator's two parallel windows (per-block tx hashes and per-block nonces), which Verify indexes with the same index, are always updated together — every append/reslice/reset of one is matched on the same paths by the same kind of update of the other; Verify rejects a transaction whose hash is in the window and an EVM transaction whose nonce differs from the context's expected nonce, and advances the context only after that test. " +
		"Decides these structural necessary conditions for all histories; consecutive-run and duplicate freedom over whole histories are not decided."
	if !controlGuard(c) {
		return
	}
	// (1) pool replacement
	if add := mustFunc(c, "txnpool/common.(*TXPool).addEIPTxPool"); add != nil {
		get := mustObj(c, "txnpool/common.(*txSortedMap).Get")
		put := mustObj(c, "txnpool/common.(*txSortedMap).Put")
		if get != nil && put != nil {
			extra := map[ssa.Value]an.Abs{}
			for _, k := range an.CallsTo(add, get) {
				extra[k.Value()] = an.ANonNil // the nonce slot is occupied
			}
			// new.GasPrice > bump(old.GasPrice), in any spelling; the new transaction is addEIPTxPool's own parameter
			isNewPrice := func(x ssa.Value) bool {
				f := fieldOfLoad(x)
				return f != nil && f.Name() == "GasPrice" && strings.HasPrefix(an.AccessPath(x), add.Params[1].Name()+".")
			}
			isThreshold := func(y ssa.Value) bool { return !isNewPrice(y) && dependsOnOldPrice(y, 0) }
			priceMatch := func(v ssa.Value) bool { m, _ := relMatch(v, token.GTR, isNewPrice, isThreshold); return m }
			thresholdOf := func(v ssa.Value) ssa.Value {
				b := v.(*ssa.BinOp)
				if isNewPrice(b.X) {
					return b.Y
				}
				return b.X
			}
			// the guard fails when "new > threshold" does not hold
			var price []*an.Guard
			for _, g := range relGuards("price > old*101/100", token.LEQ, isNewPrice, isThreshold) {
				price = append(price, g)
			}
			v := an.GuardedX(c.P, add, price, extra, func(in ssa.Instruction) bool { return isCallTo(in, put) }, false)
			c.Check(v.Holds && v.GuardSites == 1 && len(extra) == 1, "guard|addEIPTxPool|replace-needs-higher-price", "a pooled transaction with the same sender and nonce is replaced only by a strictly higher gas price", c.P.Rel(add.Pos()), v.Witness)
			// strictness and operands: new.GasPrice > f(old.GasPrice)
			okOps := len(an.FindValues(add, priceMatch)) >= 1
			c.Check(okOps, "same-subject|addEIPTxPool|new-vs-old-price", "the comparison is new.GasPrice > a bump of the old transaction's GasPrice", c.P.Rel(add.Pos()), "operands changed")
			// the bumped threshold is never below the old price: old*a/b with constants a >= b (multiply first), or old + something
			okMono, form := false, "?"
			for _, val := range an.FindValues(add, priceMatch) {
				okMono, form = thresholdAtLeastOld(thresholdOf(val))
			}
			c.Check(okMono, "monotone|addEIPTxPool|threshold-not-below-old-price", "the price a replacement must exceed is at least the pooled transaction's price (old*a/b with a >= b, multiplied before dividing, or old plus a non-negative bump) — otherwise a cheaper transaction can evict a dearer one", c.P.Rel(add.Pos()), "threshold has the form "+form+", which can be below the old price (integer division truncates before the multiplication)")
			okNonce := false
			for _, k := range an.CallsTo(add, get) {
				a := argsNoRecv(k.Common())[0]
				if cv, isC := a.(*ssa.Convert); isC {
					a = cv.X
				}
				if an.AccessPath(a) == add.Params[1].Name()+".Nonce" {
					okNonce = true
				}
			}
			c.Check(okNonce, "same-subject|addEIPTxPool|slot-is-own-nonce", "the slot examined is that of the new transaction's own nonce", c.P.Rel(add.Pos()), "Get is not keyed by trans.Nonce")
		}
	}
	// (2) proposer sites
	verify := mustObj(c, "validator/increment.(*IncrementValidator).Verify")
	if verify != nil {
		sites := 0
		for _, fn := range c.P.RepoSrcFuncs("consensus/vbft") {
			calls := an.CallsTo(fn, verify)
			if len(calls) == 0 || strings.HasSuffix(c.P.Fset.Position(fn.Pos()).Filename, "_test.go") {
				continue
			}
			for i, k := range calls {
				sites++
				key := fmt.Sprintf("guard|%s|incr-verify#%d", an.FuncName(fn), i+1)
				// nonce context: a fresh map made outside the loop that contains the call
				ctxArg := argsNoRecv(k.Common())[2]
				mk, fresh := ctxArg.(*ssa.MakeMap)
				outside := fresh
				if fresh {
					for _, e := range an.BackEdges(fn) {
						body := an.LoopBlocks(e[0], e[1])
						if body[k.Block()] && body[mk.Block()] {
							outside = false
						}
					}
				}
				c.Check(fresh && outside, key+"|shared-nonce-context", "all transactions of one selection are verified against one nonce context (a fresh map created before the loop)", c.P.Rel(k.Pos()), "the nonce context is re-created per transaction or is not a fresh map")
				// the effect (append of the tx / processing of the proposal / flagging a new proposal) only on success
				g := an.GuardForFuncs("IncrementValidator.Verify", verify)
				isEffect := func(in ssa.Instruction) bool {
					switch x := in.(type) {
					case *ssa.Call:
						if bi, isB := x.Call.Value.(*ssa.Builtin); isB && bi.Name() == "append" {
							// appending the verified transaction
							for _, a := range x.Call.Args[1:] {
								if dependsOnValue(a, argsNoRecv(k.Common())[0], 0) || sliceHolds(a, argsNoRecv(k.Common())[0]) {
									return true
								}
							}
						}
						// handing the message on: only the hand-over made by the function that verified it (a proposal built from
						// the remaining transactions is legitimately processed further down)
						if f := x.Call.StaticCallee(); f != nil && in.Parent() == fn && (f.Name() == "processConsensusMsg" || f.Name() == "CancelTxBlockTimeout") {
							return true
						}
					}
					return false
				}
				// only the Verify call of this site is assumed to fail
				gOne := &an.Guard{Name: g.Name, FailModes: g.FailModes, MatchCall: func(x ssa.CallInstruction) bool { return x == k }}
				after := (&an.Query{Fn: fn, Start: k}).Run()
				v := an.Guarded(c.P, fn, []*an.Guard{gOne}, func(in ssa.Instruction) bool {
					// effects that can follow this Verify (same iteration or after the loop)
					return isEffect(in) && after.Reaches(in)
				}, true) // for-all idiom: a selection loop over an empty list selects nothing
				// with every iteration failing, no effect at all may happen
				c.Check(v.Holds && v.ActionSites >= 1, key+"|effect-only-on-success", "a pool transaction enters a proposal (or a received proposal is processed) only on the edge where the increment validator accepted it", c.P.Rel(k.Pos()),
					fmt.Sprintf("%d effect sites; %s", v.ActionSites, v.Witness))
			}
		}
		c.RequireMin("increment-validator call sites in VBFT", sites, 3)
	}
	// (3) parallel windows
	blocksF := c.P.Field("validator/increment.IncrementValidator.blocks")
	noncesF := c.P.Field("validator/increment.IncrementValidator.nonces")
	if blocksF == nil || noncesF == nil {
		c.Undecide("anchor|IncrementValidator.blocks/nonces", "anchors must resolve", "-", "field not found")
		return
	}
	nPairs := 0
	for _, fn := range c.P.RepoSrcFuncs("validator/increment") {
		var bs, ns []an.FieldWrite
		for _, w := range an.DirectFieldWrites(fn) {
			if w.Kind != "store" {
				continue
			}
			if w.Field == blocksF {
				bs = append(bs, w)
			}
			if w.Field == noncesF {
				ns = append(ns, w)
			}
		}
		pair := func(xs, ys []an.FieldWrite, xn, yn string) {
			for i, x := range xs {
				nPairs++
				kind := storeKind(x.Val)
				ok := false
				for _, y := range ys {
					if storeKind(y.Val) != kind {
						continue
					}
					// on every path through x to a return, y is passed (before or after)
					after := (&an.Query{Fn: fn, Start: x.In, Cut: map[ssa.Instruction]bool{y.In: true}}).Run()
					reachesRet := false
					for _, r := range an.Returns(fn) {
						if after.Reaches(r) {
							reachesRet = true
						}
					}
					before, _ := an.MustPass(c.P, fn, []ssa.Instruction{y.In}, []ssa.Instruction{x.In}, nil)
					if !reachesRet || before {
						ok = true
					}
				}
				c.Check(ok, fmt.Sprintf("pair|%s|%s-%s#%d", an.FuncName(fn), xn, kind, i+1), "the per-block hash window and the per-block nonce window are parallel: every "+kind+" of "+xn+" is matched on the same paths by a "+kind+" of "+yn+" (Verify indexes both with one index)", c.P.Rel(x.In.Pos()),
					xn+" is updated ("+kind+") on a path that does not update "+yn+" the same way")
			}
		}
		pair(bs, ns, "blocks", "nonces")
		pair(ns, bs, "nonces", "blocks")
	}
	c.RequireMin("window updates paired", nPairs, 2)
	// Verify: duplicate hash and nonce tests
	if vf := mustFunc(c, "validator/increment.(*IncrementValidator).Verify"); vf != nil {
		newestBlockWinsRule(c, vf, noncesF)
		dup := &an.Guard{Name: "hash in window", FailValue: an.ATrue, MatchValue: func(v ssa.Value) bool {
			e, ok := v.(*ssa.Extract)
			if !ok || e.Index != 1 {
				return false
			}
			l, isL := e.Tuple.(*ssa.Lookup)
			return isL && l.CommaOk
		}}
		v := an.Guarded(c.P, vf, []*an.Guard{dup}, nilErrReturn, false)
		_ = v
		// the scan covers the window from the start height on: written as a loop that starts at that index, or as a
		// range over all blocks that skips the ones before it - "the index is below the start" is assumed false
		inWindow := map[ssa.Value]an.Abs{}
		for _, g := range an.InlineReach(vf) {
			for _, v := range an.FindValues(g, func(v ssa.Value) bool { _, isB := v.(*ssa.BinOp); return isB }) {
				isIdx := func(x ssa.Value) bool {
					if b, isB := x.(*ssa.BinOp); isB && b.Op == token.ADD {
						x = b.X
					}
					_, isPhi := x.(*ssa.Phi)
					return isPhi
				}
				fromStart := func(y ssa.Value) bool { return !isIdx(y) && dependsOnParamVia(vf, y, vf.Params[2], 0) }
				if m, whenTrue := relMatch(v, token.LSS, isIdx, fromStart); m {
					if whenTrue {
						inWindow[v] = an.AFalse
					} else {
						inWindow[v] = an.ATrue
					}
				}
			}
		}
		noIterationCompletesWhenFailing(c, "forall|IncrementValidator.Verify|no-duplicate-hash", "a transaction whose hash is already in a block of the window is rejected", vf, []*an.Guard{dup}, inWindow)
		// tx.Nonce != expected[payer], in either operand order and either polarity
		nonce := relGuards("tx.Nonce != expected", token.NEQ, func(x ssa.Value) bool {
			if cv, isC := x.(*ssa.Convert); isC {
				x = cv.X
			}
			f := fieldOfLoad(x)
			return f != nil && f.Name() == "Nonce"
		}, func(y ssa.Value) bool {
			l, isLookup := y.(*ssa.Lookup)
			return isLookup && an.AccessPathIn(vf, l.X) == vf.Params[len(vf.Params)-1].Name()
		})
		extra := map[ssa.Value]an.Abs{}
		for _, k := range an.Calls(vf) {
			if o := an.CalleeObj(k.Common()); o != nil && o.Name() == "IsEipTx" {
				extra[k.Value()] = an.ATrue
			}
		}
		v = an.GuardedX(c.P, vf, nonce, extra, nilErrReturn, false)
		c.Check(v.Holds && v.GuardSites == 1, "guard|IncrementValidator.Verify|nonce-equals-expected", "an EVM transaction is accepted only if its nonce equals the next expected nonce of its sender in the shared context", c.P.Rel(vf.Pos()), v.Witness)
		// the context is advanced (MapUpdate with nonce+1) only after the test
		adv := func(in ssa.Instruction) bool {
			mu, ok := in.(*ssa.MapUpdate)
			if !ok {
				return false
			}
			b, isB := mu.Value.(*ssa.BinOp)
			// the nonce context: Verify's map parameter (whatever it is called)
			return isB && b.Op == token.ADD && an.AccessPathIn(vf, mu.Map) == vf.Params[len(vf.Params)-1].Name()
		}
		v = an.GuardedX(c.P, vf, nonce, extra, adv, false)
		c.Check(v.Holds && v.ActionSites == 1, "guard|IncrementValidator.Verify|advance-after-test", "the expected nonce advances to nonce+1 only for an accepted transaction", c.P.Rel(vf.Pos()), v.Witness)
	}
}

func dependsOnOldPrice(v ssa.Value, depth int) bool {
	if depth > 6 {
		return false
	}
	if f := fieldOfLoad(v); f != nil && f.Name() == "GasPrice" && strings.HasPrefix(an.AccessPath(v), "%") {
		return true
	}
	if in, ok := v.(ssa.Instruction); ok {
		for _, op := range in.Operands(nil) {
			if *op != nil && dependsOnOldPrice(*op, depth+1) {
				return true
			}
		}
	}
	return false
}

// sliceHolds: a is the varargs slice of an append whose element store holds v
// (or a value derived from it).
func sliceHolds(a ssa.Value, v ssa.Value) bool {
	sl, ok := a.(*ssa.Slice)
	if !ok {
		return false
	}
	al, isA := sl.X.(*ssa.Alloc)
	if !isA {
		return false
	}
	for _, ref := range *al.Referrers() {
		if ia, isI := ref.(*ssa.IndexAddr); isI {
			for _, r2 := range *ia.Referrers() {
				if st, isSt := r2.(*ssa.Store); isSt && (st.Val == v || dependsOnValue(st.Val, v, 0) || an.AccessPath(st.Val) == an.AccessPath(v)) {
					return true
				}
			}
		}
	}
	return false
}

// thresholdAtLeastOld recognises threshold expressions that are >= the old gas
// price for every value (ignoring uint64 overflow): (old * a) / b with
// constants a >= b > 0, old + x for unsigned x, or old itself.
func thresholdAtLeastOld(v ssa.Value) (bool, string) {
	isOld := func(x ssa.Value) bool {
		f := fieldOfLoad(x)
		return f != nil && f.Name() == "GasPrice"
	}
	konst := func(x ssa.Value) (int64, bool) {
		k, ok := x.(*ssa.Const)
		if !ok || k.Value == nil {
			return 0, false
		}
		var n int64
		if _, err := fmt.Sscanf(k.Value.ExactString(), "%d", &n); err != nil {
			return 0, false
		}
		return n, true
	}
	if isOld(v) {
		return true, "old"
	}
	b, ok := v.(*ssa.BinOp)
	if !ok {
		return false, "a computed value"
	}
	switch b.Op {
	case token.QUO:
		d, okD := konst(b.Y)
		if m, isM := b.X.(*ssa.BinOp); isM && m.Op == token.MUL && okD && d > 0 {
			if a, okA := konst(m.Y); okA && isOld(m.X) {
				return a >= d, fmt.Sprintf("old*%d/%d", a, d)
			}
			if a, okA := konst(m.X); okA && isOld(m.Y) {
				return a >= d, fmt.Sprintf("%d*old/%d", a, d)
			}
		}
		return false, "(...)/const"
	case token.MUL:
		// (old / b) * a: truncates first
		return false, "(old/b)*a"
	case token.ADD:
		if isOld(b.X) || isOld(b.Y) {
			return true, "old + bump"
		}
	}
	return false, b.Op.String() + " expression"
}
