package props

import (
	"fmt"
	"go/ast"
	"go/constant"
	"go/types"
	"sort"
	"strings"

	"golang.org/x/tools/go/ssa"

	"verif/checker/an"
)

func init() {
	register(&Prop{ID: "C25", Patterns: []string{"./vm/crossvm_codec", "./vm/neovm/types"}, Run: runC25})
}

const cvc = "vm/crossvm_codec"

// sinkTokens abstracts the sink writes / source reads of a statement list.
func codecTokens(pk *types.Info, body ast.Node, recvName string) []string {
	return codecTokensD(pk, body, recvName, 0)
}

// streamParamName: the name of fd's parameter of the given stream type (whatever it is called), or def.
func streamParamName(info *types.Info, fd *ast.FuncDecl, typeName, def string) string {
	if fd == nil || fd.Type == nil || fd.Type.Params == nil {
		return def
	}
	for _, f := range fd.Type.Params.List {
		if t := info.TypeOf(f.Type); t != nil && strings.HasSuffix(t.String(), "common."+typeName) && len(f.Names) > 0 {
			return f.Names[0].Name
		}
	}
	return def
}

// c25Prog resolves the body of a private helper (set by runC25).
var c25Prog *an.Prog

func codecTokensD(pk *types.Info, body ast.Node, recvName string, depth int) []string {
	var out []string
	ast.Inspect(body, func(n ast.Node) bool {
		call, ok := n.(*ast.CallExpr)
		if !ok {
			return true
		}
		// a private helper of the package that is handed the stream: its reads/writes are part of this layout
		if id, isId := call.Fun.(*ast.Ident); isId && depth < 3 && c25Prog != nil {
			if fo, isF := pk.Uses[id].(*types.Func); isF && !fo.Exported() {
				pos := -1
				for i, a := range call.Args {
					if ai, isAI := a.(*ast.Ident); isAI && ai.Name == recvName {
						pos = i
					}
				}
				if fn := c25Prog.SSA.FuncValue(fo); fn != nil && pos >= 0 {
					if decl := c25Prog.FuncDecl(fn); decl != nil && decl.Body != nil {
						sig := fo.Type().(*types.Signature)
						if pos < sig.Params().Len() {
							out = append(out, codecTokensD(pk, decl.Body, sig.Params().At(pos).Name(), depth+1)...)
							return false
						}
					}
				}
			}
		}
		sel, ok := call.Fun.(*ast.SelectorExpr)
		if !ok {
			return true
		}
		id, ok := sel.X.(*ast.Ident)
		if !ok || id.Name != recvName {
			return true
		}
		name := sel.Sel.Name
		switch {
		case name == "WriteBytes" && len(call.Args) == 1:
			// fixed-size array slice?
			if se, isSl := call.Args[0].(*ast.SliceExpr); isSl {
				if t := pk.TypeOf(se.X); t != nil {
					if arr, isArr := t.Underlying().(*types.Array); isArr {
						out = append(out, fmt.Sprintf("fixed%d", arr.Len()))
						return true
					}
				}
			}
			out = append(out, "bytes")
		case name == "WriteByte":
			out = append(out, "u8")
		case name == "WriteUint32":
			out = append(out, "u32")
		case name == "WriteBool":
			out = append(out, "bool")
		case name == "WriteHash":
			out = append(out, "fixed32")
		case name == "WriteAddress":
			out = append(out, "fixed20")
		case name == "NextBytes":
			out = append(out, "bytes")
		case name == "NextByte":
			out = append(out, "u8")
		case name == "NextUint32":
			out = append(out, "u32")
		case name == "NextBool":
			out = append(out, "u8") // a bool is one byte on the wire
		case name == "NextHash":
			out = append(out, "fixed32")
		case name == "NextAddress":
			out = append(out, "fixed20")
		case name == "NextI128":
			out = append(out, "fixed16")
		default:
			out = append(out, "?"+name)
		}
		return true
	})
	return out
}

func runC25(c *an.Ctx) {
	c.Explanation = "A10 registry + A6 per-tag layout agreement + A7 decoder discipline + A8 recursion bound on vm/crossvm_codec: every type tag written by an Encode* function has a case in DecodeValue and vice versa; for each tag the sequence of fixed-width/length-prefixed fields written equals the sequence read in the matching case; every read's eof/irregular result is consumed and decoded lengths are never used for allocation; DecodeValue's recursion is cut by a checked read on the same source (depth bounded by input length); " +
		"and a big integer is narrowed to a machine integer (big.Int.Int64/Uint64) only under an IsInt64/IsUint64 test of the same value. Decides 'malformed input is rejected without panic' and the layout half of round-tripping structurally; value equality after a round trip is not decided."
	pk := c.P.Pkg(cvc)
	c25Prog = c.P
	dec := mustFunc(c, cvc+".DecodeValue")
	if pk == nil || dec == nil {
		return
	}
	// tag constants
	tagName := map[int64]string{}
	for _, n := range []string{"ByteArrayType", "StringType", "AddressType", "BooleanType", "IntType", "H256Type", "ListType"} {
		if k, ok := pk.Types.Scope().Lookup(n).(*types.Const); ok {
			v, _ := constant.Int64Val(k.Val())
			tagName[v] = n
		} else {
			c.Undecide("anchor|crossvm."+n, "anchors must resolve", "-", "tag constant not found")
		}
	}
	// encoders: functions whose first sink write is WriteByte(<tag const>)
	encTokens := map[string][]string{}
	for _, f := range pk.Syntax {
		for _, d := range f.Decls {
			fd, ok := d.(*ast.FuncDecl)
			if !ok || fd.Body == nil || !strings.HasPrefix(fd.Name.Name, "Encode") || fd.Name.Name == "EncodeValue" {
				continue
			}
			toks := codecTokens(pk.TypesInfo, fd.Body, streamParamName(pk.TypesInfo, fd, "ZeroCopySink", "sink"))
			// find the tag
			var tag string
			ast.Inspect(fd.Body, func(n ast.Node) bool {
				call, ok := n.(*ast.CallExpr)
				if !ok || tag != "" {
					return true
				}
				if sel, isS := call.Fun.(*ast.SelectorExpr); isS && sel.Sel.Name == "WriteByte" && len(call.Args) == 1 {
					if tv, has := pk.TypesInfo.Types[call.Args[0]]; has && tv.Value != nil {
						v, _ := constant.Int64Val(tv.Value)
						if id, isId := call.Args[0].(*ast.Ident); isId {
							if _, known := tagName[v]; known && strings.HasSuffix(id.Name, "Type") {
								tag = id.Name
							}
						}
					}
				}
				return true
			})
			if tag == "" {
				continue // delegates (EncodeBigInt -> EncodeInt128)
			}
			if len(toks) > 0 {
				toks = toks[1:] // drop the tag byte
			}
			// EncodeBool writes one of two constant bytes: normalise the if/else pair to one u8
			if fd.Name.Name == "EncodeBool" && len(toks) == 2 {
				toks = toks[:1]
			}
			// EncodeList's element encoders are separate functions: keep only its own header
			if fd.Name.Name == "EncodeList" {
				toks = toks[:1]
			}
			encTokens[tag] = toks
		}
	}
	// decoder cases
	decTokens := map[string][]string{}
	if decl := c.P.FuncDecl(dec); decl != nil {
		ast.Inspect(decl, func(n ast.Node) bool {
			cc, ok := n.(*ast.CaseClause)
			if !ok {
				return true
			}
			for _, e := range cc.List {
				id, isId := e.(*ast.Ident)
				if !isId {
					continue
				}
				var toks []string
				for _, st := range cc.Body {
					toks = append(toks, codecTokens(pk.TypesInfo, st, streamParamName(pk.TypesInfo, decl, "ZeroCopySource", "source"))...)
				}
				decTokens[id.Name] = toks
			}
			return true
		})
	}
	var tags []string
	for _, n := range tagName {
		tags = append(tags, n)
	}
	sort.Strings(tags)
	c.RequireMin("type tags", len(tags), 7)
	for _, t := range tags {
		e, hasE := encTokens[t]
		d, hasD := decTokens[t]
		key := "codec|tag|" + t
		rule := "every tag has an encoder and a DecodeValue case, and both agree on the field layout after the tag byte"
		if !hasE || !hasD {
			c.Violate(key, rule, c.P.Rel(dec.Pos()), fmt.Sprintf("encoder present: %v, decoder case present: %v", hasE, hasD))
			continue
		}
		c.Check(strings.Join(e, " ") == strings.Join(d, " "), key, rule, c.P.Rel(dec.Pos()), fmt.Sprintf("encoder writes [%s], decoder reads [%s]", strings.Join(e, " "), strings.Join(d, " ")))
	}
	for t := range decTokens {
		if _, ok := encTokens[t]; !ok {
			c.Violate("codec|tag|"+t, "a decoder case needs an encoder", c.P.Rel(dec.Pos()), "no Encode* function writes this tag")
		}
	}
	// decoder discipline
	nf, nr := decoderRule(c, "decoder", cvc)
	c.RequireMin("decoding functions", nf, 1)
	c.RequireMin("read sites", nr, 6)
	// list sizes not used for allocation
	for _, b := range dec.Blocks {
		for _, in := range b.Instrs {
			if mk, ok := in.(*ssa.MakeSlice); ok {
				_, lenConst := mk.Len.(*ssa.Const)
				_, capConst := mk.Cap.(*ssa.Const)
				c.Check(lenConst && capConst, "alloc|DecodeValue|make", "the decoder never allocates by a decoded length", c.P.Rel(mk.Pos()), "make with a non-constant size")
			}
		}
	}
	// recursion
	sccs := an.RecursiveSCCs(c.P.RepoSrcFuncs(cvc), an.StaticEdges)
	c.RequireMin("recursive components in the codec", len(sccs), 1)
	for _, s := range sccs {
		if strings.Contains(s.Name(), "Encode") || strings.HasSuffix(s.Name(), ".stringify") {
			// encoders recurse over Go values built by the caller (not attacker-shaped byte input): depth is that of the value
			c.Note("recursion|"+s.Name(), "encoder recursion follows an in-memory value", c.P.Rel(s.Funcs[0].Pos()), "bounded by the nesting of the in-memory value (stringify walks a value DecodeValue produced, whose depth is bounded by the input length; encoders walk values built by Go callers — NeoVM values pass C14's rules first)")
			continue
		}
		kind, why := sccJustify(c, s, nil, c.P.RepoSrcFuncs(cvc))
		c.Check(kind == "bound", "recursion|"+s.Name(), "decoding recursion is cut by a checked read on the same source: depth is bounded by the input length", c.P.Rel(s.Funcs[0].Pos()), why)
	}
	// narrowing accessors
	narrowingRule(c, "narrow", cvc, "vm/neovm/types")
}

// narrowingRule: (*big.Int).Int64/Uint64 only under IsInt64/IsUint64 of the
// same receiver.
func narrowingRule(c *an.Ctx, keyPrefix string, pkgs ...string) {
	n := 0
	for _, fn := range c.P.RepoSrcFuncs(pkgs...) {
		for _, k := range an.Calls(fn) {
			f := k.Common().StaticCallee()
			if f == nil {
				continue
			}
			var test string
			switch f.String() {
			case "(*math/big.Int).Int64":
				test = "(*math/big.Int).IsInt64"
			case "(*math/big.Int).Uint64":
				test = "(*math/big.Int).IsUint64"
			default:
				continue
			}
			n++
			recv := k.Common().Args[0]
			g := &an.Guard{Name: test, FailModes: [][]an.Abs{{an.AFalse}}, MatchCall: func(x ssa.CallInstruction) bool {
				xf := x.Common().StaticCallee()
				return xf != nil && xf.String() == test && (x.Common().Args[0] == recv || an.AccessPath(x.Common().Args[0]) == an.AccessPath(recv))
			}}
			v := an.Guarded(c.P, fn, []*an.Guard{g}, func(in ssa.Instruction) bool { return in == ssa.Instruction(k) }, false)
			c.Check(v.Holds && v.GuardSites > 0, fmt.Sprintf("%s|%s|%s", keyPrefix, an.FuncName(fn), f.Name()), "a big integer is narrowed to a machine integer only after the matching IsInt64/IsUint64 test of the same value succeeded (otherwise the value silently wraps)",
				c.P.Rel(k.Pos()), "narrowing is reachable without the range test: "+v.Witness)
		}
	}
	c.Count("narrowing_sites", n)
}
