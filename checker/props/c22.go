package props

import (
	"fmt"
	"go/token"
	"strings"

	"golang.org/x/tools/go/ssa"

	"verif/checker/an"
)

func init() {
	register(&Prop{ID: "C22", Patterns: []string{"./common"}, Run: runC22})
	register(&Prop{ID: "C23", Patterns: []string{"./core/program", "./core/types"}, Run: runC23})
}

func nilErrReturn(in ssa.Instruction) bool {
	r, ok := in.(*ssa.Return)
	if !ok || len(r.Results) == 0 {
		return false
	}
	k, isC := r.Results[len(r.Results)-1].(*ssa.Const)
	return isC && k.Value == nil
}

func runC22(c *an.Ctx) {
	c.Explanation = "A2 guard on common.AddressFromBase58 (the rejection clause): a string is accepted only if re-encoding the decoded address with ToBase58 reproduces exactly the input string — so every accepted string is the canonical encoding of the address it yields and any altered, padded or truncated string is rejected — and only if the decoded payload has the exact length 1+20+4 and version byte 23. " +
		"Decides that necessary condition for all strings; that every address's own encoding decodes successfully (behaviour of base58/big.Int) is not decided."
	if !controlGuard(c) {
		return
	}
	fn := mustFunc(c, "common.AddressFromBase58")
	toB58 := mustObj(c, "common.(*Address).ToBase58")
	if fn == nil || toB58 == nil {
		return
	}
	// the comparison of the input string (the parameter, whatever it is called) with its re-encoding: != or ==
	var cmp *ssa.BinOp
	differs := an.ATrue // outcome of cmp when the two strings differ
	isInput := func(x ssa.Value) bool { return an.AccessPath(x) == fn.Params[0].Name() }
	notInput := func(x ssa.Value) bool { _, isK := x.(*ssa.Const); return !isK && !isInput(x) }
	for _, v := range an.FindValues(fn, func(v ssa.Value) bool { m, _ := relMatch(v, token.NEQ, isInput, notInput); return m }) {
		cmp = v.(*ssa.BinOp)
		if _, whenTrue := relMatch(v, token.NEQ, isInput, notInput); !whenTrue {
			differs = an.AFalse
		}
	}
	if cmp == nil {
		c.Violate("guard|AddressFromBase58|re-encode-equals-input", "an accepted string equals the canonical encoding of the decoded address", c.P.Rel(fn.Pos()), "comparison with the input string not found")
		return
	}
	g := &an.Guard{Name: "re-encoding differs", FailValue: differs, MatchValue: func(v ssa.Value) bool { return v == ssa.Value(cmp) }}
	v := an.Guarded(c.P, fn, []*an.Guard{g}, nilErrReturn, false)
	c.Check(v.Holds && v.ActionSites >= 1, "guard|AddressFromBase58|re-encode-equals-input", "an accepted string equals the canonical encoding of the decoded address", c.P.Rel(fn.Pos()), v.Witness)
	// the re-encoded value is ToBase58 of the very address returned
	other := cmp.X
	if an.AccessPath(cmp.X) == fn.Params[0].Name() {
		other = cmp.Y
	}
	ok := false
	if call, isC := other.(*ssa.Call); isC && an.CalleeObj(&call.Call) == toB58 {
		recv := recvOf(&call.Call)
		for _, r := range an.Returns(fn) {
			if !nilErrReturn(r) {
				continue
			}
			// returned address is a load of the alloc that ToBase58 was called on
			if u, isU := r.Results[0].(*ssa.UnOp); isU && u.X == recv {
				ok = true
			}
			if r.Results[0] == recv {
				ok = true
			}
		}
	}
	c.Check(ok, "same-subject|AddressFromBase58|re-encodes-returned-address", "the value re-encoded is the address that is returned", c.P.Rel(cmp.Pos()), "ToBase58 is not applied to the returned address")
	// length / version
	lenG := relGuards("payload length", token.NEQ, func(v ssa.Value) bool { _, isK := v.(*ssa.Const); return !isK }, isConstVal("25"))
	v = an.Guarded(c.P, fn, lenG, nilErrReturn, false)
	c.Check(v.Holds && v.GuardSites == 1, "guard|AddressFromBase58|payload-length", "the decoded payload must be exactly version+20+checksum bytes", c.P.Rel(fn.Pos()), v.Witness)
	verG := relGuards("version byte", token.NEQ, func(v ssa.Value) bool { _, isK := v.(*ssa.Const); return !isK }, isConstVal("23"))
	v = an.Guarded(c.P, fn, verG, nilErrReturn, false)
	c.Check(v.Holds && v.GuardSites == 1, "guard|AddressFromBase58|version-byte", "the version byte must be 23", c.P.Rel(fn.Pos()), v.Witness)
	// hex: AddressFromHexString parses through AddressParseFromBytes (length check)
	if hx := mustFunc(c, "common.AddressParseFromBytes"); hx != nil {
		lg := relGuards("length", token.NEQ, func(v ssa.Value) bool { _, isK := v.(*ssa.Const); return !isK }, isConstVal("20"))
		v := an.Guarded(c.P, hx, lg, nilErrReturn, false)
		c.Check(v.Holds && v.GuardSites == 1, "guard|AddressParseFromBytes|length", "raw address bytes must be exactly 20 bytes long", c.P.Rel(hx.Pos()), v.Witness)
	}
}

func runC23(c *an.Ctx) {
	const pp = "core/program"
	c.Explanation = "A2/A3 on signature scripts: EncodeMultiPubKeyProgramInto validates 1 <= m <= n, 1 < n <= MAX before anything is written, sorts the keys (keypair.SortPublicKeys) before the key loop and iterates over the sorted result, so the script — and hence the account address — does not depend on the order of the input keys; " +
		"GetProgramInfo accepts a script only after ExpectEOF succeeded (no trailing bytes), the number of parsed keys equals the declared n, and 1 <= m <= n, 1 < n <= MAX holds; AddressFromMultiPubKeys validates the same bounds before building the script. Decides these necessary conditions for all key sets/scripts; parse(build(x)) == x as a value identity is not decided."
	if !controlGuard(c) {
		return
	}
	enc := mustFunc(c, pp+".EncodeMultiPubKeyProgramInto")
	if enc != nil {
		var sortCalls, pushes []ssa.Instruction
		var sorted ssa.Value
		var encCalls []ssa.CallInstruction
		var encBlocks []*ssa.BasicBlock
		for _, g := range an.InlineReach(enc) {
			encCalls = append(encCalls, an.Calls(g)...)
			encBlocks = append(encBlocks, g.Blocks...)
		}
		for _, k := range encCalls {
			f := k.Common().StaticCallee()
			if f == nil {
				continue
			}
			if f.Name() == "SortPublicKeys" {
				sortCalls = append(sortCalls, k)
				sorted = k.Value()
			}
			if strings.HasPrefix(f.Name(), "Push") {
				pushes = append(pushes, k)
			}
		}
		ok, why := an.MustPass(c.P, enc, sortCalls, pushes, nil)
		c.Check(ok && len(sortCalls) == 1 && len(pushes) >= 4, "sequence|EncodeMultiPubKeyProgramInto|sort-before-emit", "the keys are sorted before anything is emitted", c.P.Rel(enc.Pos()), why)
		// the loop ranges over the sorted slice
		ranged := false
		for _, b := range encBlocks {
			for _, in := range b.Instrs {
				if ia, isI := in.(*ssa.IndexAddr); isI && sorted != nil {
					for _, d := range an.Deref(enc, ia.X) {
						if d == sorted {
							ranged = true
						}
					}
				}
			}
		}
		c.Check(ranged, "same-subject|EncodeMultiPubKeyProgramInto|emits-sorted-keys", "the keys emitted are those of the sorted list", c.P.Rel(enc.Pos()), "the key loop does not index the result of SortPublicKeys")
		boundsGuard(c, enc, "EncodeMultiPubKeyProgramInto", func(in ssa.Instruction) bool {
			for _, p := range pushes {
				if in == p {
					return true
				}
			}
			return false
		})
	}
	if gi := mustFunc(c, pp+".GetProgramInfo"); gi != nil {
		eof := mustObj(c, pp+".(*programParser).ExpectEOF")
		if eof != nil {
			g := an.GuardForFuncs("ExpectEOF", eof)
			sites, rets, w := successUnreachable(c, gi, []*an.Guard{g}, nil)
			c.Check(w == "" && sites == 2 && rets >= 1, "guard|GetProgramInfo|ExpectEOF", "a script is accepted only if nothing follows the recognised pattern", c.P.Rel(gi.Pos()), w)
		}
		// key count equality
		// int64(len(keys)) != n, in either operand order and either polarity
		isLenConv := func(x ssa.Value) bool {
			cv, isCv := x.(*ssa.Convert)
			if !isCv {
				return false
			}
			call, isC := cv.X.(*ssa.Call)
			if !isC {
				return false
			}
			bi, isB := call.Call.Value.(*ssa.Builtin)
			return isB && bi.Name() == "len"
		}
		cnt := relGuards("len(keys) != n", token.NEQ, isLenConv, func(y ssa.Value) bool { _, isK := y.(*ssa.Const); return !isK && !isLenConv(y) })
		// only the multisig success return is concerned: assume the CHECKSIG branch not taken
		extra := map[ssa.Value]an.Abs{}
		for _, g := range an.InlineReach(gi) {
			for _, v := range an.FindValues(g, func(v ssa.Value) bool {
				b, ok := v.(*ssa.BinOp)
				if !ok || b.Op != token.EQL {
					return false
				}
				k, isK := b.Y.(*ssa.Const)
				return isK && k.Value != nil && k.Value.String() == "172" // CHECKSIG
			}) {
				extra[v] = an.AFalse
			}
		}
		sites, _, w := successUnreachable(c, gi, cnt, extra)
		c.Check(w == "" && sites == 1 && len(extra) == 1, "guard|GetProgramInfo|key-count", "a multi-signature script is accepted only if the number of keys equals the declared n", c.P.Rel(gi.Pos()), w)
		boundsGuardX(c, gi, "GetProgramInfo", nil, extra)
	}
	if am := mustFunc(c, "core/types.AddressFromMultiPubKeys"); am != nil {
		boundsGuard(c, am, "AddressFromMultiPubKeys", func(in ssa.Instruction) bool {
			k, ok := in.(ssa.CallInstruction)
			return ok && k.Common().StaticCallee() != nil && k.Common().StaticCallee().Name() == "ProgramFromMultiPubKey"
		})
	}
}

// boundsGuard: the m/n validation `1 <= m && m <= n && n > 1 && n <= MAX`
// guards the action: with any one of its four comparisons failing the action
// is unreachable.
func boundsGuard(c *an.Ctx, fn *ssa.Function, name string, isAction func(ssa.Instruction) bool) {
	boundsGuardX(c, fn, name, isAction, nil)
}

func boundsGuardX(c *an.Ctx, fn *ssa.Function, name string, isAction func(ssa.Instruction) bool, extra map[ssa.Value]an.Abs) {
	// each bound is a relation that holds on success; it is recognised in every spelling (mirrored operands, negated
	// operator, the neighbouring constant with the strict/non-strict operator) and the guard fails on the outcome
	// that contradicts it
	type rel struct {
		op     token.Token
		isA    func(ssa.Value) bool
		isB    func(ssa.Value) bool
	}
	type cmpSpec struct {
		label string
		rels  []rel
	}
	nonConst := func(v ssa.Value) bool { _, isK := v.(*ssa.Const); return !isK }
	// m and n themselves (parameters, lengths, loaded fields, conversions of them): not loop counters or sums
	var plainOperand func(v ssa.Value) bool
	plainOperand = func(v ssa.Value) bool {
		switch x := v.(type) {
		case *ssa.Const, *ssa.Phi, *ssa.BinOp:
			return false
		case *ssa.Convert:
			return plainOperand(x.X)
		}
		return true
	}
	specs := []cmpSpec{
		{"1<=m", []rel{{token.LEQ, isConstVal("1"), nonConst}, {token.LSS, isConstVal("0"), nonConst}}},
		{"n>1", []rel{{token.GTR, nonConst, isConstVal("1")}, {token.GEQ, nonConst, isConstVal("2")}}},
		{"n<=MAX", []rel{{token.LEQ, nonConst, isConstVal("16")}, {token.LSS, nonConst, isConstVal("17")}}},
		{"m<=n", []rel{{token.LEQ, plainOperand, plainOperand}}},
	}
	for _, sp := range specs {
		fail := map[ssa.Value]an.Abs{}
		var vals []ssa.Value
		for _, g := range an.InlineReach(fn) {
			for _, v := range an.FindValues(g, func(v ssa.Value) bool { _, ok := v.(*ssa.BinOp); return ok }) {
				for _, r := range sp.rels {
					if m, whenTrue := relMatch(v, r.op, r.isA, r.isB); m {
						if _, seen := fail[v]; !seen {
							vals = append(vals, v)
						}
						if whenTrue {
							fail[v] = an.AFalse
						} else {
							fail[v] = an.ATrue
						}
					}
				}
			}
		}
		key := fmt.Sprintf("guard|%s|bounds-%s", name, sp.label)
		rule := "the multi-signature parameters are validated (1 <= m <= n, 1 < n <= MULTI_SIG_MAX_PUBKEY_SIZE) before the script is built/accepted"
		if len(vals) == 0 {
			c.Violate(key, rule, c.P.Rel(fn.Pos()), "comparison "+sp.label+" not found")
			continue
		}
		held := false
		for _, val := range vals {
			val := val
			g := &an.Guard{Name: sp.label, FailValue: fail[val], MatchValue: func(v ssa.Value) bool { return v == val }}
			if isAction == nil {
				// the action is "fn reports success" (a nil error), judged on the evaluated results
				if _, rets, w := successUnreachable(c, fn, []*an.Guard{g}, extra); w == "" && rets >= 1 {
					held = true
				}
				continue
			}
			v := an.GuardedX(c.P, fn, []*an.Guard{g}, extra, isAction, false)
			if v.Holds && v.ActionSites >= 1 {
				held = true
			}
		}
		c.Check(held, key, rule, c.P.Rel(fn.Pos()), "the action is reachable with "+sp.label+" false")
	}
}
