package props

import (
	"fmt"
	"go/types"
	"sort"
	"strings"

	"golang.org/x/tools/go/ssa"

	"verif/checker/an"
)

// newEffectSummary returns the repository's effect tables for A1.
func newEffectSummary(c *an.Ctx) *an.EffectSummary {
	m := an.RepoMod
	return &an.EffectSummary{P: c.P,
		Ordered: []string{
			"(*" + m + "/common.ZeroCopySink).*", "(hash.Hash).Write", "(io.Writer).Write", "(*bytes.Buffer).*", "(*strings.Builder).*",
			"(*crypto/sha256.digest).Write", "(io.StringWriter).WriteString", m + "/smartcontract/event.PushSmartCodeEvent",
			"(*" + m + "/vm/neovm.ValueStack).Push*", "(*" + m + "/vm/neovm/types.ArrayValue).Append", "(*" + m + "/vm/neovm/types.StructValue).Append",
		},
		Keyed: []string{
			"(*" + m + "/smartcontract/storage.CacheDB).Put", "(*" + m + "/smartcontract/storage.CacheDB).Delete",
			"(*" + m + "/core/store/overlaydb.MemDB).Put", "(*" + m + "/core/store/overlaydb.MemDB).Delete",
			"(*" + m + "/core/store/overlaydb.OverlayDB).Put", "(*" + m + "/core/store/overlaydb.OverlayDB).Delete",
			"(*sync.Map).Store", "(*sync.Map).Delete",
		},
		Pure: []string{
			"(*" + m + "/smartcontract/storage.CacheDB).Get", "(*" + m + "/core/store/overlaydb.OverlayDB).Get", "(*" + m + "/core/store/overlaydb.MemDB).Get",
			"(" + m + "/smartcontract/context.ContextRef).*", "(" + m + "/core/store/common.PersistStore).Get",
			"(*sync.Map).Load", "(*sync.Map).Range",
		},
	}
}

// orderRule runs A1 over every repository function reachable from roots.
// table: per-function decisions confirmed by reading (name -> reason); such
// loops are reported as info. Returns the number of loops classified.
func orderRule(c *an.Ctx, cg *an.CG, roots []*ssa.Function, table map[string]string, keyPrefix string, scope func(*ssa.Function) bool) int {
	r := cg.Reach(roots, an.ReachOpts{})
	c.Count("functions_reachable", len(r.Order))
	return orderRuleFuncs(c, cg, r.RepoFuncs(), table, keyPrefix, scope, func(fn *ssa.Function) string { return strings.Join(r.Path(fn), " -> ") })
}

// orderRuleFuncs runs A1 over the given functions.
func orderRuleFuncs(c *an.Ctx, cg *an.CG, fns []*ssa.Function, table map[string]string, keyPrefix string, scope func(*ssa.Function) bool, pathOf func(*ssa.Function) string) int {
	return orderRuleFuncsX(c, cg, fns, table, keyPrefix, scope, pathOf, false)
}

// orderRuleFuncsX: with flow set, constant-seeded PRNG construction and clock
// reads that flow only into the EVM tracer are decided structurally.
func orderRuleFuncsX(c *an.Ctx, cg *an.CG, fns []*ssa.Function, table map[string]string, keyPrefix string, scope func(*ssa.Function) bool, pathOf func(*ssa.Function) string, flow bool) int {
	es := newEffectSummary(c)
	cfg := &an.OrderCfg{
		CallClass:   func(callee *ssa.Function, _ ssa.CallInstruction) string { return es.Class(callee) },
		InvokeClass: es.Invoke,
		OrderedArgs: es.OrderedArgs,
		IsSorter:    an.DefaultSorter,
		UniqueFields: uniqueFieldsTable,
	}
	c.Count("repo_functions_analysed", len(fns))
	n := 0
	unsorted := map[*ssa.Function]an.LoopClass{}
	// a loop is keyed by its owner: the function itself, or - for a private helper with a single static caller -
	// that caller (so that moving a loop into a helper does not rename the obligation); loops of one owner are
	// numbered owner-first, then by helper name
	type loopAt struct {
		fn *ssa.Function
		i  int
	}
	byOwner := map[*ssa.Function][]loopAt{}
	for _, fn := range fns {
		if scope != nil && !scope(fn) {
			continue
		}
		if strings.HasSuffix(c.P.Fset.Position(fn.Pos()).Filename, "_test.go") {
			continue
		}
		for i := range an.MapLoops(fn) {
			o := loopOwner(c, cg, fn)
			byOwner[o] = append(byOwner[o], loopAt{fn, i})
		}
	}
	ordinal := map[loopAt]int{}
	for o, ls := range byOwner {
		sort.SliceStable(ls, func(a, b int) bool {
			if (ls[a].fn == o) != (ls[b].fn == o) {
				return ls[a].fn == o
			}
			if ls[a].fn != ls[b].fn {
				return ls[a].fn.String() < ls[b].fn.String()
			}
			return ls[a].i < ls[b].i
		})
		for k, l := range ls {
			ordinal[l] = k + 1
		}
	}
	for _, fn := range fns {
		if scope != nil && !scope(fn) {
			continue
		}
		if strings.HasSuffix(c.P.Fset.Position(fn.Pos()).Filename, "_test.go") {
			continue
		}
		loops := an.MapLoops(fn)
		owner := an.FuncName(fn)
		if len(loops) > 0 {
			owner = an.FuncName(loopOwner(c, cg, fn))
		}
		for i, l := range loops {
			n++
			key := fmt.Sprintf("%s|%s|map-range#%d", keyPrefix, owner, ordinal[loopAt{fn, i}])
			rule := "the outcome of a loop over a Go map must not depend on iteration order (commutative body, collect-then-sort, or exists-failure exit)"
			site := c.P.Rel(l.Range.Pos())
			why, ok := table[an.FuncName(fn)]
			if !ok {
				why, ok = table[owner]
			}
			if ok {
				c.Note(key, rule, site, "decided by reading: "+why)
				continue
			}
			cl := an.ClassifyMapLoop(c.P, l, cfg)
			classes, _ := c.Extra["map_loop_classes"].(map[string]string)
			if classes == nil {
				classes = map[string]string{}
				c.Extra["map_loop_classes"] = classes
			}
			classes[key+" @"+site] = cl.Kind
			switch cl.Kind {
			case "commutative", "collect-then-sort":
				c.Hold(key, rule, site, cl.Kind)
			case "returns-unsorted":
				unsorted[fn] = cl
				// decided at the callers below
				ok, why := callersSortFirst(c, cg, fn, cfg)
				c.Check(ok, key, rule+"; a function returning a map-ordered slice needs every caller to sort it before any other use", site, why)
			case "undecided":
				c.Undecide(key, rule, site, cl.Detail)
			default:
				c.Violate(key, rule, site, cl.Kind+": "+cl.Detail)
			}
		}
	}
	// nondeterminism sources
	for _, fn := range fns {
		if scope != nil && !scope(fn) {
			continue
		}
		for _, k := range an.Calls(fn) {
			callee := k.Common().StaticCallee()
			if callee == nil {
				continue
			}
			s := callee.String()
			bad := s == "time.Now" || strings.HasPrefix(s, "math/rand.") && callee.Signature.Recv() == nil || s == "os.Getenv" || s == "os.Hostname"
			if !bad {
				continue
			}
			key := fmt.Sprintf("%s|%s|%s", keyPrefix, an.FuncName(fn), s)
			if flow {
				if why := benignNondet(k); why != "" {
					c.Hold(key, "no wall-clock/random/environment input on the deterministic path", c.P.Rel(k.Pos()), why)
					continue
				}
			}
			if why, ok := table[an.FuncName(fn)+"#"+s]; ok {
				c.Note(key, "no wall-clock/random/environment input on the deterministic path", c.P.Rel(k.Pos()), "decided by reading: "+why)
				continue
			}
			c.Violate(key, "no wall-clock/random/environment input on the deterministic path", c.P.Rel(k.Pos()), "call path: "+pathOf(fn))
		}
	}
	return n
}

// callersSortFirst: every static call site of fn (in the repository) sorts
// the returned slice before any other use.
func callersSortFirst(c *an.Ctx, cg *an.CG, fn *ssa.Function, cfg *an.OrderCfg) (bool, string) {
	return callersSortFirstD(c, cg, fn, cfg, 0)
}

// onlyReturned: the value's only uses are being returned (and debug references).
func onlyReturned(v ssa.Value) bool {
	if v.Referrers() == nil {
		return false
	}
	n := 0
	for _, r := range *v.Referrers() {
		switch x := r.(type) {
		case *ssa.DebugRef:
		case *ssa.Return:
			n++
		case *ssa.Call:
			// measuring the list (for a log line) does not depend on its order
			if bi, isB := x.Call.Value.(*ssa.Builtin); !isB || (bi.Name() != "len" && bi.Name() != "cap") {
				return false
			}
		default:
			return false
		}
	}
	return n > 0
}

func callersSortFirstD(c *an.Ctx, cg *an.CG, fn *ssa.Function, cfg *an.OrderCfg, depth int) (bool, string) {
	callers := cg.Callers(fn)
	if len(callers) == 0 {
		return true, ""
	}
	var bad []string
	for _, e := range callers {
		if !c.P.InRepo(e.Caller.Func) || strings.HasSuffix(c.P.Fset.Position(e.Caller.Func.Pos()).Filename, "_test.go") {
			continue
		}
		for _, k := range an.Calls(e.Caller.Func) {
			if k.Common().StaticCallee() != fn || k.Value() == nil {
				continue
			}
			vals := []ssa.Value{k.Value()}
			for _, es := range an.Extracts(k.Value()) {
				for _, e2 := range es {
					vals = append(vals, e2)
				}
			}
			for _, v := range vals {
				if !an.IsSliceType(v.Type()) {
					continue
				}
				if why := an.SortedBeforeUseValue(c.P, v, cfg); why != "" {
					// a caller that only passes the list on to its own callers: they must sort it
					if depth < 2 && onlyReturned(v) {
						if ok2, why2 := callersSortFirstD(c, cg, e.Caller.Func, cfg, depth+1); ok2 {
							continue
						} else {
							why = "returned unsorted by " + an.FuncName(e.Caller.Func) + "; " + why2
						}
					}
					bad = append(bad, fmt.Sprintf("%s (%s): %s", an.FuncName(e.Caller.Func), c.P.Rel(k.Pos()), why))
				}
			}
		}
	}
	sort.Strings(bad)
	return len(bad) == 0, strings.Join(bad, "; ")
}

// benignNondet recognises, structurally, the two deterministic uses of
// time/rand on the execution path: a PRNG built from a constant seed, and a
// clock read whose value flows only into calls on the EVM tracer.
func benignNondet(k ssa.CallInstruction) string {
	callee := k.Common().StaticCallee()
	switch callee.String() {
	case "math/rand.NewSource":
		if _, isC := k.Common().Args[0].(*ssa.Const); isC {
			return "constant seed"
		}
	case "math/rand.New":
		if src, ok := k.Common().Args[0].(*ssa.Call); ok {
			if f := src.Call.StaticCallee(); f != nil && f.String() == "math/rand.NewSource" {
				if _, isC := src.Call.Args[0].(*ssa.Const); isC {
					return "source with constant seed"
				}
			}
		}
	case "time.Now":
		if v := k.Value(); v != nil && flowsOnlyToTracer(v, map[ssa.Value]bool{}, 0) {
			return "the clock value flows only into EVM tracer callbacks (CaptureEnd duration)"
		}
	}
	return ""
}

func flowsOnlyToTracer(v ssa.Value, seen map[ssa.Value]bool, depth int) bool {
	if seen[v] {
		return true
	}
	seen[v] = true
	if depth > 6 || v.Referrers() == nil {
		return false
	}
	for _, r := range *v.Referrers() {
		switch x := r.(type) {
		case *ssa.DebugRef:
		case *ssa.Store:
			// spilled into a local that a deferred closure reads
			al, ok := x.Addr.(*ssa.Alloc)
			if !ok || x.Val != v || !flowsOnlyToTracer(al, seen, depth+1) {
				return false
			}
		case *ssa.UnOp:
			if !flowsOnlyToTracer(x, seen, depth+1) {
				return false
			}
		case *ssa.MakeClosure:
			fn := x.Fn.(*ssa.Function)
			for i, b := range x.Bindings {
				if b == v && !flowsOnlyToTracer(fn.FreeVars[i], seen, depth+1) {
					return false
				}
			}
		case ssa.CallInstruction:
			cc := x.Common()
			if cc.IsInvoke() {
				if strings.HasPrefix(cc.Method.Name(), "Capture") {
					continue
				}
				return false
			}
			callee := cc.StaticCallee()
			if callee == nil {
				return false
			}
			switch callee.String() {
			case "time.Since", "(time.Time).Sub":
				if val := x.Value(); val == nil || !flowsOnlyToTracer(val, seen, depth+1) {
					return false
				}
				continue
			}
			// passed to a function literal (deferred closure with parameters)
			if callee.Parent() != nil {
				for i, a := range cc.Args {
					if a == v && i < len(callee.Params) && !flowsOnlyToTracer(callee.Params[i], seen, depth+1) {
						return false
					}
				}
				continue
			}
			return false
		default:
			return false
		}
	}
	return true
}

// uniqueFieldsTable: projections that differ for every two distinct entries of
// the collections the repository sorts. Confirmed by reading; the first two
// are additionally checked structurally by mapKeyedByField.
var uniqueFieldsTable = map[string]string{
	"PeerPoolItem.PeerPubkey":                    "PeerPoolMap is keyed by the item's PeerPubkey (checked: every insertion uses that key)",
	"Peer.PeerPubkey":                            "header_sync ConsensusPeers.PeerMap is keyed by the peer's PeerPubkey (checked: every insertion uses that key)",
	"PeerPoolItemForVm.PeerAddress.ToHexString()": "the address is derived from the peer's public key (the map key) by hashing: injective up to hash collisions",
	"VBFTPeerStakeInfo.PeerPubkey":               "copied in vbft.GetPeersConfig from PeerPoolItem.PeerPubkey, the key of the peer-pool map (checked by C30: the loop fills the field from the range value's PeerPubkey)",
	"PeerConfig.ID":                              "vbft peer id = the peer's public key, the key of the peer pool map the list is built from",
	"PeerStakeInfo.Index":                        "governance assigns each peer a distinct index",
}

// mapKeyedByField checks the data invariant behind a uniqueFieldsTable entry:
// every insertion into a map whose value type is *<pkg>.<typ> uses as key the
// value's own field (the same item's field, the key the item was just looked
// up with, or the value the item's field was initialised with).
func mapKeyedByField(c *an.Ctx, pkg, typ, field string, fns []*ssa.Function) int {
	n := 0
	for _, fn := range fns {
		if strings.HasSuffix(c.P.Fset.Position(fn.Pos()).Filename, "_test.go") {
			continue
		}
		idx := 0
		for _, b := range fn.Blocks {
			for _, in := range b.Instrs {
				mu, ok := in.(*ssa.MapUpdate)
				if !ok {
					continue
				}
				mt, isM := mu.Map.Type().Underlying().(*types.Map)
				if !isM {
					continue
				}
				nm := namedOfType(mt.Elem())
				if nm == nil || nm.Obj().Name() != typ || nm.Obj().Pkg() == nil || !strings.HasSuffix(nm.Obj().Pkg().Path(), pkg) {
					continue
				}
				n++
				idx++
				key := fmt.Sprintf("keyed-by|%s.%s|%s#%d", typ, field, an.FuncName(fn), idx)
				c.Check(keyIsOwnField(mu, field), key, "every entry of a map of "+typ+" is stored under the entry's own "+field+" (so sorting by "+field+" is a total order on the entries)", c.P.Rel(mu.Pos()),
					"the key is not recognisably the stored item's "+field)
			}
		}
	}
	return n
}

func namedOfType(t types.Type) *types.Named {
	if p, ok := t.(*types.Pointer); ok {
		t = p.Elem()
	}
	nm, _ := t.(*types.Named)
	return nm
}

func keyIsOwnField(mu *ssa.MapUpdate, field string) bool {
	samePath := func(a, b ssa.Value) bool {
		if a == b {
			return true
		}
		pa, pb := an.AccessPath(a), an.AccessPath(b)
		return pa != "" && pa == pb
	}
	val := mu.Value
	// (a) key is a load of val.<field>
	if f := fieldOfLoad(mu.Key); f != nil && f.Name() == field {
		if base := baseOfField(mu.Key, field); base != nil && (base == val || samePath(base, val)) {
			return true
		}
	}
	// (d) copying an entry of another map of the same kind: key and value are
	// the key and value of one range step
	if ek, ok := mu.Key.(*ssa.Extract); ok {
		if ev, ok2 := val.(*ssa.Extract); ok2 && ek.Tuple == ev.Tuple && ek.Index == 1 && ev.Index == 2 {
			if nx, isNext := ek.Tuple.(*ssa.Next); isNext {
				if rg, isR := nx.Iter.(*ssa.Range); isR && types.Identical(rg.X.Type().Underlying(), mu.Map.Type().Underlying()) {
					return true
				}
			}
		}
	}
	for _, src := range an.AllSources(val) {
		src = an.Origin(src)
		switch x := src.(type) {
		case *ssa.Lookup:
			// (b) the item was looked up in a map with the same key
			if samePath(x.Index, mu.Key) {
				return true
			}
		case *ssa.Extract:
			if lk, ok := x.Tuple.(*ssa.Lookup); ok && samePath(lk.Index, mu.Key) {
				return true
			}
		case *ssa.Alloc:
			// (c) a fresh item whose field was initialised with the key
			if x.Referrers() == nil {
				continue
			}
			for _, r := range *x.Referrers() {
				if fa, ok := r.(*ssa.FieldAddr); ok && fa.Referrers() != nil {
					if f := an.FieldOf(fa); f == nil || f.Name() != field {
						continue
					}
					for _, r2 := range *fa.Referrers() {
						if st, isSt := r2.(*ssa.Store); isSt && samePath(st.Val, mu.Key) {
							return true
						}
					}
				}
			}
		}
	}
	return false
}

// loopOwner: fn itself, or for an unexported function with exactly one static caller function, that caller's owner
// (at most three levels).
func loopOwner(c *an.Ctx, cg *an.CG, fn *ssa.Function) *ssa.Function {
	cur := fn
	for d := 0; d < 3; d++ {
		if cur.Parent() != nil || cur.Object() == nil || cur.Object().Exported() || an.IsOpaqueUnit(cur) {
			return cur // closures, exported functions and the units the property names keep their own name
		}
		callers := map[*ssa.Function]bool{}
		selfRec := false
		for _, k := range an.Calls(cur) {
			if k.Common().StaticCallee() == cur {
				selfRec = true
			}
		}
		if selfRec {
			return cur // a recursive function is a unit of its own, not a block moved out of its caller
		}
		for _, e := range cg.Callers(cur) {
			if e.Site == nil || e.Site.Common().StaticCallee() != cur {
				return cur // called through a value or an interface: not a private helper of one caller
			}
			g := e.Caller.Func
			for g.Parent() != nil {
				g = g.Parent()
			}
			if g != cur {
				callers[g] = true
			}
		}
		if len(callers) != 1 {
			return cur
		}
		for g := range callers {
			if strings.HasSuffix(c.P.Fset.Position(g.Pos()).Filename, "_test.go") {
				return cur
			}
			cur = g
		}
	}
	return cur
}
