package props

import (
	"sort"
	"strings"

	"golang.org/x/tools/go/ssa"

	"verif/checker/an"
)

// replayCoversCommit (C01): everything the normal commit path writes into the
// state store and the event store must also be written by recovery's replay,
// because after a crash between the block-store commit and the state-store
// commit only recoverStore runs for that block. Compared as sets of
// StateStore/EventStore methods with storage effects that are reached by
// static calls from submitBlock and from recoverStore (through LedgerStoreImp
// helper methods); batch control (NewBatch/CommitTo) is excluded.
func replayCoversCommit(c *an.Ctx, submit, recover *ssa.Function) {
	isStoreMethod := func(fn *ssa.Function) string {
		if fn.Signature.Recv() == nil {
			return ""
		}
		t := fn.Signature.Recv().Type().String()
		switch {
		case strings.HasSuffix(t, "ledgerstore.StateStore"):
			return "StateStore." + fn.Name()
		case strings.HasSuffix(t, "ledgerstore.EventStore"):
			return "EventStore." + fn.Name()
		}
		return ""
	}
	// does fn (transitively, by static calls) reach a storage write?
	memo := map[*ssa.Function]bool{}
	var writes func(fn *ssa.Function, depth int) bool
	writes = func(fn *ssa.Function, depth int) bool {
		if v, ok := memo[fn]; ok {
			return v
		}
		memo[fn] = false
		if fn.Blocks == nil || depth > 8 {
			return false
		}
		for _, k := range an.Calls(fn) {
			o := an.CalleeObj(k.Common())
			if o != nil {
				switch o.Name() {
				case "BatchPut", "BatchDelete", "BatchPutRawKeyVal", "BatchDeleteRawKey":
					if o.Pkg() != nil && strings.Contains(o.Pkg().Path(), "store") {
						memo[fn] = true
						return true
					}
				case "AppendHash", "Append":
					// only on a tree the store owns (a field), not on a local clone used for prediction
					if o.Pkg() != nil && strings.HasSuffix(o.Pkg().Path(), "merkle") && fieldOfLoad(recvOf(k.Common())) != nil {
						memo[fn] = true
						return true
					}
				}
			}
			if callee := k.Common().StaticCallee(); callee != nil && c.P.InRepo(callee) {
				// a method applied to an object created in this function (a clone used to predict a root) has no lasting effect
				if callee.Signature.Recv() != nil && len(k.Common().Args) > 0 {
					if kind, _, _ := an.ObjOrigin(k.Common().Args[0], 0); kind == "fresh" {
						continue
					}
				}
				if !writes(callee, depth+1) {
					continue
				}
				memo[fn] = true
				return true
			}
		}
		return false
	}
	collect := func(root *ssa.Function) map[string]bool {
		out := map[string]bool{}
		seen := map[*ssa.Function]bool{}
		var walk func(fn *ssa.Function, depth int)
		walk = func(fn *ssa.Function, depth int) {
			if seen[fn] || fn.Blocks == nil || depth > 6 {
				return
			}
			seen[fn] = true
			for _, k := range an.Calls(fn) {
				callee := k.Common().StaticCallee()
				if callee == nil || !c.P.InRepo(callee) {
					continue
				}
				if name := isStoreMethod(callee); name != "" {
					if callee.Name() != "CommitTo" && callee.Name() != "NewBatch" && writes(callee, 0) {
						out[name] = true
					}
					continue
				}
				// follow helper methods of the ledger store itself
				if callee.Signature.Recv() != nil && strings.HasSuffix(callee.Signature.Recv().Type().String(), "ledgerstore.LedgerStoreImp") {
					walk(callee, depth+1)
				}
			}
			for _, a := range fn.AnonFuncs {
				walk(a, depth+1)
			}
		}
		walk(root, 0)
		return out
	}
	sub, rec := collect(submit), collect(recover)
	// housekeeping that is not part of the committed block's data (decided by reading)
	exempt := map[string]string{
		"EventStore.PruneBlock": "deletes the event records of a block far below the current height; it is attempted again with every later block, so skipping it in a replay loses nothing",
	}
	var missing, all []string
	for k := range sub {
		all = append(all, k)
		if why, ok := exempt[k]; ok && !rec[k] {
			c.Note("replay|recoverStore|exempt|"+k, "writes of submitBlock that the replay need not repeat", c.P.Rel(recover.Pos()), "decided by reading: "+why)
			continue
		}
		if !rec[k] {
			missing = append(missing, k)
		}
	}
	sort.Strings(missing)
	sort.Strings(all)
	c.Extra["state_event_writers_on_commit_path"] = all
	c.Check(len(missing) == 0 && len(all) >= 4, "replay|recoverStore|covers-every-state-and-event-write-of-submitBlock",
		"every write submitBlock makes to the state store and the event store (records, state merkle tree, block merkle tree leaf, events) is also made when recoverStore replays the block — after a crash between the block-store commit and the state-store commit only the replay runs",
		c.P.Rel(recover.Pos()), "written by submitBlock but not by the replay: "+strings.Join(missing, ", "))
}
