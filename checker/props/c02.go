package props

import (
	"fmt"
	"strings"

	"golang.org/x/tools/go/callgraph"
	"golang.org/x/tools/go/ssa"

	"verif/checker/an"
)

func init() {
	register(&Prop{ID: "C02", Patterns: []string{"./..."}, Run: runC02})
}

// loops decided by reading (function name -> reason)
var c02Table = map[string]string{
	"(*smartcontract/storage.StateDB).CommitToCacheDB": "ranges over the self-destruct set; DelEthAccount/CleanContractStorageData delete only keys under the element's own account prefix (commutative across distinct accounts); the error exit is an exists-failure",
	"smartcontract/service/native/ont.OntInit":         "reachable only from the genesis transaction (any later call returns 'Init ont has been completed' before the loop); core/genesis.newGoverningInit passes exactly one address, and a single-entry map has one iteration order",
	"(*smartcontract/service/native/ontfs.Errors).PrintErrors": "prints diagnostics to the process's stdout only; not ledger state, events or results",
}

func runC02(c *an.Ctx) {
	c.Explanation = "A1 order (whole program) + A11 siblings: over every repository function reachable from block execution (LedgerStoreImp.executeBlock and the three transaction handlers) in the refined call graph, restricted to packages in the import closure of core/store/ledgerstore, " +
		"(1) every loop that ranges over a Go map is commutative, collect-then-sort or an exists-failure exit — so neither the write set, nor the event list, nor results depend on map iteration order; " +
		"(2) no wall-clock, unseeded random, environment or host input is read (constant-seeded PRNGs and tracer timing that flows only to the EVM tracer are recognised structurally); (3) no goroutine is started and no channel is used on the execution path (results cannot depend on the schedule); " +
		"(4) the block's state hash is the overlay's ChangeHash of the executed write set; (5) the signer set contracts see is derived in the same way by the validator and by the sealed-block fallback (shared with C17); " +
		"(6) block execution - which also runs on candidate blocks that are never committed - writes no field of the long-lived store objects, and re-reads the global parameters for every block above genesis, before its first transaction, through a fresh overlay of the committed state: the result is a function of the block and the committed chain, not of what this process executed before. " +
		"Decides these structural necessary conditions for all block sequences; equality of results as values is not decided."
	c.Assumptions = append(c.Assumptions,
		"repository packages outside the import closure of core/store/ledgerstore are not called from block execution (their values cannot be constructed by execution code; the ledger's callers inject none on this path)",
		"node-local configuration (config.DefConfig) is identical on nodes that are expected to agree")
	if !controlConfine(c) {
		return
	}
	cg := c.P.CallGraph()
	roots := resolveAll(c, []string{
		ls + ".(*LedgerStoreImp).executeBlock",
		ls + ".(*StateStore).HandleInvokeTransaction",
		ls + ".(*StateStore).HandleDeployTransaction",
		ls + ".(*StateStore).HandleEIP155Transaction",
	})
	closure := c.P.ImportClosure(ls)
	c.RequireMin("packages in the import closure of the ledger store", len(closure), 100)
	pruned := 0
	r := cg.Reach(roots, an.ReachOpts{SkipEdge: func(e *callgraph.Edge) bool {
		callee := e.Callee.Func
		if c.P.InRepo(callee) && !closure[an.FuncPkgPath(callee)] {
			pruned++
			return true
		}
		return false
	}})
	c.Count("functions_reachable", len(r.Order))
	c.Count("edges_pruned_outside_import_closure", pruned)
	fns := r.RepoFuncs()
	c.RequireMin("repository functions reachable from block execution", len(fns), 1000)
	pathOf := func(fn *ssa.Function) string { return strings.Join(r.Path(fn), " -> ") }
	n := orderRuleFuncsX(c, cg, fns, c02Table, "order", nil, pathOf, true)
	c.RequireMin("map-range loops reachable from block execution", n, 15)

	// data invariants behind the comparator-uniqueness table
	nk := mapKeyedByField(c, "smartcontract/service/native/governance", "PeerPoolItem", "PeerPubkey", fns)
	nk += mapKeyedByField(c, "smartcontract/service/native/cross_chain/header_sync", "Peer", "PeerPubkey", fns)
	c.RequireMin("insertions into maps of PeerPoolItem / header_sync Peer", nk, 12)

	// (3) schedule independence
	conc := 0
	for _, fn := range fns {
		if strings.HasSuffix(c.P.Fset.Position(fn.Pos()).Filename, "_test.go") {
			continue
		}
		for _, b := range fn.Blocks {
			for _, in := range b.Instrs {
				what := ""
				switch in.(type) {
				case *ssa.Go:
					what = "go statement"
				case *ssa.Send:
					what = "channel send"
				case *ssa.Select:
					what = "select"
				}
				if what == "" {
					continue
				}
				conc++
				key := fmt.Sprintf("schedule|%s|%s", an.FuncName(fn), what)
				if why, ok := c02Conc[an.FuncName(fn)]; ok {
					c.Note(key, "no goroutine/channel use on the execution path", c.P.Rel(in.Pos()), "decided by reading: "+why)
					continue
				}
				c.Violate(key, "no goroutine is started and no channel is used on the block-execution path (results must not depend on the schedule)", c.P.Rel(in.Pos()), "call path: "+pathOf(fn))
			}
		}
	}
	if conc == 0 {
		c.Hold("schedule|block-execution", "no goroutine is started and no channel is used on the block-execution path", "-", fmt.Sprintf("%d functions", len(fns)))
	}

	// (4) state hash = ChangeHash of the overlay
	if eb := mustFunc(c, ls+".(*LedgerStoreImp).executeBlock"); eb != nil {
		ch := mustObj(c, "core/store/overlaydb.(*OverlayDB).ChangeHash")
		ws := mustObj(c, "core/store/overlaydb.(*OverlayDB).GetWriteSet")
		newCache := mustObj(c, "smartcontract/storage.NewCacheDB")
		hashField := c.P.Field("core/store.ExecuteResult.Hash")
		wsField := c.P.Field("core/store.ExecuteResult.WriteSet")
		if hashField == nil || wsField == nil {
			c.Undecide("anchor|ExecuteResult.Hash/WriteSet", "anchors must resolve", "-", "field not found")
		} else if ch != nil && ws != nil && newCache != nil {
			var hashRecv, wsRecv ssa.Value
			for _, w := range an.DirectFieldWrites(eb) {
				for _, s := range an.AllSources(w.Val) {
					k, isCall := an.Origin(s).(*ssa.Call)
					if !isCall {
						continue
					}
					if w.Field == hashField && an.CalleeObj(k.Common()) == ch {
						hashRecv = recvOf(k.Common())
					}
					if w.Field == wsField && an.CalleeObj(k.Common()) == ws {
						wsRecv = recvOf(k.Common())
					}
				}
			}
			executedOn := false
			for _, k := range an.CallsTo(eb, newCache) {
				if hashRecv != nil && argsNoRecv(k.Common())[0] == hashRecv {
					executedOn = true
				}
			}
			c.Check(hashRecv != nil && hashRecv == wsRecv && executedOn, "statehash|executeBlock|result.Hash-is-ChangeHash",
				"the block's state hash is ChangeHash() and its write set GetWriteSet() of the very overlay the transactions' cache was created on", c.P.Rel(eb.Pos()),
				"result.Hash / result.WriteSet are not taken from the overlay the block was executed on")
		}
	}

	// (5) validator vs sealed-block signer derivation
	signedAddrRule(c)

	// (6) execution reads the block and the committed state only
	executionInputsRule(c, fns)
}

// goroutine/channel sites decided by reading
var c02Conc = map[string]string{}
