package props

import (
	"go/types"
	"strings"

	"golang.org/x/tools/go/ssa"

	"verif/checker/an"
)

// ongOverwriteRule (C07, added for seed C07c): within an EVM transaction ONG moves by SubBalance/AddBalance pairs of
// one amount. The only operation that *overwrites* a balance - OngBalanceHandle.SetBalance, which can create or destroy
// ONG - is reachable from the EVM only through StateDB.Suicide (besides the handle's own Sub/Add, which compute the new
// value from the old), and every caller of Suicide has, on the way there, credited the whole balance of the same
// account to a beneficiary (AddBalance(b, GetBalance(a)) before Suicide(a)). A second, unpaired zeroing - e.g. at
// commit time - destroys whatever the account received in between.
func ongOverwriteRule(c *an.Ctx) {
	const sp = "smartcontract/storage"
	setObj := mustObj(c, "smartcontract/service/native/ong.OngBalanceHandle.SetBalance")
	suicide := mustFunc(c, sp+".(*StateDB).Suicide")
	if setObj == nil || suicide == nil {
		return
	}
	implements := func(o *types.Func, name string) bool {
		if o == nil || o.Name() != name {
			return false
		}
		if o == setObj {
			return true
		}
		sig, _ := o.Type().(*types.Signature)
		if sig == nil || sig.Recv() == nil || !types.IsInterface(sig.Recv().Type()) {
			return false
		}
		return types.Implements(setObj.Type().(*types.Signature).Recv().Type(), sig.Recv().Type().Underlying().(*types.Interface))
	}
	n, bad := 0, ""
	for _, fn := range c.P.RepoSrcFuncs() {
		if strings.HasSuffix(c.P.Fset.Position(fn.Pos()).Filename, "_test.go") {
			continue
		}
		for _, k := range an.Calls(fn) {
			if !implements(an.CalleeObj(k.Common()), "SetBalance") {
				continue
			}
			n++
			own := fn.Signature.Recv() != nil && types.Identical(fn.Signature.Recv().Type(), setObj.Type().(*types.Signature).Recv().Type())
			if fn != suicide && !own {
				bad = an.FuncName(fn) + " at " + c.P.Rel(k.Pos())
			}
		}
	}
	c.Check(bad == "" && n >= 1, "confine|OngBalanceHandle.SetBalance|overwrite-only-in-Suicide", "a balance is overwritten (not moved) only by StateDB.Suicide and by the handle's own Sub/Add: every other change of ONG inside an EVM transaction is a Sub/Add pair of one amount", "-", "SetBalance is also called from "+bad)

	// every Suicide(a) is preceded by AddBalance(b, GetBalance(a)) in its caller
	nS, badS := 0, ""
	for _, fn := range c.P.RepoSrcFuncs("vm/evm", "smartcontract/service/evm", sp) {
		if strings.HasSuffix(c.P.Fset.Position(fn.Pos()).Filename, "_test.go") {
			continue
		}
		for _, k := range an.Calls(fn) {
			o := an.CalleeObj(k.Common())
			if o == nil || o.Name() != "Suicide" || !k.Common().IsInvoke() && k.Common().StaticCallee() != suicide {
				continue
			}
			nS++
			victim := argsNoRecv(k.Common())[0]
			paired := false
			for _, a := range an.Calls(fn) {
				ao := an.CalleeObj(a.Common())
				if ao == nil || ao.Name() != "AddBalance" || !a.Block().Dominates(k.Block()) {
					continue
				}
				amt := argsNoRecv(a.Common())[1]
				gb, isCall := an.Origin(amt).(*ssa.Call)
				if !isCall || an.CalleeObj(gb.Common()) == nil || an.CalleeObj(gb.Common()).Name() != "GetBalance" {
					continue
				}
				if sameCallValue(argsNoRecv(gb.Common())[0], victim) {
					paired = true
				}
			}
			if !paired {
				badS = an.FuncName(fn) + " at " + c.P.Rel(k.Pos())
			}
		}
	}
	c.Check(badS == "" && nS >= 1, "pair|Suicide|whole-balance-credited-first", "an account is zeroed by self-destruct only after its whole balance (GetBalance of that very account) was credited to the beneficiary", "-", "Suicide without a dominating AddBalance(_, GetBalance(same account)) in "+badS)
}

// sameCallValue: the two values are the same SSA value, or two calls of the same pure accessor on the same receiver
// (callContext.contract.Address() written twice).
func sameCallValue(a, b ssa.Value) bool {
	if a == b {
		return true
	}
	ca, okA := an.Origin(a).(*ssa.Call)
	cb, okB := an.Origin(b).(*ssa.Call)
	if !okA || !okB {
		return an.AccessPath(a) != "" && an.AccessPath(a) == an.AccessPath(b)
	}
	oa, ob := an.CalleeObj(ca.Common()), an.CalleeObj(cb.Common())
	if oa == nil || oa != ob || len(argsNoRecv(ca.Common())) != 0 {
		return false
	}
	ra, rb := recvOf(ca.Common()), recvOf(cb.Common())
	return ra == rb || an.AccessPath(ra) != "" && an.AccessPath(ra) == an.AccessPath(rb)
}
