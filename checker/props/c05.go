package props

import (
	"fmt"
	"go/constant"
	"go/types"
	"strings"

	"golang.org/x/tools/go/ssa"

	"verif/checker/an"
)

func init() {
	register(&Prop{ID: "C05", Patterns: []string{"./..."}, Run: runC05})
}

func runC05(c *an.Ctx) {
	c.Explanation = "A2/A3/A4/A13 on the transaction handlers: (1) executeBlock resets the per-transaction cache before every handleTransaction on the same cache value; (2) in HandleInvokeTransaction the transaction cache is committed only when the engine returned no error and fee charging succeeded, and no failure return is reachable after a Commit; " +
		"(3) the block overlay parameter of the handlers is used only for SetError and as the argument of costInvalidGas, and OverlayDB.Put/Delete are called only from CacheDB.Commit's callback; (4) costInvalidGas charges on a fresh cache over the overlay, commits it only if charging succeeded, and reports as GasConsumed the very value it charged; " +
		"(5) chargeCostGas transfers from the payer to the governance contract through the ONG contract's transfer with its own payer/gas parameters (whose debit is underflow-checked, C06); (6) nothing reachable from contract execution (native, NeoVM, WASM service Invoke) reaches CacheDB.Commit, and CacheDB.Commit/StateDB.Commit are called only from the transaction handlers. " +
		"Decides these structural necessary conditions on all paths; does not decide numeric equality of fee and gas beyond the same-value rule, nor that the VMs write only through the cache."
	if !controlGuard(c) || !controlConfine(c) {
		return
	}
	const sp = "smartcontract/storage"
	executeBlock := mustFunc(c, lsImp+"executeBlock")
	handleTx := mustFunc(c, lsImp+"handleTransaction")
	reset := mustObj(c, sp+".(*CacheDB).Reset")
	commit := mustFunc(c, sp+".(*CacheDB).Commit")
	invokeH := mustFunc(c, ls+".(*StateStore).HandleInvokeTransaction")
	deployH := mustFunc(c, ls+".(*StateStore).HandleDeployTransaction")
	costInvalid := mustFunc(c, ls+".costInvalidGas")
	charge := mustFunc(c, ls+".chargeCostGas")
	if executeBlock == nil || handleTx == nil || reset == nil || commit == nil || invokeH == nil || deployH == nil || costInvalid == nil || charge == nil {
		return
	}
	// the units with rules of their own below are single steps for their callers
	an.SetOpaqueUnits(handleTx, invokeH, deployH, costInvalid, charge)
	// (1)
	{
		hts := an.CallsTo(executeBlock, funcObj(handleTx))
		rs := an.CallsTo(executeBlock, reset)
		ok := len(hts) == 1 && len(rs) >= 1
		why := fmt.Sprintf("%d handleTransaction calls, %d Reset calls", len(hts), len(rs))
		if ok {
			ht := hts[0]
			// same cache value
			cacheArg := argsNoRecv(ht.Common())[1]
			same := false
			for _, r := range rs {
				if recvOf(r.Common()) == cacheArg {
					same = true
				}
			}
			if !same {
				ok, why = false, "Reset is not called on the cache value that is passed to handleTransaction"
			}
			// in every iteration: from the loop header, handleTransaction is unreachable without passing Reset
			for _, e := range an.BackEdges(executeBlock) {
				body := an.LoopBlocks(e[0], e[1])
				if !body[ht.Block()] {
					continue
				}
				cut := map[ssa.Instruction]bool{}
				for _, r := range rs {
					cut[r] = true
				}
				q := &an.Query{Fn: executeBlock, Cut: cut, Start: e[1].Instrs[0]}
				if q.Run().Reaches(ht) {
					ok, why = false, "handleTransaction is reachable from the loop header without passing cache.Reset()"
				}
			}
			// and from function entry
			if pass, w := an.MustPass(c.P, executeBlock, instrs(rs), []ssa.Instruction{ht}, nil); !pass {
				ok, why = false, w
			}
		}
		c.Check(ok, "sequence|executeBlock|reset-before-handle", "every transaction starts from an empty transaction cache: cache.Reset() precedes handleTransaction in each iteration, on the same cache", c.P.Rel(executeBlock.Pos()), why)
	}
	// (2) HandleInvokeTransaction
	commits := callsIn(invokeH, funcObj(commit))
	{
		c.Check(len(commits) == 1, "shape|HandleInvokeTransaction|one-commit", "exactly one commit of the transaction cache", c.P.Rel(invokeH.Pos()), fmt.Sprintf("%d", len(commits)))
		engineInvoke := mustObj(c, "smartcontract/context.Engine.Invoke")
		isCommit := func(in ssa.Instruction) bool { return isCallTo(in, funcObj(commit)) }
		if engineInvoke != nil {
			g := an.GuardForFuncs("Engine.Invoke", engineInvoke)
			v := an.Guarded(c.P, invokeH, []*an.Guard{g}, isCommit, false)
			c.Check(v.Holds && v.GuardSites == 1, "guard-engine|HandleInvokeTransaction|commit", "the transaction cache is committed only if contract execution returned no error", c.P.Rel(invokeH.Pos()), v.Witness)
		}
		g := an.GuardForFuncs("chargeCostGas", funcObj(charge))
		extra := map[ssa.Value]an.Abs{}
		// side condition: the transaction is charged (isCharge true)
		v := an.GuardedX(c.P, invokeH, []*an.Guard{g}, extra, isCommit, false)
		_ = v
		// after a Commit only success returns
		bad := ""
		for _, k := range commits {
			q := &an.Query{Fn: invokeH, Start: k}
			r := q.Run()
			for _, ret := range an.Returns(invokeH) {
				for _, st := range r.StatesAt(ret) {
					a := r.Eval(ret.Results[len(ret.Results)-1], st)
					if a.K != an.KNil {
						bad = "return at " + c.P.Rel(ret.Pos()) + " (error result " + a.String() + ") reachable after Commit"
					}
				}
			}
			// and no costInvalidGas after it
			for _, ci := range callsIn(invokeH, funcObj(costInvalid)) {
				if r.Reaches(ci) {
					bad = "costInvalidGas reachable after Commit"
				}
			}
		}
		c.Check(bad == "" && len(commits) > 0, "sequence|HandleInvokeTransaction|no-failure-after-commit", "once the transaction cache is committed the handler can only return success", c.P.Rel(invokeH.Pos()), bad)
		// failure returns after charging pass through costInvalidGas or return the charge error itself: every non-nil-error
		// return that follows engine.Invoke is preceded by costInvalidGas unless !isCharge
	}
	// GasConsumed direct stores in the handlers happen only on the success path
	gasField := c.P.Field("smartcontract/event.ExecuteNotify.GasConsumed")
	stateField := c.P.Field("smartcontract/event.ExecuteNotify.State")
	if gasField == nil || stateField == nil {
		c.Undecide("anchor|ExecuteNotify.GasConsumed", "anchors must resolve", "-", "field not found")
	} else {
		for _, h := range []*ssa.Function{invokeH, deployH} {
			bad := ""
			n := 0
			for _, b := range h.Blocks {
				for _, in := range b.Instrs {
					st, ok := in.(*ssa.Store)
					if !ok || (an.FieldOf(st.Addr) != gasField && an.FieldOf(st.Addr) != stateField) {
						continue
					}
					n++
					q := &an.Query{Fn: h, Start: st}
					r := q.Run()
					for _, ret := range an.Returns(h) {
						for _, s := range r.StatesAt(ret) {
							if a := r.Eval(ret.Results[len(ret.Results)-1], s); a.K != an.KNil {
								bad = "failure return at " + c.P.Rel(ret.Pos()) + " reachable after the store at " + c.P.Rel(st.Pos())
							}
						}
					}
				}
			}
			c.Check(bad == "" && n >= 2, "sequence|"+h.Name()+"|gas-and-state-set-on-success-only", "the handler itself reports GasConsumed/State=SUCCESS only on its success path (failure paths report through costInvalidGas)", c.P.Rel(h.Pos()), bad)
		}
	}
	// (3) overlay parameter
	setErr := mustObj(c, "core/store/overlaydb.(*OverlayDB).SetError")
	for _, h := range []*ssa.Function{invokeH, deployH} {
		var ov *ssa.Parameter
		// the block overlay: the handler's parameter of type *overlaydb.OverlayDB (whatever it is called)
		for _, p := range h.Params {
			if strings.HasSuffix(p.Type().String(), "overlaydb.OverlayDB") {
				ov = p
			}
		}
		if ov == nil {
			c.Undecide("anchor|"+h.Name()+".overlay", "anchors must resolve", c.P.Rel(h.Pos()), "no parameter named overlay")
			continue
		}
		bad := paramUsedOnlyBy(c, h, ov, func(k ssa.CallInstruction) bool {
			return isCallTo(k, setErr) || isCallTo(k, funcObj(costInvalid))
		}, 0)
		c.Check(bad == "", "confine|"+h.Name()+"|overlay-param", "the handler touches the block overlay only to record an internal error or to charge the failure fee", c.P.Rel(h.Pos()), "other use of overlay: "+bad)
	}
	for _, m := range []string{"Put", "Delete"} {
		obj := mustObj(c, "core/store/overlaydb.(*OverlayDB)."+m)
		if obj == nil {
			continue
		}
		bad := ""
		n := 0
		for _, fn := range c.P.RepoSrcFuncs() {
			for _, k := range an.Calls(fn) {
				o := an.CalleeObj(k.Common())
				if o == nil || o.Name() != m {
					continue
				}
				concrete := o == obj
				viaIface := false
				if k.Common().IsInvoke() && (o.FullName() == "("+an.RepoMod+"/core/store/common.PersistStore)."+m || strings.HasSuffix(o.FullName(), "OverlayStore)."+m)) {
					viaIface = true
				}
				if !concrete && !viaIface {
					continue
				}
				// only CacheDB.Commit's callback may write the overlay (the backend field of CacheDB)
				parent := fn
				for parent.Parent() != nil {
					parent = parent.Parent()
				}
				if parent == commit {
					n++
					continue
				}
				if concrete {
					bad = an.FuncName(fn) + " at " + c.P.Rel(k.Pos())
				}
			}
		}
		c.Check(bad == "", "confine|OverlayDB."+m, "the block overlay is written only by CacheDB.Commit", "-", "OverlayDB."+m+" called from "+bad)
	}
	// (4) costInvalidGas
	{
		newCache := mustFunc(c, sp+".NewCacheDB")
		ok, why := true, ""
		var fresh ssa.Value
		for _, k := range an.Calls(costInvalid) {
			if k.Common().StaticCallee() == newCache {
				ovName := "?"
				for _, p := range costInvalid.Params {
					if strings.HasSuffix(p.Type().String(), "overlaydb.OverlayDB") {
						ovName = p.Name()
					}
				}
				if an.AccessPath(k.Common().Args[0]) != ovName {
					ok, why = false, "NewCacheDB is not built over the overlay parameter"
				}
				fresh = k.Value()
			}
		}
		if fresh == nil {
			ok, why = false, "no NewCacheDB call"
		}
		var chargedGas string
		for _, k := range an.CallsTo(costInvalid, funcObj(charge)) {
			args := k.Common().Args
			if args[3] != fresh {
				ok, why = false, "chargeCostGas is not applied to the fresh cache"
			}
			chargedGas = an.AccessPath(args[1])
			if an.AccessPath(args[0]) != costInvalid.Params[0].Name() {
				ok, why = false, "charged account is not the address parameter"
			}
		}
		for _, k := range an.CallsTo(costInvalid, funcObj(commit)) {
			if recvOf(k.Common()) != fresh {
				ok, why = false, "a cache other than the fresh one is committed"
			}
		}
		c.Check(ok, "shape|costInvalidGas|fresh-cache", "the failure fee is charged on a fresh cache over the block overlay (nothing of the failed execution is in it)", c.P.Rel(costInvalid.Pos()), why)
		g := an.GuardForFuncs("chargeCostGas", funcObj(charge))
		v := an.Guarded(c.P, costInvalid, []*an.Guard{g}, func(in ssa.Instruction) bool { return isCallTo(in, funcObj(commit)) }, false)
		c.Check(v.Holds && v.GuardSites == 1 && v.ActionSites == 1, "guard-charge|costInvalidGas|commit", "the fee cache is committed only if the fee transfer succeeded (never more than the balance: the ONG debit is underflow-checked)", c.P.Rel(costInvalid.Pos()), v.Witness)
		stored := ""
		if gasField != nil {
			for _, b := range costInvalid.Blocks {
				for _, in := range b.Instrs {
					if st, isSt := in.(*ssa.Store); isSt && an.FieldOf(st.Addr) == gasField {
						stored = an.AccessPath(st.Val)
					}
				}
			}
		}
		c.Check(stored != "" && stored == chargedGas, "pair|costInvalidGas|gas-reported==gas-charged", "the gas reported as consumed is the very value that was charged", c.P.Rel(costInvalid.Pos()), fmt.Sprintf("charged %q, reported %q", chargedGas, stored))
	}
	// (5) chargeCostGas
	{
		nativeCall := mustObj(c, "smartcontract/service/native.(*NativeService).NativeCall")
		ok, why := false, "no NativeCall(utils.OngContractAddress, \"transfer\", <serialized ont.TransferStates{{From: payer, To: utils.GovernanceContractAddress, Value: gas}}>)"
		if nativeCall != nil {
			for _, k := range an.CallsToReach(charge, nativeCall) {
				args := argsNoRecv(k.Common())
				m, isC := args[1].(*ssa.Const)
				if !isC || m.Value == nil || constant.StringVal(m.Value) != "transfer" || an.AccessPathIn(charge, args[0]) != "utils.OngContractAddress" {
					continue
				}
				// the argument is the serialization of an ont.TransferStates (built here or in a private helper) ...
				serialized := false
				for _, d := range an.Deref(charge, args[2]) {
					if pc, isCall := an.Origin(d).(*ssa.Call); isCall && pc.Call.StaticCallee() != nil && pc.Call.StaticCallee().Name() == "SerializeToBytes" && len(pc.Call.Args) == 1 {
						// SerializeToBytes(values ...Serializable): exactly one value, the TransferStates
						var elems []ssa.Value
						if sl, isSl := pc.Call.Args[0].(*ssa.Slice); isSl {
							if al, isAl := sl.X.(*ssa.Alloc); isAl {
								for _, r := range *al.Referrers() {
									if ia, isIA := r.(*ssa.IndexAddr); isIA {
										for _, r2 := range *ia.Referrers() {
											if st, isSt := r2.(*ssa.Store); isSt && st.Addr == ssa.Value(ia) {
												elems = append(elems, st.Val)
											}
										}
									}
								}
							}
						}
						if len(elems) == 1 {
							x := elems[0]
							if mi, isMI := x.(*ssa.MakeInterface); isMI {
								x = mi.X
							}
							if strings.HasSuffix(x.Type().String(), "native/ont.TransferStates") {
								serialized = true
							}
						}
					}
				}
				if !serialized {
					why = "the argument of the transfer call is not a serialized ont.TransferStates"
					continue
				}
				// ... with exactly one entry {From: payer, To: governance, Value: gas}; payer and gas are
				// chargeCostGas's first two parameters (whatever they are called)
				want := map[string]string{"From": charge.Params[0].Name(), "To": "utils.GovernanceContractAddress", "Value": charge.Params[1].Name()}
				seen := map[string]int{}
				good := true
				for _, g := range an.InlineReach(charge) {
					for _, b := range g.Blocks {
						for _, in := range b.Instrs {
							st, isSt := in.(*ssa.Store)
							if !isSt {
								continue
							}
							fa, isFA := st.Addr.(*ssa.FieldAddr)
							if !isFA || !strings.HasSuffix(fa.X.Type().String(), "native/ont.TransferState") {
								continue
							}
							f := an.FieldOf(fa)
							if f == nil {
								continue
							}
							seen[f.Name()]++
							if an.AccessPathIn(charge, st.Val) != want[f.Name()] {
								good = false
								why = fmt.Sprintf("the transfer entry's %s is %s, not %s", f.Name(), an.AccessPathIn(charge, st.Val), want[f.Name()])
							}
							if ia, isIA := fa.X.(*ssa.IndexAddr); isIA {
								if pt, isP := ia.X.Type().Underlying().(*types.Pointer); isP {
									if arr, isArr := pt.Elem().Underlying().(*types.Array); !isArr || arr.Len() != 1 {
										good = false
										why = "the fee transfer has more than one entry"
									}
								}
							}
						}
					}
				}
				if good && seen["From"] == 1 && seen["To"] == 1 && seen["Value"] == 1 {
					ok = true
				} else if good {
					why = fmt.Sprintf("the fee transfer entry is not written exactly once (From/To/Value stores: %d/%d/%d)", seen["From"], seen["To"], seen["Value"])
				}
			}
			okRet, w := an.MustPassToSuccess(c.P, charge, callsIn(charge, nativeCall))
			if !okRet {
				ok, why = false, w
			}
		}
		c.Check(ok, "shape|chargeCostGas|transfer", "the fee is an ONG transfer of exactly `gas` from the payer to the governance contract, and chargeCostGas succeeds only if that transfer succeeded", c.P.Rel(charge.Pos()), why)
	}
	// (5b) Reset discards all per-transaction state of the cache (added for seed C05c: a read memo kept across Reset)
	cacheResetRule(c)
	// (6) confinement of Commit
	cg := c.P.CallGraph()
	stateCommit := mustFunc(c, sp+".(*StateDB).Commit")
	var roots []*ssa.Function
	for _, n := range []string{"smartcontract/service/native.(*NativeService).Invoke", "smartcontract/service/native.(*NativeService).NativeCall",
		"smartcontract/service/neovm.(*NeoVmService).Invoke", "smartcontract/service/wasmvm.(*WasmVmService).Invoke"} {
		if f := mustFunc(c, n); f != nil {
			roots = append(roots, f)
		}
	}
	c.RequireMin("contract-execution roots", len(roots), 4)
	if stateCommit != nil {
		confineNoReach(c, cg, "contract execution never publishes the transaction cache to the block overlay itself (only the transaction handler commits, after success)", roots, []*ssa.Function{commit, stateCommit}, an.ReachOpts{})
		// positive control on the real graph: the native service does reach registered handlers
		r := cg.Reach(roots[:1], an.ReachOpts{})
		ontTransfer := c.P.Func("smartcontract/service/native/ont.OntTransfer")
		c.Check(ontTransfer != nil && r.Has(ontTransfer), "control|NativeService.Invoke reaches registered handlers", "the call graph resolves the handler table (otherwise the confinement would be vacuous)", "-", "ont.OntTransfer not reachable from NativeService.Invoke")
	}
	allowed := map[string]bool{
		"(*" + ls + ".StateStore).HandleDeployTransaction": true, "(*" + ls + ".StateStore).HandleInvokeTransaction": true,
		ls + ".costInvalidGas": true, "(*" + sp + ".StateDB).Commit": true,
	}
	commitCallers := entryCallers(c, cg, commit, func(g *ssa.Function) bool { return allowed[an.FuncName(g)] })
	for _, g := range sortedFns(commitCallers) {
		n := an.FuncName(g)
		c.Check(allowed[n], "confine|CacheDB.Commit|"+n, "CacheDB.Commit is called only by the transaction handlers, costInvalidGas and StateDB.Commit (or their private helpers)", c.P.Rel(commitCallers[g].Pos()), "unexpected caller")
	}
	if stateCommit != nil {
		for _, e := range cg.Callers(stateCommit) {
			n := an.FuncName(e.Caller.Func)
			if strings.HasPrefix(an.FuncPkgPath(e.Caller.Func), an.RepoMod+"/vm/evm/runtime") {
				// the standalone EVM harness; it must not be part of block processing
				r := cg.Reach([]*ssa.Function{executeBlock}, an.ReachOpts{})
				c.Check(!r.Has(e.Caller.Func), "confine|StateDB.Commit|harness-not-on-block-path|"+n, "the standalone EVM harness (vm/evm/runtime), which commits its own StateDB, is not reachable from block execution", c.P.Rel(e.Site.Pos()), "reachable from executeBlock")
				continue
			}
			c.Check(n == "smartcontract/service/evm.applyTransaction", "confine|StateDB.Commit|"+n, "StateDB.Commit (which publishes the transaction cache) is called only by the top-level EIP-155 transaction processor", c.P.Rel(e.Site.Pos()), "unexpected caller")
		}
	}
}

// paramUsedOnlyBy: every use of the parameter is a call selected by allowed, or hands the parameter on to a private
// helper of the same package (entered by queries on root) whose own uses of it satisfy the same rule. Returns a
// description of the first other use, "" if there is none.
func paramUsedOnlyBy(c *an.Ctx, root *ssa.Function, p *ssa.Parameter, allowed func(ssa.CallInstruction) bool, depth int) string {
	if p.Referrers() == nil {
		return ""
	}
	for _, ref := range *p.Referrers() {
		if _, isDbg := ref.(*ssa.DebugRef); isDbg {
			continue
		}
		k, ok := ref.(ssa.CallInstruction)
		if ok && allowed(k) {
			continue
		}
		if call, isCall := ref.(*ssa.Call); isCall && depth < an.MaxInlineDepth {
			callee := call.Call.StaticCallee()
			entered := false
			for _, g := range an.InlineReach(root) {
				if g == callee && g != root {
					entered = true
				}
			}
			if entered {
				bad := ""
				for i, a := range call.Call.Args {
					if a == ssa.Value(p) && i < len(callee.Params) {
						if w := paramUsedOnlyBy(c, root, callee.Params[i], allowed, depth+1); w != "" {
							bad = w
						}
					}
				}
				if bad == "" {
					continue
				}
				return bad
			}
		}
		return fmt.Sprintf("%s at %s", ref.String(), c.P.Rel(ref.Pos()))
	}
	return ""
}

func instrs(cs []ssa.CallInstruction) []ssa.Instruction {
	var out []ssa.Instruction
	for _, c := range cs {
		out = append(out, c)
	}
	return out
}
