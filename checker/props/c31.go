package props

import (
	"fmt"
	"go/token"
	"go/types"
	"strings"

	"golang.org/x/tools/go/ssa"

	"verif/checker/an"
)

func init() {
	register(&Prop{ID: "C31", Patterns: []string{"./consensus/vbft"}, Run: runC31})
}

func runC31(c *an.Ctx) {
	const vb = "consensus/vbft"
	c.Explanation = "A2 guard + A15 verified on VBFT commit counting: in getCommitConsensus a proposer is returned only on the edge where `len(S)+1 >= threshold` holds, where S is the per-proposer set keyed by signer index (a map whose keys are the committer index and the endorser indexes of the commit messages for that proposer) — the count is a count of distinct signers; " +
		"newBlockCommitment records a commit message only after the one-committer-one-commit test; a received commit message reaches the block pool only after blockCommitMsg.Verify succeeded; and every message field that is counted towards the quorum must be verified somewhere on the intake path: the endorser signatures (blockCommitMsg.EndorsersSig) must be passed to a signature verification by some reader of that field. " +
		"Decides these necessary conditions for all message sets; the threshold formula N-(N-1)/3 itself is arithmetic (C28) and not decided."
	if !controlGuard(c) {
		return
	}
	gc := mustFunc(c, vb+".getCommitConsensus")
	if gc == nil {
		return
	}
	commitDoneFallbackRule(c, gc)
	// 1. the compared quantity is len(set)+1: a comparison, in any spelling, that is equivalent to
	//    len(S) >= threshold - 1 for a map S
	var cmp *ssa.BinOp
	var set ssa.Value
	quorumFail := an.AFalse // outcome of cmp when the quorum is NOT reached
	counterCmp := ""
	lenOfMap := func(v ssa.Value) ssa.Value {
		if call, ok := v.(*ssa.Call); ok {
			if bi, isB := call.Call.Value.(*ssa.Builtin); isB && bi.Name() == "len" {
				if _, isMap := call.Call.Args[0].Type().Underlying().(*types.Map); isMap {
					return call.Call.Args[0]
				}
			}
		}
		return nil
	}
	for _, v := range an.FindValues(gc, func(v ssa.Value) bool { _, ok := v.(*ssa.BinOp); return ok }) {
		b := v.(*ssa.BinOp)
		op := b.Op
		xb, xo, _ := linear(b.X)
		yb, yo, _ := linear(b.Y)
		var m ssa.Value
		var a, bb int64 // len(S)+a  op  T+bb
		switch {
		case lenOfMap(xb) != nil:
			m, a, bb = lenOfMap(xb), xo, yo
		case lenOfMap(yb) != nil:
			m, a, bb = lenOfMap(yb), yo, xo
			op = mirrorOp[op]
		default:
			continue
		}
		// normalise to len(S) >= T + k (reached) ; for < and <= the comparison is the negation
		var k int64
		fail := an.AFalse
		switch op {
		case token.GEQ:
			k = bb - a
		case token.GTR:
			k = bb - a + 1
		case token.LSS: // len+a < T+bb  <=>  !(len >= T+bb-a)
			k, fail = bb-a, an.ATrue
		case token.LEQ: // len+a <= T+bb <=>  !(len >= T+bb-a+1)
			k, fail = bb-a+1, an.ATrue
		default:
			continue
		}
		if k != -1 {
			counterCmp = fmt.Sprintf("len(set) is compared as len >= threshold%+d at %s, not len+1 >= threshold", k, c.P.Rel(b.Pos()))
			continue
		}
		cmp, set, quorumFail = b, m, fail
	}
	if cmp == nil {
		why := "no comparison equivalent to `len(set)+1 >= threshold` found"
		if counterCmp != "" {
			why = counterCmp
		}
		c.Violate("quorum|getCommitConsensus|count-is-set-size", "the quantity compared with the commit threshold is the size of a set of signer indexes (+1)", c.P.Rel(gc.Pos()), why)
	} else {
		c.Hold("quorum|getCommitConsensus|count-is-set-size", "the quantity compared with the commit threshold is the size of a set of signer indexes (+1), so a signer seen several times counts once", c.P.Rel(cmp.Pos()), "")
		// success returns guarded by the comparison
		g := &an.Guard{Name: "quorum reached", FailValue: quorumFail, MatchValue: func(v ssa.Value) bool { return v == ssa.Value(cmp) }}
		v := an.Guarded(c.P, gc, []*an.Guard{g}, func(in ssa.Instruction) bool {
			r, ok := in.(*ssa.Return)
			if !ok {
				return false
			}
			_, isC := r.Results[0].(*ssa.Const)
			return !isC // a non-constant proposer (the constant is math.MaxUint32 = "none")
		}, false)
		c.Check(v.Holds && v.ActionSites >= 1, "guard|getCommitConsensus|proposer-only-on-quorum", "a proposer is reported as committed only on the edge where the quorum comparison holds", c.P.Rel(gc.Pos()), v.Witness)
	}
	// 2. the set is keyed by committer and endorser indexes
	if set != nil {
		keyedByCommitter, keyedByEndorser := false, false
		// the set value is a lookup signCount[proposer]; updates go through other lookups of the same outer map
		var gcBlocks []*ssa.BasicBlock
		for _, g := range an.InlineReach(gc) {
			gcBlocks = append(gcBlocks, g.Blocks...)
		}
		for _, b := range gcBlocks {
			for _, in := range b.Instrs {
				mu, ok := in.(*ssa.MapUpdate)
				if !ok {
					continue
				}
				if _, isInner := mu.Map.Type().Underlying().(*types.Map); !isInner {
					continue
				}
				if mt := mu.Map.Type().Underlying().(*types.Map); !types.Identical(mt, set.Type().Underlying()) {
					continue
				}
				if f := fieldOfLoad(mu.Key); f != nil && f.Name() == "Committer" {
					keyedByCommitter = true
				}
				if e, isE := mu.Key.(*ssa.Extract); isE {
					if nx, isN := e.Tuple.(*ssa.Next); isN {
						if rg, isR := nx.Iter.(*ssa.Range); isR {
							if f := fieldOfLoad(rg.X); f != nil && f.Name() == "EndorsersSig" {
								keyedByEndorser = true
							}
						}
					}
				}
			}
		}
		c.Check(keyedByCommitter && keyedByEndorser, "quorum|getCommitConsensus|set-keys", "the per-proposer signer set is keyed by the committer's index and by each endorser index of the commit message", c.P.Rel(gc.Pos()),
			fmt.Sprintf("keyed by committer: %v, by endorser: %v", keyedByCommitter, keyedByEndorser))
	}
	// 3. verified: EndorsersSig values must reach a signature verification
	field := c.P.Field(vb + ".blockCommitMsg.EndorsersSig")
	if field == nil {
		c.Undecide("anchor|blockCommitMsg.EndorsersSig", "anchors must resolve", "-", "field not found")
	} else {
		var readers []string
		verified := false
		for _, fn := range c.P.RepoSrcFuncs(vb) {
			if strings.HasSuffix(c.P.Fset.Position(fn.Pos()).Filename, "_test.go") {
				continue
			}
			if !an.FieldReads(fn)[field] {
				continue
			}
			readers = append(readers, an.FuncName(fn))
			// does a value ranged out of the field flow into a Verify call?
			for _, b := range fn.Blocks {
				for _, in := range b.Instrs {
					rg, ok := in.(*ssa.Range)
					if !ok {
						continue
					}
					if f := fieldOfLoad(rg.X); f != field {
						continue
					}
					for _, k := range an.Calls(fn) {
						callee := k.Common().StaticCallee()
						if callee == nil || !strings.Contains(callee.Name(), "Verify") {
							continue
						}
						for _, a := range k.Common().Args {
							if dependsOnValue(a, rg, 0) {
								verified = true
							}
						}
					}
				}
			}
		}
		c.Extra["EndorsersSig_readers"] = readers
		c.Check(verified, "verified|blockCommitMsg.EndorsersSig", "endorsements claimed inside a commit message count towards the quorum only if their signatures are verified: some reader of EndorsersSig passes its values to a signature verification", "-",
			fmt.Sprintf("readers of the field: %v; none of them verifies the signatures — blockCommitMsg.Verify checks only the committer's own signature, and getCommitConsensus counts every claimed endorser index", readers))
	}
	// 5. one list entry per peer and proposer in the endorsement table
	endorseSigsDistinctRule(c)
	// 4. one committer, one commit
	if nb := mustFunc(c, vb+".(*BlockPool).newBlockCommitment"); nb != nil {
		dup := &an.Guard{Name: "same committer", FailValue: an.ATrue, MatchValue: func(v ssa.Value) bool {
			b, ok := v.(*ssa.BinOp)
			if !ok || b.Op != token.EQL {
				return false
			}
			fx, fy := fieldOfLoad(b.X), fieldOfLoad(b.Y)
			return fx != nil && fy != nil && fx.Name() == "Committer" && fy.Name() == "Committer"
		}}
		cm := c.P.Field(vb + ".CandidateInfo.CommitMsgs")
		v := an.Guarded(c.P, nb, []*an.Guard{dup}, func(in ssa.Instruction) bool {
			// the store that records a message: the field receives the result of append (the candidate record's
			// initialisation in getCandidateInfoLocked stores a fresh empty list and is not a recording)
			st, ok := in.(*ssa.Store)
			if !ok || an.FieldOf(st.Addr) != cm {
				return false
			}
			k, isCall := st.Val.(*ssa.Call)
			if !isCall {
				return false
			}
			b, isB := k.Call.Value.(*ssa.Builtin)
			return isB && b.Name() == "append"
		}, true)
		c.Check(v.GuardSites == 1 && v.ActionSites == 1, "shape|newBlockCommitment|dup-check", "a commit message is recorded after the one-committer-one-commit scan", c.P.Rel(nb.Pos()), fmt.Sprintf("dup tests %d, append sites %d", v.GuardSites, v.ActionSites))
		// the scan precedes the append: with the comparison true the append is unreachable in that iteration
		ok, why := true, ""
		for _, val := range an.FindValues(nb, dup.MatchValue) {
			r := (&an.Query{Fn: nb, Assume: map[ssa.Value]an.Abs{val: an.ATrue}, Start: val.(ssa.Instruction)}).Run()
			for _, b := range nb.Blocks {
				for _, in := range b.Instrs {
					if st, isSt := in.(*ssa.Store); isSt && an.FieldOf(st.Addr) == cm && r.Reaches(in) {
						ok, why = false, "the message is appended although a commit of the same committer is already recorded"
					}
				}
			}
		}
		c.Check(ok, "guard|newBlockCommitment|one-committer-one-commit", "a second commit message of the same committer is never added to the counted list", c.P.Rel(nb.Pos()), why)
	}
	// 5. intake verifies the committer signature before the pool sees the message
	if run := mustFunc(c, vb+".(*Server).run"); run != nil {
		verify := mustObj(c, vb+".ConsensusMsg.Verify")
		found := false
		for _, fn := range append([]*ssa.Function{run}, run.AnonFuncs...) {
			var fwd []ssa.Instruction
			for _, k := range an.Calls(fn) {
				if f := k.Common().StaticCallee(); f != nil && f.Name() == "onConsensusMsg" {
					fwd = append(fwd, k)
				}
			}
			if len(fwd) == 0 || verify == nil {
				continue
			}
			found = true
			set := map[ssa.Instruction]bool{}
			for _, f := range fwd {
				set[f] = true
			}
			v := an.Guarded(c.P, fn, []*an.Guard{an.GuardForFuncs("ConsensusMsg.Verify", verify)}, func(in ssa.Instruction) bool { return set[in] }, false)
			c.Check(v.Holds && v.GuardSites >= 1, "guard|Server.run|verify-before-dispatch", "a consensus message from a peer is dispatched only after its sender signature verified", c.P.Rel(fn.Pos()), v.Witness)
		}
		if !found {
			c.Violate("guard|Server.run|verify-before-dispatch", "a consensus message from a peer is dispatched only after its sender signature verified", c.P.Rel(run.Pos()), "dispatch site (onConsensusMsg) not found in Server.run")
		}
	}
}

// dependsOnValue: v is computed from root.
func dependsOnValue(v ssa.Value, root ssa.Value, depth int) bool {
	if v == root {
		return true
	}
	if depth > 8 {
		return false
	}
	if in, ok := v.(ssa.Instruction); ok {
		for _, op := range in.Operands(nil) {
			if *op != nil && dependsOnValue(*op, root, depth+1) {
				return true
			}
		}
	}
	return false
}
