package props

import (
	"fmt"
	"go/token"
	"go/types"
	"strings"

	"golang.org/x/tools/go/ssa"

	"verif/checker/an"
)

func init() {
	register(&Prop{ID: "C36", Patterns: []string{"./p2pserver/connect_controller"}, Run: runC36})
}

func runC36(c *an.Ctx) {
	const cc = "p2pserver/connect_controller"
	c.Explanation = "A14 atomic + A4 who-may-call + pairing on ConnectController: the inbound/outbound sets are inserted into by savePeer only; in savePeer the insertion lies inside the critical section opened by mutex.Lock (released only by the deferred Unlock) and is unreachable unless, inside that same critical section, the size of the very set being inserted into was compared with the limit selected for that direction — and, for inbound, the per-IP count with MaxConnInBoundPerIP; " +
		"removals happen under the same mutex; the in-flight marker of a dial (`connecting`) is released only by the call that acquired it (removeConnecting is registered after a successful tryAddConnecting). Because check and insertion share one critical section, no interleaving of concurrent accepts/dials can pass the check on a stale count. Decides this structurally for all schedules; it does not model the network."
	if !controlGuard(c) {
		return
	}
	save := mustFunc(c, cc+".(*ConnectController).savePeer")
	inout := c.P.Field(cc + ".ConnectController.inoutbounds")
	mutexF := c.P.Field(cc + ".ConnectController.mutex")
	if save == nil || inout == nil || mutexF == nil {
		c.Undecide("anchor|ConnectController", "anchors must resolve", "-", "field not found")
		return
	}
	isSetOp := func(k ssa.CallInstruction, names ...string) bool {
		f := k.Common().StaticCallee()
		if f == nil || f.Signature.Recv() == nil || !strings.HasSuffix(f.Signature.Recv().Type().String(), "strset.Set") {
			return false
		}
		ok := false
		for _, n := range names {
			if f.Name() == n {
				ok = true
			}
		}
		if !ok {
			return false
		}
		// receiver is (a load of) an element of the inoutbounds array
		r := k.Common().Args[0]
		if u, isU := r.(*ssa.UnOp); isU {
			r = u.X
		}
		if ia, isIA := r.(*ssa.IndexAddr); isIA {
			return an.FieldOf(ia.X) == inout
		}
		return false
	}
	// who inserts
	var adds []ssa.Instruction
	for _, fn := range c.P.RepoSrcFuncs("p2pserver") {
		for _, k := range an.Calls(fn) {
			if isSetOp(k, "Add") {
				c.Check(fn == save, "confine|inoutbounds.Add|"+an.FuncName(fn), "established connections are recorded only by savePeer", c.P.Rel(k.Pos()), "another function inserts into the inbound/outbound set")
				if fn == save {
					adds = append(adds, k)
				}
			}
		}
	}
	c.RequireMin("insertions into the inbound/outbound sets", len(adds), 1)
	// critical section: Lock dominates, no explicit Unlock in the function body, deferred Unlock present
	var locks, unlocks, deferred []ssa.Instruction
	for _, b := range save.Blocks {
		for _, in := range b.Instrs {
			k, ok := in.(ssa.CallInstruction)
			if !ok {
				continue
			}
			f := k.Common().StaticCallee()
			if f == nil || !strings.HasPrefix(f.String(), "(*sync.Mutex).") && !strings.HasPrefix(f.String(), "(*sync.RWMutex).") {
				continue
			}
			if an.FieldOf(k.Common().Args[0]) != mutexF {
				continue
			}
			switch {
			case f.Name() == "Lock":
				locks = append(locks, in)
			case f.Name() == "Unlock":
				if _, isDefer := in.(*ssa.Defer); isDefer {
					deferred = append(deferred, in)
				} else {
					unlocks = append(unlocks, in)
				}
			}
		}
	}
	okCS := len(locks) == 1 && len(unlocks) == 0 && len(deferred) == 1
	if okCS {
		for _, a := range adds {
			if ok, _ := an.MustPass(c.P, save, locks, []ssa.Instruction{a}, nil); !ok {
				okCS = false
			}
		}
	}
	c.Check(okCS, "atomic|savePeer|one-critical-section", "savePeer runs as one critical section: mutex.Lock before the insertion, released only by the deferred Unlock", c.P.Rel(save.Pos()), fmt.Sprintf("locks %d, explicit unlocks %d, deferred unlocks %d", len(locks), len(unlocks), len(deferred)))
	// limit comparison inside the section guards the insertion
	isAdd := func(in ssa.Instruction) bool {
		for _, a := range adds {
			if a == in {
				return true
			}
		}
		return false
	}
	// size >= limit, in any spelling (limit <= size, !(size < limit), ...)
	isSize := func(x ssa.Value) bool {
		if cv, isC := x.(*ssa.Convert); isC {
			x = cv.X
		}
		k, isCall := x.(*ssa.Call)
		return isCall && isSetOp(k, "Size")
	}
	notSize := func(y ssa.Value) bool { return !isSize(y) }
	sizeMatch := func(v ssa.Value) bool { m, _ := relMatch(v, token.GEQ, isSize, notSize); return m }
	limitOf := func(v ssa.Value) ssa.Value {
		b := v.(*ssa.BinOp)
		if isSize(b.X) {
			return b.Y
		}
		return b.X
	}
	sizeCmp := relGuards("size >= limit", token.GEQ, isSize, notSize)
	v := an.Guarded(c.P, save, sizeCmp, isAdd, false)
	afterLock := true
	findAll := func(match func(ssa.Value) bool) []ssa.Value {
		var out []ssa.Value
		for _, g := range an.InlineReach(save) {
			out = append(out, an.FindValues(g, match)...)
		}
		return out
	}
	for _, val := range findAll(sizeMatch) {
		if ok, _ := an.MustPass(c.P, save, locks, []ssa.Instruction{val.(ssa.Instruction)}, nil); !ok {
			afterLock = false
		}
	}
	c.Check(v.Holds && v.GuardSites == 1 && afterLock, "atomic|savePeer|limit-checked-in-section", "the size of the set being inserted into is compared with the connection limit inside the critical section that inserts (no check-then-act across lock acquisitions)", c.P.Rel(save.Pos()),
		fmt.Sprintf("size comparisons in savePeer: %d; %s", v.GuardSites, v.Witness))
	// the limit is selected by direction: the right operand is a phi/select of MaxConnInBound / MaxConnOutBound
	okLimit := false
	for _, val := range findAll(sizeMatch) {
		names := map[string]bool{}
		// the limit, possibly returned by a private selector helper (boundLimit(index))
		for _, d := range an.Deref(save, limitOf(val)) {
			for _, s := range an.AllSources(d) {
				if f := fieldOfLoad(s); f != nil {
					names[f.Name()] = true
				}
			}
		}
		if names["MaxConnInBound"] && names["MaxConnOutBound"] {
			okLimit = true
		}
	}
	c.Check(okLimit, "same-subject|savePeer|limit-by-direction", "the limit compared is MaxConnInBound for inbound and MaxConnOutBound for outbound", c.P.Rel(save.Pos()), "the compared limit is not selected from MaxConnInBound/MaxConnOutBound")
	// per-IP
	isPerIPLimit := func(y ssa.Value) bool {
		f := fieldOfLoad(y)
		return f != nil && f.Name() == "MaxConnInBoundPerIP"
	}
	perIP := relGuards("perIP >= MaxConnInBoundPerIP", token.GEQ, func(x ssa.Value) bool { return !isPerIPLimit(x) }, isPerIPLimit)
	extra := map[ssa.Value]an.Abs{}
	idxName := ""
	for _, p := range save.Params {
		// the direction selector: savePeer's int parameter (whatever it is called)
		if b, isB := p.Type().Underlying().(*types.Basic); isB && b.Kind() == types.Int {
			idxName = p.Name()
		}
	}
	for _, val := range findAll(func(v ssa.Value) bool {
		b, ok := v.(*ssa.BinOp)
		if !ok || (b.Op != token.EQL && b.Op != token.NEQ) {
			return false
		}
		k, isK := b.Y.(*ssa.Const)
		return idxName != "" && an.AccessPathIn(save, b.X) == idxName && isK && k.Value != nil && k.Value.String() == "0"
	}) {
		// inbound: index == INBOUND_INDEX is true, index != INBOUND_INDEX is false
		if val.(*ssa.BinOp).Op == token.EQL {
			extra[val] = an.ATrue
		} else {
			extra[val] = an.AFalse
		}
	}
	v = an.GuardedX(c.P, save, perIP, extra, isAdd, false)
	c.Check(v.Holds && v.GuardSites == 1 && len(extra) >= 1, "atomic|savePeer|per-ip-checked-in-section", "for inbound connections the per-IP count is compared with MaxConnInBoundPerIP inside the same critical section", c.P.Rel(save.Pos()), fmt.Sprintf("per-IP comparisons: %d; %s", v.GuardSites, v.Witness))
	// removals under the mutex
	for _, fn := range c.P.RepoSrcFuncs(cc) {
		for _, k := range an.Calls(fn) {
			if !isSetOp(k, "Remove") {
				continue
			}
			var lk []ssa.Instruction
			for _, x := range an.Calls(fn) {
				if f := x.Common().StaticCallee(); f != nil && f.Name() == "Lock" && an.FieldOf(x.Common().Args[0]) == mutexF {
					lk = append(lk, x)
				}
			}
			ok, why := an.MustPass(c.P, fn, lk, []ssa.Instruction{k}, nil)
			c.Check(ok && len(lk) > 0, "atomic|"+an.FuncName(fn)+"|remove-under-mutex", "connections are removed from the sets under the controller mutex", c.P.Rel(k.Pos()), why)
		}
	}
	// in-flight marker pairing
	if conn := mustFunc(c, cc+".(*ConnectController).Connect"); conn != nil {
		try := mustObj(c, cc+".(*ConnectController).tryAddConnecting")
		rem := mustFunc(c, cc+".(*ConnectController).removeConnecting")
		if try != nil && rem != nil {
			// releases: direct/deferred calls of removeConnecting and deferred closures that call it
			var rel []ssa.Instruction
			for _, b := range conn.Blocks {
				for _, in := range b.Instrs {
					k, ok := in.(ssa.CallInstruction)
					if !ok {
						continue
					}
					if k.Common().StaticCallee() == rem {
						rel = append(rel, in)
						continue
					}
					if mc, isMC := k.Common().Value.(*ssa.MakeClosure); isMC {
						if an.CallsStatically(mc.Fn.(*ssa.Function), rem, 1) {
							rel = append(rel, in)
						}
					}
				}
			}
			g := an.GuardForFuncs("tryAddConnecting", try)
			set := map[ssa.Instruction]bool{}
			for _, r := range rel {
				set[r] = true
			}
			v := an.Guarded(c.P, conn, []*an.Guard{g}, func(in ssa.Instruction) bool { return set[in] }, false)
			c.Check(v.Holds && v.GuardSites == 1 && len(rel) >= 1, "pair|Connect|release-only-after-acquire", "the in-flight marker of an address is released only by the dial that acquired it: removeConnecting is registered/called only after tryAddConnecting succeeded", c.P.Rel(conn.Pos()),
				fmt.Sprintf("%d release sites; %s", len(rel), v.Witness))
		}
	}
}
