package props

import (
	"fmt"
	"go/token"
	"go/types"
	"strings"

	"golang.org/x/tools/go/ssa"

	"verif/checker/an"
)

func init() {
	register(&Prop{ID: "C39", Patterns: []string{"./..."}, Run: runC39})
	register(&Prop{ID: "C32", Patterns: []string{"./core/store/ledgerstore", "./core/signature"}, Run: runC32})
}

const lsImp = ls + ".(*LedgerStoreImp)."

// ledgerMutation selects instructions that mutate a LedgerStoreImp (or its
// caches): stores to its fields and updates of maps loaded from its fields.
func ledgerMutation(c *an.Ctx) func(ssa.Instruction) bool {
	imp, _ := c.P.Obj(ls + ".LedgerStoreImp").(*types.TypeName)
	isImpField := func(v ssa.Value) bool {
		fa, ok := v.(*ssa.FieldAddr)
		if !ok {
			return false
		}
		t := fa.X.Type()
		if p, isP := t.Underlying().(*types.Pointer); isP {
			t = p.Elem()
		}
		n, isN := t.(*types.Named)
		return isN && imp != nil && n.Obj() == imp
	}
	return func(in ssa.Instruction) bool {
		switch x := in.(type) {
		case *ssa.Store:
			return isImpField(x.Addr)
		case *ssa.MapUpdate:
			if u, ok := x.Map.(*ssa.UnOp); ok && u.Op == token.MUL {
				return isImpField(u.X)
			}
		}
		return false
	}
}

func runC39(c *an.Ctx) {
	c.Explanation = "A2 guard + A4 confine on the block intake path: AddBlock/SubmitBlock/AddHeader reach saveBlock/submitBlock/header-cache updates only after verifyHeader succeeded; saveBlock reaches submitBlock only after execution succeeded and, for non-empty blocks, " +
		"the state-root comparison passed; submitBlock reaches its first store effect (NewBatch, save*, CommitTo, setCurrentBlock, cross-chain save) only after the block-root comparison passed; verifyHeader (and every helper it calls in the package) mutates ledger fields/caches only after the " +
		"multi-signature verification succeeded; executeBlock reaches no persistent write. Decides 'rejected implies no effect' structurally for these checks on all CFG/call paths; the transaction-root check is C20's rule."
	if !controlGuard(c) || !controlConfine(c) {
		return
	}
	verifyHeader := mustFunc(c, lsImp+"verifyHeader")
	saveBlock := mustFunc(c, lsImp+"saveBlock")
	submitBlock := mustFunc(c, lsImp+"submitBlock")
	executeBlock := mustFunc(c, lsImp+"executeBlock")
	if verifyHeader == nil || saveBlock == nil || submitBlock == nil || executeBlock == nil {
		return
	}
	vh := an.GuardForFuncs("verifyHeader", funcObj(verifyHeader))
	// 1. intake
	for _, tc := range []struct {
		fn      string
		actions []string
	}{
		{"AddBlock", []string{"saveBlock", "delHeaderCache"}},
		{"SubmitBlock", []string{"submitBlock", "delHeaderCache"}},
		{"AddHeader", []string{"addHeaderCache", "setHeaderIndex"}},
	} {
		fn := mustFunc(c, lsImp+tc.fn)
		if fn == nil {
			continue
		}
		var objs []*types.Func
		for _, a := range tc.actions {
			if o := mustObj(c, lsImp+a); o != nil {
				objs = append(objs, o)
			}
		}
		// height guard is a side condition: blocks at or below the current height return early
		// the effects: the named helpers, or what the header-cache helpers do written in place (delete / insert on
		// the store's headerCache map)
		isAct := func(in ssa.Instruction) bool {
			if isCallTo(in, objs...) {
				return true
			}
			switch x := in.(type) {
			case *ssa.MapUpdate:
				if f := fieldOfLoad(x.Map); f != nil && f.Name() == "headerCache" && in.Parent() == fn {
					return true
				}
			case *ssa.Call:
				if bi, isB := x.Call.Value.(*ssa.Builtin); isB && bi.Name() == "delete" && in.Parent() == fn {
					if f := fieldOfLoad(x.Call.Args[0]); f != nil && f.Name() == "headerCache" {
						return true
					}
				}
			}
			return false
		}
		v := an.Guarded(c.P, fn, []*an.Guard{vh}, isAct, false)
		c.Check(v.Holds && v.GuardSites == 1 && v.ActionSites >= len(objs), "guard-verifyHeader|"+tc.fn, tc.fn+" touches the ledger ("+strings.Join(tc.actions, ", ")+") only after verifyHeader succeeded",
			c.P.Rel(fn.Pos()), v.Witness)
		// the next-height test guards too
		next := relGuards("height != next", token.NEQ, func(x ssa.Value) bool { f := fieldOfLoad(x); return f != nil && f.Name() == "Height" }, func(y ssa.Value) bool { f := fieldOfLoad(y); return f == nil || f.Name() != "Height" })
		v = an.Guarded(c.P, fn, next, isAct, false)
		c.Check(v.Holds && v.GuardSites >= 1, "guard-height|"+tc.fn, tc.fn+" touches the ledger only for the next expected height", c.P.Rel(fn.Pos()), v.Witness)
	}
	// 2. saveBlock
	{
		isSubmit := func(in ssa.Instruction) bool { return isCallTo(in, funcObj(submitBlock)) }
		eg := an.GuardForFuncs("executeBlock", funcObj(executeBlock))
		v := an.Guarded(c.P, saveBlock, []*an.Guard{eg}, isSubmit, false)
		c.Check(v.Holds && v.GuardSites == 1 && v.ActionSites == 1, "guard-execute|saveBlock", "saveBlock commits only a block whose execution succeeded", c.P.Rel(saveBlock.Pos()), v.Witness)
		findIn := func(root *ssa.Function, match func(ssa.Value) bool) []ssa.Value {
			var out []ssa.Value
			for _, g := range an.InlineReach(root) {
				out = append(out, an.FindValues(g, match)...)
			}
			return out
		}
		rootParam := saveBlock.Params[len(saveBlock.Params)-1].Name()
		rootNE := findIn(saveBlock, func(v ssa.Value) bool {
			b, ok := v.(*ssa.BinOp)
			if !ok || b.Op != token.NEQ {
				return false
			}
			_, isArr := b.X.Type().Underlying().(*types.Array)
			return isArr && (an.AccessPathIn(saveBlock, b.Y) == rootParam || an.AccessPathIn(saveBlock, b.X) == rootParam)
		})
		// the emptiness test on the block's transactions, in any of its forms: len(..) != 0, > 0, == 0, < 1, ...
		anyLen := func(ssa.Value) bool { return true }
		nonEmpty := findIn(saveBlock, func(v ssa.Value) bool { _, ok := lenCmpZero(v, anyLen); return ok })
		if len(rootNE) == 1 && len(nonEmpty) == 1 {
			g := &an.Guard{Name: "state root mismatch", FailValue: an.ATrue, MatchValue: func(v ssa.Value) bool { return v == rootNE[0] }}
			isNonEmpty := an.ATrue
			if emptyWhenTrue, _ := lenCmpZero(nonEmpty[0], anyLen); emptyWhenTrue {
				isNonEmpty = an.AFalse
			}
			v := an.GuardedX(c.P, saveBlock, []*an.Guard{g}, map[ssa.Value]an.Abs{nonEmpty[0]: isNonEmpty}, isSubmit, false)
			c.Check(v.Holds, "guard-stateroot|saveBlock", "a non-empty block is committed only if the computed state merkle root equals the one supplied by consensus/sync", c.P.Rel(saveBlock.Pos()), v.Witness)
			// the compared root is the execution result's
			ok := strings.HasSuffix(an.AccessPath(rootNE[0].(*ssa.BinOp).X), ".MerkleRoot") || strings.HasSuffix(an.AccessPath(rootNE[0].(*ssa.BinOp).Y), ".MerkleRoot")
			c.Check(ok, "same-subject|saveBlock|state-root", "the root compared is the MerkleRoot of this block's execution result", c.P.Rel(saveBlock.Pos()), "compared value is not result.MerkleRoot")
		} else {
			c.Violate("guard-stateroot|saveBlock", "a non-empty block is committed only if the computed state merkle root equals the one supplied", c.P.Rel(saveBlock.Pos()),
				fmt.Sprintf("state-root comparison not found (found %d comparisons with stateMerkleRoot, %d emptiness tests)", len(rootNE), len(nonEmpty)))
		}
	}
	// 3. submitBlock: block root before any effect
	{
		var effectObjs []*types.Func
		for _, n := range []string{
			ls + ".(*BlockStore).NewBatch", ls + ".(*StateStore).NewBatch", ls + ".(*EventStore).NewBatch",
			lsImp + "saveBlockToBlockStore", lsImp + "saveBlockToStateStore", lsImp + "saveBlockToEventStore", lsImp + "tryPruneBlock",
			ls + ".(*BlockStore).CommitTo", ls + ".(*StateStore).CommitTo", ls + ".(*EventStore).CommitTo", lsImp + "setCurrentBlock",
			ls + ".(*CrossChainStore).SaveMsgToCrossChainStore",
		} {
			if o := mustObj(c, n); o != nil {
				effectObjs = append(effectObjs, o)
			}
		}
		findInS := func(match func(ssa.Value) bool) []ssa.Value {
			var out []ssa.Value
			for _, g := range an.InlineReach(submitBlock) {
				out = append(out, an.FindValues(g, match)...)
			}
			return out
		}
		rootNE := findInS(func(v ssa.Value) bool {
			b, ok := v.(*ssa.BinOp)
			if !ok || b.Op != token.NEQ {
				return false
			}
			_, isArr := b.X.Type().Underlying().(*types.Array)
			return isArr && (strings.HasSuffix(an.AccessPath(b.Y), ".BlockRoot") || strings.HasSuffix(an.AccessPath(b.X), ".BlockRoot"))
		})
		notGenesis := findInS(func(v ssa.Value) bool {
			b, ok := v.(*ssa.BinOp)
			if !ok || (b.Op != token.NEQ && b.Op != token.EQL) {
				return false
			}
			f := fieldOfLoad(b.X)
			k, isK := b.Y.(*ssa.Const)
			return f != nil && f.Name() == "Height" && isK && k.Value != nil && k.Value.String() == "0"
		})
		if len(rootNE) == 1 && len(notGenesis) >= 1 {
			extra := map[ssa.Value]an.Abs{}
			for _, ng := range notGenesis {
				// "the block is not the genesis block": Height != 0 is true, Height == 0 is false
				if ng.(*ssa.BinOp).Op == token.EQL {
					extra[ng] = an.AFalse
				} else {
					extra[ng] = an.ATrue
				}
			}
			g := &an.Guard{Name: "block root mismatch", FailValue: an.ATrue, MatchValue: func(v ssa.Value) bool { return v == rootNE[0] }}
			v := an.GuardedX(c.P, submitBlock, []*an.Guard{g}, extra, func(in ssa.Instruction) bool { return isCallTo(in, effectObjs...) }, false)
			c.Check(v.Holds && v.ActionSites >= 12, "guard-blockroot|submitBlock", "submitBlock performs its first store effect only after the header's block root matched the locally computed one (non-genesis)", c.P.Rel(submitBlock.Pos()),
				fmt.Sprintf("%d effect sites; %s", v.ActionSites, v.Witness))
			// the computed root comes from GetBlockRootWithNewTxRoots(height, [TransactionsRoot])
			ok := false
			other := rootNE[0].(*ssa.BinOp).X
			if strings.HasSuffix(an.AccessPath(other), ".BlockRoot") {
				other = rootNE[0].(*ssa.BinOp).Y
			}
			if k, isC := an.Origin(other).(*ssa.Call); isC && k.Call.StaticCallee() != nil && k.Call.StaticCallee().Name() == "GetBlockRootWithNewTxRoots" {
				ok = true
			}
			c.Check(ok, "same-subject|submitBlock|block-root", "the root compared with the header is computed by GetBlockRootWithNewTxRoots for this block", c.P.Rel(submitBlock.Pos()), "computed side of the comparison changed")
		} else {
			c.Violate("guard-blockroot|submitBlock", "submitBlock performs its first store effect only after the block root matched", c.P.Rel(submitBlock.Pos()),
				fmt.Sprintf("block-root comparison not found (%d comparisons, %d genesis tests)", len(rootNE), len(notGenesis)))
		}
	}
	// 5. executeBlock reaches no persistent write
	cg := c.P.CallGraph()
	sinks := resolveAll(c, persistentSinkNames)
	c.RequireMin("persistent-write sinks", len(sinks), 14)
	confineNoReach(c, cg, "block execution (before the root checks) reaches no persisted-state writer", []*ssa.Function{executeBlock}, sinks, an.ReachOpts{})
	// 6. what verifyHeader itself demands (insufficient / invalid signatures are rejected): same rules as C32
	verifyHeaderRules(c, false)
}

func runC32(c *an.Ctx) {
	verifyHeaderRules(c, true)
}

func verifyHeaderRules(c *an.Ctx, setExplanation bool) {
	expl := "A2 guard on LedgerStoreImp.verifyHeader: a non-genesis header is accepted only if (a) VerifyMultiSignature over header.Hash(), header.Bookkeepers and header.SigData succeeded, " +
		"(b) [vbft] no iteration over the listed bookkeepers completes for a key that is not a member of the governing chain configuration, (c) [vbft] the number of distinct listed member keys — the size of a set keyed by key id — is at least C+1, " +
		"and AddHeader/AddBlock/SubmitBlock call verifyHeader before any effect (shared with C39). Decides these structural necessary conditions for all inputs. It does NOT decide the magnitude of the number m of signatures actually verified relative to C+1 (arithmetic m = n - 6n/7); see the known-findings discussion in DESIGN.md."
	if setExplanation {
		c.Explanation = expl
	}
	if !controlGuard(c) {
		return
	}
	fn := mustFunc(c, lsImp+"verifyHeader")
	vms := mustObj(c, "core/signature.VerifyMultiSignature")
	hashM := mustObj(c, "core/types.(*Header).Hash")
	if fn == nil || vms == nil || hashM == nil {
		return
	}
	extra := map[ssa.Value]an.Abs{}
	for _, v := range an.FindValues(fn, func(v ssa.Value) bool {
		b, ok := v.(*ssa.BinOp)
		if !ok || b.Op != token.EQL {
			return false
		}
		f := fieldOfLoad(b.X)
		k, isK := b.Y.(*ssa.Const)
		return f != nil && f.Name() == "Height" && isK && k.Value != nil && k.Value.String() == "0"
	}) {
		extra[v] = an.AFalse
	}
	c.Check(len(extra) == 1, "shape|verifyHeader|genesis-exit", "exactly one genesis early exit", c.P.Rel(fn.Pos()), fmt.Sprintf("%d", len(extra)))
	successReachable := func(guards []*an.Guard, nonEmpty bool) (int, string) {
		w := ""
		n := an.RunAllFail(fn, guards, extra, nonEmpty, func(r *an.Result) {
			for _, ret := range an.Returns(fn) {
				for _, st := range r.StatesAt(ret) {
					if a := r.Eval(ret.Results[0], st); a.K != an.KNonNil {
						w = c.P.Rel(ret.Pos()) + " via " + r.Witness(c.P, st)
					}
				}
			}
		})
		return n, w
	}
	// (a)
	sg := an.GuardForFuncs("VerifyMultiSignature", vms)
	n, w := successReachable([]*an.Guard{sg}, false)
	c.Check(n >= 2 && w == "", "guard-signature|verifyHeader|success", "a non-genesis header is accepted only after VerifyMultiSignature succeeded (both consensus modes)", c.P.Rel(fn.Pos()), w)
	hdrName := fn.Params[1].Name()
	for _, k := range an.CallsToReach(fn, vms) {
		args := argsNoRecv(k.Common())
		okHash := false
		if sl, isS := args[0].(*ssa.Slice); isS {
			if call, isC := an.Origin(&ssa.UnOp{Op: token.MUL, X: sl.X}).(*ssa.Call); isC && an.CalleeObj(&call.Call) == hashM && an.AccessPathIn(fn, recvOf(&call.Call)) == hdrName {
				okHash = true
			}
		}
		c.Check(okHash, "same-subject|verifyHeader|signed-data", "the data verified is header.Hash() of the header being judged", c.P.Rel(k.Pos()), "data argument is not header.Hash()")
		c.Check(an.AccessPathIn(fn, args[1]) == hdrName+".Bookkeepers" && an.AccessPathIn(fn, args[3]) == hdrName+".SigData", "same-subject|verifyHeader|keys-and-sigs",
			"keys and signatures verified are the header's own Bookkeepers and SigData", c.P.Rel(k.Pos()), an.AccessPathIn(fn, args[1])+" / "+an.AccessPathIn(fn, args[3]))
	}
	// (b) membership of every listed bookkeeper
	var memberMap ssa.Value
	member := &an.Guard{Name: "bookkeeper is a member", FailValue: an.AFalse, MatchValue: func(v ssa.Value) bool {
		e, ok := v.(*ssa.Extract)
		if !ok || e.Index != 1 {
			return false
		}
		l, isL := e.Tuple.(*ssa.Lookup)
		if !isL || !l.CommaOk {
			return false
		}
		if _, isMap := l.X.Type().Underlying().(*types.Map); !isMap {
			return false
		}
		// keyed by the identity of a listed key (vconfig.PubkeyID(bookkeeper)): other presence tests - the peer
		// table lookup itself, lookups inside helpers - are not membership tests
		if !isKeyID(l.Index) {
			return false
		}
		memberMap = l.X
		return true
	}}
	noIterationCompletesWhenFailing(c, "forall|verifyHeader|every-bookkeeper-is-member", "every listed bookkeeper key is a member of the governing chain configuration: no iteration completes for a non-member", fn, []*an.Guard{member}, extra)
	// the member table is the peer map of the governing config height
	if memberMap != nil {
		src := an.Origin(memberMap)
		ok := false
		// through the private helpers verifyHeader may be split into (the table handed on as a parameter, or
		// fetched by a lookup helper): every definition must be a lookup in vbftPeerInfoMap
		if ds := an.Deref(fn, memberMap); len(ds) > 0 {
			all := true
			for _, d := range ds {
				d = an.Origin(d)
				var l *ssa.Lookup
				if e, isE := d.(*ssa.Extract); isE {
					l, _ = e.Tuple.(*ssa.Lookup)
				} else {
					l, _ = d.(*ssa.Lookup)
				}
				if l == nil {
					all = false
					continue
				}
				if f := fieldOfLoad(l.X); f == nil || f.Name() != "vbftPeerInfoMap" {
					all = false
				}
			}
			ok = all
		}
		if !ok {
			// one level of helper: a package function that looks the table up in vbftPeerInfoMap
			if call, isCall := src.(*ssa.Call); isCall || func() bool {
				if e, isE := src.(*ssa.Extract); isE {
					call, isCall = e.Tuple.(*ssa.Call)
				}
				return isCall
			}() {
				if callee := call.Call.StaticCallee(); callee != nil && an.FuncPkgPath(callee) == an.RepoMod+"/"+ls {
					for _, b := range callee.Blocks {
						for _, in := range b.Instrs {
							if l, isL := in.(*ssa.Lookup); isL {
								if f := fieldOfLoad(l.X); f != nil && f.Name() == "vbftPeerInfoMap" {
									ok = true
								}
							}
						}
					}
				}
			}
		}
		c.Check(ok, "same-subject|verifyHeader|member-table", "membership is judged against the peer table recorded for the governing chain-config height (vbftPeerInfoMap[chainConfigHeight])", c.P.Rel(fn.Pos()), "member table is "+an.AccessPath(src))
	}
	// (c) distinct member count vs C+1
	var usedSet ssa.Value
	// len(set) < C+1 in any spelling (C+1 > len(set), !(len(set) >= C+1), ...)
	isCPlus1 := func(y ssa.Value) bool {
		add, isAdd := y.(*ssa.BinOp)
		if !isAdd || add.Op != token.ADD {
			return false
		}
		cv, k := add.X, add.Y
		if _, isK := cv.(*ssa.Const); isK {
			cv, k = k, cv
		}
		if kc, isK := k.(*ssa.Const); !isK || kc.Value == nil || kc.Value.String() != "1" {
			return false
		}
		isC := false
		for _, d := range an.Deref(fn, cv) {
			if conv, isCv := d.(*ssa.Convert); isCv {
				d = conv.X
			}
			if f := fieldOfLoad(d); f != nil && f.Name() == "C" {
				isC = true
			} else {
				isC = false
				break
			}
		}
		if conv, isCv := cv.(*ssa.Convert); isCv && !isC {
			for _, d := range an.Deref(fn, conv.X) {
				if f := fieldOfLoad(d); f != nil && f.Name() == "C" {
					isC = true
				}
			}
		}
		return isC
	}
	isSetLen := func(x ssa.Value) bool {
		if cv, isCv := x.(*ssa.Convert); isCv {
			x = cv.X
		}
		call, isCall := x.(*ssa.Call)
		if !isCall {
			return false
		}
		if bi, isB := call.Call.Value.(*ssa.Builtin); !isB || bi.Name() != "len" {
			return false
		}
		if _, isMap := call.Call.Args[0].Type().Underlying().(*types.Map); !isMap {
			return false
		}
		return true
	}
	setOf := func(v ssa.Value) ssa.Value {
		b := v.(*ssa.BinOp)
		for _, x := range []ssa.Value{b.X, b.Y} {
			if isSetLen(x) {
				if cv, isCv := x.(*ssa.Convert); isCv {
					x = cv.X
				}
				return x.(*ssa.Call).Call.Args[0]
			}
		}
		return nil
	}
	quorumGuards := relGuards("distinct members < C+1", token.LSS, isSetLen, isCPlus1)
	for _, g := range quorumGuards {
		inner := g.MatchValue
		g.MatchValue = func(v ssa.Value) bool {
			if !inner(v) {
				return false
			}
			usedSet = setOf(v)
			return true
		}
	}
	var vbftOnly []ssa.Value
	for _, g := range an.InlineReach(fn) {
		vbftOnly = append(vbftOnly, an.FindValues(g, func(v ssa.Value) bool {
			b, ok := v.(*ssa.BinOp)
			if !ok || b.Op != token.EQL {
				return false
			}
			k, isK := b.Y.(*ssa.Const)
			return isK && k.Value != nil && k.Value.ExactString() == "\"vbft\""
		})...)
	}
	c.Check(len(vbftOnly) == 1, "shape|verifyHeader|consensus-switch", "one consensus-type switch", c.P.Rel(fn.Pos()), fmt.Sprintf("%d", len(vbftOnly)))
	for _, v := range vbftOnly {
		extra[v] = an.ATrue
	}
	n, w = successReachable(quorumGuards, false)
	c.Check(n == 1 && w == "", "guard-quorum|verifyHeader|C+1", "a vbft header is accepted only if the count compared with C+1 (C of the governing chain config) is large enough", c.P.Rel(fn.Pos()), fmt.Sprintf("quorum comparisons found: %d; %s", n, w))
	if usedSet != nil {
		_, isMk := usedSet.(*ssa.MakeMap)
		// every update of the set uses the key id of the bookkeeper that was membership-tested
		keyed := 0
		for _, ref := range *usedSet.Referrers() {
			if mu, ok := ref.(*ssa.MapUpdate); ok {
				if isKeyID(mu.Key) {
					keyed++
				} else {
					keyed = -100
				}
			}
		}
		c.Check(isMk && keyed >= 1, "distinct|verifyHeader|set-keyed-by-key-id", "the count compared with C+1 is the size of a set keyed by the bookkeeper's key id (a repeated key counts once)", c.P.Rel(fn.Pos()),
			"the counted collection is not a fresh map keyed by vconfig.PubkeyID(bookkeeper)")
	} else {
		c.Violate("distinct|verifyHeader|set-keyed-by-key-id", "the count compared with C+1 is the size of a set keyed by key id", c.P.Rel(fn.Pos()), "quorum comparison not found")
	}
	// the number of signatures that are actually verified (the threshold handed to
	// VerifyMultiSignature, which checks exactly that many) must be at least C+1
	{
		var cp1 ssa.Value
		for _, g := range an.InlineReach(fn) {
			for _, v := range an.FindValues(g, func(v ssa.Value) bool {
				b, ok := v.(*ssa.BinOp)
				if !ok || b.Op != token.ADD {
					return false
				}
				k, isK := b.Y.(*ssa.Const)
				f := fieldOfLoad(b.X)
				return isK && k.Value != nil && k.Value.String() == "1" && f != nil && f.Name() == "C"
			}) {
				cp1 = v
			}
		}
		proved, nCalls := false, 0
		for _, k := range an.CallsToReach(fn, vms) {
			// the vbft call: the one whose threshold is not derived from len(header.Bookkeepers) alone
			m := k.Common().Args[2]
			host := k.Parent()
			if !mentionsField(m, "vbftPeerInfo") && cp1 != nil && !an.ProveLeqAt(host, k, cp1, m) && isDbftThreshold(m) {
				continue
			}
			if isDbftThreshold(m) {
				continue
			}
			nCalls++
			if cp1 != nil && an.ProveLeqAt(host, k, cp1, m) {
				proved = true
			}
		}
		c.Check(nCalls == 1 && proved, "threshold|verifyHeader|verified-signatures-at-least-C+1",
			"the number of signatures VerifyMultiSignature is told to verify (it verifies exactly that many) is at least C+1 for the governing configuration: derived from C+1, or compared with it before the call", c.P.Rel(fn.Pos()),
			"the threshold m passed to VerifyMultiSignature is len(peers) - 6*len(peers)/7 (1 for 7 peers, 2 for 14) and is never related to C+1; only the number of LISTED member keys is compared with C+1")
	}
	// the member table (consensus peer table) is only updated after signature verification
	{
		if vms != nil {
			mut := ledgerMutation(c)
			inScope := func(fn *ssa.Function) bool { return an.FuncPkgPath(fn) == an.RepoMod+"/"+ls }
			eff := &an.Effects{P: c.P, IsSink: func(*ssa.Function) bool { return false }, IsSinkInstr: mut, InScope: inScope,
				Guards: []*an.Guard{an.GuardForFuncs("VerifyMultiSignature", vms)}}
			acts := eff.WriteActions(fn)
			c.Count("callsites_analysed", len(acts))
			v := eff.Check(fn)
			c.Check(v.OK && len(acts) >= 1, "guard-signature|verifyHeader|mutations", "verifyHeader (with the helpers it calls) changes ledger fields/caches — the consensus peer table — only after the header's multi-signature verified",
				c.P.Rel(fn.Pos()), fmt.Sprintf("%d mutation sites; %s", len(acts), v.Witness))
		}
	}
	// callers verify before effects: shared with C39 (AddHeader only here to keep this check local)
	if ah := mustFunc(c, lsImp+"AddHeader"); ah != nil {
		objs := []*types.Func{mustObj(c, lsImp+"addHeaderCache"), mustObj(c, lsImp+"setHeaderIndex")}
		v := an.Guarded(c.P, ah, []*an.Guard{an.GuardForFuncs("verifyHeader", funcObj(fn))}, func(in ssa.Instruction) bool { return isCallTo(in, objs...) }, false)
		c.Check(v.Holds && v.GuardSites == 1 && v.ActionSites >= 2, "guard-verifyHeader|AddHeader", "a synced header enters the header cache/index only after verifyHeader succeeded", c.P.Rel(ah.Pos()), v.Witness)
	}
}

// isDbftThreshold: m = len(header.Bookkeepers) - (len(header.Bookkeepers)-1)/3 (the pre-VBFT rule).
func isDbftThreshold(m ssa.Value) bool {
	b, ok := m.(*ssa.BinOp)
	if !ok || b.Op != token.SUB {
		return false
	}
	q, isQ := b.Y.(*ssa.BinOp)
	if !isQ || q.Op != token.QUO {
		return false
	}
	k, isK := q.Y.(*ssa.Const)
	return isK && k.Value != nil && k.Value.String() == "3"
}

func mentionsField(v ssa.Value, name string) bool {
	seen := map[ssa.Value]bool{}
	var walk func(v ssa.Value, d int) bool
	walk = func(v ssa.Value, d int) bool {
		if v == nil || seen[v] || d > 8 {
			return false
		}
		seen[v] = true
		if strings.Contains(an.AccessPath(v), name) {
			return true
		}
		if in, ok := v.(ssa.Instruction); ok {
			for _, op := range in.Operands(nil) {
				if *op != nil && walk(*op, d+1) {
					return true
				}
			}
		}
		return false
	}
	return walk(v, 0)
}
