package props

import (
	"fmt"
	"strings"

	"golang.org/x/tools/go/ssa"

	"verif/checker/an"
)

// headerIndexPairRule: the in-memory header index answers "hash of the block at height h" before the database is
// consulted, so every insertion must pair a height with the hash of that very block. Decided at every call that
// inserts (HeaderIndexCache.setHeaderIndex and its wrapper): the hash argument is (a) what BlockStore.GetBlockHash
// returned for the same height value, or (b) X.Hash() of the header/block X whose Height is the height argument, or
// (c) both are parameters of a wrapper, whose callers are then judged by the same rule.
func headerIndexPairRule(c *an.Ctx) {
	const L = "core/store/ledgerstore"
	inner := mustFunc(c, L+".(*HeaderIndexCache).setHeaderIndex")
	getHash := mustObj(c, L+".(*BlockStore).GetBlockHash")
	if inner == nil || getHash == nil {
		return
	}
	fns := c.P.RepoSrcFuncs(L)
	type site struct {
		fn           *ssa.Function
		call         ssa.CallInstruction
		height, hash ssa.Value
	}
	var work []site
	for _, fn := range fns {
		if strings.HasSuffix(c.P.Fset.Position(fn.Pos()).Filename, "_test.go") {
			continue
		}
		for _, k := range an.Calls(fn) {
			if k.Common().StaticCallee() == inner {
				a := argsNoRecv(k.Common())
				work = append(work, site{fn, k, a[1], a[2]})
			}
		}
	}
	sameValue := func(a, b ssa.Value) bool {
		if a == b {
			return true
		}
		pa, pb := an.AccessPath(a), an.AccessPath(b)
		return pa != "" && pa == pb && !strings.HasPrefix(pa, "%")
	}
	n := 0
	seen := map[ssa.CallInstruction]bool{}
	for len(work) > 0 {
		s := work[0]
		work = work[1:]
		if seen[s.call] {
			continue
		}
		seen[s.call] = true
		n++
		key := fmt.Sprintf("index|setHeaderIndex|%s#%d", an.FuncName(s.fn), n)
		rule := "the header index pairs a height with the hash of the block at that height (hash read from the block store for the same height, or Hash() of the header/block whose Height is inserted)"
		ok, why := false, "the hash is neither GetBlockHash(height) nor Hash() of the header/block with that Height"
		hv := an.Origin(s.hash)
		// (c) wrapper
		if hp, isP := s.hash.(*ssa.Parameter); isP {
			if gp, isP2 := s.height.(*ssa.Parameter); isP2 && hp.Parent() == s.fn && gp.Parent() == s.fn {
				hi, gi := -1, -1
				for i, p := range s.fn.Params {
					if p == hp {
						hi = i
					}
					if p == gp {
						gi = i
					}
				}
				callers := 0
				for _, fn := range fns {
					for _, k := range an.Calls(fn) {
						if k.Common().StaticCallee() == s.fn && hi < len(k.Common().Args) && gi < len(k.Common().Args) {
							callers++
							work = append(work, site{fn, k, k.Common().Args[gi], k.Common().Args[hi]})
						}
					}
				}
				c.Check(callers > 0, key, rule, c.P.Rel(s.call.Pos()), "a wrapper that nobody calls")
				continue
			}
		}
		// (a) GetBlockHash(height)
		if e, isE := hv.(*ssa.Extract); isE && e.Index == 0 {
			if k, isC := e.Tuple.(*ssa.Call); isC && an.CalleeObj(&k.Call) == getHash {
				if sameValue(argsNoRecv(&k.Call)[0], s.height) {
					ok = true
				} else {
					why = "the hash was read for a different height than the one it is indexed under"
				}
			}
		}
		// (b) X.Hash() with height = X.Height / X.Header.Height
		if k, isC := hv.(*ssa.Call); isC {
			if o := an.CalleeObj(&k.Call); o != nil && o.Name() == "Hash" {
				x := an.AccessPath(recvOf(&k.Call))
				hp := an.AccessPath(an.Origin(s.height))
				if x != "" && (hp == x+".Height" || hp == x+".Header.Height") {
					ok = true
				} else {
					why = fmt.Sprintf("hash of %s indexed under %s", x, hp)
				}
			}
		}
		c.Check(ok, key, rule, c.P.Rel(s.call.Pos()), why)
	}
	c.RequireMin("insertions into the header index", n, 2)
}
