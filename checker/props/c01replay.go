package props

import (
	"fmt"
	"strings"

	"golang.org/x/tools/go/ssa"

	"verif/checker/an"
)

// replayReadsNoBlockStore (C01, added for seed C01c): recovery re-executes a block whose body and transactions are
// already durable in the block store, whereas the first execution ran before they were saved. Whatever block
// execution learns from the block store therefore differs between the two runs. In the code that both runs share -
// executeBlock and everything it reaches by static calls inside the ledger-store package (handleTransaction, the
// state store's transaction handlers, their private helpers) - the LedgerStoreImp.blockStore field is never read and
// no BlockStore method is called. (Reads a contract makes through the LedgerStore interface are dynamic calls and are
// not covered: they concern earlier blocks.)
func replayReadsNoBlockStore(c *an.Ctx, executeBlock *ssa.Function) {
	bsField := c.P.Field(ls + ".LedgerStoreImp.blockStore")
	if bsField == nil {
		c.Undecide("anchor|LedgerStoreImp.blockStore", "anchors must resolve", "-", "field not found")
		return
	}
	n, bad := 0, ""
	for _, fn := range staticReachFrom(c, []*ssa.Function{executeBlock}) {
		if an.FuncPkgPath(fn) != an.RepoMod+"/"+ls {
			continue
		}
		// the interface methods of the ledger store itself are entry points of their own, not part of execution
		if fn != executeBlock && fn.Signature.Recv() != nil && strings.HasSuffix(fn.Signature.Recv().Type().String(), "ledgerstore.LedgerStoreImp") && fn.Object() != nil && fn.Object().Exported() {
			continue
		}
		n++
		for _, b := range fn.Blocks {
			for _, in := range b.Instrs {
				switch x := in.(type) {
				case *ssa.FieldAddr:
					if an.FieldOf(x) == bsField {
						bad = fmt.Sprintf("%s reads the block store at %s", an.FuncName(fn), c.P.Rel(x.Pos()))
					}
				case *ssa.Field:
					if an.FieldOf(x) == bsField {
						bad = fmt.Sprintf("%s reads the block store at %s", an.FuncName(fn), c.P.Rel(x.Pos()))
					}
				case ssa.CallInstruction:
					if callee := x.Common().StaticCallee(); callee != nil && callee.Signature.Recv() != nil && strings.HasSuffix(callee.Signature.Recv().Type().String(), "ledgerstore.BlockStore") {
						bad = fmt.Sprintf("%s calls %s at %s", an.FuncName(fn), an.FuncName(callee), c.P.Rel(x.Pos()))
					}
				}
			}
		}
	}
	c.Check(bad == "" && n >= 3, "replay|executeBlock|reads-no-block-store", "block execution, which recovery repeats after the block's body is already durable, does not consult the block store (what it would find there differs between the first execution and the replay)", c.P.Rel(executeBlock.Pos()),
		fmt.Sprintf("%d functions of the shared execution path examined; %s", n, bad))
}
