package props

import (
	"fmt"
	"strings"

	"golang.org/x/tools/go/ssa"

	"verif/checker/an"
)

const ls = "core/store/ledgerstore"

// persistentSinks are the functions through which persisted ledger state is
// written. Every name must resolve; a missing one is an unresolved anchor.
var persistentSinkNames = []string{
	"core/store/leveldbstore.(*LevelDBStore).Put",
	"core/store/leveldbstore.(*LevelDBStore).Delete",
	"core/store/leveldbstore.(*LevelDBStore).BatchPut",
	"core/store/leveldbstore.(*LevelDBStore).BatchDelete",
	"core/store/leveldbstore.(*LevelDBStore).BatchCommit",
	"core/store/leveldbstore.(*LevelDBStore).NewBatch",
	ls + ".(*StateStore).CommitTo",
	ls + ".(*BlockStore).CommitTo",
	ls + ".(*EventStore).CommitTo",
	"core/store/overlaydb.(*OverlayDB).CommitTo",
	"merkle.(*fileHashStore).Append",
	"merkle.(*fileHashStore).Flush",
	ls + ".(*LedgerStoreImp).setCurrentBlock",
	ls + ".(*LedgerStoreImp).setHeaderIndex",
}

func resolveAll(c *an.Ctx, names []string) []*ssa.Function {
	var out []*ssa.Function
	for _, n := range names {
		if fn := mustFunc(c, n); fn != nil {
			out = append(out, fn)
		}
	}
	return out
}

// confineNoReach checks that none of sinks is reachable from roots in the
// refined call graph; one obligation per (root, sink).
func confineNoReach(c *an.Ctx, cg *an.CG, rule string, roots, sinks []*ssa.Function, opts an.ReachOpts) {
	for _, root := range roots {
		r := cg.Reach([]*ssa.Function{root}, opts)
		c.Count("functions_reachable", len(r.Order))
		c.Count("repo_functions_reachable", len(r.RepoFuncs()))
		for _, s := range sinks {
			key := fmt.Sprintf("confine|%s|%s", an.FuncName(root), an.FuncName(s))
			if r.Has(s) {
				c.Violate(key, rule, c.P.Rel(root.Pos()), "call path: "+strings.Join(r.Path(s), " -> "))
			} else {
				c.Hold(key, rule, c.P.Rel(root.Pos()), "")
			}
		}
	}
}
