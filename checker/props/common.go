package props

import (
	"fmt"
	"sort"
	"strings"

	"golang.org/x/tools/go/ssa"

	"verif/checker/an"
)

const ls = "core/store/ledgerstore"

// persistentSinks are the functions through which persisted ledger state is
// written. Every name must resolve; a missing one is an unresolved anchor.
var persistentSinkNames = []string{
	"core/store/leveldbstore.(*LevelDBStore).Put",
	"core/store/leveldbstore.(*LevelDBStore).Delete",
	"core/store/leveldbstore.(*LevelDBStore).BatchPut",
	"core/store/leveldbstore.(*LevelDBStore).BatchDelete",
	"core/store/leveldbstore.(*LevelDBStore).BatchCommit",
	"core/store/leveldbstore.(*LevelDBStore).NewBatch",
	ls + ".(*StateStore).CommitTo",
	ls + ".(*BlockStore).CommitTo",
	ls + ".(*EventStore).CommitTo",
	"core/store/overlaydb.(*OverlayDB).CommitTo",
	"merkle.(*fileHashStore).Append",
	"merkle.(*fileHashStore).Flush",
	ls + ".(*LedgerStoreImp).setCurrentBlock",
	ls + ".(*LedgerStoreImp).setHeaderIndex",
}

func resolveAll(c *an.Ctx, names []string) []*ssa.Function {
	var out []*ssa.Function
	for _, n := range names {
		if fn := mustFunc(c, n); fn != nil {
			out = append(out, fn)
		}
	}
	return out
}

// confineNoReach checks that none of sinks is reachable from roots in the
// refined call graph; one obligation per (root, sink).
func confineNoReach(c *an.Ctx, cg *an.CG, rule string, roots, sinks []*ssa.Function, opts an.ReachOpts) {
	for _, root := range roots {
		r := cg.Reach([]*ssa.Function{root}, opts)
		c.Count("functions_reachable", len(r.Order))
		c.Count("repo_functions_reachable", len(r.RepoFuncs()))
		for _, s := range sinks {
			key := fmt.Sprintf("confine|%s|%s", an.FuncName(root), an.FuncName(s))
			if r.Has(s) {
				c.Violate(key, rule, c.P.Rel(root.Pos()), "call path: "+strings.Join(r.Path(s), " -> "))
			} else {
				c.Hold(key, rule, c.P.Rel(root.Pos()), "")
			}
		}
	}
	if c.Tier == "thorough" {
		// second opinion on the coarser CHA graph: a sink reachable only there is
		// reported as information (CHA resolves every interface call to every
		// implementation; VTA prunes by the types that actually flow)
		cha := c.P.CHAGraph()
		n := 0
		for _, root := range roots {
			r := cha.Reach([]*ssa.Function{root}, opts)
			for _, s := range sinks {
				if r.Has(s) {
					n++
					c.Note("cha-only|"+an.FuncName(root)+"|"+an.FuncName(s), "CHA over-approximation (information only)", c.P.Rel(root.Pos()), "reachable in the CHA graph only: "+clipPath(r.Path(s)))
				}
			}
		}
		c.Count("cha_only_reachable_pairs", n)
	}
}

// entryCallers resolves a who-may-call question through private helpers: for a function fn it returns the
// functions that ultimately decide to call it - a caller that is an unexported function or closure of the same
// package as its own callers is looked through (up to four levels), because moving part of an allowed caller's body
// into a private helper does not change who performs the call. A helper nobody calls is returned itself.
func entryCallers(c *an.Ctx, cg *an.CG, fn *ssa.Function, allowed func(*ssa.Function) bool) map[*ssa.Function]ssa.CallInstruction {
	out := map[*ssa.Function]ssa.CallInstruction{}
	var up func(f *ssa.Function, site ssa.CallInstruction, depth int, seen map[*ssa.Function]bool)
	up = func(f *ssa.Function, site ssa.CallInstruction, depth int, seen map[*ssa.Function]bool) {
		for f.Parent() != nil {
			f = f.Parent()
		}
		if seen[f] {
			return
		}
		seen[f] = true
		private := f.Object() != nil && !f.Object().Exported() && f.Name() != "init" && f.Name() != "main"
		if !private || depth >= 4 || allowed(f) {
			if _, ok := out[f]; !ok {
				out[f] = site
			}
			return
		}
		n := 0
		for _, e := range cg.Callers(f) {
			g := e.Caller.Func
			if !c.P.InRepo(g) || strings.HasSuffix(c.P.Fset.Position(g.Pos()).Filename, "_test.go") {
				continue
			}
			n++
			up(g, e.Site, depth+1, seen)
		}
		if n == 0 {
			if _, ok := out[f]; !ok {
				out[f] = site
			}
		}
	}
	for _, e := range cg.Callers(fn) {
		g := e.Caller.Func
		if !c.P.InRepo(g) || strings.HasSuffix(c.P.Fset.Position(g.Pos()).Filename, "_test.go") {
			continue
		}
		// the direct caller counts when it is itself an entry (exported or uncalled); otherwise its callers do
		up(g, e.Site, 0, map[*ssa.Function]bool{})
	}
	return out
}

func sortedFns(m map[*ssa.Function]ssa.CallInstruction) []*ssa.Function {
	var fs []*ssa.Function
	for f := range m {
		fs = append(fs, f)
	}
	sort.Slice(fs, func(i, j int) bool { return fs[i].String() < fs[j].String() })
	return fs
}

func clipPath(p []string) string {
	if len(p) > 8 {
		p = append(append([]string{}, p[:4]...), append([]string{"..."}, p[len(p)-3:]...)...)
	}
	return strings.Join(p, " -> ")
}
