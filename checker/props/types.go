package props

import "golang.org/x/tools/go/ssa"

type ssaFn = ssa.Function
