package props

import (
	"go/token"
	"go/types"

	"golang.org/x/tools/go/ssa"
)

type ssaFn = ssa.Function

type tokenPos = token.Pos

type typesVar = types.Var
