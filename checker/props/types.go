package props

import (
	"go/token"

	"golang.org/x/tools/go/ssa"
)

type ssaFn = ssa.Function

type tokenPos = token.Pos
