package props

import (
	"fmt"
	"go/constant"
	"go/token"
	"sort"
	"strings"

	"golang.org/x/tools/go/ssa"

	"verif/checker/an"
)

func init() {
	register(&Prop{ID: "C45", Patterns: []string{"./smartcontract/service/native/ontid", "./smartcontract/service/native/utils", "./smartcontract/storage"}, Run: runC45})
}

const ontidPkg = "smartcontract/service/native/ontid"

// registeredHandlers returns the functions passed as the handler argument to
// NativeService.Register inside reg.
func registeredHandlers(c *an.Ctx, reg *ssa.Function) map[string]*ssa.Function {
	out := map[string]*ssa.Function{}
	register := mustObj(c, "smartcontract/service/native.(*NativeService).Register")
	if register == nil {
		return out
	}
	for _, k := range an.CallsTo(reg, register) {
		args := argsNoRecv(k.Common())
		if len(args) != 2 {
			continue
		}
		name := "?"
		if s, ok := args[0].(*ssa.Const); ok && s.Value != nil && s.Value.Kind() == constant.String {
			name = constant.StringVal(s.Value)
		}
		h := args[1]
		if ct, ok := h.(*ssa.ChangeType); ok {
			h = ct.X
		}
		switch f := h.(type) {
		case *ssa.Function:
			out[name] = f
		case *ssa.MakeClosure:
			out[name] = f.Fn.(*ssa.Function)
		default:
			c.Undecide("registry|"+an.FuncName(reg)+"|"+name, "registered handlers must be function literals or named functions", c.P.Rel(k.Pos()), "handler is a computed value")
		}
	}
	return out
}

func runC45(c *an.Ctx) {
	c.Explanation = "A2 guard lifted over helpers (static calls inside the ontid package) with wrapper discovery from ContextRef.CheckWitness: for every handler registered by RegisterIDContract that can reach CacheDB.Put/Delete, " +
		"every write action is unreachable when (a) all witness checks fail and (b) the identity-state check fails (isValid for modification; checkIDState == flag_not_exist for registration, so a revoked id — flag_revoke — can be neither modified nor registered). " +
		"Group/recovery verification uses the ∀-loop idiom (every listed signer must pass checkWitnessByIndex; no early success exit from the loop). checkWitnessByIndex additionally must reject revoked and non-authentication keys. " +
		"Decides the necessary condition 'no write without witness + live identity' on all CFG paths of all registered handlers; does not decide which key/controller is the right one beyond the subject checks listed."
	c.Assumptions = append(c.Assumptions,
		"verifyGroupSignature's signer loop is non-empty whenever verifyThreshold succeeded (a group's threshold is validated > 0 at deserialization) — reasoned table entry",
		"handlers registered dynamically elsewhere than RegisterIDContract do not exist (Register call sites are enumerated)")
	if !controlGuard(c) {
		return
	}
	appendAliasRule(c, "smartcontract/service/native/ontid")
	reg := mustFunc(c, ontidPkg+".RegisterIDContract")
	checkWitness := mustObj(c, "smartcontract/context.ContextRef.CheckWitness")
	putM := mustFunc(c, "smartcontract/storage.(*CacheDB).Put")
	delM := mustFunc(c, "smartcontract/storage.(*CacheDB).Delete")
	isValid := mustFunc(c, ontidPkg+".isValid")
	checkIDState := mustFunc(c, ontidPkg+".checkIDState")
	if reg == nil || checkWitness == nil || putM == nil || delM == nil || isValid == nil || checkIDState == nil {
		return
	}
	handlers := registeredHandlers(c, reg)
	c.RequireMin("registered ONT ID handlers", len(handlers), 52)

	inScope := func(fn *ssa.Function) bool {
		pk := an.FuncPkgPath(fn)
		return pk == an.RepoMod+"/"+ontidPkg || pk == an.RepoMod+"/smartcontract/service/native/utils"
	}
	isSink := func(fn *ssa.Function) bool { return fn == putM || fn == delM }
	nonEmpty := func(fn *ssa.Function) bool { return fn.Name() == "verifyGroupSignature" && inScope(fn) }

	// --- witness guards (discovered)
	cands := c.P.RepoSrcFuncs(ontidPkg)
	c.Count("functions_analysed", len(cands))
	base := []*an.Guard{an.GuardForFuncs("CheckWitness", checkWitness)}
	wguards, wnames := an.DiscoverWrappers(cands, base, 6, nonEmpty)
	c.Extra["discovered_witness_wrappers"] = wnames
	need := []string{"checkWitness", "checkWitnessByIndex", "checkWitnessWithoutAuth", "verifySingleController", "verifyGroupSignature", "verifyGroupController", "verifyControllerSignature"}
	for _, n := range need {
		found := false
		for _, w := range wnames {
			if strings.HasSuffix(w, "ontid."+n) {
				found = true
			}
		}
		fn := c.P.Func(ontidPkg + "." + n)
		site := "-"
		if fn != nil {
			site = c.P.Rel(fn.Pos())
		}
		if fn == nil && n == "verifySingleController" {
			// a one-line private forwarder (checkWitnessByIndex of the controller): when it is inlined at its call
			// sites the callers carry the witness check themselves and are judged by the handler rule below
			c.Note("wrapper|ontid."+n, "the helper fails (error / false) whenever every witness check inside it fails", "-", "the private forwarder no longer exists (inlined); its callers are judged directly")
			continue
		}
		c.Check(found, "wrapper|ontid."+n, "the helper fails (error / false) whenever every witness check inside it fails", site,
			"a success return is reachable with all witness checks failing")
	}
	// ∀-idiom
	for _, fn := range cands {
		if !nonEmpty(fn) {
			continue
		}
		why := an.ForallLoopExit(c.P, fn, wguards)
		c.Check(why == "", "forall|ontid."+fn.Name()+"|no-early-success-exit", "every listed signer is witness-checked: after a successful check the only way to success is back through the loop header", c.P.Rel(fn.Pos()), why)
		// and membership threshold is checked first
		if vt := c.P.Func(ontidPkg + ".verifyThreshold"); vt != nil {
			g := an.GuardForFuncs("verifyThreshold", funcObj(vt))
			v := an.Guarded(c.P, fn, []*an.Guard{g}, func(in ssa.Instruction) bool {
				r, ok := in.(*ssa.Return)
				if !ok {
					return false
				}
				k, isC := r.Results[0].(*ssa.Const)
				return !isC || k.Value == nil || constant.BoolVal(k.Value)
			}, false)
			c.Check(v.Holds && v.GuardSites == 1, "guard|ontid.verifyGroupSignature|threshold", "group verification succeeds only if verifyThreshold (enough distinct members named) succeeded", c.P.Rel(fn.Pos()), v.Witness)
		}
	}
	// checkWitnessByIndex rejects revoked / non-auth keys
	if fn := c.P.Func(ontidPkg + ".checkWitnessByIndex"); fn != nil {
		for _, fld := range []string{"revoked", "isAuthentication"} {
			f := c.P.Field(ontidPkg + ".publicKey." + fld)
			if f == nil {
				c.Undecide("anchor|ontid.publicKey."+fld, "anchors must resolve", "-", "field not found")
				continue
			}
			fail := an.ATrue
			if fld == "isAuthentication" {
				fail = an.AFalse
			}
			g := &an.Guard{Name: "pk." + fld, FailValue: fail, MatchValue: func(v ssa.Value) bool {
				u, ok := v.(*ssa.UnOp)
				return ok && u.Op == token.MUL && an.FieldOf(u.X) == f
			}}
			spec := an.SuccessSpecFor(fn.Signature)
			bad := ""
			n := an.RunAllFail(fn, []*an.Guard{g}, nil, false, func(r *an.Result) {
				for _, ret := range an.Returns(fn) {
					for _, st := range r.StatesAt(ret) {
						a := r.Eval(ret.Results[0], st)
						_ = spec
						if a.K != an.KNonNil {
							// a tail call into checkWitness counts as "not yet rejected"
							bad = c.P.Rel(ret.Pos())
						}
					}
				}
			})
			c.Check(n >= 1 && bad == "", "guard|ontid.checkWitnessByIndex|"+fld, "a revoked key, or a key without authentication rights, never passes checkWitnessByIndex", c.P.Rel(fn.Pos()),
				fmt.Sprintf("tests of pk.%s: %d; non-failing return reachable at %s", fld, n, bad))
		}
	}

	// --- identity-state guards
	stateGuardMod := an.GuardForFuncs("isValid", funcObj(isValid))
	stateGuardReg := &an.Guard{Name: "checkIDState == flag_not_exist", MatchValue: func(v ssa.Value) bool {
		b, ok := v.(*ssa.BinOp)
		if !ok || (b.Op != token.NEQ && b.Op != token.EQL) {
			return false
		}
		call, isCall := b.X.(*ssa.Call)
		if !isCall || call.Call.StaticCallee() != checkIDState {
			return false
		}
		k, isC := b.Y.(*ssa.Const)
		return isC && k.Value != nil && constant.Compare(k.Value, token.EQL, constant.MakeInt64(0))
	}}
	// FailValue depends on the operator; use two guards
	stateGuardRegNE := *stateGuardReg
	stateGuardRegNE.MatchValue = func(v ssa.Value) bool {
		b, ok := v.(*ssa.BinOp)
		return ok && b.Op == token.NEQ && stateGuardReg.MatchValue(v)
	}
	stateGuardRegNE.FailValue = an.ATrue
	stateGuardRegEQ := *stateGuardReg
	stateGuardRegEQ.MatchValue = func(v ssa.Value) bool {
		b, ok := v.(*ssa.BinOp)
		return ok && b.Op == token.EQL && stateGuardReg.MatchValue(v)
	}
	stateGuardRegEQ.FailValue = an.AFalse
	// isValid itself must mean "== flag_valid"
	{
		ok := false
		for _, r := range an.Returns(isValid) {
			if b, isB := r.Results[0].(*ssa.BinOp); isB && b.Op == token.EQL {
				if call, isC := b.X.(*ssa.Call); isC && call.Call.StaticCallee() == checkIDState {
					if k, isK := b.Y.(*ssa.Const); isK && k.Value != nil && constant.Compare(k.Value, token.EQL, constant.MakeInt64(1)) {
						ok = true
					}
				}
			}
		}
		c.Check(ok, "shape|ontid.isValid", "isValid is exactly checkIDState == flag_valid (so revoked and unregistered ids are both invalid)", c.P.Rel(isValid.Pos()), "isValid no longer compares the stored state with flag_valid")
	}

	regHandlers := map[string]bool{"regIDWithPublicKey": true, "regIDWithController": true, "regIDWithAttributes": true}
	witnessEff := &an.Effects{P: c.P, IsSink: isSink, InScope: inScope, Guards: wguards, NonEmpty: nonEmpty}
	// "the identity is valid": isValid(..), or its body written in place - checkIDState(..) == flag_valid in any
	// spelling (the guard fails when the state differs from flag_valid)
	isStateCall := func(x ssa.Value) bool {
		call, isCall := x.(*ssa.Call)
		return isCall && call.Call.StaticCallee() == checkIDState
	}
	inPlaceValid := relGuards("checkIDState == flag_valid", token.NEQ, isStateCall, func(y ssa.Value) bool {
		k, isC := y.(*ssa.Const)
		return isC && k.Value != nil && constant.Compare(k.Value, token.EQL, constant.MakeInt64(1))
	})
	stateEffMod := &an.Effects{P: c.P, IsSink: isSink, InScope: inScope, Guards: append([]*an.Guard{stateGuardMod}, inPlaceValid...)}
	stateEffReg := &an.Effects{P: c.P, IsSink: isSink, InScope: inScope, Guards: []*an.Guard{&stateGuardRegNE, &stateGuardRegEQ}}

	var names []string
	for n := range handlers {
		names = append(names, n)
	}
	sort.Strings(names)
	writers := 0
	for _, n := range names {
		h := handlers[n]
		if !witnessEff.Writes(h) {
			c.Note("readonly|ontid."+n, "handler reaches no CacheDB.Put/Delete", c.P.Rel(h.Pos()), "read-only")
			continue
		}
		writers++
		c.Count("callsites_analysed", len(witnessEff.WriteActions(h)))
		v := witnessEff.Check(h)
		c.Check(v.OK, "guard-witness|ontid."+n, "every write of the handler is unreachable when all witness checks fail", c.P.Rel(h.Pos()), v.Witness)
		var sv *an.EffVerdict
		rule := "every write of the handler is unreachable unless the identity is currently valid (isValid)"
		if regHandlers[n] {
			sv = stateEffReg.Check(h)
			rule = "registration writes only when the identity has never existed (checkIDState == flag_not_exist; a revoked id stays revoked)"
		} else {
			sv = stateEffMod.Check(h)
		}
		c.Check(sv.OK, "guard-idstate|ontid."+n, rule, c.P.Rel(h.Pos()), sv.Witness)
	}
	c.RequireMin("state-changing ONT ID handlers", writers, 39)
}
