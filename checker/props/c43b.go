package props

import (
	"go/token"
	"go/types"
	"strings"

	"golang.org/x/tools/go/ssa"
)

// sectionListFromCache: in the given functions (SaveBloomData and the helpers
// it calls statically, except PutBloomIndex itself) every Bloom value that is
// appended to or stored into a list of blooms is read from the bloom cache.
func sectionListFromCache(fns []*ssa.Function, cacheField *types.Var) (bool, string) {
	isBloom := func(t types.Type) bool {
		nm, ok := t.(*types.Named)
		return ok && nm.Obj().Name() == "Bloom"
	}
	fromCache := func(v ssa.Value) bool {
		u, ok := v.(*ssa.UnOp)
		if !ok || u.Op != token.MUL {
			return false
		}
		switch x := u.X.(type) {
		case *ssa.Lookup:
			return fieldOfLoad(x.X) == cacheField
		case *ssa.Extract:
			if lk, isL := x.Tuple.(*ssa.Lookup); isL {
				return fieldOfLoad(lk.X) == cacheField
			}
		}
		return false
	}
	n := 0
	for _, fn := range fns {
		if strings.HasSuffix(fn.Name(), "PutBloomIndex") {
			continue
		}
		for _, b := range fn.Blocks {
			for _, in := range b.Instrs {
				st, ok := in.(*ssa.Store)
				if !ok || !isBloom(st.Val.Type()) {
					continue
				}
				ia, isIA := st.Addr.(*ssa.IndexAddr)
				if !isIA {
					continue
				}
				// element of a []Bloom or of the varargs array of append([]Bloom, x)
				n++
				if !fromCache(st.Val) {
					return false, "a bloom that is not read from the bloom cache is put into the section list in " + fn.Name()
				}
				_ = ia
			}
		}
	}
	if n == 0 {
		return false, "no bloom is put into a section list"
	}
	return true, ""
}
