package props

import (
	"fmt"
	"go/constant"
	"go/token"
	"sort"
	"strings"

	"golang.org/x/tools/go/ssa"

	"verif/checker/an"
)

func init() {
	register(&Prop{ID: "C18", Patterns: []string{"./common/...", "./core/types", "./core/program"}, Run: runC18})
}

func runC18(c *an.Ctx) {
	c.Explanation = "A6/A7 on the primitive codec (common.ZeroCopySource / ZeroCopySink): (1) offset invariant — every store to ZeroCopySource.off is a value clamped to len(s) (the SafeAdd-and-clamp idiom of NextBytes/Skip, or the guarded increment of NextByte); BackUp is the single unchecked mutation and its call sites pass a constant or a difference of two Pos() values of the same source; " +
		"(2) the backing slice is indexed/sliced only in NextBytes and NextByte, with the clamped end / the guarded offset; (3) NextVarUint computes `irregular` as size != getVarUintSize(data); (4) writer and reader agree: WriteUintN/NextUintN use binary.LittleEndian with the same width and NextBytes(width), and WriteVarUint, NextVarUint and getVarUintSize use the same tags 0xFD/0xFE/0xFF, thresholds and sizes; " +
		"(5) common/serialization.byteXReader allocates at most the 2 MiB fast-path bound before the input proves longer. Decides 'no out-of-bounds read, non-minimal var-uints flagged, widths agree' structurally for all byte strings; round-trip value equality is not decided."
	src, _ := c.P.Obj("common.ZeroCopySource").(interface{ Name() string })
	offF := c.P.Field("common.ZeroCopySource.off")
	sF := c.P.Field("common.ZeroCopySource.s")
	if src == nil || offF == nil || sF == nil {
		c.Undecide("anchor|ZeroCopySource", "anchors must resolve", "-", "type/fields not found")
		return
	}
	fns := c.P.RepoSrcFuncs("common")
	// (1) stores to off
	nStores := 0
	for _, fn := range fns {
		for _, w := range an.DirectFieldWrites(fn) {
			if w.Field != offF || w.Kind != "store" {
				continue
			}
			nStores++
			key := "offset|" + an.FuncName(fn) + "|store-off"
			rule := "the read offset never exceeds the data length: every assignment to ZeroCopySource.off is clamped to len(s) or is a guarded increment"
			ok, why := clampedStore(fn, w.In.(*ssa.Store), sF, offF)
			if fn.Name() == "BackUp" {
				c.Note(key, rule, c.P.Rel(w.In.Pos()), "BackUp subtracts without a check by design; its call sites are constrained below")
				continue
			}
			if fn.Name() == "NewZeroCopySource" {
				continue
			}
			c.Check(ok, key, rule, c.P.Rel(w.In.Pos()), why)
		}
	}
	c.RequireMin("stores to ZeroCopySource.off", nStores, 2)
	// BackUp callers
	backUp := mustObj(c, "common.(*ZeroCopySource).BackUp")
	posM := mustObj(c, "common.(*ZeroCopySource).Pos")
	if backUp != nil && posM != nil {
		n := 0
		for _, fn := range c.P.RepoSrcFuncs() {
			per := 0
			for _, k := range an.CallsTo(fn, backUp) {
				n++
				per++
				arg := argsNoRecv(k.Common())[0]
				ok := false
				if _, isK := arg.(*ssa.Const); isK {
					ok = true
				}
				if b, isB := arg.(*ssa.BinOp); isB && b.Op == token.SUB {
					cx, okx := b.X.(*ssa.Call)
					cy, oky := b.Y.(*ssa.Call)
					if okx && oky && an.CalleeObj(&cx.Call) == posM && an.CalleeObj(&cy.Call) == posM && recvOf(&cx.Call) == recvOf(&cy.Call) && recvOf(&cx.Call) == recvOf(k.Common()) {
						ok = true
					}
				}
				c.Check(ok, "offset|BackUp-caller|"+an.FuncName(fn)+fmt.Sprintf("#%d", per), "BackUp is called only with a constant (after reading that many bytes) or with the difference of two positions of the same source", c.P.Rel(k.Pos()), "argument is "+an.AccessPath(arg))
			}
		}
		c.RequireMin("BackUp call sites", n, 2)
	}
	// (2) who indexes s
	for _, fn := range fns {
		for _, b := range fn.Blocks {
			for _, in := range b.Instrs {
				var base ssa.Value
				switch x := in.(type) {
				case *ssa.Slice:
					base = x.X
				case *ssa.IndexAddr:
					base = x.X
				default:
					continue
				}
				if f := fieldOfLoad(base); f != sF {
					continue
				}
				key := "bounds|" + an.FuncName(fn) + "|" + fmt.Sprintf("%T", in)
				switch fn.Name() {
				case "NextBytes":
					sl, isS := in.(*ssa.Slice)
					ok := isS && sl.High != nil && leqLenOfS(fn, sl.High, in, sF, 0) && fieldOfLoad(sl.Low) == offF
					c.Check(ok, key, "the backing slice is sliced only as s[off:end] with end clamped to len(s)", c.P.Rel(in.Pos()), "slice bounds are not the offset and the clamped end")
				case "NextByte":
					ia, isI := in.(*ssa.IndexAddr)
					ok := isI && fieldOfLoad(ia.Index) == offF && guardedByOffLtLen(fn, in, sF, offF)
					c.Check(ok, key, "the backing slice is indexed only at off after off < len(s) was established", c.P.Rel(in.Pos()), "index is not guarded by the off >= len(s) early return")
				default:
					c.Violate(key, "only NextBytes and NextByte touch the backing slice", c.P.Rel(in.Pos()), "new direct access to ZeroCopySource.s")
				}
			}
		}
	}
	// (3) irregular
	if nv := mustFunc(c, "common.(*ZeroCopySource).NextVarUint"); nv != nil {
		// the irregular result is "encoded size != minimal size": a != comparison both of whose operands range over
		// the four var-uint sizes {1,3,5,9} - one chosen by the tag that was read, the other computed from the value
		// (by a private size function or by the same thresholds written in place)
		sizes := map[string]bool{"1": true, "3": true, "5": true, "9": true}
		var isSize func(v ssa.Value, depth int) bool
		isSize = func(v ssa.Value, depth int) bool {
			if depth > 6 {
				return false
			}
			switch x := an.Origin(v).(type) {
			case *ssa.Const:
				return x.Value != nil && sizes[x.Value.String()]
			case *ssa.Phi:
				for _, e := range x.Edges {
					if e != ssa.Value(x) && !isSize(e, depth+1) {
						// the zero a declared-but-unset variable holds on the paths that return early
						if k, isK := e.(*ssa.Const); isK && k.Value != nil && k.Value.String() == "0" {
							continue
						}
						return false
					}
				}
				return len(x.Edges) > 0
			case *ssa.Convert:
				return isSize(x.X, depth+1)
			case *ssa.Extract:
				// one result of a private helper that reads the payload: a size on its decoding returns, 0 on eof
				call, isCall := x.Tuple.(*ssa.Call)
				if !isCall || call.Call.StaticCallee() == nil || call.Call.StaticCallee().Blocks == nil || call.Call.StaticCallee().Pkg != nv.Pkg {
					return false
				}
				rets := an.Returns(call.Call.StaticCallee())
				for _, r := range rets {
					if x.Index >= len(r.Results) {
						return false
					}
					if k, isK := r.Results[x.Index].(*ssa.Const); isK && k.Value != nil && k.Value.String() == "0" {
						continue
					}
					if !isSize(r.Results[x.Index], depth+1) {
						return false
					}
				}
				return len(rets) > 0
			case *ssa.Call:
				callee := x.Call.StaticCallee()
				if callee == nil || callee.Blocks == nil || callee.Pkg != nv.Pkg {
					return false
				}
				rets := an.Returns(callee)
				for _, r := range rets {
					if len(r.Results) != 1 || !isSize(r.Results[0], depth+1) {
						return false
					}
				}
				return len(rets) > 0
			}
			return false
		}
		ok := false
		for _, b := range nv.Blocks {
			for _, in := range b.Instrs {
				bo, isB := in.(*ssa.BinOp)
				if !isB || (bo.Op != token.NEQ && bo.Op != token.EQL) || !isSize(bo.X, 0) || !isSize(bo.Y, 0) {
					continue
				}
				// flows to the irregular result (directly for !=, negated for ==)
				for _, r := range an.Returns(nv) {
					for _, s := range an.AllSources(r.Results[2]) {
						if s == ssa.Value(bo) && bo.Op == token.NEQ {
							ok = true
						}
						if u, isU := s.(*ssa.UnOp); isU && u.Op == token.NOT && u.X == ssa.Value(bo) && bo.Op == token.EQL {
							ok = true
						}
					}
				}
			}
		}
		c.Check(ok, "canonical|NextVarUint|irregular", "a var-uint is reported irregular exactly when its encoded size differs from the minimal size of its value", c.P.Rel(nv.Pos()), "the irregular result is not <encoded size> != <minimal size of the value>")
	}
	// (4) widths
	for _, w := range []struct {
		n     string
		bytes int64
	}{{"16", 2}, {"32", 4}, {"64", 8}} {
		wr := mustFunc(c, "common.(*ZeroCopySink).WriteUint"+w.n)
		rd := mustFunc(c, "common.(*ZeroCopySource).NextUint"+w.n)
		if wr == nil || rd == nil {
			continue
		}
		okW, okR, okN := false, false, false
		for _, k := range an.Calls(wr) {
			if f := k.Common().StaticCallee(); f != nil && f.String() == "(encoding/binary.littleEndian).PutUint"+w.n {
				okW = true
			}
		}
		for _, k := range an.Calls(rd) {
			f := k.Common().StaticCallee()
			if f == nil {
				continue
			}
			if f.String() == "(encoding/binary.littleEndian).Uint"+w.n {
				okR = true
			}
			if f.Name() == "NextBytes" {
				if kc, isK := k.Common().Args[1].(*ssa.Const); isK && kc.Value != nil && constant.Compare(kc.Value, token.EQL, constant.MakeInt64(w.bytes)) {
					okN = true
				}
			}
		}
		c.Check(okW && okR && okN, "codec|uint"+w.n, "writer and reader of the fixed-width integer agree on width and byte order", c.P.Rel(rd.Pos()), fmt.Sprintf("writer little-endian PutUint%s: %v; reader little-endian Uint%s: %v; reads %d bytes: %v", w.n, okW, w.n, okR, w.bytes, okN))
	}
	// var-uint tables: size thresholds (normalised to "<= k") and dispatch tags (== k), over the function and the
	// private helpers it calls
	consts := func(name string) (thresholds, tags string) {
		fn := mustFunc(c, name)
		if fn == nil {
			return "?", "?"
		}
		th, tg := map[string]bool{}, map[string]bool{}
		for _, g := range an.InlineReach(fn) {
			for _, b := range g.Blocks {
				for _, in := range b.Instrs {
					x, isB := in.(*ssa.BinOp)
					if !isB {
						continue
					}
					op, kv := x.Op, ssa.Value(nil)
					if k, ok := x.Y.(*ssa.Const); ok {
						kv = k
					} else if k, ok := x.X.(*ssa.Const); ok {
						kv, op = k, mirrorOp[op]
					}
					k, _ := kv.(*ssa.Const)
					if k == nil || k.Value == nil || k.Value.Kind() != constant.Int {
						continue
					}
					n, exact := constant.Uint64Val(k.Value)
					if !exact {
						continue
					}
					switch op {
					case token.LEQ, token.GTR:
						th[fmt.Sprintf("<=%d", n)] = true
					case token.LSS, token.GEQ:
						if n > 0 {
							th[fmt.Sprintf("<=%d", n-1)] = true
						}
					case token.EQL, token.NEQ:
						tg[fmt.Sprintf("%d", n)] = true
					}
				}
			}
		}
		join := func(m map[string]bool) string {
			var ks []string
			for k := range m {
				ks = append(ks, k)
			}
			sort.Strings(ks)
			return strings.Join(ks, ",")
		}
		return join(th), join(tg)
	}
	wv, _ := consts("common.(*ZeroCopySink).WriteVarUint")
	gv, nvTags := consts("common.(*ZeroCopySource).NextVarUint")
	sv, _ := consts("common/serialization.GetVarUintSize")
	c.Check(wv == gv && gv == sv && wv != "", "codec|varuint-thresholds", "WriteVarUint, NextVarUint (with its minimal-size computation) and serialization.GetVarUintSize use the same size thresholds", "-", fmt.Sprintf("writer {%s} vs reader {%s} vs serialization {%s}", wv, gv, sv))
	// the reader dispatches on the tags the writer stores: at least two of 0xFD/0xFE/0xFF are tested (the third may be
	// the default case) and nothing else is
	tagOK, nTags := true, 0
	for _, tg := range strings.Split(nvTags, ",") {
		switch tg {
		case "253", "254", "255":
			nTags++
		case "":
		default:
			tagOK = false
		}
	}
	c.Check(tagOK && nTags >= 2, "codec|varuint-tags", "NextVarUint dispatches on the tags 0xFD/0xFE/0xFF", "-", "tags found: "+nvTags)
	// (5) byteXReader
	if bx := mustFunc(c, "common/serialization.byteXReader"); bx != nil {
		// the guard fails when "x >= 2MiB" holds (x is byteXReader's size parameter, whatever it is called)
		g := relGuards("x < 2MiB", token.GEQ, func(x ssa.Value) bool { return an.AccessPath(x) == bx.Params[1].Name() }, isConstVal("2097152"))
		v := an.Guarded(c.P, bx, g, func(in ssa.Instruction) bool { _, ok := in.(*ssa.MakeSlice); return ok }, false)
		c.Check(v.Holds && v.GuardSites == 1 && v.ActionSites >= 1, "alloc|byteXReader|bounded", "the io.Reader decoder allocates a length-prefixed buffer up front only below the 2 MiB bound (larger inputs are read incrementally)", c.P.Rel(bx.Pos()), v.Witness)
	}
}

// clampedStore: the stored offset is the clamp idiom or a guarded increment.
func clampedStore(fn *ssa.Function, st *ssa.Store, sF, offF *typesVar) (bool, string) {
	if leqLenOfS(fn, st.Val, st, sF, 0) {
		return true, ""
	}
	// off++ guarded by the early return on off >= len(s)
	if b, ok := st.Val.(*ssa.BinOp); ok && b.Op == token.ADD {
		if k, isK := b.Y.(*ssa.Const); isK && k.Value != nil && k.Value.String() == "1" && fieldOfLoad(b.X) == offF && guardedByOffLtLen(fn, st, sF, offF) {
			return true, ""
		}
	}
	return false, "the value assigned to off (" + st.Val.String() + ") is neither the clamped end of the SafeAdd idiom nor an increment guarded by off < len(s)"
}

// clampedValue: v <= len(s) is established wherever v is used: v is len(s) itself, a merge whose every incoming
// value is len(s) or is proven <= len(s) by the comparisons on that edge, a result of a private helper whose every
// return satisfies the same, or a value the dominating comparisons bound by len(s). A SafeAdd sum additionally needs
// its overflow flag tested. (Proof by inequality closure over dominating comparisons; no shape is prescribed.)
func clampedValue(fn *ssa.Function, v ssa.Value, sF *typesVar) bool {
	return leqLenOfS(fn, v, nil, sF, 0)
}

func leqLenOfS(fn *ssa.Function, v ssa.Value, at ssa.Instruction, sF *typesVar, depth int) bool {
	if depth > 4 {
		return false
	}
	isLen := func(x ssa.Value) bool {
		if cv, isC := x.(*ssa.Convert); isC {
			x = cv.X
		}
		k, isK := x.(*ssa.Call)
		if !isK {
			return false
		}
		bi, isB := k.Call.Value.(*ssa.Builtin)
		return isB && bi.Name() == "len" && fieldOfLoad(k.Call.Args[0]) == sF
	}
	overflowTested := func(e ssa.Value) bool {
		ex, isE := e.(*ssa.Extract)
		if !isE {
			return true
		}
		call, isC := ex.Tuple.(*ssa.Call)
		if !isC || call.Call.StaticCallee() == nil || call.Call.StaticCallee().Name() != "SafeAdd" {
			return true
		}
		for _, o := range an.Extracts(call)[1] {
			for _, r := range *o.Referrers() {
				if _, isIf := r.(*ssa.If); isIf {
					return true
				}
			}
		}
		return false
	}
	if isLen(v) {
		return true
	}
	key := an.LenKeyOfField(fn, sF)
	switch x := v.(type) {
	case *ssa.Phi:
		if key == "" {
			return false
		}
		for i, e := range x.Edges {
			if isLen(e) {
				continue
			}
			if an.ProveLeqLen(fn, nil, x.Block().Preds[i], x.Block(), e, key) && overflowTested(e) {
				continue
			}
			return false
		}
		return true
	case *ssa.Extract:
		if call, isC := x.Tuple.(*ssa.Call); isC {
			if h := call.Call.StaticCallee(); h != nil && h.Blocks != nil && h.Pkg == fn.Pkg && h.Object() != nil && !h.Object().Exported() {
				rets := an.Returns(h)
				for _, r := range rets {
					if x.Index >= len(r.Results) || !leqLenOfS(h, r.Results[x.Index], r, sF, depth+1) {
						return false
					}
				}
				return len(rets) > 0
			}
		}
	}
	if at != nil && key != "" && an.ProveLeqLen(fn, at, nil, nil, v, key) && overflowTested(v) {
		return true
	}
	return false
}

// guardedByOffLtLen: in dominates-only form: some dominating If tests
// off >= len(s) and in lies on its false side.
func guardedByOffLtLen(fn *ssa.Function, in ssa.Instruction, sF, offF *typesVar) bool {
	return ltLenAt(in, nil, sF, offF)
}

// ltLenAt: at instruction in, "idx < len(s)" is established by a dominating branch edge, whatever the spelling of
// the comparison (off >= len(s) early return, `if pos := off; pos < len(s) {...}`, mirrored operands). idx nil stands
// for any load of the offset field; two loads of the offset field are taken to be the same value (the readers do not
// store to it in between; every store is checked by the offset rule).
func ltLenAt(in ssa.Instruction, idx ssa.Value, sF, offF *typesVar) bool {
	sameIdx := func(x ssa.Value) bool {
		if idx != nil && x == idx {
			return true
		}
		return fieldOfLoad(x) == offF && (idx == nil || fieldOfLoad(idx) == offF)
	}
	isLenS := func(y ssa.Value) bool {
		if cv, isC := y.(*ssa.Convert); isC {
			y = cv.X
		}
		k, isK := y.(*ssa.Call)
		if !isK {
			return false
		}
		bi, isBi := k.Call.Value.(*ssa.Builtin)
		return isBi && bi.Name() == "len" && fieldOfLoad(k.Call.Args[0]) == sF
	}
	for d := in.Block(); d != nil; d = d.Idom() {
		p := d.Idom()
		if p == nil {
			return false
		}
		if len(p.Instrs) == 0 || len(d.Preds) != 1 || d.Preds[0] != p {
			continue
		}
		iff, ok := p.Instrs[len(p.Instrs)-1].(*ssa.If)
		if !ok {
			continue
		}
		if m, whenTrue := relMatch(iff.Cond, token.LSS, sameIdx, isLenS); m {
			if whenTrue && p.Succs[0] == d || !whenTrue && p.Succs[1] == d {
				return true
			}
		}
	}
	return false
}
