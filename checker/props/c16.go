package props

import (
	"fmt"
	"go/constant"
	"go/token"

	"golang.org/x/tools/go/ssa"

	"verif/checker/an"
)

func init() {
	register(&Prop{ID: "C16", Patterns: []string{"./core/validation", "./core/signature", "./core/types", "./core/program"}, Run: runC16})
}

// noIterationCompletesWhenFailing: with all guards failing, no back edge of
// a loop that contains a guard call is traversed: every completed iteration
// needs a successful check.
func noIterationCompletesWhenFailing(c *an.Ctx, key, rule string, fn *ssa.Function, guards []*an.Guard, extra map[ssa.Value]an.Abs) {
	bad := ""
	loops := 0
	// the loops around the checks, in fn or in the private helpers it enters; of nested loops (also across a call)
	// the outermost one is the iteration over the things to be checked
	var outer [][2]*ssa.BasicBlock
	{
		seen := map[[2]*ssa.BasicBlock]bool{}
		var all [][2]*ssa.BasicBlock
		for _, gi := range an.GuardInstrs(fn, guards) {
			for _, e := range loopsAround(fn, gi) {
				if !seen[e] {
					seen[e] = true
					all = append(all, e)
				}
			}
		}
		rank := map[*ssa.Function]int{}
		for i, g := range an.InlineReach(fn) {
			rank[g] = i
		}
		best := -1
		for _, e := range all {
			if r := rank[e[1].Parent()]; best < 0 || r < best {
				best = r
			}
		}
		for _, e := range all {
			if rank[e[1].Parent()] == best && outermost(e[1].Parent(), e) {
				outer = append(outer, e)
			}
		}
	}
	sites := an.RunAllFail(fn, guards, extra, false, func(r *an.Result) {
		for _, e := range outer {
			loops++
			if r.EdgeTaken(e[0], e[1]) {
				bad = fmt.Sprintf("the loop at %s can complete an iteration although every check in it failed", c.P.Rel(loopPos(e[1])))
			}
		}
	})
	if sites == 0 || loops == 0 {
		c.Violate(key, rule, c.P.Rel(fn.Pos()), "no loop containing a check call found")
		return
	}
	c.Check(bad == "", key, rule, c.P.Rel(fn.Pos()), bad)
}

// outermost: no other loop strictly contains the loop of back edge e.
func outermost(fn *ssa.Function, e [2]*ssa.BasicBlock) bool {
	body := an.LoopBlocks(e[0], e[1])
	for _, o := range an.BackEdges(fn) {
		if o[1] == e[1] {
			continue
		}
		ob := an.LoopBlocks(o[0], o[1])
		if len(ob) > len(body) && ob[e[1]] {
			return false
		}
	}
	return true
}

func runC16(c *an.Ctx) {
	c.Explanation = "A2 guard on the transaction validator: in checkTransactionSignatures (non-EIP transactions) (1) no success return is reachable when the payer-membership lookup fails; " +
		"(2) an address enters the signer set only on the success edge of signature.Verify / VerifyMultiSignature; (3) no iteration over tx.Sigs completes with its verification failing (every attached signature set is verified); " +
		"(4) the threshold sanity test (m <= 0, m > n, fewer signatures than m, too many keys) guards both verification calls; (5) the data verified is tx.Hash(); " +
		"(6) in VerifyMultiSignature a signature is counted and a key index marked only on the edge where Verify returned true for an unmarked index, and no outer iteration completes without one; " +
		"(7) VerifyTransaction returns ErrNoError only after both the signature and the payload check succeeded. Decides these necessary conditions for all inputs; not cryptographic soundness."
	c.Assumptions = append(c.Assumptions, "EIP-155 transactions are excluded (IsEipTx assumed false): their signature is checked at decoding, which is C19/C17 territory")
	if !controlGuard(c) {
		return
	}
	fn := mustFunc(c, "core/validation.checkTransactionSignatures")
	verify := mustObj(c, "core/signature.Verify")
	verifyMulti := mustObj(c, "core/signature.VerifyMultiSignature")
	isEip := mustObj(c, "core/types.(*Transaction).IsEipTx")
	hashM := mustObj(c, "core/types.(*Transaction).Hash")
	if fn == nil || verify == nil || verifyMulti == nil || isEip == nil || hashM == nil {
		return
	}
	extra := map[ssa.Value]an.Abs{}
	for _, k := range an.CallsTo(fn, isEip) {
		if v := k.Value(); v != nil {
			extra[v] = an.AFalse
		}
	}
	c.Check(len(extra) <= 1, "shape|checkTransactionSignatures|eip-branch", "at most one EIP-155 early exit", c.P.Rel(fn.Pos()), "several IsEipTx tests")
	vg := []*an.Guard{an.GuardForFuncs("signature.Verify", verify), an.GuardForFuncs("signature.VerifyMultiSignature", verifyMulti)}
	payerField := c.P.Field("core/types.Transaction.Payer")
	signedField := c.P.Field("core/types.Transaction.SignedAddr")
	if payerField == nil || signedField == nil {
		c.Undecide("anchor|Transaction.Payer/SignedAddr", "anchors must resolve", "-", "field not found")
		return
	}
	// the signer set: the map indexed by tx.Payer
	var signerMap ssa.Value
	payerGuard := &an.Guard{Name: "payer in signer set", FailValue: an.AFalse, MatchValue: func(v ssa.Value) bool {
		// signers[tx.Payer] (a set: map to bool), or the presence bit of `_, ok := signers[tx.Payer]`
		l, ok := v.(*ssa.Lookup)
		if ex, isEx := v.(*ssa.Extract); isEx && ex.Index == 1 {
			l, ok = ex.Tuple.(*ssa.Lookup)
			ok = ok && l.CommaOk
		} else if ok && l.CommaOk {
			return false
		}
		if !ok {
			return false
		}
		if ld, ok := l.Index.(*ssa.UnOp); ok && ld.Op == token.MUL {
			if an.FieldOf(ld.X) == payerField {
				signerMap = l.X
				return true
			}
		}
		return false
	}}
	spec := an.SuccessSpecFor(fn.Signature)
	// (1)
	reach := ""
	sites := an.RunAllFail(fn, []*an.Guard{payerGuard}, extra, false, func(r *an.Result) {
		for _, ret := range an.Returns(fn) {
			for _, st := range r.StatesAt(ret) {
				if a := r.Eval(ret.Results[0], st); a.K != an.KNonNil {
					reach = c.P.Rel(ret.Pos()) + " via " + r.Witness(c.P, st)
				}
				_ = spec
			}
		}
	})
	c.Check(sites == 1 && reach == "", "guard-payer|checkTransactionSignatures|success", "a non-EIP transaction is accepted only if the payer is in the verified signer set",
		c.P.Rel(fn.Pos()), fmt.Sprintf("payer lookups found: %d; success return reachable with the payer test failing: %s", sites, reach))
	// SignedAddr is assigned only on that path too
	v := an.Guarded(c.P, fn, []*an.Guard{payerGuard}, func(in ssa.Instruction) bool {
		st, ok := in.(*ssa.Store)
		return ok && an.FieldOf(st.Addr) == signedField
	}, false)
	c.Check(v.Holds && v.ActionSites >= 1, "guard-payer|checkTransactionSignatures|SignedAddr", "the signer list is published (tx.SignedAddr) only after the payer test passed", c.P.Rel(fn.Pos()), v.Witness)
	// (2)
	if signerMap != nil {
		// the map under the names it has in the private helpers it is handed to; nothing else may write it (it must
		// not escape)
		aliases := map[ssa.Value]bool{signerMap: true}
		esc := ""
		entered := map[*ssa.Function]bool{}
		for _, g := range an.InlineReach(fn) {
			entered[g] = g != fn
		}
		work := []ssa.Value{signerMap}
		for len(work) > 0 {
			m := work[0]
			work = work[1:]
			if m.Referrers() == nil {
				continue
			}
			for _, ref := range *m.Referrers() {
				switch ref.(type) {
				case *ssa.MapUpdate, *ssa.Lookup, *ssa.Range, *ssa.DebugRef:
				default:
					if k, ok := ref.(*ssa.Call); ok {
						if b, isB := k.Call.Value.(*ssa.Builtin); isB && b.Name() == "len" {
							continue
						}
						if callee := k.Call.StaticCallee(); callee != nil && entered[callee] {
							for i, a := range k.Call.Args {
								if a == m && i < len(callee.Params) && !aliases[callee.Params[i]] {
									aliases[callee.Params[i]] = true
									work = append(work, callee.Params[i])
								}
							}
							continue
						}
					}
					esc = fmt.Sprintf("%T at %s", ref, c.P.Rel(ref.Pos()))
				}
			}
		}
		upd := 0
		v := an.Guarded(c.P, fn, vg, func(in ssa.Instruction) bool {
			mu, ok := in.(*ssa.MapUpdate)
			if ok && aliases[mu.Map] {
				upd++
				return true
			}
			return false
		}, false)
		// the single-key and the multi-key verification are both followed by an insertion (which may be one shared statement)
		c.Check(v.Holds && v.GuardSites >= 2 && v.ActionSites >= 1, "guard-verify|checkTransactionSignatures|signer-set-insert", "an address enters the signer set only after its signature(s) verified",
			c.P.Rel(fn.Pos()), fmt.Sprintf("guards=%d inserts=%d; insert reachable with verification failing: %s", v.GuardSites, v.ActionSites, v.Witness))
		c.Check(esc == "", "confine|checkTransactionSignatures|signer-set-local", "the signer set is a local map that is only inserted into, looked up, ranged over and measured", c.P.Rel(fn.Pos()), "other use: "+esc)
	} else {
		c.Undecide("guard-verify|checkTransactionSignatures|signer-set-insert", "signer set must be identifiable", c.P.Rel(fn.Pos()), "no map lookup keyed by tx.Payer found")
	}
	// (3)
	noIterationCompletesWhenFailing(c, "forall|checkTransactionSignatures|every-sig-verified", "every attached signature set is verified: no iteration over tx.Sigs completes with its verification failing", fn, vg, extra)
	// (4) threshold sanity
	isVerifyCall := func(in ssa.Instruction) bool { return isCallTo(in, verify, verifyMulti) }
	mField := c.P.Field("core/types.Sig.M")
	derivedFromM := func(v ssa.Value) bool {
		for i := 0; i < 4; i++ {
			switch x := v.(type) {
			case *ssa.Convert:
				v = x.X
			case *ssa.UnOp:
				return x.Op == token.MUL && an.FieldOf(x.X) == mField
			default:
				return false
			}
		}
		return false
	}
	if mField != nil {
		// every comparison below is matched in all its spellings (mirrored operands, negated operator)
		notM := func(v ssa.Value) bool { return !derivedFromM(v) }
		nonPos := append(relGuards("m <= 0", token.LEQ, derivedFromM, isConstVal("0")), relGuards("m < 1", token.LSS, derivedFromM, isConstVal("1"))...)
		v := an.Guarded(c.P, fn, nonPos, isVerifyCall, false)
		c.Check(v.Holds && v.GuardSites >= 1, "guard-threshold|checkTransactionSignatures|m>0", "no verification is attempted (and so nothing accepted) for a threshold m <= 0", c.P.Rel(fn.Pos()), "verification reachable with m <= 0: "+v.Witness)
		_ = notM
		// n is the number of keys, sn the number of signatures of the same Sig
		lenOf := func(field string) func(ssa.Value) bool {
			return func(v ssa.Value) bool {
				if cv, isC := v.(*ssa.Convert); isC {
					v = cv.X
				}
				k, isCall := v.(*ssa.Call)
				if !isCall {
					return false
				}
				bi, isB := k.Call.Value.(*ssa.Builtin)
				if !isB || bi.Name() != "len" {
					return false
				}
				f := fieldOfLoad(k.Call.Args[0])
				return f != nil && f.Name() == field
			}
		}
		gtKeys := relGuards("m > n", token.GTR, derivedFromM, lenOf("PubKeys"))
		v = an.Guarded(c.P, fn, gtKeys, isVerifyCall, false)
		c.Check(v.Holds && v.GuardSites >= 1, "guard-threshold|checkTransactionSignatures|m<=n", "no verification is attempted for a threshold above the number of keys", c.P.Rel(fn.Pos()), "verification reachable with m > n: "+v.Witness)
		fewSigs := relGuards("len(sigs) < m", token.LSS, lenOf("SigData"), derivedFromM)
		v = an.Guarded(c.P, fn, fewSigs, isVerifyCall, false)
		c.Check(v.Holds && v.GuardSites >= 1, "guard-threshold|checkTransactionSignatures|sigs>=m", "no verification is attempted with fewer signatures than the threshold", c.P.Rel(fn.Pos()), "verification reachable with sn < m: "+v.Witness)
	} else {
		c.Undecide("anchor|core/types.Sig.M", "anchors must resolve", "-", "field not found")
	}
	// (5) data verified is tx.Hash()
	// follows the data argument back: slice of a single-assignment local / of a by-value parameter of a private
	// helper (resolved to the argument at the helper's call) down to the call tx.Hash() on the validated transaction
	var isTxHash func(v ssa.Value, depth int) bool
	isTxHash = func(v ssa.Value, depth int) bool {
		if depth > 8 {
			return false
		}
		switch x := v.(type) {
		case *ssa.Slice:
			return isTxHash(x.X, depth+1)
		case *ssa.Parameter:
			if a := an.ResolveActual(fn, x); a != ssa.Value(x) {
				return isTxHash(a, depth+1)
			}
		case *ssa.UnOp:
			if x.Op == token.MUL {
				return isTxHash(x.X, depth+1)
			}
		case *ssa.Alloc:
			if p := an.SpilledParam(x); p != nil {
				return isTxHash(p, depth+1)
			}
			n := 0
			var val ssa.Value
			for _, ref := range *x.Referrers() {
				if st, isSt := ref.(*ssa.Store); isSt && st.Addr == ssa.Value(x) {
					n++
					val = st.Val
				}
			}
			return n == 1 && isTxHash(val, depth+1)
		case *ssa.Call:
			if an.CalleeObj(&x.Call) == hashM {
				if p, isP := an.ResolveActual(fn, recvOf(&x.Call)).(*ssa.Parameter); isP && p == fn.Params[0] {
					return true
				}
			}
		}
		return false
	}
	nData := 0
	for _, k := range an.CallsToReach(fn, verify, verifyMulti) {
		idx := 1
		if an.CalleeObj(k.Common()) == verifyMulti {
			idx = 0
		}
		nData++
		c.Check(isTxHash(argsNoRecv(k.Common())[idx], 0), "same-subject|checkTransactionSignatures|"+an.CalleeObj(k.Common()).Name()+"-data", "the signed data passed to verification is tx.Hash() of the transaction being validated", c.P.Rel(k.Pos()), "data argument is not the (single-assignment) result of tx.Hash()")
	}
	c.RequireMin("verification calls whose data argument is traced to tx.Hash()", nData, 2)
	// (6) VerifyMultiSignature
	if vm := mustFunc(c, "core/signature.VerifyMultiSignature"); vm != nil {
		sVerify := mustObj(c, "github.com/ontio/ontology-crypto/signature.Verify")
		if sVerify != nil {
			sg := []*an.Guard{an.GuardForFuncs("crypto signature.Verify", sVerify)}
			v := an.Guarded(c.P, vm, sg, func(in ssa.Instruction) bool {
				st, ok := in.(*ssa.Store)
				if !ok {
					return false
				}
				_, isIdx := st.Addr.(*ssa.IndexAddr)
				return isIdx
			}, false)
			c.Check(v.Holds && v.GuardSites == 1 && v.ActionSites >= 1, "guard-verify|VerifyMultiSignature|mask-set", "a key index is marked used only on the edge where the signature verified under that key", c.P.Rel(vm.Pos()), v.Witness)
			noIterationCompletesWhenFailing(c, "forall|VerifyMultiSignature|every-counted-sig-verified", "each of the m counted signatures verifies under some key: no outer iteration completes with every Verify failing", vm, sg, nil)
			// the mask test precedes Verify in the inner loop: a marked key is skipped
			maskSkip := &an.Guard{Name: "mask[j]", FailValue: an.ATrue, MatchValue: func(v ssa.Value) bool {
				u, ok := v.(*ssa.UnOp)
				if !ok || u.Op != token.MUL {
					return false
				}
				ia, isIdx := u.X.(*ssa.IndexAddr)
				if !isIdx {
					return false
				}
				_, isMk := an.ResolveActual(vm, ia.X).(*ssa.MakeSlice)
				return isMk
			}}
			v = an.Guarded(c.P, vm, []*an.Guard{maskSkip}, func(in ssa.Instruction) bool { return isCallTo(in, sVerify) }, false)
			c.Check(v.Holds && v.GuardSites == 1, "guard-distinct|VerifyMultiSignature|used-key-skipped", "a key that already matched one signature is never tried again (signatures must come from distinct keys)", c.P.Rel(vm.Pos()), v.Witness)
		}
	}
	// (7) VerifyTransaction
	if vt := mustFunc(c, "core/validation.VerifyTransaction"); vt != nil {
		sigs := mustFunc(c, "core/validation.checkTransactionSignatures")
		pl := mustFunc(c, "core/validation.checkTransactionPayload")
		noErr, _ := c.P.Obj("errors.ErrNoError").(interface{ Val() constant.Value })
		if sigs != nil && pl != nil && noErr != nil {
			isOK := func(in ssa.Instruction) bool {
				r, ok := in.(*ssa.Return)
				if !ok || len(r.Results) != 1 {
					return false
				}
				k, isC := r.Results[0].(*ssa.Const)
				return !isC || k.Value == nil || constant.Compare(k.Value, token.EQL, noErr.Val())
			}
			for _, g := range []*ssa.Function{sigs, pl} {
				v := an.Guarded(c.P, vt, []*an.Guard{an.GuardForFuncs(g.Name(), funcObj(g))}, isOK, false)
				c.Check(v.Holds && v.GuardSites == 1 && v.ActionSites >= 1, "guard|VerifyTransaction|"+g.Name(), "VerifyTransaction reports ErrNoError only after "+g.Name()+" succeeded", c.P.Rel(vt.Pos()), v.Witness)
			}
		} else {
			c.Undecide("anchor|errors.ErrNoError", "anchors must resolve", "-", "constant not found")
		}
	}
}
