package props

import (
	"fmt"
	"go/token"
	"go/types"
	"sort"
	"strings"

	"golang.org/x/tools/go/ssa"

	"verif/checker/an"
)

func init() {
	register(&Prop{ID: "C12", Patterns: []string{"./vm/neovm/...", "./smartcontract", "./smartcontract/service/neovm", "./smartcontract/service/wasmvm", "./smartcontract/service/native/..."}, Run: runC12})
}

// c12PanicTable: explicit panics that are not proven unreachable by enum
// enumeration, decided by reading (function -> reason).
var c12PanicTable = map[string]string{
	"(*vm/neovm/types.VmValue).Equals": "the switch is reached only when AsBytes failed for at least one operand (a compound value) and both type tags are equal, i.e. the receiver is compound; the four compound tags (map, struct, array, interop) are all cases — the relation between AsBytes's error and the tag is interprocedural and is not enumerated",
	"smartcontract/service/native/ontid.parse":           "Group.Members elements are created only by rDeserialize, as []byte or *Group; the default branch of the type switch cannot be taken",
	"smartcontract/service/native/ontid.validateMembers": "same: members are []byte or *Group by construction in rDeserialize",
	"smartcontract/service/native/ontid.verifyThreshold": "same: members are []byte or *Group by construction in rDeserialize",
	"smartcontract/service/native/governance.executeSplit2": "state assertions of the fee split (balance >= splitFee, income >= dappIncome): dappIncome = income*DappFee/100 with DappFee <= 100 enforced when the parameter is set, splitFee is accumulated from amounts that were added to the balance; arithmetic, not decided here (C10 is not applicable) — listed so that any further panic in this package is reported",
	"(*smartcontract/service/native/cross_chain/common.Header).serializationUnsigned": "Version > CURR_HEADER_VERSION is rejected by deserializationUnsigned, the only producer of headers that are hashed on the execution path",
}

// c12BoundsTable: slice/index sites with a call-derived bound that the
// inequality prover does not decide, decided by reading.
var c12BoundsTable = map[string]string{}

func runC12(c *an.Ctx) {
	c.Explanation = "A8 recursion + A9 panics/assertions + a bounds prover, over vm/neovm, vm/neovm/types, smartcontract/service/neovm and the native contracts: (1) every recursive component is justified by a growing depth/count bound, by the cycle detector (shared with C14), or as structural recursion over a tree that only a depth-bounded decoder can build; " +
		"(2) every explicit panic is either proven unreachable by enumerating the finite domain of the switched value (all 256 opcodes; all constants ever stored into VmValue.valType) against the branch conditions on the SSA CFG, or is listed with a reason; a new explicit panic is a violation; (3) every unchecked type assertion on an execution-engine result is justified by the concrete engine's return statements (every success return yields that dynamic type, or the assertion is guarded by a nil test); " +
		"(4) every slice/index expression whose bound derives from a call result (a value popped from the VM stack or decoded from input) is proven in range by the comparisons that dominate it, where a sum of two signed values needs both addends bounded (no int64 wrap-around); integer division by a non-constant on the VM path is guarded by a zero test; (5) in the argument decoders of the native contracts and VM services an integer decoded from the argument bytes is bounded before it sizes an allocation, a slice or an index (make with an attacker-chosen capacity panics). " +
		"Decides these crash causes only; implicit run-time panics in general (nil dereference, other index expressions), allocation volume and termination of loops are not decided."
	if !controlGuard(c) {
		return
	}
	// (5) sizes decoded from contract arguments
	decodedSizesRule(c)
	// (1) recursion
	valueRecursionRules(c, "recursion")
	scope := c.P.RepoSrcFuncs("smartcontract/service/neovm", "smartcontract/service/native", "smartcontract/service/wasmvm")
	var scope2 []*ssa.Function
	for _, fn := range scope {
		if !strings.Contains(an.FuncPkgPath(fn), "/testsuite") && !strings.HasSuffix(c.P.Fset.Position(fn.Pos()).Filename, "_test.go") {
			scope2 = append(scope2, fn)
		}
	}
	c.Count("functions_analysed", len(scope2))
	sccs := an.RecursiveSCCs(scope2, an.StaticEdges)
	bounded := map[*ssa.Function]bool{}
	type pend struct{ s *an.SCC }
	var later []pend
	for _, s := range sccs {
		kind, why := sccJustify(c, s, nil, scope2)
		key := "recursion-scc|" + s.Name()
		rule := "every recursive component on the execution path is bounded (growing depth/count bound, input-consuming reads, or structural recursion over a decoder-bounded tree)"
		if kind != "" {
			for _, f := range s.Funcs {
				bounded[f] = true
			}
			c.Hold(key, rule, c.P.Rel(s.Funcs[0].Pos()), kind)
			continue
		}
		_ = why
		later = append(later, pend{s})
	}
	for _, p := range later {
		key := "recursion-scc|" + p.s.Name()
		rule := "every recursive component on the execution path is bounded (growing depth/count bound, input-consuming reads, or structural recursion over a decoder-bounded tree)"
		t, why := structuralOnDecoded(c, p.s, bounded, scope2)
		c.Check(t != "", key, rule, c.P.Rel(p.s.Funcs[0].Pos()), "no bound found and not structural recursion over a decoder-built tree: "+why)
	}
	c.RequireMin("recursive components in the native/NeoVM service packages", len(sccs), 4)

	// (2) explicit panics
	all := c.P.RepoSrcFuncs("vm/neovm", "smartcontract/service/neovm", "smartcontract/service/native")
	valType := c.P.Field(nvt + ".VmValue.valType")
	valDomain := storedConstants(c, valType, c.P.RepoSrcFuncs(nvt))
	c.RequireMin("constants stored into VmValue.valType", len(valDomain), 8)
	nPanic, nProven := 0, 0
	for _, fn := range all {
		if strings.Contains(an.FuncPkgPath(fn), "/testsuite") || strings.HasSuffix(c.P.Fset.Position(fn.Pos()).Filename, "_test.go") {
			continue
		}
		idx := 0
		for _, b := range fn.Blocks {
			for _, in := range b.Instrs {
				pn, ok := in.(*ssa.Panic)
				if !ok || !pn.Pos().IsValid() {
					continue
				}
				nPanic++
				idx++
				key := fmt.Sprintf("panic|%s|#%d", an.FuncName(fn), idx)
				rule := "an explicit panic on the execution path is unreachable for every value of the switched variable, or is listed with a reason"
				if why := enumUnreachable(c, fn, pn, valType, valDomain); why == "" {
					nProven++
					c.Hold(key, rule, c.P.Rel(pn.Pos()), "unreachable for every value of the enumerated domain")
					continue
				} else if reason, listed := c12PanicTable[an.FuncName(fn)]; listed {
					c.Note(key, rule, c.P.Rel(pn.Pos()), "decided by reading: "+reason)
				} else {
					c.Violate(key, rule, c.P.Rel(pn.Pos()), "explicit panic not proven unreachable ("+why+") and not listed")
				}
			}
		}
	}
	c.RequireMin("explicit panics in scope", nPanic, 5)
	c.RequireMin("explicit panics proven unreachable by enumeration", nProven, 3)

	// (3) unchecked type assertions on engine results
	engineAssertions(c, all)

	// (4) bounds and division
	nSites, nProved := 0, 0
	cg := c.P.CallGraph()
	for _, fn := range c.P.RepoSrcFuncs("vm/neovm", "smartcontract/service/neovm") {
		if strings.HasSuffix(c.P.Fset.Position(fn.Pos()).Filename, "_test.go") {
			continue
		}
		sites := an.BoundSites(fn)
		if len(sites) == 0 {
			continue
		}
		dead := fn.Parent() == nil && len(cg.Callers(fn)) == 0 && !isRegisteredHandler(fn)
		for i, s := range sites {
			nSites++
			key := fmt.Sprintf("bounds|%s|%s#%d", an.FuncName(fn), s.Kind, i+1)
			rule := "a slice/index expression whose bound comes from a call result is proven in range by dominating comparisons (sums need both addends bounded, so that they cannot wrap around)"
			res := an.ProveBounds(fn, s)
			switch {
			case res.OK:
				nProved++
				c.Hold(key, rule, c.P.Rel(s.Pos()), "")
			case dead:
				c.Note(key, rule, c.P.Rel(s.Pos()), "function has no caller in the program (dead code): "+res.Why)
			default:
				if why, ok := c12BoundsTable[an.FuncName(fn)]; ok {
					c.Note(key, rule, c.P.Rel(s.Pos()), "decided by reading: "+why)
				} else {
					c.Violate(key, rule, c.P.Rel(s.Pos()), res.Why)
				}
			}
		}
	}
	c.RequireMin("slice/index sites with call-derived bounds in the NeoVM packages", nSites, 3)
	c.RequireMin("of which proven in range", nProved, 3)
	// division by a non-constant in the NeoVM packages: guarded by a zero test
	nDiv := 0
	for _, fn := range c.P.RepoSrcFuncs("vm/neovm", "smartcontract/service/neovm") {
		for _, b := range fn.Blocks {
			for _, in := range b.Instrs {
				bo, ok := in.(*ssa.BinOp)
				if !ok || (bo.Op != token.QUO && bo.Op != token.REM) {
					continue
				}
				if _, isC := bo.Y.(*ssa.Const); isC {
					continue
				}
				if bt, isB := bo.Type().Underlying().(*types.Basic); !isB || bt.Info()&types.IsInteger == 0 {
					continue
				}
				nDiv++
				key := fmt.Sprintf("div|%s|%d", an.FuncName(fn), nDiv)
				c.Check(divisorNonZero(fn, bo), key, "integer division by a run-time value is guarded by a zero test of the divisor", c.P.Rel(bo.Pos()), "no zero test of the divisor dominates the division (in this function or at the only call site)")
			}
		}
	}
}

// isRegisteredHandler: fn's address is taken somewhere (service registration).
func isRegisteredHandler(fn *ssa.Function) bool {
	return fn.Referrers() != nil && len(*fn.Referrers()) > 0
}

// storedConstants: the set of constants ever stored into field f (0 included:
// the zero value of the struct).
func storedConstants(c *an.Ctx, f *types.Var, fns []*ssa.Function) []int64 {
	if f == nil {
		c.Undecide("anchor|VmValue.valType", "anchors must resolve", "-", "field not found")
		return nil
	}
	set := map[int64]bool{0: true}
	for _, fn := range fns {
		for _, w := range an.DirectFieldWrites(fn) {
			if w.Field != f || w.Kind != "store" {
				continue
			}
			k, ok := w.Val.(*ssa.Const)
			if !ok || k.Value == nil {
				// copied from another value's valType: same domain
				if g := fieldOfLoad(w.Val); g == f {
					continue
				}
				c.Violate("enum|VmValue.valType|non-constant-store", "the type tag of a VM value is only ever assigned one of the declared constants", c.P.Rel(w.In.Pos()), "valType assigned a computed value in "+an.FuncName(fn))
				continue
			}
			var n int64
			fmt.Sscanf(k.Value.ExactString(), "%d", &n)
			set[n] = true
		}
	}
	var out []int64
	for k := range set {
		out = append(out, k)
	}
	sort.Slice(out, func(i, j int) bool { return out[i] < out[j] })
	return out
}

// enumUnreachable: returns "" if the panic is unreachable for every value of
// the enumerated variable that the dominating branch conditions test.
func enumUnreachable(c *an.Ctx, fn *ssa.Function, pn *ssa.Panic, valType *types.Var, valDomain []int64) string {
	// candidates: 8-bit parameters, and loads of VmValue.valType
	var tried []string
	for _, p := range fn.Params {
		if b, ok := p.Type().Underlying().(*types.Basic); ok && b.Kind() == types.Uint8 {
			ok := true
			for v := int64(0); v < 256; v++ {
				r := (&an.Query{Fn: fn, Assume: map[ssa.Value]an.Abs{p: an.AInt(v)}}).Run()
				if r.Reaches(pn) {
					ok = false
					break
				}
			}
			if ok {
				return ""
			}
			tried = append(tried, "parameter "+p.Name())
		}
	}
	if valType != nil {
		loads := loadsOfField(fn, valType)
		stores := storesToField(fn, valType)
		if len(loads) > 0 && len(stores) == 0 {
			ok := true
			for _, v := range valDomain {
				as := map[ssa.Value]an.Abs{}
				for _, l := range loads {
					// only loads through the receiver (self.valType)
					as[l] = an.AInt(v)
				}
				r := (&an.Query{Fn: fn, Assume: as}).Run()
				if r.Reaches(pn) {
					ok = false
					break
				}
			}
			if ok {
				return ""
			}
			tried = append(tried, "VmValue.valType")
		}
	}
	if len(tried) == 0 {
		return "no enumerable switch variable"
	}
	return "reachable for some value of " + strings.Join(tried, ", ")
}

// engineAssertions: x.(T) without comma-ok where x is the result of an
// execution engine.
func engineAssertions(c *an.Ctx, fns []*ssa.Function) {
	neoInvoke := mustFunc(c, "smartcontract/service/neovm.(*NeoVmService).Invoke")
	wasmInvoke := mustFunc(c, "smartcontract/service/wasmvm.(*WasmVmService).Invoke")
	newEngine := mustFunc(c, "smartcontract.(*SmartContract).NewExecuteEngine")
	if neoInvoke == nil || wasmInvoke == nil || newEngine == nil {
		return
	}
	// what NewExecuteEngine returns per kind: collect (constant kind compared) is not needed: both engines are
	// identified by their dynamic result types
	resultTypes := func(fn *ssa.Function) (dyn map[string]bool, nilOnSuccess bool) {
		dyn = map[string]bool{}
		for _, r := range an.Returns(fn) {
			if len(r.Results) != 2 {
				continue
			}
			if k, isK := r.Results[1].(*ssa.Const); !isK || k.Value != nil {
				continue // error return (or unknown): only success returns matter
			}
			for _, src := range an.AllSources(r.Results[0]) {
				switch x := src.(type) {
				case *ssa.MakeInterface:
					dyn[x.X.Type().String()] = true
				case *ssa.Const:
					if x.Value == nil {
						nilOnSuccess = true
					}
				default:
					dyn["?"+src.String()] = true
				}
			}
		}
		return
	}
	neoDyn, neoNil := resultTypes(neoInvoke)
	wasmDyn, wasmNil := resultTypes(wasmInvoke)
	engDyn, _ := resultTypes(newEngine)
	c.Extra["engine_result_types"] = map[string]interface{}{"NeoVmService.Invoke": keysOf(neoDyn), "NeoVmService.Invoke may return nil on success": neoNil, "WasmVmService.Invoke": keysOf(wasmDyn), "WasmVmService.Invoke may return nil on success": wasmNil, "NewExecuteEngine": keysOf(engDyn)}
	n := 0
	for _, fn := range fns {
		if strings.Contains(an.FuncPkgPath(fn), "/testsuite") || strings.HasSuffix(c.P.Fset.Position(fn.Pos()).Filename, "_test.go") {
			continue
		}
		idx := 0
		for _, b := range fn.Blocks {
			for _, in := range b.Instrs {
				ta, ok := in.(*ssa.TypeAssert)
				if !ok || ta.CommaOk {
					continue
				}
				if _, isIface := ta.AssertedType.Underlying().(*types.Interface); isIface {
					continue
				}
				idx++
				n++
				key := fmt.Sprintf("assert|%s|#%d", an.FuncName(fn), idx)
				rule := "an unchecked type assertion on an engine result cannot fail: every success return of the concrete engine yields that dynamic type, and a possible nil result is excluded by a dominating nil test"
				want := ta.AssertedType.String()
				// where does x come from?
				src := ta.X
				if e, isE := src.(*ssa.Extract); isE {
					src = e.Tuple
				}
				call, isCall := src.(*ssa.Call)
				if !isCall {
					c.Violate(key, rule, c.P.Rel(ta.Pos()), "the asserted value is not an engine call result")
					continue
				}
				name := ""
				if o := an.CalleeObj(call.Common()); o != nil {
					name = o.Name()
				}
				var dyn map[string]bool
				mayNil := false
				switch name {
				case "NewExecuteEngine":
					dyn = engDyn
				case "Invoke", "CrossChainNeoVMCall":
					// which engine? by the asserted type
					if strings.HasSuffix(want, "VmValue") {
						dyn, mayNil = neoDyn, neoNil
					} else {
						dyn, mayNil = wasmDyn, wasmNil
					}
				default:
					c.Violate(key, rule, c.P.Rel(ta.Pos()), "the asserted value comes from "+name+", which is not a known engine entry point")
					continue
				}
				if !dyn[want] {
					c.Violate(key, rule, c.P.Rel(ta.Pos()), fmt.Sprintf("asserted %s, but the engine returns %v", want, keysOf(dyn)))
					continue
				}
				if name == "NewExecuteEngine" {
					// several engine kinds: the kind argument must be the constant that selects the asserted engine
					kind := argsNoRecv(call.Common())[1]
					_, isK := kind.(*ssa.Const)
					c.Check(isK, key, rule, c.P.Rel(ta.Pos()), "the engine kind passed to NewExecuteEngine is not a constant")
					continue
				}
				if mayNil {
					// x != nil in either spelling (if x == nil { return }): the guard fails when "x == nil" holds
					gs := relGuards("x != nil", token.EQL, func(x ssa.Value) bool { return x == ta.X }, func(y ssa.Value) bool {
						k, isK := y.(*ssa.Const)
						return isK && k.Value == nil
					})
					v := an.Guarded(c.P, fn, gs, func(x ssa.Instruction) bool { return x == ssa.Instruction(ta) }, false)
					c.Check(v.Holds && v.GuardSites >= 1, key, rule, c.P.Rel(ta.Pos()), "the engine can return (nil, nil) — e.g. NeoVmService.Invoke when the evaluation stack is empty — and no nil test guards the assertion: a nil interface makes x.(T) panic")
					continue
				}
				c.Hold(key, rule, c.P.Rel(ta.Pos()), "")
			}
		}
	}
	c.RequireMin("unchecked concrete type assertions in scope", n, 4)
}

func keysOf(m map[string]bool) []string {
	var out []string
	for k := range m {
		out = append(out, k)
	}
	sort.Strings(out)
	return out
}

// divisorNonZero: a comparison of the divisor (or of a call on it named
// IsZero/Sign) with zero dominates the division, in fn or — for a function
// literal — in the enclosing function before the literal is used.
func divisorNonZero(fn *ssa.Function, bo *ssa.BinOp) bool {
	check := func(f *ssa.Function, at ssa.Instruction, div ssa.Value) bool {
		for _, b := range f.Blocks {
			for _, in := range b.Instrs {
				switch x := in.(type) {
				case *ssa.BinOp:
					isDiv := func(v ssa.Value) bool {
						return v == div || an.AccessPath(v) == an.AccessPath(div) && an.AccessPath(div) != ""
					}
					// div == 0, div != 0, div > 0, div <= 0 and the same with the operands mirrored
					direct := (x.Op == token.EQL || x.Op == token.NEQ || x.Op == token.GTR || x.Op == token.LEQ) && isDiv(x.X)
					mirrored := (x.Op == token.EQL || x.Op == token.NEQ || x.Op == token.LSS || x.Op == token.GEQ) && isDiv(x.Y)
					if direct || mirrored {
						if at == nil || x.Block().Dominates(at.Block()) {
							return true
						}
					}
				case *ssa.Call:
					if o := an.CalleeObj(x.Common()); o != nil && (o.Name() == "IsZero" || o.Name() == "Sign") {
						if at == nil || x.Block().Dominates(at.Block()) {
							return true
						}
					}
				}
			}
		}
		return false
	}
	if check(fn, bo, bo.Y) {
		return true
	}
	if p := fn.Parent(); p != nil {
		// the literal is the machine-integer fast path handed to intOp after the caller tested the divisor
		return check(p, nil, nil)
	}
	return false
}
