package props

import (
	"fmt"
	"go/token"
	"go/types"
	"sort"
	"strings"

	"golang.org/x/tools/go/ssa"

	"verif/checker/an"
)

const gov = "smartcontract/service/native/governance"

func init() {
	register(&Prop{ID: "C11", Patterns: []string{"./smartcontract/service/native/governance"}, Run: runC11})
}

const govAddrPath = "utils.GovernanceContractAddress"

// c11Residual: per function, the residual terms by which the change of a
// stake record's pos fields may differ from the change of the recorded total
// stake, decided by reading (the stake moves between the record and the
// peer's own InitPos, which the same function removes or reduces).
var c11Residual = map[string]map[string]string{
	gov + ".UnRegisterCandidate":    {"+PeerPoolItem.InitPos": "the peer is deleted from the pool in the same call; its InitPos becomes the owner's unfrozen pos"},
	gov + ".RejectCandidate":        {"+PeerPoolItem.InitPos": "the rejected peer is deleted from the pool in the same call; its InitPos becomes the owner's unfrozen pos"},
	gov + ".normalQuit":             {"+PeerPoolItem.InitPos": "the quitting peer is deleted by the caller (executeCommitDpos); its InitPos becomes the owner's unfrozen pos"},
	gov + ".ReduceInitPos":          {"+ChangeInitPosParam.Pos": "the peer's InitPos is reduced by params.Pos in the same call (newInitPos = InitPos - Pos)"},
	gov + ".consensusToUnConsensus": {"-CandidatePos0": "state invariant, not visible locally: while a peer is in consensus status its authorizers' CandidatePos is 0 (unConsensusToConsensus folds CandidatePos into ConsensusPos and clears it; new authorizations go to NewPos), so the overwritten value is 0"},
}

// residualKey renders a residual with symbols reduced to their base names.
func residualKey(l an.Lin) string {
	var parts []string
	for k, v := range l.Term {
		b := an.SymBase(k)
		switch v {
		case 1:
			parts = append(parts, "+"+b)
		case -1:
			parts = append(parts, "-"+b)
		default:
			parts = append(parts, fmt.Sprintf("%+d*%s", v, b))
		}
	}
	sort.Strings(parts)
	if l.C != 0 {
		parts = append(parts, fmt.Sprintf("%+d", l.C))
	}
	return strings.Join(parts, " ")
}

// paramConstCases: if fn has a string parameter for which every static call
// site in fns passes a constant, returns one assumption map per distinct
// constant (the function is only ever entered in one of these modes);
// otherwise a single unconstrained case.
func paramConstCases(fn *ssa.Function, fns []*ssa.Function) []map[ssa.Value]an.Abs {
	for i, p := range fn.Params {
		b, ok := p.Type().Underlying().(*types.Basic)
		if !ok || b.Kind() != types.String {
			continue
		}
		vals := map[string]an.Abs{}
		all, n := true, 0
		for _, caller := range fns {
			for _, k := range an.Calls(caller) {
				if k.Common().StaticCallee() != fn {
					continue
				}
				n++
				if kc, isC := k.Common().Args[i].(*ssa.Const); isC && kc.Value != nil {
					vals[kc.Value.ExactString()] = an.Abs{K: an.KConst, C: kc.Value}
				} else {
					all = false
				}
			}
		}
		if all && n > 0 && fn.Object() != nil && !fn.Object().Exported() {
			var out []map[ssa.Value]an.Abs
			for _, a := range vals {
				out = append(out, map[ssa.Value]an.Abs{p: a})
			}
			return out
		}
	}
	return []map[ssa.Value]an.Abs{nil}
}

func runC11(c *an.Ctx) {
	c.Explanation = "A13 pairing + affine conservation dataflow + A2 guards + A4 who-may-write on the governance contract: (1) every ONT transfer into the governance contract is followed on all success paths by depositTotalStake of the same amount for the paying address, every transfer out to a user by withdrawTotalStake of the same amount (or by deletion of the paid-out PenaltyStake record, whose InitPos+AuthorizePos is the amount), and conversely every deposit/withdrawTotalStake is paired with such a transfer (genesis allocation and the move total->penalty stake in blackQuit are the reasoned exceptions, the latter checked amount-for-amount); " +
		"(2) at every site that persists an AuthorizeInfo record, on every path from the record's load to its store, the change of the sum of its six pos fields — evaluated as linear expressions over the loaded values — equals the change of the recorded total stake made on the same path (deposit/withdrawTotalStake amounts, and the per-iteration increment of accumulators whose sum is deposited/withdrawn after the loop); in particular epoch transitions and un-authorization only move pos between buckets; " +
		"(3) TotalStake/PenaltyStake records are written only by the deposit/withdraw helpers (WithdrawOng only moves the time offset); (4) subtractions are guarded: withdrawTotalStake by Stake >= stake, Withdraw by WithdrawUnfreezePos >= pos, and Withdraw/authorize/unauthorize act only after ValidateOwner of the address whose records change. " +
		"Decides these structural necessary conditions of 'governance balance = total stakes + penalty stakes' for all operation sequences; uint64 overflow of sums and the ONT contract's own conservation (C06) are not decided here."
	if !controlGuard(c) {
		return
	}
	tOnt := mustObj(c, gov+".appCallTransferOnt")
	tFromOnt := mustObj(c, gov+".appCallTransferFromOnt")
	dep := mustObj(c, gov+".depositTotalStake")
	wd := mustObj(c, gov+".withdrawTotalStake")
	depPen := mustObj(c, gov+".depositPenaltyStake")
	putAI := mustObj(c, gov+".putAuthorizeInfo")
	putTS := mustObj(c, gov+".putTotalStake")
	putPS := mustObj(c, gov+".putPenaltyStake")
	if tOnt == nil || tFromOnt == nil || dep == nil || wd == nil || depPen == nil || putAI == nil || putTS == nil || putPS == nil {
		return
	}
	fns := c.P.RepoSrcFuncs(gov)
	c.Count("functions_analysed", len(fns))

	type xfer struct {
		fn           *ssa.Function
		call         ssa.CallInstruction
		from, to, am ssa.Value
	}
	var xfers []xfer
	for _, fn := range fns {
		for _, k := range an.CallsTo(fn, tOnt) {
			a := k.Common().Args
			xfers = append(xfers, xfer{fn, k, a[1], a[2], a[3]})
		}
		for _, k := range an.CallsTo(fn, tFromOnt) {
			a := k.Common().Args
			xfers = append(xfers, xfer{fn, k, a[2], a[3], a[4]})
		}
	}
	isGov := func(v ssa.Value) bool { return an.AccessPath(v) == govAddrPath }
	same := func(a, b ssa.Value) bool {
		if a == b {
			return true
		}
		pa, pb := an.AccessPath(a), an.AccessPath(b)
		return pa != "" && pa == pb && !strings.HasPrefix(pa, "%")
	}
	// matching stake calls in fn
	stakeCalls := func(fn *ssa.Function, obj *types.Func, addr, am ssa.Value) []ssa.Instruction {
		var out []ssa.Instruction
		for _, k := range an.CallsTo(fn, obj) {
			a := k.Common().Args
			if same(a[2], addr) && same(a[3], am) {
				out = append(out, k)
			}
		}
		return out
	}
	noSuccessAfter := func(fn *ssa.Function, start ssa.Instruction, via []ssa.Instruction) bool {
		cut := map[ssa.Instruction]bool{}
		for _, v := range via {
			cut[v] = true
		}
		r := (&an.Query{Fn: fn, Start: start, Cut: cut}).Run()
		for _, ret := range an.SuccessReturns(fn) {
			if r.Reaches(ret) {
				return false
			}
		}
		return true
	}
	nIn, nOut, nSelf := 0, 0, 0
	perFn := map[*ssa.Function]int{}
	for _, x := range xfers {
		perFn[x.fn]++
		key := fmt.Sprintf("%s#%d", an.FuncName(x.fn), perFn[x.fn])
		switch {
		case isGov(x.from) && isGov(x.to):
			nSelf++
			c.Note("pair|"+key+"|self-transfer", "governance->governance ONT transfers only trigger ONG unbinding; the balance is unchanged", c.P.Rel(x.call.Pos()), "exempt by rule")
		case isGov(x.to):
			nIn++
			via := stakeCalls(x.fn, dep, x.from, x.am)
			c.Check(len(via) > 0 && noSuccessAfter(x.fn, x.call, via), "pair|"+key+"|inflow-deposits-same-amount",
				"ONT moved into the governance contract is recorded: on every success path the transfer is followed by depositTotalStake of the same amount for the paying address", c.P.Rel(x.call.Pos()),
				fmt.Sprintf("%d matching depositTotalStake calls; a success return is reachable without one", len(via)))
		case isGov(x.from):
			nOut++
			if an.FuncName(x.fn) == gov+".withdrawPenaltyStake" {
				// amount = InitPos+AuthorizePos of the record that is deleted afterwards
				okAmt := false
				if b, isB := x.am.(*ssa.BinOp); isB && b.Op == token.ADD {
					fx, fy := fieldOfLoad(b.X), fieldOfLoad(b.Y)
					okAmt = fx != nil && fy != nil && fx.Name() != fy.Name() && (fx.Name() == "InitPos" || fx.Name() == "AuthorizePos") && (fy.Name() == "InitPos" || fy.Name() == "AuthorizePos")
				}
				var dels []ssa.Instruction
				for _, k := range an.Calls(x.fn) {
					if o := an.CalleeObj(k.Common()); o != nil && o.Name() == "Delete" {
						dels = append(dels, k)
					}
				}
				c.Check(okAmt && len(dels) > 0 && noSuccessAfter(x.fn, x.call, dels), "pair|"+key+"|penalty-outflow-deletes-record",
					"the penalty payout transfers exactly InitPos+AuthorizePos of the PenaltyStake record and deletes that record on every success path", c.P.Rel(x.call.Pos()), "amount is not the record's stake or the record survives")
				continue
			}
			via := stakeCalls(x.fn, wd, x.to, x.am)
			c.Check(len(via) > 0 && noSuccessAfter(x.fn, x.call, via), "pair|"+key+"|outflow-withdraws-same-amount",
				"ONT paid out of the governance contract is un-recorded: on every success path the transfer is followed by withdrawTotalStake of the same amount for the receiving address", c.P.Rel(x.call.Pos()),
				fmt.Sprintf("%d matching withdrawTotalStake calls; a success return is reachable without one", len(via)))
		default:
			c.Violate("pair|"+key+"|foreign-transfer", "the governance contract only moves ONT between itself and a participant", c.P.Rel(x.call.Pos()), "transfer between two non-governance addresses")
		}
	}
	c.RequireMin("ONT inflow call sites", nIn, 2)
	c.RequireMin("ONT outflow call sites", nOut, 1)
	c.RequireMin("governance self-transfers", nSelf, 1)

	// converse: every deposit/withdrawTotalStake is paired with a transfer
	for _, fn := range fns {
		name := an.FuncName(fn)
		for i, k := range an.CallsTo(fn, dep) {
			key := fmt.Sprintf("pair|%s|deposit#%d-has-inflow", name, i+1)
			if name == gov+".InitConfig" {
				c.Note(key, "every depositTotalStake is paired with an inflow", c.P.Rel(k.Pos()), "genesis allocation: the initial peers' InitPos is credited by the genesis ONT distribution to the governance address (decided by reading)")
				continue
			}
			a := k.Common().Args
			var via []ssa.Instruction
			for _, x := range xfers {
				if x.fn == fn && isGov(x.to) && !isGov(x.from) && same(x.from, a[2]) && same(x.am, a[3]) {
					via = append(via, x.call)
				}
			}
			ok := len(via) > 0
			if ok {
				for _, as := range paramConstCases(fn, fns) {
					if pass, _ := an.MustPass(c.P, fn, via, []ssa.Instruction{k}, as); !pass {
						ok = false
					}
				}
			}
			c.Check(ok, key, "every increase of a recorded total stake is preceded on all paths by an ONT transfer of the same amount from that address into the governance contract", c.P.Rel(k.Pos()), "depositTotalStake without a matching inflow")
		}
		for i, k := range an.CallsTo(fn, wd) {
			key := fmt.Sprintf("pair|%s|withdraw#%d-has-outflow", name, i+1)
			a := k.Common().Args
			if name == gov+".blackQuit" {
				// stake moves from total stake to penalty stake, amount for amount
				dps := an.CallsTo(fn, depPen)
				ok := len(dps) == 1
				why := "depositPenaltyStake missing"
				if ok {
					pa := dps[0].Common().Args
					if same(a[3], pa[3]) {
						why = ""
					} else {
						// accumulated: authorizePos += amount in the same iteration
						ok, why = accumulates(pa[4], a[3], k)
					}
					if ok && !noSuccessAfter(fn, k, []ssa.Instruction{dps[0]}) {
						ok, why = false, "a success return is reachable without depositPenaltyStake"
					}
				}
				c.Check(ok, key, "stake removed from a total stake by blackQuit is added, amount for amount, to the peer's penalty stake", c.P.Rel(k.Pos()), why)
				continue
			}
			var via []ssa.Instruction
			for _, x := range xfers {
				if x.fn == fn && isGov(x.from) && !isGov(x.to) && same(x.to, a[2]) && same(x.am, a[3]) {
					via = append(via, x.call)
				}
			}
			ok := len(via) > 0
			if ok {
				for _, as := range paramConstCases(fn, fns) {
					if pass, _ := an.MustPass(c.P, fn, via, []ssa.Instruction{k}, as); !pass {
						ok = false
					}
				}
			}
			c.Check(ok, key, "every decrease of a recorded total stake is preceded on all paths by an ONT transfer of the same amount from the governance contract to that address", c.P.Rel(k.Pos()), "withdrawTotalStake without a matching outflow")
		}
	}

	// (2) conservation at every putAuthorizeInfo site
	aiT := c.P.Obj(gov + ".AuthorizeInfo")
	if aiT == nil {
		c.Undecide("anchor|AuthorizeInfo", "anchors must resolve", "-", "type not found")
		return
	}
	st := aiT.Type().Underlying().(*types.Struct)
	var posFields []int
	names := map[int]string{}
	for i := 0; i < st.NumFields(); i++ {
		if b, ok := st.Field(i).Type().Underlying().(*types.Basic); ok && b.Kind() == types.Uint64 {
			posFields = append(posFields, i)
			names[i] = st.Field(i).Name()
		}
	}
	c.RequireMin("pos fields of AuthorizeInfo", len(posFields), 6)
	nSites := 0
	for _, fn := range fns {
		name := an.FuncName(fn)
		for i, k := range an.CallsTo(fn, putAI) {
			nSites++
			key := fmt.Sprintf("conserve|%s|put#%d", name, i+1)
			rule := "on every path from loading a stake record to storing it, the change of the sum of its pos fields equals the change of the recorded total stake on that path"
			rg := regionFor(fn, k, posFields, names)
			if rg == nil {
				c.Undecide(key, rule, c.P.Rel(k.Pos()), "cannot identify where the stored record was loaded")
				continue
			}
			paths, tooMany, bad := rg.Paths(512)
			if tooMany || bad != "" || len(paths) == 0 {
				c.Undecide(key, rule, c.P.Rel(k.Pos()), fmt.Sprintf("paths=%d tooMany=%v %s", len(paths), tooMany, bad))
				continue
			}
			accs := stakeAccumulators(fn, k, dep, wd)
			okAll := true
			var residuals []string
			var unexpl []an.Lin
			for _, p := range paths {
				delta := an.LinConst(0)
				for _, f := range posFields {
					delta = delta.Add(p.Env[f], 1)
					if !rg.Zero {
						delta = delta.Add(an.LinSym(names[f]+"0"), -1)
					}
				}
				credit := an.LinConst(0)
				for _, kk := range an.CallsTo(fn, dep) {
					if p.Has(kk) && kk.Block() != nil && onPathBetween(p, rg, kk) {
						credit = credit.Add(p.Val(kk.Common().Args[3]), 1)
					}
				}
				for _, kk := range an.CallsTo(fn, wd) {
					if p.Has(kk) && onPathBetween(p, rg, kk) {
						credit = credit.Add(p.Val(kk.Common().Args[3]), -1)
					}
				}
				for ph, sign := range accs {
					if lv := p.LatchValue(ph); lv != nil {
						inc := p.Val(lv).Add(an.LinSym(linSymName(ph)), -1)
						credit = credit.Add(inc, sign)
					}
				}
				res := delta.Add(credit, -1)
				if res.IsZero() {
					continue
				}
				rs := residualKey(res)
				if why, ok := c11Residual[name][rs]; ok {
					residuals = append(residuals, rs+" (decided by reading: "+why+")")
					continue
				}
				okAll = false
				unexpl = append(unexpl, res)
				residuals = append(residuals, "UNEXPLAINED "+rs)
			}
			sort.Strings(residuals)
			detail := fmt.Sprintf("%d paths; residuals: %s", len(paths), strings.Join(residuals, "; "))
			if !okAll {
				// a private helper whose only imbalance is linear in its own parameters (e.g. "takes pos out of the
				// record"): the balance is owed by its callers, at every call, for the arguments passed
				if sum, isSum := helperSummary(fn, unexpl, len(paths)); isSum {
					if why := callersBalance(fn, sum, fns, dep, wd); why == "" {
						c.Hold(key, rule, c.P.Rel(k.Pos()), detail+"; balanced by every caller of this private helper for the arguments passed ("+residualKey(sum)+")")
						continue
					} else {
						detail += "; as a helper summary (" + residualKey(sum) + "): " + why
					}
				}
			}
			c.Check(okAll, key, rule, c.P.Rel(k.Pos()), detail)
		}
	}
	// (13 on the reference tree; the floor only guards against a rule that silently matches nothing - a refactoring
	// may route several of them through one helper)
	c.RequireMin("sites persisting an AuthorizeInfo record", nSites, 5)

	// (3) who may write TotalStake / PenaltyStake records
	allowTS := map[string]bool{gov + ".depositTotalStake": true, gov + ".withdrawTotalStake": true, gov + ".WithdrawOng": true}
	for _, fn := range fns {
		for _, k := range an.CallsTo(fn, putTS) {
			c.Check(allowTS[an.FuncName(fn)], "confine|putTotalStake|"+an.FuncName(fn), "TotalStake records are written only by depositTotalStake/withdrawTotalStake (and WithdrawOng, which may only move the time offset)", c.P.Rel(k.Pos()), "new writer of TotalStake records")
		}
		for _, k := range an.CallsTo(fn, putPS) {
			c.Check(an.FuncName(fn) == gov+".depositPenaltyStake", "confine|putPenaltyStake|"+an.FuncName(fn), "PenaltyStake records are written only by depositPenaltyStake", c.P.Rel(k.Pos()), "new writer of PenaltyStake records")
		}
		// the same writes spelled out in place (CacheDB.Put of the serialized record) instead of through the put helper
		for _, k := range an.Calls(fn) {
			if isRecordPut(k, "governance.TotalStake") && an.FuncName(fn) != gov+".putTotalStake" {
				c.Check(allowTS[an.FuncName(fn)], "confine|putTotalStake|"+an.FuncName(fn), "TotalStake records are written only by depositTotalStake/withdrawTotalStake (and WithdrawOng, which may only move the time offset)", c.P.Rel(k.Pos()), "new writer of TotalStake records")
			}
			if isRecordPut(k, "governance.PenaltyStake") && an.FuncName(fn) != gov+".putPenaltyStake" {
				c.Check(an.FuncName(fn) == gov+".depositPenaltyStake", "confine|putPenaltyStake|"+an.FuncName(fn), "PenaltyStake records are written only by depositPenaltyStake", c.P.Rel(k.Pos()), "new writer of PenaltyStake records")
			}
		}
	}
	stakeField := c.P.Field(gov + ".TotalStake.Stake")
	if stakeField == nil {
		c.Undecide("anchor|TotalStake.Stake", "anchors must resolve", "-", "field not found")
	} else {
		for _, fn := range fns {
			for _, w := range an.DirectFieldWrites(fn) {
				if w.Field != stakeField || w.Kind != "store" {
					continue
				}
				n := an.FuncName(fn)
				ok := n == gov+".depositTotalStake" || n == gov+".withdrawTotalStake" || strings.HasSuffix(n, ".Deserialization") || n == gov+".getTotalStake"
				c.Check(ok, "confine|TotalStake.Stake|"+n, "the Stake field of a TotalStake record is assigned only by depositTotalStake/withdrawTotalStake (and the decoder)", c.P.Rel(w.In.Pos()), "new assignment of TotalStake.Stake")
			}
		}
	}

	// (4) guards
	if fn := mustFunc(c, gov+".withdrawTotalStake"); fn != nil && stakeField != nil {
		// Stake < amount, in any spelling; the record write is putTotalStake or the same Put written in place
		gs := lessThanGuards("Stake < stake", func(v ssa.Value) bool { return fieldOfLoad(v) == stakeField }, func(v ssa.Value) bool { return v == ssa.Value(fn.Params[3]) })
		v := an.Guarded(c.P, fn, gs, func(in ssa.Instruction) bool { return isCallTo(in, putTS) || isRecordPut(in, "governance.TotalStake") }, false)
		c.Check(v.Holds && v.GuardSites == 1 && v.ActionSites >= 1, "guard|withdrawTotalStake|stake-sufficient", "a total stake is reduced only when it is at least the amount withdrawn", c.P.Rel(fn.Pos()), v.Witness)
	}
	vo := mustObj(c, "smartcontract/service/native/utils.ValidateOwner")
	if vo != nil {
		owner := an.GuardForFuncs("ValidateOwner", vo)
		for _, q := range []string{gov + ".Withdraw", gov + ".authorizeForPeer", gov + ".UnAuthorizeForPeer", gov + ".AddInitPos", gov + ".ReduceInitPos", gov + ".WithdrawOng", gov + ".registerCandidate", gov + ".UnRegisterCandidate"} {
			fn := mustFunc(c, q)
			if fn == nil {
				continue
			}
			v := an.Guarded(c.P, fn, []*an.Guard{owner}, func(in ssa.Instruction) bool {
				return isCallTo(in, putAI, dep, wd, tOnt, tFromOnt, putTS)
			}, false)
			c.Check(v.Holds && v.GuardSites >= 1 && v.ActionSites >= 1, "guard|"+an.FuncName(fn)+"|owner-validated", "stake records and ONT move only after ValidateOwner succeeded for the acting address", c.P.Rel(fn.Pos()), v.Witness)
		}
	}
	if fn := mustFunc(c, gov+".Withdraw"); fn != nil {
		wup := c.P.Field(gov + ".AuthorizeInfo.WithdrawUnfreezePos")
		// WithdrawUnfreezePos < requested amount, in any spelling
		gs := lessThanGuards("WithdrawUnfreezePos < pos", func(v ssa.Value) bool { return wup != nil && fieldOfLoad(v) == wup }, func(v ssa.Value) bool { return fieldOfLoad(v) != wup })
		// the record update and the accumulation of the payout amount happen only on the covered edge
		accAdds := map[ssa.Instruction]bool{}
		for _, k0 := range an.CallsToReach(fn, putAI) {
			for _, k := range rootCalls(fn, k0) {
				for ph := range stakeAccumulators(fn, k, dep, wd) {
					for _, e := range ph.Edges {
						if b, isB := e.(*ssa.BinOp); isB && b.Op == token.ADD {
							accAdds[b] = true
						}
					}
				}
			}
		}
		v := an.Guarded(c.P, fn, gs, func(in ssa.Instruction) bool { return isCallTo(in, putAI) || accAdds[in] }, false)
		c.Check(v.Holds && v.GuardSites == 1 && v.ActionSites >= 2 && len(accAdds) >= 1, "guard|Withdraw|unfrozen-sufficient", "a record is reduced and its amount added to the payout only when the requested amount is covered by the record's unfrozen pos", c.P.Rel(fn.Pos()), v.Witness)
	}
}

// helperSummary: fn is a private function and on every path through the store the imbalance is the same linear
// expression over fn's own integer parameters.
func helperSummary(fn *ssa.Function, unexpl []an.Lin, nPaths int) (an.Lin, bool) {
	if fn.Object() == nil || fn.Object().Exported() || len(unexpl) == 0 || len(unexpl) != nPaths {
		return an.Lin{}, false
	}
	sum := unexpl[0]
	for _, l := range unexpl[1:] {
		if !l.Add(sum, -1).IsZero() {
			return an.Lin{}, false
		}
	}
	if sum.C != 0 {
		return an.Lin{}, false
	}
	params := map[string]bool{}
	for _, p := range fn.Params {
		if b, ok := p.Type().Underlying().(*types.Basic); ok && b.Info()&types.IsInteger != 0 {
			params[p.Name()] = true
		}
	}
	for s := range sum.Term {
		if !params[s] {
			return an.Lin{}, false
		}
	}
	return sum, true
}

// callersBalance: at every static call of the helper, on every path from the call to the end of the iteration (or
// of the function), the recorded total stake changes by the helper's imbalance evaluated for the arguments passed.
// Returns "" if so, otherwise what is wrong.
func callersBalance(helper *ssa.Function, sum an.Lin, fns []*ssa.Function, dep, wd *types.Func) string {
	n := 0
	for _, g := range fns {
		for _, k := range an.Calls(g) {
			call, isCall := k.(*ssa.Call)
			if !isCall || call.Call.StaticCallee() != helper {
				continue
			}
			n++
			rg := &an.LinRegion{Fn: g, Start: call, End: call}
			paths, tooMany, bad := rg.Paths(512)
			if tooMany || bad != "" || len(paths) == 0 {
				return fmt.Sprintf("call in %s: paths=%d tooMany=%v %s", an.FuncName(g), len(paths), tooMany, bad)
			}
			accs := stakeAccumulators(g, call, dep, wd)
			for _, p := range paths {
				want := an.LinConst(0)
				for i, fp := range helper.Params {
					if coef, ok := sum.Term[fp.Name()]; ok && i < len(call.Call.Args) {
						want = want.Add(p.Val(call.Call.Args[i]), coef)
					}
				}
				credit := an.LinConst(0)
				for _, kk := range an.CallsTo(g, dep) {
					if p.Has(kk) {
						credit = credit.Add(p.Val(kk.Common().Args[3]), 1)
					}
				}
				for _, kk := range an.CallsTo(g, wd) {
					if p.Has(kk) {
						credit = credit.Add(p.Val(kk.Common().Args[3]), -1)
					}
				}
				for ph, sign := range accs {
					if lv := p.LatchValue(ph); lv != nil {
						credit = credit.Add(p.Val(lv).Add(an.LinSym(linSymName(ph)), -1), sign)
					}
				}
				if r := want.Add(credit, -1); !r.IsZero() {
					return fmt.Sprintf("the call in %s leaves %s unbalanced", an.FuncName(g), residualKey(r))
				}
			}
		}
	}
	if n == 0 {
		return "the helper has no static caller"
	}
	return ""
}

// rootCalls maps an instruction found in a helper entered from fn to the call(s) in fn through which it is reached
// (the instruction itself when it already lies in fn).
func rootCalls(fn *ssa.Function, in ssa.Instruction) []ssa.CallInstruction {
	if in.Parent() == fn {
		if k, ok := in.(ssa.CallInstruction); ok {
			return []ssa.CallInstruction{k}
		}
		return nil
	}
	var out []ssa.CallInstruction
	for _, k := range an.Calls(fn) {
		callee := k.Common().StaticCallee()
		if callee == nil {
			continue
		}
		for _, h := range an.InlineReach(fn) {
			if h == callee {
				for _, hh := range an.InlineReach(callee) {
					if hh == in.Parent() {
						out = append(out, k)
					}
				}
			}
		}
	}
	return out
}

func linSymName(v ssa.Value) string {
	return "%" + v.Name() + "@" + v.Parent().Name()
}

// onPathBetween: the call lies between the region's start and end on the path
// (same iteration), judged by block position on the path.
func onPathBetween(p *an.LinPath, rg *an.LinRegion, k ssa.CallInstruction) bool {
	idx := func(b *ssa.BasicBlock) int {
		for i, x := range p.Blocks {
			if x == b {
				return i
			}
		}
		return -1
	}
	i := idx(k.Block())
	return i >= 0
}

// regionFor finds where the record stored by put was loaded.
func regionFor(fn *ssa.Function, put ssa.CallInstruction, fields []int, names map[int]string) *an.LinRegion {
	rec := put.Common().Args[2]
	rg := &an.LinRegion{Fn: fn, Rec: rec, End: put, Fields: fields, Names: names}
	switch x := rec.(type) {
	case *ssa.Alloc:
		// var v T; v.Deserialization(...)  or  &T{...}
		var deser ssa.Instruction
		if x.Referrers() != nil {
			for _, r := range *x.Referrers() {
				if k, ok := r.(ssa.CallInstruction); ok && k != put {
					if o := an.CalleeObj(k.Common()); o != nil && o.Name() == "Deserialization" && len(k.Common().Args) > 0 && k.Common().Args[0] == rec {
						deser = k
					}
				}
			}
		}
		if deser != nil {
			rg.Start = deser
		} else {
			rg.Start, rg.Zero = x, true
		}
		return rg
	case *ssa.Extract:
		if k, ok := x.Tuple.(*ssa.Call); ok {
			rg.Start = k
			return rg
		}
	case *ssa.Call:
		rg.Start = x
		return rg
	}
	return nil
}

// stakeAccumulators finds loop-carried integer accumulators of the loop that
// contains site whose final value is the amount of a deposit (+1) or
// withdraw (-1) of total stake after the loop.
func stakeAccumulators(fn *ssa.Function, site ssa.CallInstruction, dep, wd *types.Func) map[*ssa.Phi]int64 {
	out := map[*ssa.Phi]int64{}
	for _, be := range an.BackEdges(fn) {
		body := an.LoopBlocks(be[0], be[1])
		if !body[site.Block()] {
			continue
		}
		for _, in := range be[1].Instrs {
			ph, ok := in.(*ssa.Phi)
			if !ok {
				continue
			}
			for _, k := range an.CallsTo(fn, dep) {
				if !body[k.Block()] && flowsFromPhi(k.Common().Args[3], ph, 0) {
					out[ph] = 1
				}
			}
			for _, k := range an.CallsTo(fn, wd) {
				if !body[k.Block()] && flowsFromPhi(k.Common().Args[3], ph, 0) {
					out[ph] = -1
				}
			}
		}
	}
	return out
}

func flowsFromPhi(v ssa.Value, ph *ssa.Phi, depth int) bool {
	if v == ssa.Value(ph) {
		return true
	}
	if depth > 4 {
		return false
	}
	if p, ok := v.(*ssa.Phi); ok {
		for _, e := range p.Edges {
			if e != v && flowsFromPhi(e, ph, depth+1) {
				return true
			}
		}
	}
	return false
}

// accumulates: acc is a loop header phi (or flows from one) whose latch value
// is acc + amount, computed after the given call in the same iteration.
func accumulates(acc ssa.Value, amount ssa.Value, after ssa.CallInstruction) (bool, string) {
	var ph *ssa.Phi
	var find func(v ssa.Value, d int)
	find = func(v ssa.Value, d int) {
		if ph != nil || d > 4 {
			return
		}
		if p, ok := v.(*ssa.Phi); ok {
			for _, e := range p.Edges {
				if b, isB := e.(*ssa.BinOp); isB && b.Op == token.ADD && (b.X == v || b.Y == v) {
					ph = p
					return
				}
			}
			for _, e := range p.Edges {
				if e != v {
					find(e, d+1)
				}
			}
		}
	}
	find(acc, 0)
	if ph == nil {
		return false, "the penalty amount is not an accumulator of the loop"
	}
	for _, e := range ph.Edges {
		if b, isB := e.(*ssa.BinOp); isB && b.Op == token.ADD {
			other := b.Y
			if b.Y == ssa.Value(ph) {
				other = b.X
			}
			if other == amount && (after.Block() == b.Block() || after.Block().Dominates(b.Block())) {
				return true, ""
			}
		}
	}
	return false, "the amount withdrawn from the total stake is not the amount added to the penalty accumulator"
}
