package props

import (
	"sort"
	"strings"

	"golang.org/x/tools/go/ssa"

	"verif/checker/an"
)

// cacheResetRule (A5 frame, C05): the handlers rely on `cache.Reset()` to discard everything the previous transaction
// left in the per-block transaction cache. Every field of CacheDB that a method of CacheDB mutates (assigns, updates
// as a map, or mutates through the memory layer) is per-transaction state and must be re-initialised by Reset -
// otherwise state read or written while a failed transaction ran (or before its fee was charged through another
// cache on the same overlay) survives into the next transaction. The backend is shared by design; the key scratch
// buffer is exempt with a reason (its contents are dead after each call: A22 decides that no reference escapes).
func cacheResetRule(c *an.Ctx) {
	const sp = "smartcontract/storage"
	reset := mustFunc(c, sp+".(*CacheDB).Reset")
	if reset == nil {
		return
	}
	exempt := map[string]string{
		"keyScratch": "scratch buffer for prefixed keys: overwritten before every use, no reference outlives the call (decided by the C04 scratch-confinement rule)",
		"backend":    "the block overlay: shared with the other caches of the block by design; only Commit publishes into it",
	}
	mutated := map[string]string{"memdb": "the transaction's write set"}
	for _, fn := range c.P.RepoSrcFuncs(sp) {
		if fn.Signature.Recv() == nil || !strings.HasSuffix(fn.Signature.Recv().Type().String(), "storage.CacheDB") || fn == reset {
			continue
		}
		if strings.HasSuffix(c.P.Fset.Position(fn.Pos()).Filename, "_test.go") {
			continue
		}
		for _, w := range an.DirectFieldWrites(fn) {
			// writes to fields of the receiver's own type only
			if w.Field == nil || w.Field.Pkg() == nil || !strings.HasSuffix(w.Field.Pkg().Path(), sp) {
				continue
			}
			if fieldOwner(c, w.Field) != "CacheDB" {
				continue
			}
			if _, seen := mutated[w.Field.Name()]; !seen {
				mutated[w.Field.Name()] = w.Kind + " in " + an.FuncName(fn) + " at " + c.P.Rel(w.In.Pos())
			}
		}
	}
	// what Reset re-initialises: fields it assigns, and fields on which it calls Reset()/clear
	cleared := map[string]bool{}
	for _, w := range an.DirectFieldWrites(reset) {
		if w.Kind == "store" && w.Field != nil {
			cleared[w.Field.Name()] = true
		}
	}
	for _, k := range an.Calls(reset) {
		if bi, isB := k.Common().Value.(*ssa.Builtin); isB && bi.Name() == "clear" && len(k.Common().Args) == 1 {
			if f := fieldOfLoad(k.Common().Args[0]); f != nil {
				cleared[f.Name()] = true
			}
			continue
		}
		if o := an.CalleeObj(k.Common()); o != nil && (o.Name() == "Reset" || o.Name() == "Clear") {
			if f := fieldOfLoad(recvOf(k.Common())); f != nil {
				cleared[f.Name()] = true
			}
		}
	}
	var names []string
	for n := range mutated {
		names = append(names, n)
	}
	sort.Strings(names)
	for _, n := range names {
		key := "frame|CacheDB.Reset|" + n
		rule := "CacheDB.Reset discards every piece of state the cache's own methods mutate: nothing a transaction read or wrote through the cache survives into the next transaction"
		if why, ok := exempt[n]; ok {
			c.Note(key, rule, c.P.Rel(reset.Pos()), "exempt: "+why)
			continue
		}
		c.Check(cleared[n], key, rule, c.P.Rel(reset.Pos()), "field "+n+" ("+mutated[n]+") is not re-initialised by Reset: its contents outlive the transaction that produced them")
	}
	c.RequireMin("CacheDB state fields covered by the Reset rule", len(names), 2)
}

// fieldOwner names the struct type of the storage package that declares the field.
func fieldOwner(c *an.Ctx, f *typesVar) string {
	for _, tn := range []string{"CacheDB", "StateDB"} {
		if c.P.Field("smartcontract/storage."+tn+"."+f.Name()) == f {
			return tn
		}
	}
	return ""
}
