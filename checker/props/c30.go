package props

import (
	"fmt"
	"go/token"
	"go/types"
	"strings"

	"golang.org/x/tools/go/ssa"

	"verif/checker/an"
)

func init() {
	register(&Prop{ID: "C30", Patterns: []string{"./consensus/vbft", "./consensus/vbft/config", "./core/genesis"}, Run: runC30})
	register(&Prop{ID: "C29", Patterns: []string{"./consensus/vbft", "./consensus/vbft/config"}, Run: runC29})
}

const vcfg = "consensus/vbft/config"

func runC30(c *an.Ctx) {
	c.Explanation = "A1 order on the derivation of the VBFT chain configuration: (1) vbft.GetPeersConfig builds the peer list by ranging over the governance peer-pool map, so it returns a map-ordered slice; every caller must hand it, before any other use, to a function whose first use of it is a sort — GenesisChainConfig — (2) whose comparator is a total order on distinct peers (stake, then the peer's public key, which is unique per pool entry) and orders by stake descending, so that the first K entries are the K highest-staked peers for every input order; " +
		"(3) in GenesisChainConfig the sort dominates every other use of the peer list, no Go map is ranged over on the way to Peers/PosTable (the index->peer map is only looked up), no clock/random input is read, and (4) the floating-point rank formula contains no multiply-add shape that a compiler may fuse (results identical on every platform). " +
		"Decides order-independence and these structural conditions for all peer sets; 'exactly K', 'at least one slot each' and monotone slot counts are arithmetic and are not decided."
	if !controlGuard(c) {
		return
	}
	cg := c.P.CallGraph()
	gcc := mustFunc(c, vcfg+".GenesisChainConfig")
	gpc := mustFunc(c, "consensus/vbft.GetPeersConfig")
	gch := mustFunc(c, "consensus/vbft.getChainConfig")
	if gcc == nil || gpc == nil || gch == nil {
		return
	}
	fns := staticReachFrom(c, []*ssa.Function{gch, gcc})
	n := orderRuleFuncsX(c, cg, fns, map[string]string{}, "order", nil, func(fn *ssa.Function) string { return an.FuncName(fn) }, true)
	c.RequireMin("map-range loops on the chain-config path", n, 1)
	// GetPeersConfig's loop must be among them
	var gpcLoops []*an.MapLoop
	for _, g := range an.InlineReach(gpc) {
		gpcLoops = append(gpcLoops, an.MapLoops(g)...)
	}
	c.Check(len(gpcLoops) == 1, "order|GetPeersConfig|ranges-the-pool-map", "the peer list is produced by one loop over the peer-pool map (the rule instance this property is about)", c.P.Rel(gpc.Pos()), fmt.Sprintf("%d map loops", len(an.MapLoops(gpc))))

	// the table entry VBFTPeerStakeInfo.PeerPubkey rests on this: the loop fills the field from the pool entry's own key
	if loops := gpcLoops; len(loops) == 1 {
		cfg0 := &an.OrderCfg{UniqueFields: uniqueFieldsTable}
		var elem types.Type
		if sl, ok := gpc.Signature.Results().At(0).Type().Underlying().(*types.Slice); ok {
			elem = sl.Elem()
		}
		c.Check(elem != nil && an.UniqueProjection(loops[0], cfg0, elem, ".PeerPubkey"), "order|GetPeersConfig|pubkey-from-pool-key",
			"each returned peer's PeerPubkey is copied from the pool entry's PeerPubkey (the map key), so it is unique per peer and a valid tie-break", c.P.Rel(gpc.Pos()), "PeerPubkey of the returned element is not filled from the range value's PeerPubkey")
	}

	// (2)+(3) the sort in GenesisChainConfig
	peers := gcc.Params[1]
	es := newEffectSummary(c)
	cfg := &an.OrderCfg{CallClass: func(callee *ssa.Function, _ ssa.CallInstruction) string { return es.Class(callee) }, InvokeClass: es.Invoke, OrderedArgs: es.OrderedArgs, IsSorter: an.DefaultSorter, UniqueFields: uniqueFieldsTable}
	why := an.SortedBeforeUseValue(c.P, peers, cfg)
	c.Check(why == "", "order|GenesisChainConfig|sorts-input-first", "GenesisChainConfig sorts its peer list, with a total comparator, before any other use (the result cannot depend on the order of the input peers)", c.P.Rel(gcc.Pos()), why)
	// descending by stake: the comparator returns true on peers[i].InitPos > peers[j].InitPos
	var sortCall *ssa.Call
	for _, g := range an.InlineReach(gcc) {
		for _, k := range an.Calls(g) {
			if f := k.Common().StaticCallee(); f != nil && an.DefaultSorter(f) {
				if kk, ok := k.(*ssa.Call); ok {
					sortCall = kk
				}
			}
		}
	}
	if sortCall == nil {
		c.Violate("order|GenesisChainConfig|stake-descending", "peers are ordered by stake, highest first", c.P.Rel(gcc.Pos()), "no sorter call")
	} else {
		desc := false
		descWhy := "primary comparison is not 'InitPos of i greater than InitPos of j => true'"
		// the comparator: the closure, or the named function it forwards to (less(peers[i], peers[j])). Decided by
		// evaluating it under the two scenarios "i has the larger stake" / "j has the larger stake": every
		// comparison of the two InitPos values gets the outcome the scenario dictates, and every reachable return must
		// then evaluate to true / false. Spelling, branch shape and operand order do not matter.
		if less, ofI, ofJ := an.ComparatorBody(sortCall); less != nil {
			scenario := func(iLarger bool) (map[ssa.Value]an.Abs, int) {
				as := map[ssa.Value]an.Abs{}
				n := 0
				for _, b := range less.Blocks {
					for _, in := range b.Instrs {
						bo, isB := in.(*ssa.BinOp)
						if !isB {
							continue
						}
						fx, fy := fieldOfLoad(bo.X), fieldOfLoad(bo.Y)
						if fx == nil || fy == nil || fx != fy || fx.Name() != "InitPos" {
							continue
						}
						op := bo.Op
						switch {
						case ofI(bo.X) && ofJ(bo.Y):
						case ofJ(bo.X) && ofI(bo.Y):
							op = mirrorOp[op]
						default:
							continue
						}
						// op now reads "InitPos(i) op InitPos(j)"
						var truth bool
						switch op {
						case token.NEQ:
							truth = true
						case token.GTR, token.GEQ:
							truth = iLarger
						case token.LSS, token.LEQ:
							truth = !iLarger
						case token.EQL:
							truth = false
						default:
							continue
						}
						n++
						if truth {
							as[bo] = an.ATrue
						} else {
							as[bo] = an.AFalse
						}
					}
				}
				return as, n
			}
			okAll, nCmp := true, 0
			for _, iLarger := range []bool{true, false} {
				as, n := scenario(iLarger)
				nCmp = n
				r := (&an.Query{Fn: less, Assume: as, NoInline: true}).Run()
				for _, ret := range an.Returns(less) {
					for _, st := range r.StatesAt(ret) {
						got, isB := r.Eval(ret.Results[0], st).IsBool()
						if !isB || got != iLarger {
							okAll = false
							descWhy = fmt.Sprintf("with InitPos(i) %s InitPos(j) the comparator can return %v at %s", map[bool]string{true: ">", false: "<"}[iLarger], !iLarger, c.P.Rel(ret.Pos()))
						}
					}
				}
			}
			desc = okAll && nCmp >= 1
		}
		c.Check(desc, "order|GenesisChainConfig|stake-descending", "the comparator puts the peer with the larger stake first (less(i,j) is true when peers[i].InitPos > peers[j].InitPos), so indices 0..K-1 are the K highest-staked peers", c.P.Rel(sortCall.Pos()), descWhy)
	}
	// the selected peers are the first K of the sorted list: every index into peers is a loop counter bounded by conf.K
	// (structure only: all IndexAddr on peers use an index compared (<) against a value derived from conf.K)
	okIdx, nIdx := true, 0
	// the list that is indexed afterwards is whatever the sorter sorted (the
	// parameter itself, or a local copy of it)
	var sortedRoot ssa.Value = peers
	if sortCall != nil && len(sortCall.Call.Args) > 0 {
		a := sortCall.Call.Args[0]
		if mi, ok := a.(*ssa.MakeInterface); ok {
			a = mi.X
		}
		if u, ok := a.(*ssa.UnOp); ok && u.Op == token.MUL {
			sortedRoot = u.X
		} else {
			sortedRoot = a
		}
	}
	isPeers := func(v ssa.Value) bool {
		if v == ssa.Value(peers) || v == sortedRoot {
			return true
		}
		if u, ok := v.(*ssa.UnOp); ok && u.Op == token.MUL && u.X == sortedRoot {
			return true
		}
		// the parameter is spilled into a local because the comparator captures it
		if u, ok := v.(*ssa.UnOp); ok && u.Op == token.MUL {
			if al, isA := u.X.(*ssa.Alloc); isA && al.Referrers() != nil {
				for _, r := range *al.Referrers() {
					if st, isSt := r.(*ssa.Store); isSt && st.Addr == ssa.Value(al) && st.Val == ssa.Value(peers) {
						return true
					}
				}
			}
		}
		return false
	}
	for _, b := range gcc.Blocks {
		for _, in := range b.Instrs {
			ia, ok := in.(*ssa.IndexAddr)
			if !ok || !isPeers(ia.X) {
				continue
			}
			nIdx++
			if !boundedByK(ia.Index) {
				okIdx = false
			}
		}
	}
	c.Check(okIdx && nIdx >= 2, "order|GenesisChainConfig|takes-first-K", "every access to the sorted peer list uses a loop index bounded by conf.K (the configuration is built from the first K entries only)", c.P.Rel(gcc.Pos()), fmt.Sprintf("%d accesses", nIdx))

	// (4) no fused multiply-add shape in float arithmetic
	fma := ""
	for _, fn := range []*ssa.Function{gcc} {
		for _, b := range fn.Blocks {
			for _, in := range b.Instrs {
				bo, ok := in.(*ssa.BinOp)
				if !ok || (bo.Op != token.ADD && bo.Op != token.SUB) {
					continue
				}
				if bt, isB := bo.Type().Underlying().(*types.Basic); !isB || bt.Info()&types.IsFloat == 0 {
					continue
				}
				for _, op := range []ssa.Value{bo.X, bo.Y} {
					if m, isM := op.(*ssa.BinOp); isM && m.Op == token.MUL {
						fma = c.P.Rel(bo.Pos())
					}
				}
			}
		}
	}
	c.Check(fma == "", "float|GenesisChainConfig|no-fused-multiply-add", "the floating-point rank formula has no x*y±z shape (which Go may fuse into one rounding on some platforms); products and quotients alone round identically everywhere", c.P.Rel(gcc.Pos()), "multiply-add shape at "+fma)
	// callers of GenesisChainConfig are enumerated
	ncall := 0
	for _, e := range cg.Callers(gcc) {
		if c.P.InRepo(e.Caller.Func) && !strings.HasSuffix(c.P.Fset.Position(e.Caller.Func.Pos()).Filename, "_test.go") {
			ncall++
		}
	}
	c.RequireMin("callers of GenesisChainConfig", ncall, 2)
}

func indexedBy(v ssa.Value, idx ssa.Value) bool {
	for i := 0; i < 6; i++ {
		switch x := v.(type) {
		case *ssa.UnOp:
			v = x.X
		case *ssa.FieldAddr:
			v = x.X
		case *ssa.IndexAddr:
			return x.Index == idx
		default:
			return false
		}
	}
	return false
}

// boundedByK: idx is a loop counter (or counter+1, as in a range loop) that is compared (<, in any spelling) with
// int(conf.K), or with the length of a local slice that holds at most K elements.
func boundedByK(idx ssa.Value) bool {
	cands := []ssa.Value{idx}
	if base, _, ok := linear(idx); ok && base != idx {
		cands = append(cands, base)
	}
	isK := func(y ssa.Value) bool {
		if cv, isC := y.(*ssa.Convert); isC {
			y = cv.X
		}
		if f := fieldOfLoad(y); f != nil && f.Name() == "K" {
			return true
		}
		// len(s) where s is filled by at most one append per iteration of a loop bounded by K
		if k, isCall := y.(*ssa.Call); isCall {
			if bi, isB := k.Call.Value.(*ssa.Builtin); isB && bi.Name() == "len" && len(k.Call.Args) == 1 {
				return atMostKElems(k.Call.Args[0])
			}
		}
		return false
	}
	for _, cand := range cands {
		if cand.Referrers() == nil {
			continue
		}
		cv := cand
		for _, r := range *cand.Referrers() {
			if m, _ := relMatch(anyBinOp(r), token.LSS, func(x ssa.Value) bool { return x == cv }, isK); m {
				return true
			}
		}
	}
	return false
}

func anyBinOp(in ssa.Instruction) ssa.Value {
	if b, ok := in.(*ssa.BinOp); ok {
		return b
	}
	return nil
}

// atMostKElems: s is a local slice that starts empty and grows only by one single-element append per iteration of
// a loop whose counter is bounded by K.
func atMostKElems(s ssa.Value) bool {
	ph, ok := s.(*ssa.Phi)
	if !ok || len(ph.Edges) != 2 {
		return false
	}
	empty, grows := false, false
	for _, e := range ph.Edges {
		switch x := e.(type) {
		case *ssa.MakeSlice:
			if k, isK := x.Len.(*ssa.Const); isK && k.Value != nil && k.Value.String() == "0" {
				empty = true
			}
		case *ssa.Const:
			empty = x.Value == nil
		case *ssa.Slice:
			// make([]T, 0) with a constant length is a slice of a fresh [0]T
			if al, isAl := x.X.(*ssa.Alloc); isAl {
				if pt, isP := al.Type().Underlying().(*types.Pointer); isP {
					if arr, isArr := pt.Elem().Underlying().(*types.Array); isArr && arr.Len() == 0 {
						empty = true
					}
				}
			}
		case *ssa.Call:
			if bi, isB := x.Call.Value.(*ssa.Builtin); isB && bi.Name() == "append" && len(x.Call.Args) == 2 && x.Call.Args[0] == ssa.Value(ph) && len(variadicElems(x.Call.Args[1])) == 1 {
				grows = true
			}
		}
	}
	if !empty || !grows {
		return false
	}
	// the loop this phi belongs to is bounded by K: some other phi of the same block is
	for _, in := range ph.Block().Instrs {
		if other, isPhi := in.(*ssa.Phi); isPhi && other != ph && boundedCounter(other) {
			return true
		}
	}
	return false
}

// boundedCounter: a counter phi compared (<) with int(conf.K) directly (no recursion into slice lengths).
func boundedCounter(ph *ssa.Phi) bool {
	if ph.Referrers() == nil {
		return false
	}
	for _, r := range *ph.Referrers() {
		m, _ := relMatch(anyBinOp(r), token.LSS, func(x ssa.Value) bool { return x == ssa.Value(ph) }, func(y ssa.Value) bool {
			if cv, isC := y.(*ssa.Convert); isC {
				y = cv.X
			}
			f := fieldOfLoad(y)
			return f != nil && f.Name() == "K"
		})
		if m {
			return true
		}
	}
	return false
}

func runC29(c *an.Ctx) {
	c.Explanation = "A1 order + A2 guards on VBFT participant selection: (1) nothing reachable by static calls from buildParticipantConfig / calcParticipantPeers / calcParticipant / getParticipantSelectionSeed ranges over a Go map in an order-sensitive way or reads clock/random input — the selection is a function of seed and configuration; " +
		"(2) the participant list is duplicate-free: every append to it is reachable only on the 'not present' edge of a lookup of the same id in the membership set, and that id is inserted into the set on every path afterwards; (3) members come from the configuration only: every appended id is a calcParticipant result (an element of the position table; the out-of-range marker is excluded before the append) or the Index of an element of chain.Peers; (4) the proposer set is the first C+1 entries of that list. " +
		"Decides determinism, distinctness and membership structurally for all seeds/configurations; the sizes of the endorser and committer sets (>= 2C+1) are arithmetic over list lengths and are not decided."
	if !controlGuard(c) {
		return
	}
	vb := "consensus/vbft"
	cpp := mustFunc(c, vb+".calcParticipantPeers")
	cp := mustFunc(c, vb+".calcParticipant")
	bpc := mustFunc(c, vb+".(*Server).buildParticipantConfig")
	seed := mustFunc(c, vb+".getParticipantSelectionSeed")
	if cpp == nil || cp == nil || bpc == nil || seed == nil {
		return
	}
	cg := c.P.CallGraph()
	fns := staticReachFrom(c, []*ssa.Function{bpc, cpp, cp, seed})
	c.Count("functions_analysed", len(fns))
	n := orderRuleFuncsX(c, cg, fns, map[string]string{}, "order", nil, func(fn *ssa.Function) string { return an.FuncName(fn) }, true)
	c.Hold("order|participant-selection|map-loops", "no order-sensitive map iteration on the selection path", "-", fmt.Sprintf("%d map-range loops classified in %d functions", n, len(fns)))

	// (2)+(3) appends to the participant list
	// the list: the slice value from which the proposer slice is taken; identify appends whose result flows into the header phis of `peers`
	nApp := 0
	// calcParticipantPeers and the private helpers its selection loops may be moved to
	var hostBlocks []*ssa.BasicBlock
	for _, g := range an.InlineReach(cpp) {
		hostBlocks = append(hostBlocks, g.Blocks...)
	}
	for _, b := range hostBlocks {
		host := b.Parent()
		for _, in := range b.Instrs {
			k, ok := in.(*ssa.Call)
			if !ok {
				continue
			}
			bi, isB := k.Call.Value.(*ssa.Builtin)
			if !isB || bi.Name() != "append" || len(k.Call.Args) != 2 {
				continue
			}
			// element appended: single-element varargs
			id := singleVararg(k.Call.Args[1])
			if id == nil {
				continue
			}
			// only appends inside the two selection loops are guarded by the set; they are the ones followed by a MapUpdate of the same id
			sameID := func(a ssa.Value) bool {
				if a == id {
					return true
				}
				pa, pb := an.AccessPath(a), an.AccessPath(id)
				return pa != "" && pa == pb
			}
			var mu *ssa.MapUpdate
			for _, in2 := range b.Instrs {
				if m, isM := in2.(*ssa.MapUpdate); isM && sameID(m.Key) {
					mu = m
				}
			}
			if mu == nil {
				continue
			}
			nApp++
			key := fmt.Sprintf("distinct|calcParticipantPeers|append#%d", nApp)
			// guard: lookup of id in the same map, 'present' false
			g := &an.Guard{Name: "present", FailValue: an.ATrue, MatchValue: func(v ssa.Value) bool {
				e, ok := v.(*ssa.Extract)
				if !ok || e.Index != 1 {
					return false
				}
				l, isL := e.Tuple.(*ssa.Lookup)
				return isL && l.CommaOk && sameID(l.Index) && l.X == mu.Map
			}}
			v := an.Guarded(c.P, host, []*an.Guard{g}, func(x ssa.Instruction) bool { return x == ssa.Instruction(k) }, false)
			c.Check(v.Holds && v.GuardSites == 1, key+"|only-if-absent", "an id is appended to the participant list only when the membership set does not contain it, and is then recorded in the set (the list has no duplicates)", c.P.Rel(k.Pos()), v.Witness)
			// membership: source of id
			okSrc := false
			switch x := id.(type) {
			case *ssa.Call:
				okSrc = x.Call.StaticCallee() == cp
			default:
				if f := fieldOfLoad(id); f != nil && f.Name() == "Index" {
					okSrc = true
				}
			}
			c.Check(okSrc, key+"|member-of-config", "appended ids are position-table entries (calcParticipant) or Index of a configured peer", c.P.Rel(k.Pos()), "id comes from somewhere else")
		}
	}
	c.RequireMin("guarded appends to the participant list", nApp, 2)
	// a membership set kept as a bit mask: a shift by a peer index must be bounded by the word size (in Go `1<<i` is
	// 0 for i >= 64, so such a member would never be recorded and would be drawn again and again)
	for _, g := range an.InlineReach(cpp) {
		for _, b := range g.Blocks {
			for _, in := range b.Instrs {
				sh, ok := in.(*ssa.BinOp)
				if !ok || sh.Op != token.SHL {
					continue
				}
				if _, isK := sh.Y.(*ssa.Const); isK {
					continue
				}
				bitsz := int64(64)
				if bt, isB := sh.Type().Underlying().(*types.Basic); isB {
					switch bt.Kind() {
					case types.Uint32, types.Int32:
						bitsz = 32
					case types.Uint16, types.Int16:
						bitsz = 16
					case types.Uint8, types.Int8:
						bitsz = 8
					}
				}
				c.Check(an.ProveLeqConstAt(g, sh, sh.Y, bitsz-1), "distinct|calcParticipantPeers|shift-bounded|"+an.FuncName(g), "a bit-mask membership set records every index: the shift count is bounded by the word size", c.P.Rel(sh.Pos()),
					"the shift count is not bounded below the word size: indexes at or above it are silently dropped from the set")
			}
		}
	}
	// calcParticipant returns only table elements or the out-of-range marker
	okRet := true
	for _, r := range an.Returns(cp) {
		v := r.Results[0]
		if k, isK := v.(*ssa.Const); isK && k.Value != nil {
			continue // math.MaxUint32 marker
		}
		u, isU := v.(*ssa.UnOp)
		if !isU {
			okRet = false
			continue
		}
		ia, isIA := u.X.(*ssa.IndexAddr)
		if !isIA || ia.X != ssa.Value(cp.Params[1]) {
			okRet = false
		}
	}
	c.Check(okRet, "member|calcParticipant|returns-table-entry", "calcParticipant returns an element of the position table (or the constant out-of-range marker)", c.P.Rel(cp.Pos()), "a return value is not dposTable[...]")
	// the marker is excluded before the append: comparison of the call result with a constant, leaving the loop
	excl := false
	for _, k := range an.CallsToReach(cpp, funcObj(cp)) {
		if k.Common().StaticCallee() != cp || k.Value() == nil || k.Value().Referrers() == nil {
			continue
		}
		for _, r := range *k.Value().Referrers() {
			if bo, isB := r.(*ssa.BinOp); isB && bo.Op == token.EQL {
				if _, isK := bo.Y.(*ssa.Const); isK {
					excl = true
				}
			}
		}
	}
	c.Check(excl, "member|calcParticipantPeers|marker-excluded", "the out-of-range marker returned by calcParticipant is tested before the id is used", c.P.Rel(cpp.Pos()), "no comparison of the result with the marker constant")
	// (4) proposers = peers[0:c+1]
	// every value the first result can take (through a private role-splitting helper too) is peers[0 : C+1]
	okProp, nProp := true, 0
	for _, r := range an.Returns(cpp) {
		for _, d := range an.Deref(cpp, r.Results[0]) {
			if k, isK := d.(*ssa.Const); isK && k.Value == nil {
				continue // nil on an error return
			}
			nProp++
			sl, ok := d.(*ssa.Slice)
			if !ok {
				okProp = false
				continue
			}
			lowZero := sl.Low == nil
			if k, isK := sl.Low.(*ssa.Const); isK && k.Value != nil && k.Value.String() == "0" {
				lowZero = true
			}
			good := false
			if sl.High != nil && lowZero {
				if base, off, okL := linear(sl.High); okL && off == 1 {
					x := an.ResolveActual(cpp, base)
					if cv, isC := x.(*ssa.Convert); isC {
						x = cv.X
					}
					if f := fieldOfLoad(x); f != nil && f.Name() == "C" {
						good = true
					}
				}
			}
			okProp = okProp && good
		}
	}
	okProp = okProp && nProp >= 1
	c.Check(okProp, "size|calcParticipantPeers|proposers-are-first-C+1", "the proposer set is peers[0 : C+1] of the duplicate-free participant list (C+1 distinct proposers)", c.P.Rel(cpp.Pos()), "first result is not peers[0:int(chain.C)+1]")
}

// singleVararg: the varargs slice of append(list, x) holds exactly x.
func singleVararg(v ssa.Value) ssa.Value {
	sl, ok := v.(*ssa.Slice)
	if !ok {
		return nil
	}
	al, isA := sl.X.(*ssa.Alloc)
	if !isA || al.Referrers() == nil {
		return nil
	}
	var out ssa.Value
	for _, r := range *al.Referrers() {
		if ia, isI := r.(*ssa.IndexAddr); isI && ia.Referrers() != nil {
			for _, r2 := range *ia.Referrers() {
				if st, isSt := r2.(*ssa.Store); isSt {
					if out != nil {
						return nil
					}
					out = st.Val
				}
			}
		}
	}
	return out
}
