package props

import (
	"strings"
	"sort"
	"fmt"
	"go/token"
	"go/types"

	"golang.org/x/tools/go/ssa"

	"verif/checker/an"
)

func init() {
	register(&Prop{ID: "C06", Patterns: []string{"./smartcontract/service/native/...", "./smartcontract/storage", "./core/states"}, Run: runC06})
}

const ontPkg = "smartcontract/service/native/ont"
const ongPkg = "smartcontract/service/native/ong"

// callArgCall returns the call instruction that produces argument i (after
// stripping single-assignment locals), or nil.
func callArgCall(k ssa.CallInstruction, i int) *ssa.Call {
	args := argsNoRecv(k.Common())
	if i >= len(args) {
		return nil
	}
	c, _ := an.Origin(args[i]).(*ssa.Call)
	return c
}

func argPath(k ssa.CallInstruction, i int) string {
	args := argsNoRecv(k.Common())
	if i >= len(args) {
		return "?"
	}
	return an.AccessPath(an.Origin(args[i]))
}

func runC06(c *an.Ctx) {
	c.Explanation = "A2 guard + A4 who-may-call + A13 pairing on the native ONT/ONG token code: (1) the only callers of the balance debit (reduceFromBalance) are ont.Transfer and ont.TransferedFrom; " +
		"(2) in Transfer the debit is unreachable unless CheckWitness(from) succeeded, for the same `from` whose balance key is debited; in TransferedFrom the debit is unreachable unless a witness check " +
		"succeeded and fromApprove (allowance of exactly From->Sender) succeeded; (3) inside reduceFromBalance and fromApprove every store is unreachable unless the checked subtraction (NativeTokenBalance.Sub) succeeded " +
		"(no negative balance, never beyond the allowance); (4) debit and credit carry the same amount value and the credit lies on every path to a success return; (5) every allowance store in the approve handlers is " +
		"guarded by CheckWitness of the owner whose key is written. Decides these necessary conditions on all CFG paths; does not decide sums over call sequences (arithmetic) nor that failure discards the cache (C05)."
	c.Assumptions = append(c.Assumptions, "two loads of the same access path (e.g. state.From) within one function denote the same value: the handlers do not store to the decoded state between check and use")
	if !controlGuard(c) {
		return
	}
	staleReadRule(c)
	checkWitness := mustObj(c, "smartcontract/context.ContextRef.CheckWitness")
	reduce := mustFunc(c, ontPkg+".reduceFromBalance")
	increase := mustFunc(c, ontPkg+".increaseToBalance")
	fromApprove := mustFunc(c, ontPkg+".fromApprove")
	transfer := mustFunc(c, ontPkg+".Transfer")
	transferedFrom := mustFunc(c, ontPkg+".TransferedFrom")
	sub := mustObj(c, "core/states.NativeTokenBalance.Sub")
	put := mustObj(c, "smartcontract/storage.(*CacheDB).Put")
	del := mustObj(c, "smartcontract/storage.(*CacheDB).Delete")
	if checkWitness == nil || reduce == nil || increase == nil || fromApprove == nil || transfer == nil || transferedFrom == nil ||
		sub == nil || put == nil || del == nil {
		return
	}
	witness := an.GuardForFuncs("CheckWitness", checkWitness)

	// (1) who may debit
	allowed := map[*ssa.Function]bool{transfer: true, transferedFrom: true}
	sites := callSitesInRepo(c.P, funcObj(reduce))
	n := 0
	for _, fn := range sortedFuncs(sites) {
		n += len(sites[fn])
		c.Check(allowed[fn], "confine|reduceFromBalance|"+an.FuncName(fn), "only ont.Transfer and ont.TransferedFrom may debit a balance", c.P.Rel(sites[fn][0].Pos()),
			"new caller of reduceFromBalance: the debit is no longer behind the witness/allowance checks of Transfer/TransferedFrom")
	}
	c.RequireMin("reduceFromBalance call sites", n, 2)
	// reduceFromBalance/fromApprove/increaseToBalance must not escape as function values
	for _, f := range []*ssa.Function{reduce, fromApprove, increase} {
		esc := false
		if refs := f.Referrers(); refs != nil {
			for _, r := range *refs {
				if _, ok := r.(ssa.CallInstruction); !ok {
					esc = true
				}
			}
		}
		c.Check(!esc, "confine|no-func-value|"+an.FuncName(f), "the balance mutators are only ever called directly (never taken as a function value)", c.P.Rel(f.Pos()), "taken as a value")
	}

	isDebit := func(in ssa.Instruction) bool { return isCallTo(in, funcObj(reduce)) }
	// (2) Transfer
	{
		v := an.Guarded(c.P, transfer, []*an.Guard{witness}, isDebit, false)
		c.Check(v.Holds && v.GuardSites > 0 && v.ActionSites > 0, "guard-witness|ont.Transfer|reduceFromBalance", "the debit in Transfer is reachable only after CheckWitness succeeded",
			c.P.Rel(transfer.Pos()), "debit reachable with CheckWitness failing: "+v.Witness)
		// subject: CheckWitness(x) and GenBalanceKey(_, x)
		ok := false
		var cwPath, keyPath string
		for _, k := range an.CallsTo(transfer, checkWitness) {
			cwPath = argPath(k, 0)
		}
		// the debited key is <contract> ++ <address>, whether built by GenBalanceKey or in place
		for _, k := range an.CallsTo(transfer, funcObj(reduce)) {
			if parts := keyParts(transfer, argsNoRecv(k.Common())[1]); len(parts) == 2 {
				keyPath = parts[1]
			}
		}
		ok = cwPath != "" && cwPath == keyPath
		c.Check(ok, "same-subject|ont.Transfer|witness==debited", "the witnessed address is the address whose balance key is debited", c.P.Rel(transfer.Pos()),
			fmt.Sprintf("CheckWitness(%s) but debit key built from %s", cwPath, keyPath))
	}
	// (2') TransferedFrom
	{
		v := an.Guarded(c.P, transferedFrom, []*an.Guard{witness}, isDebit, false)
		c.Check(v.Holds && v.GuardSites >= 2 && v.ActionSites > 0, "guard-witness|ont.TransferedFrom|reduceFromBalance", "the debit in TransferedFrom is reachable only after a witness check succeeded (sender, or the ONT contract for its own ONG hand-out)",
			c.P.Rel(transferedFrom.Pos()), "debit reachable with every CheckWitness failing: "+v.Witness)
		ga := an.GuardForFuncs("fromApprove", funcObj(fromApprove))
		v = an.Guarded(c.P, transferedFrom, []*an.Guard{ga}, isDebit, false)
		c.Check(v.Holds && v.GuardSites > 0, "guard-allowance|ont.TransferedFrom|reduceFromBalance", "the debit in TransferedFrom is reachable only after fromApprove (allowance reduction) succeeded",
			c.P.Rel(transferedFrom.Pos()), "debit reachable with fromApprove failing: "+v.Witness)
		// subjects: allowance key (From, Sender); debit key From; witness Sender
		var aFrom, aSender, dFrom string
		var wit []string
		for _, k := range an.CallsTo(transferedFrom, funcObj(fromApprove)) {
			// the allowance key is <contract> ++ <owner> ++ <spender>, whether built by a helper or in place
			if parts := keyParts(transferedFrom, argsNoRecv(k.Common())[1]); len(parts) == 3 {
				aFrom, aSender = parts[1], parts[2]
			}
		}
		for _, k := range an.CallsTo(transferedFrom, funcObj(reduce)) {
			if parts := keyParts(transferedFrom, argsNoRecv(k.Common())[1]); len(parts) == 2 {
				dFrom = parts[1]
			}
		}
		// witness checks in TransferedFrom and the private helpers it calls, named relative to TransferedFrom
		senderCalls := map[ssa.Instruction]bool{}
		otherWitness := ""
		for _, k := range an.CallsToReach(transferedFrom, checkWitness) {
			w := an.AccessPathIn(transferedFrom, argsNoRecv(k.Common())[0])
			wit = append(wit, w)
			switch w {
			case aSender:
				senderCalls[k] = true
			case "utils.OntContractAddress":
			default:
				otherWitness = w
			}
		}
		c.Check(aFrom != "" && aFrom == dFrom, "same-subject|ont.TransferedFrom|allowance-owner==debited", "the allowance consumed is the one granted by the debited account",
			c.P.Rel(transferedFrom.Pos()), fmt.Sprintf("allowance key from=%s, debit key from=%s", aFrom, dFrom))
		// with the spender's own witness failing, and the debited account not being the ONT contract (its ONG hand-out
		// is the one designed exception), the debit is unreachable: no other witness can stand in for the spender
		okSpender := aSender != "" && len(senderCalls) >= 1 && otherWitness == ""
		why := fmt.Sprintf("allowance spender=%s, witnesses checked=%v", aSender, wit)
		if okSpender {
			g := &an.Guard{Name: "CheckWitness(spender)", FailModes: [][]an.Abs{{an.AFalse}}, MatchCall: func(k ssa.CallInstruction) bool { return senderCalls[k] }}
			extra := map[ssa.Value]an.Abs{}
			for _, fn := range an.InlineReach(transferedFrom) {
				for _, v := range an.FindValues(fn, func(v ssa.Value) bool {
					b, ok := v.(*ssa.BinOp)
					if !ok || b.Op != token.EQL {
						return false
					}
					x, y := an.AccessPathIn(transferedFrom, b.X), an.AccessPathIn(transferedFrom, b.Y)
					return (x == aFrom && y == "utils.OntContractAddress") || (y == aFrom && x == "utils.OntContractAddress")
				}) {
					extra[v] = an.AFalse
				}
			}
			v := an.GuardedX(c.P, transferedFrom, []*an.Guard{g}, extra, isDebit, false)
			if !v.Holds {
				okSpender, why = false, "debit reachable although the spender's witness failed and the debited account is not the ONT contract: "+v.Witness
			}
		}
		c.Check(okSpender, "same-subject|ont.TransferedFrom|spender==witnessed", "the spender named in the allowance key is the address whose witness is checked: with that check failing the debit is unreachable (except the ONT contract handing out its own ONG)",
			c.P.Rel(transferedFrom.Pos()), why)
	}
	// (3) checked subtraction guards the stores
	subGuard := an.GuardForFuncs("NativeTokenBalance.Sub", sub)
	isStore := func(in ssa.Instruction) bool { return isCallTo(in, put, del) }
	for _, fn := range []*ssa.Function{reduce, fromApprove} {
		v := an.Guarded(c.P, fn, []*an.Guard{subGuard}, isStore, false)
		c.Check(v.Holds && v.GuardSites > 0 && v.ActionSites >= 2, "guard-sub|"+an.FuncName(fn), "balance/allowance is stored only after the checked subtraction succeeded (never negative, never beyond the allowance)",
			c.P.Rel(fn.Pos()), "store reachable with Sub failing: "+v.Witness)
		// the value subtracted is the function's amount parameter and the
		// value stored is the subtraction's result
		okAmt := false
		// the amount: the function's last parameter (whatever it is called)
		for _, k := range an.CallsToReach(fn, sub) {
			if an.AccessPathIn(fn, an.Origin(argsNoRecv(k.Common())[0])) == fn.Params[len(fn.Params)-1].Name() {
				okAmt = true
			}
		}
		c.Check(okAmt, "pair|"+an.FuncName(fn)+"|sub-amount", "the amount subtracted is the function's value parameter", c.P.Rel(fn.Pos()), "Sub is not applied to the `value` parameter")
	}
	// (4) pairing debit/credit
	for _, fn := range []*ssa.Function{transfer, transferedFrom} {
		var dv, cv string
		for _, k := range an.CallsTo(fn, funcObj(reduce)) {
			dv = argPath(k, 2)
		}
		credits := callsIn(fn, funcObj(increase))
		for _, k := range an.CallsTo(fn, funcObj(increase)) {
			cv = argPath(k, 2)
		}
		c.Check(dv != "" && dv == cv, "pair|"+an.FuncName(fn)+"|amount", "debit and credit carry the same amount value", c.P.Rel(fn.Pos()), fmt.Sprintf("debit amount %s, credit amount %s", dv, cv))
		ok, why := an.MustPassToSuccess(c.P, fn, credits)
		c.Check(ok && len(credits) > 0, "pair|"+an.FuncName(fn)+"|credit-on-success", "every path to a success return performs the credit", c.P.Rel(fn.Pos()), why)
		ok, why = an.MustPass(c.P, fn, callsIn(fn, funcObj(reduce)), credits, nil)
		c.Check(ok, "pair|"+an.FuncName(fn)+"|debit-before-credit", "the credit happens only after the debit", c.P.Rel(fn.Pos()), why)
		// credit key differs from debit key subject (to vs from) is not required; credit to == declared `to`
	}
	if add := mustObj(c, "core/states.NativeTokenBalance.Add"); add != nil {
		ok, why := an.MustPassToSuccess(c.P, increase, callsIn(increase, put))
		c.Check(ok, "pair|ont.increaseToBalance|stores", "increaseToBalance stores the increased balance on every success path", c.P.Rel(increase.Pos()), why)
		okAmt := false
		for _, k := range an.CallsToReach(increase, add) {
			if an.AccessPathIn(increase, an.Origin(argsNoRecv(k.Common())[0])) == increase.Params[len(increase.Params)-1].Name() {
				okAmt = true
			}
		}
		c.Check(okAmt, "pair|ont.increaseToBalance|add-amount", "the amount added is the function's value parameter", c.P.Rel(increase.Pos()), "Add is not applied to the `value` parameter")
	}
	// (5) approve handlers
	nApprove := 0
	for _, name := range []string{ontPkg + ".OntApprove", ontPkg + ".OntApproveV2", ongPkg + ".doApprove"} {
		fn := mustFunc(c, name)
		if fn == nil {
			continue
		}
		v := an.Guarded(c.P, fn, []*an.Guard{witness}, isStore, false)
		c.Check(v.Holds && v.GuardSites > 0 && v.ActionSites > 0, "guard-witness|"+an.FuncName(fn)+"|allowance-store", "an allowance is stored only after CheckWitness of the owner succeeded",
			c.P.Rel(fn.Pos()), "allowance store reachable with CheckWitness failing: "+v.Witness)
		var w, owner string
		for _, k := range an.CallsTo(fn, checkWitness) {
			w = argPath(k, 0)
		}
		for _, k := range an.CallsTo(fn, put) {
			// the allowance key is <contract> ++ <owner> ++ <spender>
			if parts := keyParts(fn, argsNoRecv(k.Common())[0]); len(parts) == 3 {
				owner = parts[1]
			}
		}
		c.Check(w != "" && w == owner, "same-subject|"+an.FuncName(fn)+"|witness==owner", "the witnessed address is the owner in the allowance key", c.P.Rel(fn.Pos()),
			fmt.Sprintf("CheckWitness(%s), allowance key owner %s", w, owner))
		nApprove++
	}
	c.RequireMin("approve handlers", nApprove, 3)

	// ONG handle used by the EVM: who may call the raw balance setters
	for _, m := range []string{"SubBalance", "SetBalance", "AddBalance"} {
		obj := mustObj(c, ongPkg+".OngBalanceHandle."+m)
		if obj == nil {
			continue
		}
		bad := ""
		for _, fn := range c.P.RepoSrcFuncs() {
			for _, k := range an.Calls(fn) {
				o := an.CalleeObj(k.Common())
				if o == nil || o.Name() != m {
					continue
				}
				// concrete or through the storage.OngBalanceHandle interface
				recvOK := o == obj
				if sig, _ := o.Type().(*types.Signature); sig != nil && sig.Recv() != nil {
					if types.IsInterface(sig.Recv().Type()) && types.Implements(obj.Type().(*types.Signature).Recv().Type(), sig.Recv().Type().Underlying().(*types.Interface)) {
						recvOK = true
					}
				}
				if !recvOK {
					continue
				}
				pk := an.FuncPkgPath(fn)
				self := fn.Signature.Recv() != nil && types.Identical(fn.Signature.Recv().Type(), obj.Type().(*types.Signature).Recv().Type())
				if pk != an.RepoMod+"/smartcontract/storage" && !self {
					bad = an.FuncName(fn) + " at " + c.P.Rel(k.Pos())
				}
			}
		}
		c.Check(bad == "", "confine|OngBalanceHandle."+m, "the raw ONG balance handle is called only from smartcontract/storage (StateDB) or from the handle's own methods", "-", "called from "+bad)
	}
}

// staleReadRule: read-modify-write updates of balance/allowance records in
// the token packages are not interleaved with a write to another record of
// the same kind (which would be lost when both keys coincide, e.g. from == to).
func staleReadRule(c *an.Ctx) {
	get := mustObj(c, "smartcontract/service/native/utils.GetNativeTokenBalance")
	cget := mustObj(c, "smartcontract/storage.(*CacheDB).Get")
	put := mustObj(c, "smartcontract/storage.(*CacheDB).Put")
	del := mustObj(c, "smartcontract/storage.(*CacheDB).Delete")
	if get == nil || cget == nil || put == nil || del == nil {
		return
	}
	t := an.RWTables{Readers: map[*types.Func]int{get: 1, cget: 0}, Writers: map[*types.Func]int{put: 0, del: 0}}
	if g2, ok := c.P.Obj("smartcontract/service/native/utils.GetStorageUInt64").(*types.Func); ok {
		t.Readers[g2] = 1
	}
	a := an.NewStaleRead(t)
	pairs, nfn := 0, 0
	var issues []string
	for _, fn := range c.P.RepoSrcFuncs(ontPkg, "smartcontract/service/native/ong") {
		if strings.HasSuffix(c.P.Fset.Position(fn.Pos()).Filename, "_test.go") {
			continue
		}
		n, is := a.StaleReads(c.P, fn)
		if n > 0 {
			nfn++
		}
		pairs += n
		issues = append(issues, is...)
	}
	c.Count("read_modify_write_pairs", pairs)
	sort.Strings(issues)
	c.Check(len(issues) == 0 && pairs >= 2, "atomic-update|ont+ong|no-interleaved-write", "a balance or allowance record is read, modified and written back without a write to another record of the same kind in between (otherwise the update is lost when both keys name the same account, e.g. a transfer from an account to itself)",
		"smartcontract/service/native/ont", fmt.Sprintf("%d read-modify-write pairs in %d functions; %s", pairs, nfn, strings.Join(issues, " | ")))
}
