package props

import (
	"go/ast"
	"go/constant"
	"go/types"
	"strings"

	"golang.org/x/tools/go/packages"

	"verif/checker/an"
)

// A6 `codec`: token sequences of a writer / reader on the syntax tree.

var sinkTok = map[string]string{"WriteByte": "u8", "WriteUint8": "u8", "WriteBool": "bool", "WriteUint16": "u16", "WriteUint32": "u32", "WriteUint64": "u64",
	"WriteInt64": "u64", "WriteInt32": "u32", "WriteInt16": "u16", "WriteVarUint": "varuint", "WriteVarBytes": "varbytes", "WriteString": "varbytes", "WriteHash": "fixed32", "WriteAddress": "fixed20"}
var srcTok = map[string]string{"NextByte": "u8", "NextUint8": "u8", "NextBool": "bool", "NextUint16": "u16", "NextUint32": "u32", "NextUint64": "u64",
	"NextInt64": "u64", "NextInt32": "u32", "NextInt16": "u16", "NextVarUint": "varuint", "NextVarBytes": "varbytes", "NextString": "varbytes", "NextHash": "fixed32", "NextAddress": "fixed20",
	"ReadVarUint": "varuint", "ReadVarBytes": "varbytes", "ReadString": "varbytes", "ReadUint32": "u32", "ReadUint64": "u64", "NextI128": "fixed16"}

func isCodecStream(t types.Type) string {
	s := t.String()
	switch {
	case strings.HasSuffix(s, "common.ZeroCopySink"):
		return "sink"
	case strings.HasSuffix(s, "common.ZeroCopySource"):
		return "source"
	}
	return ""
}

// codecTokensOf abstracts the body of a Serialization/Deserialization-like
// function into tokens; helper methods of the same receiver type that take the
// stream are inlined (depth 2).
func codecTokensOf(c *an.Ctx, pk *packages.Package, fd *ast.FuncDecl, depth int) []string {
	var out []string
	if fd == nil || fd.Body == nil {
		return []string{"?nobody"}
	}
	info := pk.TypesInfo
	var walk func(n ast.Node)
	walk = func(n ast.Node) {
		switch x := n.(type) {
		case nil:
			return
		case *ast.ForStmt:
			walk(x.Init)
			out = append(out, "loop{")
			walk(x.Body)
			out = append(out, "}")
			return
		case *ast.RangeStmt:
			out = append(out, "loop{")
			walk(x.Body)
			out = append(out, "}")
			return
		case *ast.FuncLit:
			return
		case *ast.CallExpr:
			// arguments first (nested calls such as WriteVarBytes(Serialize(x)))
			for _, a := range x.Args {
				walk(a)
			}
			// a plain (package-level) function that is handed the stream: its tokens, inlined
			var fnIdent *ast.Ident
			switch f := x.Fun.(type) {
			case *ast.Ident:
				fnIdent = f
			case *ast.SelectorExpr:
				if id, isID := f.X.(*ast.Ident); isID {
					if _, isPkg := info.Uses[id].(*types.PkgName); isPkg {
						fnIdent = f.Sel
					}
				}
			}
			if fnIdent != nil {
				fo, isF := info.Uses[fnIdent].(*types.Func)
				if !isF || fo.Pkg() == nil {
					return
				}
				takes := false
				for _, a := range x.Args {
					if t := info.TypeOf(a); t != nil && isCodecStream(t) != "" {
						takes = true
					}
				}
				if !takes {
					return
				}
				if hpk := c.P.All[fo.Pkg().Path()]; hpk != nil && depth < 2 {
					for _, f := range hpk.Syntax {
						for _, d := range f.Decls {
							if hd, isFD := d.(*ast.FuncDecl); isFD && hd.Recv == nil && hpk.TypesInfo.Defs[hd.Name] == fo {
								out = append(out, codecTokensOf(c, hpk, hd, depth+1)...)
								return
							}
						}
					}
				}
				out = append(out, "?"+fo.Name())
				return
			}
			sel, ok := x.Fun.(*ast.SelectorExpr)
			if !ok {
				return
			}
			rt := info.TypeOf(sel.X)
			if rt == nil {
				return
			}
			switch isCodecStream(rt) {
			case "sink":
				name := sel.Sel.Name
				if name == "WriteBytes" && len(x.Args) == 1 {
					if se, isSl := x.Args[0].(*ast.SliceExpr); isSl {
						if t := info.TypeOf(se.X); t != nil {
							if arr, isArr := t.Underlying().(*types.Array); isArr {
								out = append(out, "fixed"+itoa(arr.Len()))
								return
							}
						}
					}
					out = append(out, "bytes")
					return
				}
				if t, ok := sinkTok[name]; ok {
					out = append(out, t)
				}
				return
			case "source":
				name := sel.Sel.Name
				if name == "NextBytes" && len(x.Args) == 1 {
					if tv, has := info.Types[x.Args[0]]; has && tv.Value != nil {
						if v, exact := constant.Int64Val(tv.Value); exact {
							out = append(out, "fixed"+itoa(v))
							return
						}
					}
					out = append(out, "bytes")
					return
				}
				if t, ok := srcTok[name]; ok {
					out = append(out, t)
				}
				return
			}
			// a method that takes the stream
			takes := ""
			for _, a := range x.Args {
				if t := info.TypeOf(a); t != nil {
					if k := isCodecStream(t); k != "" {
						takes = k
					}
				}
			}
			if takes == "" {
				return
			}
			name := sel.Sel.Name
			recvT := rt
			if p, isP := recvT.(*types.Pointer); isP {
				recvT = p.Elem()
			}
			nm, isNamed := recvT.(*types.Named)
			if !isNamed {
				return
			}
			if name == "Serialization" || name == "Deserialization" || name == "Serialize" || name == "Deserialize" {
				out = append(out, "nested("+nm.Obj().Name()+")")
				return
			}
			// helper of some type: inline
			if depth < 2 {
				if hd, hpk := findMethodDecl(c, nm, name); hd != nil {
					out = append(out, codecTokensOf(c, hpk, hd, depth+1)...)
					return
				}
			}
			out = append(out, "?"+name)
			return
		}
		// generic traversal in source order
		ast.Inspect(n, func(m ast.Node) bool {
			if m == n || m == nil {
				return true
			}
			switch m.(type) {
			case *ast.ForStmt, *ast.RangeStmt, *ast.CallExpr, *ast.FuncLit:
				walk(m)
				return false
			}
			return true
		})
	}
	walk(fd.Body)
	return out
}

func itoa(v int64) string { return strings.TrimSpace(strings.Replace(constant.MakeInt64(v).String(), " ", "", -1)) }

func findMethodDecl(c *an.Ctx, nm *types.Named, method string) (*ast.FuncDecl, *packages.Package) {
	if nm.Obj().Pkg() == nil {
		return nil, nil
	}
	pk := c.P.All[nm.Obj().Pkg().Path()]
	if pk == nil {
		return nil, nil
	}
	for _, f := range pk.Syntax {
		for _, d := range f.Decls {
			fd, ok := d.(*ast.FuncDecl)
			if !ok || fd.Recv == nil || fd.Name.Name != method || len(fd.Recv.List) == 0 {
				continue
			}
			t := pk.TypesInfo.TypeOf(fd.Recv.List[0].Type)
			if p, isP := t.(*types.Pointer); isP {
				t = p.Elem()
			}
			if n2, isN := t.(*types.Named); isN && n2.Obj() == nm.Obj() {
				return fd, pk
			}
		}
	}
	return nil, nil
}

// codecAgree compares the writer and reader token sequences of a type.
func codecAgree(c *an.Ctx, key, pkgPath, typeName, writer, reader string) {
	obj, _ := c.P.Obj(pkgPath + "." + typeName).(*types.TypeName)
	rule := "the field layout written by " + typeName + "." + writer + " equals the layout read by " + typeName + "." + reader + " (same widths, same length-prefix kinds, same nesting, same order)"
	if obj == nil {
		c.Undecide(key, rule, "-", "type not found")
		return
	}
	nm := obj.Type().(*types.Named)
	wd, wpk := findMethodDecl(c, nm, writer)
	rd, rpk := findMethodDecl(c, nm, reader)
	if wd == nil || rd == nil {
		c.Undecide(key, rule, "-", "writer or reader method not found")
		return
	}
	w := strings.Join(codecTokensOf(c, wpk, wd, 0), " ")
	r := strings.Join(codecTokensOf(c, rpk, rd, 0), " ")
	c.Check(w == r && w != "" && !strings.Contains(w, "?"), key, rule, c.P.Rel(rd.Pos()), "writer: ["+w+"]  reader: ["+r+"]")
}
