package props

import (
	"fmt"
	"go/token"
	"go/types"

	"golang.org/x/tools/go/ssa"

	"verif/checker/an"
)

// Cursor-advance discipline of the merge iterator (C04): after an entry was
// yielded, exactly the side(s) it came from are advanced before the next
// entry is chosen. If the side a yielded key came from is not advanced, that
// key is yielded again (a stale or deleted value reappears); if the other
// side is advanced, an entry is skipped.

type joinIterCtx struct {
	c                       *an.Ctx
	origin, memEnd, backEnd *types.Var
	memSide, backSide       *types.Var
	recv                    types.Type
}

// loads/stores of a field in fn and in the private helpers a query on fn enters (e.g. a setCurrent helper)
func loadsOfField(fn *ssa.Function, f *types.Var) []ssa.Value {
	var out []ssa.Value
	for _, g := range an.InlineReach(fn) {
		out = append(out, an.FindValues(g, func(v ssa.Value) bool {
			u, ok := v.(*ssa.UnOp)
			return ok && u.Op == token.MUL && an.FieldOf(u.X) == f
		})...)
	}
	return out
}

func storesToField(fn *ssa.Function, f *types.Var) []ssa.Instruction {
	var out []ssa.Instruction
	for _, g := range an.InlineReach(fn) {
		for _, b := range g.Blocks {
			for _, in := range b.Instrs {
				if st, ok := in.(*ssa.Store); ok && an.FieldOf(st.Addr) == f {
					out = append(out, st)
				}
			}
		}
	}
	return out
}

// entryAssumptions: keyOrigin loads take the given origin; loads of the
// exhausted flags that no store of the same flag can reach are false (the
// cursors are not exhausted on entry).
func (j *joinIterCtx) entryAssumptions(fn *ssa.Function, origin int64) map[ssa.Value]an.Abs {
	as := map[ssa.Value]an.Abs{}
	for _, l := range loadsOfField(fn, j.origin) {
		as[l] = an.AInt(origin)
	}
	for _, f := range []*types.Var{j.memEnd, j.backEnd} {
		stores := storesToField(fn, f)
		for _, l := range loadsOfField(fn, f) {
			after := false
			for _, s := range stores {
				if (&an.Query{Fn: fn, Start: s}).Run().Reaches(l.(ssa.Instruction)) {
					after = true
				}
			}
			if !after {
				as[l] = an.AFalse
			}
		}
	}
	return as
}

// advance decides, for fn entered with the previous entry's origin, whether
// the given side's cursor is advanced on every path before the next origin is
// stored or the function returns (must), and whether it can be advanced at
// all before that (may). Calls to other methods of the iterator are
// summarised recursively.
func (j *joinIterCtx) advance(fn *ssa.Function, side *types.Var, origin int64, depth int) (must, may bool) {
	if depth > 3 || fn.Blocks == nil {
		return false, true
	}
	as := j.entryAssumptions(fn, origin)
	var via, mayset []ssa.Instruction
	entered := map[*ssa.Function]bool{}
	var calls []ssa.CallInstruction
	for _, g := range an.InlineReach(fn) {
		entered[g] = true
		calls = append(calls, an.Calls(g)...)
	}
	for _, k := range calls {
		cc := k.Common()
		if cc.IsInvoke() && cc.Method.Name() == "Next" && fieldOfLoad(cc.Value) == side {
			via = append(via, k)
			mayset = append(mayset, k)
			continue
		}
		// other methods of the iterator that the path engine does not enter (units with rules of their own) are
		// summarised recursively; private helpers are entered by the queries below
		if callee := cc.StaticCallee(); callee != nil && callee != fn && !entered[callee] && callee.Signature.Recv() != nil && types.Identical(callee.Signature.Recv().Type(), j.recv) {
			hm, hmay := j.advance(callee, side, origin, depth+1)
			if hm {
				via = append(via, k)
			}
			if hmay {
				mayset = append(mayset, k)
			}
		}
	}
	stores := storesToField(fn, j.origin)
	targets := append([]ssa.Instruction(nil), stores...)
	for _, r := range an.Returns(fn) {
		targets = append(targets, r)
	}
	must = len(via) > 0
	if must {
		must, _ = an.MustPass(j.c.P, fn, via, targets, as)
	}
	cut := map[ssa.Instruction]bool{}
	for _, s := range stores {
		cut[s] = true
	}
	r := (&an.Query{Fn: fn, Assume: as, Cut: cut}).Run()
	for _, m := range mayset {
		if r.Reaches(m) {
			may = true
		}
	}
	return must, may
}

func joinIterAdvanceRule(c *an.Ctx) {
	j := &joinIterCtx{c: c,
		origin:   c.P.Field(odb + ".JoinIter.keyOrigin"),
		memEnd:   c.P.Field(odb + ".JoinIter.nextMemEnd"),
		backEnd:  c.P.Field(odb + ".JoinIter.nextBackEnd"),
		memSide:  c.P.Field(odb + ".JoinIter.memdb"),
		backSide: c.P.Field(odb + ".JoinIter.backend"),
	}
	next := mustFunc(c, odb+".(*JoinIter).next")
	if next == nil {
		return
	}
	if j.origin == nil || j.memEnd == nil || j.backEnd == nil || j.memSide == nil || j.backSide == nil {
		c.Undecide("anchor|JoinIter cursor fields", "anchors must resolve", "-", "field not found")
		return
	}
	j.recv = next.Signature.Recv().Type()
	// origin constants by name
	consts := map[string]int64{}
	for _, n := range []string{"FromMem", "FromBack", "FromBoth"} {
		k, ok := c.P.Obj(odb + "." + n).(*types.Const)
		if !ok {
			c.Undecide("anchor|"+n, "anchors must resolve", "-", "constant not found")
			return
		}
		v, _ := constantInt(k)
		consts[n] = v
	}
	type want struct{ mem, back string } // "must" | "never"
	cases := map[string]want{"FromMem": {"must", "never"}, "FromBack": {"never", "must"}, "FromBoth": {"must", "must"}}
	for _, name := range []string{"FromMem", "FromBack", "FromBoth"} {
		w := cases[name]
		for _, s := range []struct {
			side *types.Var
			nm   string
			want string
		}{{j.memSide, "memory", w.mem}, {j.backSide, "backend", w.back}} {
			must, may := j.advance(next, s.side, consts[name], 0)
			key := fmt.Sprintf("iterator|JoinIter.next|after-%s|%s-cursor", name, s.nm)
			if s.want == "must" {
				c.Check(must, key, "after yielding an entry that came from a side, that side's cursor is advanced on every path before the next entry is chosen (otherwise the same, possibly shadowed, key is yielded again)", c.P.Rel(next.Pos()),
					"a path chooses the next entry without advancing the "+s.nm+" cursor")
			} else {
				c.Check(!may, key, "a side that did not supply the yielded entry is not advanced (otherwise one of its entries is skipped)", c.P.Rel(next.Pos()),
					"the "+s.nm+" cursor can be advanced although the yielded entry did not come from it")
			}
		}
	}
}

func constantInt(k *types.Const) (int64, bool) {
	v := k.Val()
	if v == nil {
		return 0, false
	}
	s := v.ExactString()
	var n int64
	_, err := fmt.Sscanf(s, "%d", &n)
	return n, err == nil
}

// isFreshSlice: a slice literal / empty slice constant / make result.
func isFreshSlice(v ssa.Value) bool {
	switch x := v.(type) {
	case *ssa.Const:
		return true
	case *ssa.MakeSlice:
		return true
	case *ssa.Slice:
		_, isAlloc := x.X.(*ssa.Alloc)
		return isAlloc
	}
	return false
}
