package props

import (
	"fmt"
	"go/token"
	"go/types"
	"strings"

	"golang.org/x/tools/go/ssa"

	"verif/checker/an"
)

const odb = "core/store/overlaydb"

func init() {
	register(&Prop{ID: "C03", Patterns: []string{"./core/store/overlaydb", "./core/store/ledgerstore"}, Run: runC03})
	register(&Prop{ID: "C04", Patterns: []string{"./core/store/overlaydb", "./smartcontract/storage", "./core/store/ledgerstore"}, Run: runC04})
}

// lenIsZero matches `len(x) == 0` / `len(x) != 0` where x satisfies ofWhat;
// returns the comparison and whether it is the == form.
func lenCmpZero(v ssa.Value, ofWhat func(ssa.Value) bool) (eq bool, ok bool) {
	// any spelling of the emptiness test: len == 0, len != 0, len < 1, len <= 0, len > 0, len >= 1, and the same
	// with the constant on the left
	b, isB := v.(*ssa.BinOp)
	if !isB {
		return false, false
	}
	op, x, y := b.Op, b.X, b.Y
	if _, constLeft := x.(*ssa.Const); constLeft {
		x, y, op = y, x, mirrorOp[op]
	}
	k, isK := y.(*ssa.Const)
	call, isC := x.(*ssa.Call)
	if !isK || k.Value == nil || !isC {
		return false, false
	}
	bi, isBi := call.Call.Value.(*ssa.Builtin)
	if !isBi || bi.Name() != "len" || !ofWhat(call.Call.Args[0]) {
		return false, false
	}
	switch kv := k.Value.String(); {
	case op == token.EQL && kv == "0", op == token.LSS && kv == "1", op == token.LEQ && kv == "0":
		return true, true
	case op == token.NEQ && kv == "0", op == token.GTR && kv == "0", op == token.GEQ && kv == "1":
		return false, true
	}
	return false, false
}

// forEachClosures lists the function literals passed to MemDB.ForEach in the
// loaded repository packages, with their call sites.
func forEachClosures(c *an.Ctx) map[*ssa.Function]ssa.CallInstruction {
	fe := mustObj(c, odb+".(*MemDB).ForEach")
	out := map[*ssa.Function]ssa.CallInstruction{}
	if fe == nil {
		return out
	}
	for _, fn := range c.P.RepoSrcFuncs() {
		if strings.HasSuffix(c.P.Fset.Position(fn.Pos()).Filename, "_test.go") {
			continue
		}
		for _, k := range an.CallsTo(fn, fe) {
			args := argsNoRecv(k.Common())
			if len(args) != 1 {
				continue
			}
			switch a := args[0].(type) {
			case *ssa.MakeClosure:
				cb := a.Fn.(*ssa.Function)
				// a method value (self.flushEntry): go/ssa wraps it; the callback is the method itself
				if cb.Synthetic != "" && strings.Contains(cb.Synthetic, "bound method") {
					for _, kk := range an.Calls(cb) {
						if m := kk.Common().StaticCallee(); m != nil && m.Synthetic == "" {
							cb = m
						}
					}
				}
				out[cb] = k
			case *ssa.Function:
				out[a] = k
			default:
				c.Undecide("foreach|"+an.FuncName(fn)+"|callback", "the callback of MemDB.ForEach is a function literal at the call site", c.P.Rel(k.Pos()), "callback is a computed function value")
			}
		}
	}
	return out
}

func runC03(c *an.Ctx) {
	c.Explanation = "A1/A4 structure rules on the block overlay: (1) OverlayDB.ChangeHash feeds its hasher only from inside the callback it passes to memdb.ForEach (key then value), on the same memdb field that Put/Delete forward to and GetWriteSet returns — the hashed stream is the ordered container's enumeration, not a log of operations; " +
		"(2) OverlayDB.Put/Delete do nothing but forward to MemDB.Put/Delete, and MemDB.Delete is Put(key, nil) (deletions are empty values); (3) in MemDB.Put, when the key is already present (findGE reports an exact match) no node is created and the entry count is unchanged — an overwrite replaces in place, so the enumeration has one entry per key whatever the history; a delete of an absent key still creates a (tombstone) entry; " +
		"(4) MemDB.ForEach and the iterator contain no Go-map iteration and invoke the callback once per node of the level-0 list. Decides these necessary conditions for all operation sequences; the skip list's ordering invariant itself is a data-structure property and is not decided."
	if !controlGuard(c) {
		return
	}
	memField := c.P.Field(odb + ".OverlayDB.memdb")
	fe := mustObj(c, odb+".(*MemDB).ForEach")
	mput := mustObj(c, odb+".(*MemDB).Put")
	mdel := mustObj(c, odb+".(*MemDB).Delete")
	if memField == nil || fe == nil || mput == nil || mdel == nil {
		c.Undecide("anchor|OverlayDB.memdb", "anchors must resolve", "-", "field or method not found")
		return
	}
	onMemdb := func(k ssa.CallInstruction) bool {
		r := recvOf(k.Common())
		return r != nil && fieldOfLoad(r) == memField
	}
	// (1) ChangeHash
	if ch := mustFunc(c, odb+".(*OverlayDB).ChangeHash"); ch != nil {
		// ChangeHash and the private helpers it is split into
		var hasher ssa.Value
		for _, g := range an.InlineReach(ch) {
			for _, k := range an.Calls(g) {
				if f := k.Common().StaticCallee(); f != nil && f.String() == "crypto/sha256.New" {
					hasher = k.Value()
				}
			}
		}
		c.Check(hasher != nil, "changehash|ChangeHash|hasher", "ChangeHash hashes with a hasher it creates itself", c.P.Rel(ch.Pos()), "no sha256.New() in ChangeHash")
		fes := an.CallsToReach(ch, fe)
		okFE := len(fes) == 1 && (onMemdb(fes[0]) || fieldOfLoad(an.ResolveActual(ch, recvOf(fes[0].Common()))) == memField)
		c.Check(okFE, "changehash|ChangeHash|enumerates-memdb", "ChangeHash enumerates self.memdb through MemDB.ForEach exactly once", c.P.Rel(ch.Pos()), fmt.Sprintf("%d ForEach calls on self.memdb", len(fes)))
		// hasher writes: only in the callback, key then value; none in ChangeHash itself
		direct := 0
		for _, g := range an.InlineReach(ch) {
			if g.Parent() != nil {
				continue // the enumeration callback, judged below
			}
			for _, k := range an.Calls(g) {
				if k.Common().IsInvoke() && k.Common().Method.Name() == "Write" {
					direct++
				}
			}
		}
		c.Check(direct == 0, "changehash|ChangeHash|no-direct-writes", "nothing but the enumeration callback feeds the hasher", c.P.Rel(ch.Pos()), fmt.Sprintf("%d hasher writes outside the callback", direct))
		if okFE {
			if mc, isMC := argsNoRecv(fes[0].Common())[0].(*ssa.MakeClosure); isMC {
				cb := mc.Fn.(*ssa.Function)
				var order []string
				straight := true
				for _, k := range effectCalls(cb) {
					// every hasher write is unconditional: on every path through the callback
					if ok, _ := an.MustPassToSuccess(c.P, cb, []ssa.Instruction{k}); !ok && k.Common().IsInvoke() {
						straight = false
					}
					if k.Common().IsInvoke() && k.Common().Method.Name() == "Write" {
						if p, isP := k.Common().Args[0].(*ssa.Parameter); isP {
							order = append(order, p.Name())
						} else {
							order = append(order, "?")
						}
					} else if _, isB := k.Common().Value.(*ssa.Builtin); !isB {
						order = append(order, "call:"+callNameOf(k))
					}
				}
				c.Check(straight && len(order) == 2 && order[0] == cb.Params[0].Name() && order[1] == cb.Params[1].Name(), "changehash|ChangeHash|callback-writes-key-then-value",
					"the callback writes exactly the entry's key and then its value to the hasher, unconditionally", c.P.Rel(cb.Pos()), "callback feeds "+strings.Join(order, ",")+fmt.Sprintf(" (%d blocks)", len(cb.Blocks)))
			} else {
				c.Undecide("changehash|ChangeHash|callback", "the enumeration callback is a function literal", c.P.Rel(ch.Pos()), "callback is not a literal")
			}
		}
	}
	// GetWriteSet returns the same memdb
	if gw := mustFunc(c, odb+".(*OverlayDB).GetWriteSet"); gw != nil {
		ok := false
		for _, r := range an.Returns(gw) {
			if len(r.Results) == 1 && fieldOfLoad(r.Results[0]) == memField {
				ok = true
			}
		}
		c.Check(ok, "changehash|GetWriteSet|same-container", "GetWriteSet returns the memdb that ChangeHash enumerates", c.P.Rel(gw.Pos()), "GetWriteSet does not return self.memdb")
	}
	// (2) forwarders
	for _, name := range []string{"Put", "Delete"} {
		fn := mustFunc(c, odb+".(*OverlayDB)."+name)
		if fn == nil {
			continue
		}
		want := mput
		if name == "Delete" {
			want = mdel
		}
		calls := effectCalls(fn)
		ok := len(calls) == 1 && an.CalleeObj(calls[0].Common()) == want && onMemdb(calls[0])
		if ok {
			ok, _ = an.MustPassToSuccess(c.P, fn, []ssa.Instruction{calls[0]})
		}
		if ok {
			for i, a := range argsNoRecv(calls[0].Common()) {
				if a != ssa.Value(fn.Params[i+1]) {
					ok = false
				}
			}
		}
		c.Check(ok, "forward|OverlayDB."+name, "OverlayDB."+name+" only forwards its arguments to MemDB."+name+" of self.memdb (no side log, no reordering)", c.P.Rel(fn.Pos()), "body is not a single forwarding call")
	}
	if fn := mustFunc(c, odb+".(*MemDB).Delete"); fn != nil {
		calls := an.CallsTo(fn, mput)
		ok := len(calls) == 1 && len(effectCalls(fn)) == 1
		if ok {
			ok, _ = an.MustPassToSuccess(c.P, fn, []ssa.Instruction{calls[0]})
		}
		if ok {
			a := argsNoRecv(calls[0].Common())
			k, isK := a[1].(*ssa.Const)
			ok = a[0] == ssa.Value(fn.Params[1]) && isK && k.Value == nil
		}
		c.Check(ok, "tombstone|MemDB.Delete|is-put-nil", "a deletion is recorded as Put(key, nil): an empty value under the same key", c.P.Rel(fn.Pos()), "MemDB.Delete is not Put(key, nil)")
	}
	// (3) overwrite in place
	if put := mustFunc(c, odb+".(*MemDB).Put"); put != nil {
		fge := mustObj(c, odb+".(*MemDB).findGE")
		nField := c.P.Field(odb + ".MemDB.n")
		nodeField := c.P.Field(odb + ".MemDB.nodeData")
		if fge != nil && nField != nil && nodeField != nil {
			isNew := func(in ssa.Instruction) bool {
				st, ok := in.(*ssa.Store)
				if !ok {
					return false
				}
				f := an.FieldOf(st.Addr)
				if f == nField {
					return true
				}
				if f == nodeField {
					if k, isC := st.Val.(*ssa.Call); isC {
						if bi, isB := k.Call.Value.(*ssa.Builtin); isB && bi.Name() == "append" {
							return true
						}
					}
				}
				return false
			}
			exact := map[ssa.Value]an.Abs{}
			absent := map[ssa.Value]an.Abs{}
			for _, k := range an.CallsTo(put, fge) {
				for _, e := range an.Extracts(k.Value())[1] {
					exact[e] = an.ATrue
					absent[e] = an.AFalse
				}
			}
			v := an.GuardedX(c.P, put, nil, exact, isNew, false)
			c.Check(len(exact) == 1 && v.Holds && v.ActionSites >= 2, "inplace|MemDB.Put|no-new-node-on-overwrite", "when the key is already present, Put creates no node and does not change the entry count (one enumeration entry per key, whatever the history)", c.P.Rel(put.Pos()),
				fmt.Sprintf("%d node-creating stores; %s", v.ActionSites, v.Witness))
			// a delete of an absent key still records a tombstone: with exact=false and len(value)==0 a node is created
			for _, g := range an.InlineReach(put) {
				for _, val := range an.FindValues(g, func(x ssa.Value) bool {
					_, ok := lenCmpZero(x, func(a ssa.Value) bool { return an.ResolveActual(put, a) == ssa.Value(put.Params[2]) })
					return ok
				}) {
					eq, _ := lenCmpZero(val, func(a ssa.Value) bool { return true })
					if eq {
						absent[val] = an.ATrue
					} else {
						absent[val] = an.AFalse
					}
				}
			}
			r := (&an.Query{Fn: put, Assume: absent}).Run()
			created := false
			for _, g := range an.InlineReach(put) {
				for _, b := range g.Blocks {
					for _, in := range b.Instrs {
						if isNew(in) && r.Reaches(in) {
							created = true
						}
					}
				}
			}
			c.Check(created, "tombstone|MemDB.Put|absent-key-delete-recorded", "deleting a key that is not in the overlay still records an (empty-valued) entry, so the deletion reaches the hash and the store", c.P.Rel(put.Pos()), "no node is created for an empty value on an absent key")
		} else {
			c.Undecide("anchor|MemDB.n/nodeData/findGE", "anchors must resolve", "-", "not found")
		}
	}
	// (3b) the key/value buffer is append-only: bytes once written (and handed
	// out by Get/ForEach/iterators as sub-slices) are never modified in place
	if kv := c.P.Field(odb + ".MemDB.kvData"); kv == nil {
		c.Undecide("anchor|MemDB.kvData", "anchors must resolve", "-", "field not found")
	} else {
		fromKV := func(v ssa.Value) bool {
			for i := 0; i < 6; i++ {
				if fieldOfLoad(v) == kv {
					return true
				}
				switch x := v.(type) {
				case *ssa.Slice:
					v = x.X
				case *ssa.IndexAddr:
					v = x.X
				default:
					return false
				}
			}
			return false
		}
		nStores, bad := 0, ""
		for _, fn := range c.P.RepoSrcFuncs(odb) {
			if strings.HasSuffix(c.P.Fset.Position(fn.Pos()).Filename, "_test.go") {
				continue
			}
			for _, b := range fn.Blocks {
				for _, in := range b.Instrs {
					switch x := in.(type) {
					case *ssa.Store:
						if an.FieldOf(x.Addr) == kv {
							nStores++
							ok := false
							switch v := x.Val.(type) {
							case *ssa.Call:
								if bi, isB := v.Call.Value.(*ssa.Builtin); isB && bi.Name() == "append" {
									// append to the whole buffer (or to a chain of such appends); append(kvData[:o], ...) would
									// overwrite what is stored after o
									var whole func(a ssa.Value, d int) bool
									whole = func(a ssa.Value, d int) bool {
										if d > 6 {
											return false
										}
										if fieldOfLoad(a) == kv {
											return true
										}
										switch y := a.(type) {
										case *ssa.Slice:
											return y.Low == nil && y.High == nil && y.Max == nil && whole(y.X, d+1)
										case *ssa.Call:
											if bi2, isB2 := y.Call.Value.(*ssa.Builtin); isB2 && bi2.Name() == "append" {
												return whole(y.Call.Args[0], d+1)
											}
										case *ssa.Phi:
											for _, e := range y.Edges {
												if !whole(e, d+1) {
													return false
												}
											}
											return len(y.Edges) > 0
										}
										return false
									}
									ok = whole(v.Call.Args[0], 0) || !fromKV(v.Call.Args[0]) && an.FreshObject(v.Call.Args[0]) != nil || isFreshSlice(v.Call.Args[0])
									if !ok && fromKV(v.Call.Args[0]) {
										bad = "append to a truncated kvData (kvData[:o]) overwrites stored bytes at " + c.P.Rel(x.Pos())
									}
								}
							case *ssa.Slice:
								// kvData = kvData[:0] (reset for reuse)
								k, isK := v.High.(*ssa.Const)
								ok = fromKV(v.X) && v.Low == nil && isK && k.Value != nil && k.Value.String() == "0"
							case *ssa.MakeSlice:
								ok = true
							}
							if !ok {
								bad = "kvData assigned something other than append(kvData, ...), kvData[:0] or a fresh slice at " + c.P.Rel(x.Pos())
							}
						} else if ia, isIA := x.Addr.(*ssa.IndexAddr); isIA && fromKV(ia.X) {
							bad = "element of kvData overwritten in place at " + c.P.Rel(x.Pos())
						}
					case *ssa.Call:
						if bi, isB := x.Call.Value.(*ssa.Builtin); isB && bi.Name() == "copy" && fromKV(x.Call.Args[0]) {
							bad = "copy() into kvData at " + c.P.Rel(x.Pos())
						}
					}
				}
			}
		}
		c.Check(bad == "" && nStores >= 3, "appendonly|MemDB.kvData", "the overlay's key/value buffer is append-only: stored bytes (which Get, ForEach and iterators hand out as sub-slices and the change hash reads) are never modified in place, so a record's bytes cannot be altered by a later write to another record", "core/store/overlaydb/memdb.go", bad)
	}

	// (4) enumeration: no map iteration; callback once per loop iteration
	for _, q := range []string{odb + ".(*MemDB).ForEach", odb + ".(*dbIter).fill", odb + ".(*dbIter).Next", odb + ".(*dbIter).First"} {
		if fn := mustFunc(c, q); fn != nil {
			c.Check(len(an.MapLoops(fn)) == 0, "enumeration|"+an.FuncName(fn)+"|no-map-order", "the overlay's enumeration does not iterate a Go map", c.P.Rel(fn.Pos()), "map range in the enumeration path")
		}
	}
	if fn := mustFunc(c, odb+".(*MemDB).ForEach"); fn != nil {
		n := 0
		inLoop := true
		backs := an.BackEdges(fn)
		for _, k := range an.Calls(fn) {
			if k.Common().Value == ssa.Value(fn.Params[1]) {
				n++
				in := false
				for _, e := range backs {
					if an.LoopBlocks(e[0], e[1])[k.Block()] {
						in = true
					}
				}
				inLoop = inLoop && in
			}
		}
		c.Check(n == 1 && inLoop && len(backs) == 1, "enumeration|MemDB.ForEach|callback-once-per-node", "ForEach invokes the callback exactly once per visited node, in one loop", c.P.Rel(fn.Pos()), fmt.Sprintf("%d callback call sites, %d loops", n, len(backs)))
		// the loop advances along the level-0 link (nodeData[node+nNext]), i.e. the header phi's latch value is loaded from nodeData
		adv := false
		for _, b := range fn.Blocks {
			for _, in := range b.Instrs {
				ph, ok := in.(*ssa.Phi)
				if !ok {
					continue
				}
				for _, e := range ph.Edges {
					if u, isU := e.(*ssa.UnOp); isU && u.Op == token.MUL {
						if ia, isIA := u.X.(*ssa.IndexAddr); isIA && fieldOfLoad(ia.X) != nil && fieldOfLoad(ia.X).Name() == "nodeData" {
							adv = true
						}
					}
				}
			}
		}
		c.Check(adv, "enumeration|MemDB.ForEach|follows-node-links", "the enumeration follows the list's own links (the next node is loaded from nodeData)", c.P.Rel(fn.Pos()), "the loop variable is not advanced through nodeData")
	}
}

// effectCalls lists the calls of fn that can have an effect relevant to the
// storage rules: builtins and calls into the logging/eventbus cut packages
// are left out, so that adding a log line does not change a verdict.
func effectCalls(fn *ssa.Function) []ssa.CallInstruction {
	var out []ssa.CallInstruction
	for _, k := range an.Calls(fn) {
		if _, isB := k.Common().Value.(*ssa.Builtin); isB {
			continue
		}
		if f := k.Common().StaticCallee(); f != nil {
			if cut, _ := an.IsCut(f); cut {
				continue
			}
		}
		out = append(out, k)
	}
	return out
}

func callNameOf(k ssa.CallInstruction) string {
	if o := an.CalleeObj(k.Common()); o != nil {
		return o.Name()
	}
	return "?"
}

func runC04(c *an.Ctx) {
	c.Explanation = "A11 siblings + A2 guards on the layered storage: (1) every consumer of MemDB.ForEach that forwards entries to a store (CacheDB.Commit, OverlayDB.CommitTo, the write-set closure of saveBlockToStateStore) routes `len(val)==0` to the store's delete with the entry's key and everything else to its put with the entry's key and value — the tombstone convention is the same at every layer; " +
		"(2) CacheDB.get and OverlayDB.Get consult the lower layer only when the memory layer reports the key as unknown, and otherwise return the memory layer's value (most recent write wins, a tombstone reads as absent); (3) JoinIter.First/Next return true only on an entry whose value is non-empty (tombstones are skipped), and when both sides hold the same key the memory side's value is yielded and both sides advance; " +
		"(4) CacheDB.Commit publishes through the enumeration and then resets the cache; CacheDB.Reset only resets (discards) the memory layer. Decides these necessary conditions for all histories; the merge iterator's full algorithm and the skip list are not decided."
	if !controlGuard(c) {
		return
	}
	// (0) what an iterator is created with does not alias the cache's scratch key
	scratchConfinement(c)
	// (1) tombstone routing at every ForEach consumer
	n := 0
	for cb, site := range forEachClosures(c) {
		if len(cb.Params) < 2 || len(cb.Params) > 3 {
			continue
		}
		// (key, value) are the last two parameters (a method used as callback has its receiver first)
		key, val := ssa.Value(cb.Params[len(cb.Params)-2]), ssa.Value(cb.Params[len(cb.Params)-1])
		var dels, puts []ssa.Instruction
		for _, k := range an.Calls(cb) {
			o := an.CalleeObj(k.Common())
			if o == nil {
				continue
			}
			switch {
			case strings.Contains(o.Name(), "Delete"):
				dels = append(dels, k)
			case strings.Contains(o.Name(), "Put"):
				puts = append(puts, k)
			}
		}
		if len(dels) == 0 && len(puts) == 0 {
			continue // not a forwarding consumer (e.g. the hasher)
		}
		n++
		name := an.FuncName(cb)
		isVal := func(a ssa.Value) bool { return a == val }
		cmps := an.FindValues(cb, func(x ssa.Value) bool { _, ok := lenCmpZero(x, isVal); return ok })
		asEmpty, asLive := map[ssa.Value]an.Abs{}, map[ssa.Value]an.Abs{}
		for _, x := range cmps {
			eq, _ := lenCmpZero(x, isVal)
			if eq {
				asEmpty[x], asLive[x] = an.ATrue, an.AFalse
			} else {
				asEmpty[x], asLive[x] = an.AFalse, an.ATrue
			}
		}
		rE := (&an.Query{Fn: cb, Assume: asEmpty}).Run()
		rL := (&an.Query{Fn: cb, Assume: asLive}).Run()
		ok := len(cmps) >= 1 && len(dels) >= 1 && len(puts) >= 1
		why := ""
		for _, d := range dels {
			if rL.Reaches(d) {
				ok, why = false, "a live entry reaches the delete call"
			}
			if !rE.Reaches(d) {
				ok, why = false, "an empty value does not reach the delete call"
			}
			if a := argsNoRecv(d.(ssa.CallInstruction).Common()); len(a) < 1 || a[0] != key {
				ok, why = false, "delete is not keyed by the entry's key"
			}
		}
		for _, p := range puts {
			if rE.Reaches(p) {
				ok, why = false, "an empty value (tombstone) reaches the put call"
			}
			if !rL.Reaches(p) {
				ok, why = false, "a live entry does not reach the put call"
			}
			if a := argsNoRecv(p.(ssa.CallInstruction).Common()); len(a) < 2 || a[0] != key || a[1] != val {
				ok, why = false, "put does not carry the entry's key and value"
			}
		}
		c.Check(ok, "tombstone|"+name+"|routes-empty-to-delete", "a consumer of the overlay's enumeration deletes for an empty value and puts (key, value) otherwise", c.P.Rel(site.Pos()), why)
	}
	c.RequireMin("forwarding consumers of MemDB.ForEach", n, 3)

	// (2) read path
	mget := mustObj(c, odb+".(*MemDB).Get")
	for _, q := range []string{"smartcontract/storage.(*CacheDB).get", odb + ".(*OverlayDB).Get"} {
		fn := mustFunc(c, q)
		if fn == nil || mget == nil {
			continue
		}
		calls := an.CallsTo(fn, mget)
		if len(calls) != 1 {
			c.Violate("read|"+an.FuncName(fn)+"|memory-first", "a read consults the memory layer exactly once", c.P.Rel(fn.Pos()), fmt.Sprintf("%d MemDB.Get calls", len(calls)))
			continue
		}
		known := map[ssa.Value]an.Abs{}
		var memVal ssa.Value
		for idx, es := range an.Extracts(calls[0].Value()) {
			for _, e := range es {
				if idx == 1 {
					known[e] = an.AFalse
				} else {
					memVal = e
				}
			}
		}
		lower := func(in ssa.Instruction) bool {
			k, ok := in.(ssa.CallInstruction)
			if !ok || k == calls[0] {
				return false
			}
			o := an.CalleeObj(k.Common())
			return o != nil && o.Name() == "Get"
		}
		v := an.GuardedX(c.P, fn, nil, known, lower, false)
		c.Check(len(known) >= 1 && v.Holds && v.ActionSites == 1, "read|"+an.FuncName(fn)+"|lower-layer-only-when-unknown", "the lower layer is read only when the memory layer does not know the key (a recent write or tombstone is never shadowed by older data)", c.P.Rel(fn.Pos()), v.Witness)
		// when known, the returned value is the memory layer's
		r := (&an.Query{Fn: fn, Assume: known}).Run()
		ok := memVal != nil
		for _, ret := range an.Returns(fn) {
			if !r.Reaches(ret) {
				continue
			}
			good := false
			for _, s := range an.AllSources(ret.Results[0]) {
				if an.Origin(s) == memVal || s == memVal {
					good = true
				}
			}
			// results may be spilled into named results: accept a load of the alloc the memory value was stored to
			if !good && memVal != nil && storedInto(memVal, ret.Results[0]) {
				good = true
			}
			if !good {
				ok = false
			}
		}
		c.Check(ok, "read|"+an.FuncName(fn)+"|returns-memory-value", "when the memory layer knows the key its value (possibly the empty tombstone) is what is returned", c.P.Rel(fn.Pos()), "a known key does not return the memory layer's value")
	}

	// (3) JoinIter
	valueField := c.P.Field(odb + ".JoinIter.value")
	memItField := c.P.Field(odb + ".JoinIter.memdb")
	originField := c.P.Field(odb + ".JoinIter.keyOrigin")
	if valueField == nil || memItField == nil || originField == nil {
		c.Undecide("anchor|JoinIter fields", "anchors must resolve", "-", "not found")
		return
	}
	// units: the low-level positioning steps have rules of their own below
	mustFunc(c, odb+".(*JoinIter).first")
	mustFunc(c, odb+".(*JoinIter).next")
	for _, q := range []string{odb + ".(*JoinIter).First", odb + ".(*JoinIter).Next"} {
		fn := mustFunc(c, q)
		if fn == nil {
			continue
		}
		tomb := &an.Guard{Name: "len(iter.value)==0", FailValue: an.ATrue, MatchValue: func(x ssa.Value) bool {
			eq, ok := lenCmpZero(x, func(a ssa.Value) bool { return fieldOfLoad(a) == valueField })
			return ok && eq
		}}
		tombNeg := &an.Guard{Name: "len(iter.value)!=0", FailValue: an.AFalse, MatchValue: func(x ssa.Value) bool {
			eq, ok := lenCmpZero(x, func(a ssa.Value) bool { return fieldOfLoad(a) == valueField })
			return ok && !eq
		}}
		// with the emptiness test always true, every return of fn that is still reachable yields false (the value
		// is evaluated in the state, so `return iter.skipDeleted()` is judged by what the helper can return)
		bad, nRet := "", 0
		sites := an.RunAllFail(fn, []*an.Guard{tomb, tombNeg}, nil, false, func(r *an.Result) {
			for _, ret := range an.Returns(fn) {
				if len(ret.Results) != 1 {
					continue
				}
				nRet++
				for _, st := range r.StatesAt(ret) {
					if v, isB := r.Eval(ret.Results[0], st).IsBool(); !(isB && !v) {
						bad = "a return that may be true is reachable although the entry's value is empty: " + r.Witness(c.P, st)
					}
				}
			}
		})
		c.Check(bad == "" && sites >= 1 && nRet >= 1, "iterator|"+an.FuncName(fn)+"|skips-tombstones", "the merge iterator stops (returns true) only on an entry with a non-empty value", c.P.Rel(fn.Pos()), bad)
	}
	for _, q := range []string{odb + ".(*JoinIter).first", odb + ".(*JoinIter).next"} {
		fn := mustFunc(c, q)
		if fn == nil {
			continue
		}
		var cmpCall ssa.CallInstruction
		for _, k := range an.Calls(fn) {
			if k.Common().IsInvoke() && k.Common().Method.Name() == "Compare" {
				cmpCall = k
			}
		}
		if cmpCall == nil {
			c.Violate("iterator|"+an.FuncName(fn)+"|same-key", "keys of the two sides are compared", c.P.Rel(fn.Pos()), "no Compare call")
			continue
		}
		r := (&an.Query{Fn: fn, Start: cmpCall, Assume: map[ssa.Value]an.Abs{cmpCall.Value(): an.AInt(0)}}).Run()
		okVal, okOrigin, nVal, nOrigin := true, true, 0, 0
		// stores in fn or in a private helper (setCurrent(key, value, origin)); the stored value is taken in the
		// calling context in which the store is reached on the equal-key path
		var blocks []*ssa.BasicBlock
		for _, g := range an.InlineReach(fn) {
			blocks = append(blocks, g.Blocks...)
		}
		for _, b := range blocks {
			for _, in := range b.Instrs {
				st, ok := in.(*ssa.Store)
				if !ok {
					continue
				}
				for _, state := range r.StatesAt(st) {
					val := r.ActualAt(st.Val, state)
					switch an.FieldOf(st.Addr) {
					case valueField:
						nVal++
						good := false
						for _, s := range an.AllSources(val) {
							if k, isC := an.Origin(s).(*ssa.Call); isC && k.Call.IsInvoke() && k.Call.Method.Name() == "Value" && fieldOfLoad(k.Call.Value) == memItField {
								good = true
							}
						}
						okVal = okVal && good
					case originField:
						// only a store that can be the last one before the function returns counts
						// (`origin = FromMem; if cmp == 0 { origin = FromBoth }` ends with FromBoth)
						if !finalStore(fn, st, originField, map[ssa.Value]an.Abs{cmpCall.Value(): an.AInt(0)}) {
							continue
						}
						nOrigin++
						k, isK := val.(*ssa.Const)
						okOrigin = okOrigin && isK && k.Value != nil && k.Value.String() == "2"
					}
				}
			}
		}
		c.Check(okVal && nVal >= 1, "iterator|"+an.FuncName(fn)+"|memory-wins-on-equal-key", "when both sides hold the same key the memory side's value is yielded", c.P.Rel(cmpCall.Pos()), fmt.Sprintf("%d value stores on the equal-key path", nVal))
		c.Check(okOrigin && nOrigin >= 1, "iterator|"+an.FuncName(fn)+"|both-advance-on-equal-key", "an equal key is marked FromBoth so that both sides advance past it", c.P.Rel(cmpCall.Pos()), fmt.Sprintf("%d origin stores on the equal-key path", nOrigin))
	}

	joinIterAdvanceRule(c)

	// (4) commit publishes then resets; reset only resets
	mreset := mustObj(c, odb+".(*MemDB).Reset")
	fe := mustObj(c, odb+".(*MemDB).ForEach")
	if commit := mustFunc(c, "smartcontract/storage.(*CacheDB).Commit"); commit != nil && mreset != nil && fe != nil {
		fes, rs := an.CallsTo(commit, fe), an.CallsTo(commit, mreset)
		ok := len(fes) == 1 && len(rs) == 1
		if ok {
			pass, _ := an.MustPass(c.P, commit, []ssa.Instruction{fes[0]}, []ssa.Instruction{rs[0]}, nil)
			post, _ := an.MustPassToSuccess(c.P, commit, []ssa.Instruction{rs[0]})
			ok = pass && post
		}
		c.Check(ok, "commit|CacheDB.Commit|publish-then-reset", "CacheDB.Commit enumerates its writes into the backend and then empties the cache on every path", c.P.Rel(commit.Pos()), "ForEach/Reset missing or out of order")
	}
	if reset := mustFunc(c, "smartcontract/storage.(*CacheDB).Reset"); reset != nil && mreset != nil {
		calls := effectCalls(reset)
		c.Check(len(calls) == 1 && an.CalleeObj(calls[0].Common()) == mreset, "commit|CacheDB.Reset|discards-only", "CacheDB.Reset only resets the memory layer (nothing is published)", c.P.Rel(reset.Pos()), "Reset does more than MemDB.Reset")
	}
	_ = types.Typ
}

// storedInto: v is stored to an allocation of which res is a load.
func storedInto(v ssa.Value, res ssa.Value) bool {
	u, ok := res.(*ssa.UnOp)
	if !ok || u.Op != token.MUL {
		return false
	}
	if u.X.Referrers() == nil {
		return false
	}
	for _, r := range *u.X.Referrers() {
		if st, isSt := r.(*ssa.Store); isSt && st.Addr == u.X && st.Val == v {
			return true
		}
	}
	return false
}
