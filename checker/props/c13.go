package props

import (
	"fmt"
	"go/token"
	"go/types"
	"strings"

	"golang.org/x/tools/go/ssa"

	"verif/checker/an"
)

func init() {
	register(&Prop{ID: "C13", Patterns: []string{"./vm/neovm/..."}, Run: runC13})
}

func isInt64(t types.Type) bool {
	b, ok := t.Underlying().(*types.Basic)
	return ok && b.Kind() == types.Int64
}

func runC13(c *an.Ctx) {
	const tp = "vm/neovm/types"
	c.Explanation = "A12 intfast + A2 guard on vm/neovm/types.IntValue: (1) in every IntValue method and in every function used as the machine-integer fast path of intOp, int64 `+ - * <<` and unary minus do not occur unless they come from package overflow (checked) or are dominated by an explicit exclusion of the overflowing operand, and int64 `/` needs an exclusion of (MinInt64, -1); " +
		"only comparison, bitwise and remainder operations, which cannot overflow, are allowed unchecked; (2) Div and Mod are unreachable past a zero divisor; (3) Lsh/Rsh bound the shift count before converting it and shifting; (4) the big-integer field is assigned only in IntValFromBigInt (size bound) and the two reasoned exceptions; (5) every error returned by an IntValue operation is consumed at its call sites in the VM executor. " +
		"Decides that the result cannot depend on the machine-vs-big representation through silent int64 overflow; does not decide exactness of math/big."
	intValue, _ := c.P.Obj(tp + ".IntValue").(*types.TypeName)
	intOp := mustFunc(c, tp+".IntValue.intOp")
	if intOp != nil {
		dispatcherRule(c, intOp)
	}
	if intValue == nil || intOp == nil {
		c.Undecide("anchor|IntValue", "anchors must resolve", "-", "type not found")
		return
	}
	// scope: methods of IntValue + fast-path functions passed to intOp
	scope := map[*ssa.Function]string{}
	// functions that receive the fast path: intOp itself, and wrappers that forward one of their own parameters to
	// it (divOp(divisor, fast, slow) { ...; return self.intOp(divisor, fast, slow) })
	fastArg := map[*ssa.Function]int{intOp: 2}
	for changed := true; changed; {
		changed = false
		for _, fn := range c.P.RepoSrcFuncs(tp) {
			for _, k := range an.Calls(fn) {
				callee := k.Common().StaticCallee()
				idx, isTarget := fastArg[callee]
				if callee == nil || !isTarget || idx >= len(k.Common().Args) {
					continue
				}
				if par, isPar := k.Common().Args[idx].(*ssa.Parameter); isPar && par.Parent() == fn {
					for i, fp := range fn.Params {
						if fp == par {
							if _, known := fastArg[fn]; !known {
								fastArg[fn] = i
								changed = true
							}
						}
					}
				}
			}
		}
	}
	for _, fn := range c.P.RepoSrcFuncs(tp) {
		if fn.Signature.Recv() != nil {
			rt := fn.Signature.Recv().Type()
			if p, ok := rt.(*types.Pointer); ok {
				rt = p.Elem()
			}
			if n, ok := rt.(*types.Named); ok && n.Obj() == intValue {
				scope[fn] = "method"
			}
		}
		for _, k := range an.Calls(fn) {
			callee := k.Common().StaticCallee()
			argIdx, isTarget := fastArg[callee]
			if callee == nil || !isTarget || argIdx >= len(k.Common().Args) {
				continue
			}
			fast := k.Common().Args[argIdx]
			if par, isPar := fast.(*ssa.Parameter); isPar && par.Parent() == fn {
				continue // a wrapper that hands its own fast-path parameter on (registered below as a target)
			}
			switch f := fast.(type) {
			case *ssa.MakeClosure:
				scope[f.Fn.(*ssa.Function)] = "fast path of " + fn.Name()
			case *ssa.Function:
				if strings.HasSuffix(an.FuncPkgPath(f), "/overflow") {
					c.Hold("intfast|"+fn.Name()+"|fast-path", "machine-integer fast path is an overflow-checked primitive", c.P.Rel(k.Pos()), f.String())
				} else {
					scope[f] = "fast path of " + fn.Name()
				}
			case *ssa.ChangeType:
				if g, ok := f.X.(*ssa.Function); ok {
					if strings.HasSuffix(an.FuncPkgPath(g), "/overflow") {
						c.Hold("intfast|"+fn.Name()+"|fast-path", "machine-integer fast path is an overflow-checked primitive", c.P.Rel(k.Pos()), g.String())
					} else {
						scope[g] = "fast path of " + fn.Name()
					}
				} else if mc, ok := f.X.(*ssa.MakeClosure); ok {
					scope[mc.Fn.(*ssa.Function)] = "fast path of " + fn.Name()
				}
			default:
				c.Undecide("intfast|"+fn.Name()+"|fast-path", "the fast path passed to intOp must be a function literal or a named function", c.P.Rel(k.Pos()), "computed function value")
			}
		}
	}
	c.Count("functions_analysed", len(scope))
	c.RequireMin("IntValue methods and fast-path functions", len(scope), 10)
	nOps := 0
	for fn, what := range scope {
		for _, b := range fn.Blocks {
			for _, in := range b.Instrs {
				switch x := in.(type) {
				case *ssa.BinOp:
					if !isInt64(x.Type()) {
						continue
					}
					switch x.Op {
					case token.ADD, token.SUB, token.MUL, token.SHL:
						nOps++
						c.Violate(fmt.Sprintf("intfast|%s|%s", an.FuncName(fn), x.Op), "unchecked int64 "+x.Op.String()+" on the machine-integer representation can overflow silently; use package overflow or fall back to big.Int", c.P.Rel(x.Pos()), what)
					case token.QUO:
						nOps++
						ok := excludesMinOverNegOne(fn, x)
						c.Check(ok, fmt.Sprintf("intfast|%s|%s", an.FuncName(fn), x.Op), "int64 division on the fast path must exclude (MinInt64, -1), whose exact quotient 2^63 does not fit int64", c.P.Rel(x.Pos()), what+": a / b evaluated for every a, b — MinInt64 / -1 wraps to MinInt64")
					case token.REM, token.AND, token.OR, token.XOR, token.AND_NOT, token.SHR:
						nOps++
						c.Hold(fmt.Sprintf("intfast|%s|%s", an.FuncName(fn), x.Op), "operation cannot overflow int64", c.P.Rel(x.Pos()), what)
					}
				case *ssa.UnOp:
					if x.Op == token.SUB && isInt64(x.Type()) {
						nOps++
						ok := dominatedByMinExclusion(fn, x)
						c.Check(ok, fmt.Sprintf("intfast|%s|neg", an.FuncName(fn)), "int64 negation must exclude MinInt64", c.P.Rel(x.Pos()), what)
					}
				}
			}
		}
	}
	c.Count("callsites_analysed", nOps)
	c.RequireMin("int64 operations inspected", nOps, 2)

	// (2) zero divisor
	isZero := mustObj(c, tp+".(*IntValue).IsZero")
	for _, n := range []string{"Div", "Mod"} {
		fn := mustFunc(c, tp+".IntValue."+n)
		if fn == nil || isZero == nil {
			continue
		}
		g := &an.Guard{Name: "divisor.IsZero()", MatchCall: func(k ssa.CallInstruction) bool { return an.CalleeObj(k.Common()) == isZero }, FailModes: [][]an.Abs{{an.ATrue}}}
		v := an.Guarded(c.P, fn, []*an.Guard{g}, func(in ssa.Instruction) bool { return isCallTo(in, funcObj(intOp)) }, false)
		okSubj := false
		for _, k := range an.CallsToReach(fn, isZero) {
			// the divisor: the method's second operand (whatever it is called), also when the test sits in a
			// private helper that is handed the divisor
			on := fn.Params[1].Name()
			ap := an.AccessPathIn(fn, recvOf(k.Common()))
			if al, isAl := recvOf(k.Common()).(*ssa.Alloc); isAl {
				if sp := an.SpilledParam(al); sp != nil {
					ap = an.AccessPathIn(fn, sp)
				}
			}
			if strings.HasPrefix(ap, "&"+on) || ap == on {
				okSubj = true
			}
		}
		c.Check(v.Holds && v.GuardSites == 1 && v.ActionSites >= 1 && okSubj, "guard|IntValue."+n+"|zero-divisor", n+" faults on a zero divisor before any division is attempted", c.P.Rel(fn.Pos()), v.Witness)
	}
	// (3) shift bound
	for _, n := range []string{"Lsh", "Rsh"} {
		fn := mustFunc(c, tp+".IntValue."+n)
		if fn == nil {
			continue
		}
		// count > MAX_INT_SIZE*8, in any spelling
		bound := relGuards("shift count > MAX", token.GTR, func(v ssa.Value) bool { _, isK := v.(*ssa.Const); return !isK }, isConstVal("256"))
		isBigShift := func(in ssa.Instruction) bool {
			k, ok := in.(*ssa.Call)
			if !ok || k.Call.StaticCallee() == nil {
				return false
			}
			s := k.Call.StaticCallee().String()
			if s == "(*math/big.Int).Lsh" || s == "(*math/big.Int).Rsh" {
				return true
			}
			// the shift handed to a private helper as a method expression: shiftBig(count, (*big.Int).Rsh)
			for _, a := range k.Call.Args {
				if ct, isCT := a.(*ssa.ChangeType); isCT {
					a = ct.X
				}
				if f, isF := a.(*ssa.Function); isF && (strings.Contains(f.String(), "math/big.Int).Lsh") || strings.Contains(f.String(), "math/big.Int).Rsh")) {
					return true
				}
			}
			return false
		}
		v := an.Guarded(c.P, fn, bound, isBigShift, false)
		c.Check(v.Holds && v.GuardSites == 1 && v.ActionSites >= 1, "guard|IntValue."+n+"|shift-bound", "the shift count is bounded by MAX_INT_SIZE*8 before it is converted and applied (no huge allocation, no truncation)", c.P.Rel(fn.Pos()), v.Witness)
		// the count is the second operand: other.integer < 0 (any spelling), also when the test sits in a private helper
		neg := relGuards("shift count < 0", token.LSS, func(x ssa.Value) bool {
			f := fieldOfLoad(x)
			if f == nil {
				if fl, isF := x.(*ssa.Field); isF {
					f = an.FieldOf(fl)
				}
			}
			return f != nil && f.Name() == "integer" && an.AccessPathIn(fn, x) == fn.Params[1].Name()+".integer"
		}, isConstVal("0"))
		isU64 := &an.Guard{Name: "bigint.IsUint64()", FailModes: [][]an.Abs{{an.AFalse}}, MatchCall: func(k ssa.CallInstruction) bool {
			f := k.Common().StaticCallee()
			return f != nil && f.String() == "(*math/big.Int).IsUint64"
		}}
		v = an.Guarded(c.P, fn, append(neg, isU64), isBigShift, false)
		c.Check(v.Holds && v.GuardSites == 2, "guard|IntValue."+n+"|negative-count", "a negative shift count faults", c.P.Rel(fn.Pos()), v.Witness)
	}
	// (4) writers of the bigint field
	bigField := c.P.Field(tp + ".IntValue.bigint")
	allowed := map[string]string{"IntValFromBigInt": "the size-checking constructor", "Not": "bitwise complement of an in-range big value", "Abs": "absolute value of an in-range value"}
	for _, fn := range c.P.RepoSrcFuncs("vm/neovm") {
		for _, w := range an.DirectFieldWrites(fn) {
			if w.Field != bigField || w.Kind != "store" {
				continue
			}
			_, ok := allowed[fn.Name()]
			if !ok && fn.Object() != nil && !fn.Object().Exported() {
				// a private helper that only the allowed constructors call is part of them
				callers, all := 0, true
				for _, g := range c.P.RepoSrcFuncs("vm/neovm") {
					for _, k := range an.Calls(g) {
						if k.Common().StaticCallee() == fn {
							callers++
							if _, okCaller := allowed[g.Name()]; !okCaller {
								all = false
							}
						}
					}
				}
				ok = callers >= 1 && all
			}
			c.Check(ok, "confine|IntValue.bigint|"+an.FuncName(fn), "the big-integer representation is produced only by IntValFromBigInt (which enforces the size bound) and the two reasoned exceptions", c.P.Rel(w.In.Pos()), "new direct writer of IntValue.bigint bypasses the size bound")
		}
	}
	// composite literals IntValue{bigint: ...} are stores too after SSA lowering; (covered above)
	// (5) errors consumed in the executor
	dropped := 0
	checked := 0
	for _, fn := range c.P.RepoSrcFuncs("vm/neovm") {
		if an.FuncPkgPath(fn) != an.RepoMod+"/vm/neovm" {
			continue
		}
		for _, k := range an.Calls(fn) {
			callee := k.Common().StaticCallee()
			if callee == nil || callee.Signature.Recv() == nil {
				continue
			}
			rt := callee.Signature.Recv().Type()
			if p, ok := rt.(*types.Pointer); ok {
				rt = p.Elem()
			}
			n, ok := rt.(*types.Named)
			if !ok || (n.Obj() != intValue) {
				continue
			}
			res := callee.Signature.Results()
			if res.Len() != 2 || !types.Identical(res.At(1).Type(), types.Universe.Lookup("error").Type()) {
				continue
			}
			checked++
			used := false
			if v := k.Value(); v != nil {
				for _, e := range an.Extracts(v)[1] {
					for _, r := range *e.Referrers() {
						if _, isDbg := r.(*ssa.DebugRef); !isDbg {
							used = true
						}
					}
				}
			}
			if !used {
				dropped++
				c.Violate("errors|"+an.FuncName(fn)+"|"+callee.Name(), "the error of an integer operation must not be dropped", c.P.Rel(k.Pos()), "error result unused: an out-of-range result would be pushed")
			}
		}
	}
	if dropped == 0 {
		c.Hold("errors|vm/neovm|IntValue-operations", "the error of an integer operation must not be dropped", "-", fmt.Sprintf("%d call sites", checked))
	}
	c.RequireMin("IntValue operation call sites in the executor", checked, 4)
}

// excludesMinOverNegOne: the division is dominated by a branch that excludes
// b == -1 (or a == MinInt64).
func excludesMinOverNegOne(fn *ssa.Function, div *ssa.BinOp) bool {
	for _, v := range []ssa.Value{div.Y, div.X} {
		want := "-1"
		if v == div.X {
			want = "-9223372036854775808"
		}
		for d := div.Block(); d != nil; d = d.Idom() {
			p := d.Idom()
			if p == nil {
				break
			}
			iff, ok := p.Instrs[len(p.Instrs)-1].(*ssa.If)
			if !ok {
				continue
			}
			cmp, isB := iff.Cond.(*ssa.BinOp)
			if !isB || (cmp.Op != token.EQL && cmp.Op != token.NEQ) {
				continue
			}
			k, isK := cmp.Y.(*ssa.Const)
			if cmp.X != v || !isK || k.Value == nil || k.Value.String() != want {
				continue
			}
			// block d must be on the side where v != want
			if cmp.Op == token.EQL && p.Succs[1] == d && len(d.Preds) == 1 {
				return true
			}
			if cmp.Op == token.NEQ && p.Succs[0] == d && len(d.Preds) == 1 {
				return true
			}
		}
	}
	return false
}

func dominatedByMinExclusion(fn *ssa.Function, neg *ssa.UnOp) bool {
	for d := neg.Block(); d != nil; d = d.Idom() {
		p := d.Idom()
		if p == nil {
			break
		}
		iff, ok := p.Instrs[len(p.Instrs)-1].(*ssa.If)
		if !ok {
			continue
		}
		cmp, isB := iff.Cond.(*ssa.BinOp)
		if !isB || cmp.Op != token.EQL {
			continue
		}
		k, isK := cmp.Y.(*ssa.Const)
		if !isK || k.Value == nil || k.Value.String() != "-9223372036854775808" {
			continue
		}
		if an.AccessPath(cmp.X) == an.AccessPath(neg.X) && p.Succs[1] != nil && p.Succs[1].Dominates(neg.Block()) {
			return true
		}
	}
	return false
}

// dispatcherRule: the binary arithmetic methods produce their (non-error)
// result only through intOp, the one place that handles both the machine and
// the big representation; a shortcut that returns a value computed from one
// representation alone makes the result depend on how an operand is stored.
func dispatcherRule(c *an.Ctx, intOp *ssa.Function) {
	n := 0
	for _, name := range []string{"Mod", "Div", "Mul", "Add", "Sub", "Xor", "And", "Or"} {
		fn := mustFunc(c, "vm/neovm/types.IntValue."+name)
		if fn == nil {
			continue
		}
		n++
		ok, why := true, ""
		for _, r := range an.Returns(fn) {
			if len(r.Results) != 2 {
				continue
			}
			// an error return: the error result is not the nil constant and does not come from intOp
			fromOp := func(v ssa.Value) bool {
				for _, src := range an.AllSources(v) {
					o := an.Origin(src)
					if e, isE := o.(*ssa.Extract); isE {
						if k, isK := e.Tuple.(*ssa.Call); isK && k.Call.StaticCallee() == intOp {
							continue
						}
					}
					return false
				}
				return true
			}
			if fromOp(r.Results[0]) && fromOp(r.Results[1]) {
				continue
			}
			if k, isK := r.Results[1].(*ssa.Const); !isK || k.Value == nil {
				// error operand is not a constant nil: an error return if it is a (non-nil) error value
				if _, isConst := r.Results[1].(*ssa.Const); !isConst {
					continue // returns a named error value such as ERR_DIV_MOD_BY_ZERO
				}
			}
			ok, why = false, "a success return at "+c.P.Rel(r.Pos())+" does not come from intOp"
		}
		c.Check(ok, "dispatch|IntValue."+name+"|result-only-from-intOp", "a binary integer operation returns a value only through intOp, which evaluates it consistently for machine-size and big operands", c.P.Rel(fn.Pos()), why)
	}
	c.RequireMin("binary IntValue operations", n, 8)
}
