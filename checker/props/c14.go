package props

import (
	"fmt"

	"golang.org/x/tools/go/ssa"

	"verif/checker/an"
)

func init() {
	register(&Prop{ID: "C14", Patterns: []string{"./vm/neovm/..."}, Run: runC14})
}

const nvt = "vm/neovm/types"

// detectorGuards: the cycle/depth detector as a guard (fails when it reports
// a cycle/over-depth or an error).
func detectorGuards(c *an.Ctx) []*an.Guard {
	d := mustObj(c, nvt+".(*VmValue).CircularRefAndDepthDetection")
	if d == nil {
		return nil
	}
	return []*an.Guard{{Name: "CircularRefAndDepthDetection", MatchCall: func(k ssa.CallInstruction) bool { return an.CalleeObj(k.Common()) == d },
		FailModes: [][]an.Abs{{an.ATrue, an.AUnknown}, {an.AUnknown, an.ANonNil}}}}
}

// valueRecursionRules: A8 over the NeoVM value package; shared by C14 and C12.
func valueRecursionRules(c *an.Ctx, keyPrefix string) {
	det := detectorGuards(c)
	inner := mustFunc(c, nvt+".(*VmValue).circularRefAndDepthDetection")
	if det == nil || inner == nil {
		return
	}
	funcs := c.P.RepoSrcFuncs(nvt)
	all := c.P.RepoSrcFuncs("vm/neovm", "smartcontract/service/neovm")
	c.Count("functions_analysed", len(funcs))
	// A8-L on the detector
	n := loopCompleteness(c, inner, keyPrefix+"-looplen")
	c.RequireMin("range loops in the cycle detector", n, 2)
	detectorComplete := true
	for _, o := range c.Obs {
		if o.Verdict == an.Violated && len(o.Key) > len(keyPrefix)+8 && o.Key[:len(keyPrefix)+8] == keyPrefix+"-looplen" {
			detectorComplete = false
		}
	}
	sccs := an.RecursiveSCCs(funcs, an.StaticEdges)
	c.RequireMin("recursive components in vm/neovm/types", len(sccs), 6)
	for _, s := range sccs {
		key := keyPrefix + "-scc|" + s.Name()
		rule := "every recursive traversal of VM values is bounded: by a depth/count bound that grows along each cycle edge, or by a successful cycle/depth detection (at every level or at every entry) by a detector that visits every element"
		site := c.P.Rel(s.Funcs[0].Pos())
		if s.Has(inner) {
			// the detector itself: depth parameter
			kind, why := sccJustify(c, s, nil, all)
			c.Check(kind == "bound", key, rule, site, why)
			continue
		}
		kind, why := sccJustify(c, s, det, all)
		switch kind {
		case "bound":
			c.Hold(key, rule, site, "bounded by a depth/count bound")
		case "detector-each-level", "detector-at-entry":
			if detectorComplete {
				c.Hold(key, rule, site, kind)
			} else {
				c.Violate(key, rule, site, fmt.Sprintf("the recursion is bounded only by CircularRefAndDepthDetection (%s), and that detector examines only the first element of each container: a cycle reachable through a later element is not seen and the traversal recurses without bound", kind))
			}
		default:
			c.Violate(key, rule, site, "no bound found: "+why)
		}
	}
}

func runC14(c *an.Ctx) {
	c.Explanation = "A8 recursion + A8-L loop completeness + A2 guard on vm/neovm/types: every recursive component of the value package is justified by a depth/count bound that cuts each cycle edge and grows along it (deserialize's depth, cloneStruct's and convertNeoVmValueHexString's shared counters, the detector's own depth), or by a successful call of the cycle/depth detector at every level or at every entry, which is sound only if the detector visits every element of every container (A8-L: no range loop that returns in its first iteration); " +
		"deserialize compares its depth with the limit before reading. Decides 'a cycle at any position is rejected instead of recursed into' and 'decoding recursion is bounded' structurally; does not decide round-trip equality."
	if !controlGuard(c) {
		return
	}
	valueRecursionRules(c, "recursion")
	// a decoded count never sizes an allocation unbounded (or negative after conversion)
	decodedSizesRuleFor(c, "vm-value-decoders", 1, "vm/neovm/types")
	// deserialize: bound compared first
	if d := mustFunc(c, nvt+".(*VmValue).deserialize"); d != nil {
		gs := an.BoundGuards(d)
		next := mustObj(c, "common.(*ZeroCopySource).NextByte")
		ok := false
		for _, g := range gs {
			v := an.Guarded(c.P, d, []*an.Guard{g}, func(in ssa.Instruction) bool { return isCallTo(in, next) }, false)
			if v.Holds && v.GuardSites > 0 && v.ActionSites > 0 {
				ok = true
			}
		}
		c.Check(ok, "guard|deserialize|depth-before-read", "deserialize refuses to go deeper than the limit before consuming input", c.P.Rel(d.Pos()), "no depth bound cuts the first read")
	}
}
