package props

import (
	"fmt"
	"strings"

	"verif/checker/an"
)

// decodedSizesRule (A7, size clause only): in the native contracts and the VM services, an integer decoded from the
// transaction's argument bytes is never used as an allocation size, slice bound or index without a dominating bound:
// `make([]T, 0, m)` with an attacker-chosen m is a runtime panic (makeslice: cap out of range) that no error path
// catches. The canonical-form and eof clauses of the decoder discipline are not crash conditions and are left to
// C19/C24.
func decodedSizesRule(c *an.Ctx) {
	decodedSizesRuleFor(c, "contract-argument-decoders", 50, "smartcontract/service/native", "smartcontract/service/neovm", "smartcontract/service/wasmvm", "smartcontract/states", "smartcontract/event", "vm/neovm")
}

func decodedSizesRuleFor(c *an.Ctx, what string, min int, pkgs ...string) {
	nf, ns, bad := 0, 0, 0
	for _, fn := range c.P.RepoSrcFuncs(pkgs...) {
		if strings.HasSuffix(c.P.Fset.Position(fn.Pos()).Filename, "_test.go") || strings.Contains(an.FuncPkgPath(fn), "/testsuite") || strings.Contains(an.FuncPkgPath(fn), "/wasmtest") {
			continue
		}
		issues, st := an.CheckDecoderWithHelpers(c.P, fn)
		if st.Reads == 0 {
			continue
		}
		nf++
		ns += st.SizeUses
		for _, is := range issues {
			if is.Rule != "unbounded-size" {
				continue
			}
			bad++
			c.Violate("sizes|"+is.Key, "an integer decoded from contract arguments is bounded before it sizes an allocation, a slice or an index (an unbounded size is a runtime panic)", c.P.Rel(is.Pos), is.Detail)
		}
	}
	c.RequireMin("decoding functions scanned for input-derived sizes ("+what+")", nf, min)
	if bad == 0 {
		c.Hold("sizes|"+what, "an integer decoded from contract arguments is bounded before it sizes an allocation, a slice or an index", "-", fmt.Sprintf("%d decoding functions, %d size uses", nf, ns))
	}
}
