package props

import (
	"fmt"
	"go/ast"
	"go/types"
	"sort"
	"strings"

	"golang.org/x/tools/go/ssa"

	"verif/checker/an"
)

func init() {
	register(&Prop{ID: "C40", Patterns: []string{"./core/store/ledgerstore"}, Run: runC40})
}

func funcDeclOf(c *an.Ctx, fn *ssa.Function) *ast.FuncDecl { return c.P.FuncDecl(fn) }

func runC40(c *an.Ctx) {
	c.Explanation = "A3 sequence + A11 siblings + A4 who-may-insert on the block store: (1) saveBlockToBlockStore records, on every success path, the header index, the current block, the hash-by-height and the block itself for the same (height, hash, block); SaveBlock saves the header record and every transaction of the block with the block's height; " +
		"(2) writer/reader agreement: each record kind is written and read under the same key constructor (header, transaction, hash-by-height, current block), and the header record's layout (fee, header, transaction count, one hash per transaction) is what loadHeaderWithTx reads; GetBlock assembles the block from that header and from every listed transaction, failing if one is missing; " +
		"(3) cache completeness: a value enters the block cache only if it is a complete block (the block being saved, or a block literal whose Transactions are set), and a transaction enters the transaction cache with the height of the block that is being saved — a cache hit can therefore stand for the stored record. " +
		"Decides these structural necessary conditions for all chains; the header-index window arithmetic and LevelDB itself are not decided."
	if !controlGuard(c) {
		return
	}
	headerIndexPairRule(c)
	L := ls
	sb := mustFunc(c, L+".(*LedgerStoreImp).saveBlockToBlockStore")
	saveBlock := mustFunc(c, L+".(*BlockStore).SaveBlock")
	saveHeader := mustFunc(c, L+".(*BlockStore).SaveHeader")
	loadHT := mustFunc(c, L+".(*BlockStore).loadHeaderWithTx")
	getBlock := mustFunc(c, L+".(*BlockStore).GetBlock")
	if sb == nil || saveBlock == nil || saveHeader == nil || loadHT == nil || getBlock == nil {
		return
	}
	// (1) save path
	sequenceOnSuccess(c, "sequence|saveBlockToBlockStore", "a committed block is recorded under every index: header index, current block, hash by height, block", sb, []seqStep{
		step(c, "setHeaderIndex", L+".(*LedgerStoreImp).setHeaderIndex"),
		step(c, "SaveCurrentBlock", L+".(*BlockStore).SaveCurrentBlock"),
		step(c, "SaveBlockHash", L+".(*BlockStore).SaveBlockHash"),
		step(c, "SaveBlock", L+".(*BlockStore).SaveBlock"),
	}, true)
	// same subject: height/hash arguments derive from the block parameter
	blockParam := sb.Params[1]
	okSubj, why := true, ""
	for _, k := range an.Calls(sb) {
		o := an.CalleeObj(k.Common())
		if o == nil {
			continue
		}
		args := argsNoRecv(k.Common())
		switch o.Name() {
		case "setHeaderIndex", "SaveCurrentBlock", "SaveBlockHash":
			h, hs := args[0], args[1]
			if f := fieldOfLoad(h); f == nil || f.Name() != "Height" || !derivesFrom(h, blockParam) {
				okSubj, why = false, o.Name()+": height is not block.Header.Height"
			}
			if kk, isC := hs.(*ssa.Call); !isC || an.CalleeObj(kk.Common()) == nil || an.CalleeObj(kk.Common()).Name() != "Hash" || recvOf(kk.Common()) != ssa.Value(blockParam) {
				okSubj, why = false, o.Name()+": hash is not block.Hash()"
			}
		case "SaveBlock":
			if args[0] != ssa.Value(blockParam) {
				okSubj, why = false, "SaveBlock is not given the block"
			}
		}
	}
	c.Check(okSubj, "same-subject|saveBlockToBlockStore|height-hash-block", "all four records are written for block.Header.Height, block.Hash() and the block itself", c.P.Rel(sb.Pos()), why)
	// SaveBlock: header, then every transaction with the block's height
	st := mustObj(c, L+".(*BlockStore).SaveTransaction")
	shObj := mustObj(c, L+".(*BlockStore).SaveHeader")
	if st != nil && shObj != nil {
		ok, w := an.MustPassToSuccess(c.P, saveBlock, callsIn(saveBlock, shObj))
		c.Check(ok && len(callsIn(saveBlock, shObj)) == 1, "sequence|SaveBlock|saves-header", "SaveBlock writes the header record on every success path", c.P.Rel(saveBlock.Pos()), w)
		loopIterationsMustCall(c, "forall|SaveBlock", "every transaction of the block is saved", saveBlock, st)
		okH := false
		for _, k := range an.CallsTo(saveBlock, st) {
			a := argsNoRecv(k.Common())
			if f := fieldOfLoad(a[1]); f != nil && f.Name() == "Height" && derivesFrom(a[1], saveBlock.Params[1]) {
				okH = true
			}
		}
		c.Check(okH, "same-subject|SaveBlock|tx-height-is-block-height", "each transaction is recorded with the height of the block it is saved with", c.P.Rel(saveBlock.Pos()), "the height passed to SaveTransaction is not block.Header.Height")
		// the loop ranges over block.Transactions
		c.Check(rangesOverField(saveBlock, "Transactions", saveBlock.Params[1]) && rangesOverField(saveHeader, "Transactions", saveHeader.Params[1]), "forall|SaveBlock/SaveHeader|ranges-block-transactions",
			"the transaction loop of SaveBlock and the hash loop of SaveHeader range over block.Transactions", c.P.Rel(saveBlock.Pos()), "loop does not range over block.Transactions")
	}
	// (2) header record layout
	wd, rd := funcDeclOf(c, saveHeader), funcDeclOf(c, loadHT)
	pk := c.P.Pkg(L)
	if wd == nil || rd == nil || pk == nil {
		c.Undecide("codec|header-record", "writer/reader syntax must be available", "-", "declaration not found")
	} else {
		w := strings.Join(codecTokensOf(c, pk, wd, 0), " ")
		r := strings.Join(codecTokensOf(c, pk, rd, 0), " ")
		c.Check(w == r && w != "" && !strings.Contains(w, "?"), "codec|header-record|SaveHeader-vs-loadHeaderWithTx", "the header record written by SaveHeader has the layout loadHeaderWithTx reads (fee, header, transaction count, one hash per transaction)", c.P.Rel(loadHT.Pos()), "writer: ["+w+"]  reader: ["+r+"]")
	}
	// key constructors per record kind
	type kind struct {
		name    string
		ctor    string
		writers []string
		readers []string
	}
	kinds := []kind{
		{"header", "genHeaderKey", []string{"SaveHeader"}, []string{"loadHeaderWithTx", "loadRawHeader", "ContainBlock", "GetSysFeeAmount"}},
		{"transaction", "genTransactionKey", []string{"putTransaction"}, []string{"loadTransaction", "ContainTransaction"}},
		{"hash-by-height", "genBlockHashKey", []string{"SaveBlockHash"}, []string{"GetBlockHash"}},
		{"current-block", "genCurrentBlockKey", []string{"SaveCurrentBlock"}, []string{"GetCurrentBlock"}},
	}
	allCtors := map[*types.Func]string{}
	for _, k := range kinds {
		if o := mustObj(c, L+"."+k.ctor); o != nil {
			allCtors[o] = k.ctor
		}
	}
	for _, k := range kinds {
		ctor := mustObj(c, L+"."+k.ctor)
		if ctor == nil {
			continue
		}
		for _, nm := range append(append([]string{}, k.writers...), k.readers...) {
			fn := mustFunc(c, L+".(*BlockStore)."+nm)
			if fn == nil {
				continue
			}
			used := map[string]bool{}
			for _, call := range an.Calls(fn) {
				if o := an.CalleeObj(call.Common()); o != nil {
					if n, ok := allCtors[o]; ok {
						used[n] = true
					}
				}
			}
			var us []string
			for u := range used {
				us = append(us, u)
			}
			sort.Strings(us)
			c.Check(len(us) == 1 && us[0] == k.ctor, "keys|"+k.name+"|"+nm, "every reader and writer of a record kind addresses it with the same key constructor", c.P.Rel(fn.Pos()), fmt.Sprintf("%s uses %v, expected %s", nm, us, k.ctor))
		}
	}
	// GetBlock: header + every listed transaction, failure if one is missing
	gt := mustObj(c, L+".(*BlockStore).GetTransaction")
	lht := mustObj(c, L+".(*BlockStore).loadHeaderWithTx")
	if gt != nil && lht != nil {
		loopIterationsMustCall(c, "forall|GetBlock", "GetBlock fetches every transaction listed in the header record", getBlock, gt)
		// a block literal returned by GetBlock has both Header and Transactions set
		okLit := false
		for _, b := range getBlock.Blocks {
			for _, in := range b.Instrs {
				if al, ok := in.(*ssa.Alloc); ok && isBlockType(al.Type()) {
					if completeBlockLiteral(al) {
						okLit = true
					} else {
						okLit = false
						c.Violate("assemble|GetBlock|incomplete-literal", "blocks assembled by GetBlock carry header and transactions", c.P.Rel(al.Pos()), "a Block literal without Transactions")
					}
				}
			}
		}
		c.Check(okLit, "assemble|GetBlock|header-and-transactions", "the block assembled from the store has its Header and its Transactions set", c.P.Rel(getBlock.Pos()), "no complete Block literal in GetBlock")
	}

	// (3) cache completeness
	bcField := c.P.Field(L + ".BlockCache.blockCache")
	tcField := c.P.Field(L + ".BlockCache.transactionCache")
	if bcField == nil || tcField == nil {
		c.Undecide("anchor|BlockCache fields", "anchors must resolve", "-", "field not found")
		return
	}
	fns := c.P.RepoSrcFuncs(L)
	nIns := 0
	for _, fn := range fns {
		if strings.HasSuffix(c.P.Fset.Position(fn.Pos()).Filename, "_test.go") {
			continue
		}
		for _, k := range an.Calls(fn) {
			cc := k.Common()
			if cc.IsInvoke() || cc.StaticCallee() == nil || cc.StaticCallee().Name() != "Add" || len(cc.Args) < 3 {
				continue
			}
			f := fieldOfLoad(cc.Args[0])
			if f != bcField && f != tcField {
				continue
			}
			nIns++
			val := cc.Args[2]
			if mi, ok := val.(*ssa.MakeInterface); ok {
				val = mi.X
			}
			key := fmt.Sprintf("cache|%s|insert#%s", an.FuncName(fn), f.Name())
			if f == bcField {
				ok, why := completeBlockValue(c, fns, fn, val, 0)
				c.Check(ok, key, "only complete blocks (header and transactions) enter the block cache, because a cache hit is returned as the stored block", c.P.Rel(k.Pos()), why)
			} else {
				ok, why := txCacheHeightOK(c, fns, fn, val)
				c.Check(ok, key, "a transaction enters the transaction cache with the height of the block it is saved with", c.P.Rel(k.Pos()), why)
			}
		}
	}
	c.RequireMin("insertions into the block/transaction caches", nIns, 2)
}

func derivesFrom(v ssa.Value, root ssa.Value) bool {
	for i := 0; i < 8; i++ {
		if v == root {
			return true
		}
		switch x := v.(type) {
		case *ssa.UnOp:
			v = x.X
		case *ssa.FieldAddr:
			v = x.X
		case *ssa.Field:
			v = x.X
		case *ssa.Convert:
			v = x.X
		case *ssa.Alloc:
			// a by-value parameter spilled into a local
			if x.Referrers() != nil {
				for _, r := range *x.Referrers() {
					if st, ok := r.(*ssa.Store); ok && st.Addr == ssa.Value(x) && st.Val == root {
						return true
					}
				}
			}
			return false
		default:
			return false
		}
	}
	return false
}

// rangesOverField: fn has a range-index loop whose ranged slice is a load of
// root.<field>.
func rangesOverField(fn *ssa.Function, field string, root ssa.Value) bool {
	for _, b := range fn.Blocks {
		for _, in := range b.Instrs {
			k, ok := in.(*ssa.Call)
			if !ok {
				continue
			}
			if bi, isB := k.Call.Value.(*ssa.Builtin); isB && bi.Name() == "len" {
				if f := fieldOfLoad(k.Call.Args[0]); f != nil && f.Name() == field && derivesFrom(k.Call.Args[0], root) {
					// used as a loop bound
					if k.Referrers() != nil {
						for _, r := range *k.Referrers() {
							if bo, isBO := r.(*ssa.BinOp); isBO && strings.HasPrefix(bo.Block().Comment, "rangeindex") {
								return true
							}
						}
					}
				}
			}
		}
	}
	return false
}

func isBlockType(t types.Type) bool {
	if p, ok := t.(*types.Pointer); ok {
		t = p.Elem()
	}
	nm, ok := t.(*types.Named)
	return ok && nm.Obj().Name() == "Block" && nm.Obj().Pkg() != nil && strings.HasSuffix(nm.Obj().Pkg().Path(), "core/types")
}

// completeBlockLiteral: the allocation of a types.Block has stores to both
// its Header and its Transactions field.
func completeBlockLiteral(al *ssa.Alloc) bool {
	set := map[string]bool{}
	if al.Referrers() == nil {
		return false
	}
	for _, r := range *al.Referrers() {
		if fa, ok := r.(*ssa.FieldAddr); ok && fa.Referrers() != nil {
			for _, r2 := range *fa.Referrers() {
				if st, isSt := r2.(*ssa.Store); isSt && st.Addr == ssa.Value(fa) {
					if f := an.FieldOf(fa); f != nil {
						set[f.Name()] = true
					}
				}
			}
		}
	}
	return set["Header"] && set["Transactions"]
}

// completeBlockValue: v is a complete block: a complete literal, or a
// parameter for which every static caller passes a complete block (the block
// handed to SaveBlock by the commit path counts as complete: it is the
// committed block itself).
func completeBlockValue(c *an.Ctx, fns []*ssa.Function, fn *ssa.Function, v ssa.Value, depth int) (bool, string) {
	if depth > 4 {
		return false, "call chain too deep"
	}
	switch x := v.(type) {
	case *ssa.Alloc:
		if completeBlockLiteral(x) {
			return true, ""
		}
		return false, "a Block literal without both Header and Transactions at " + c.P.Rel(x.Pos())
	case *ssa.Parameter:
		idx := -1
		for i, p := range fn.Params {
			if p == x {
				idx = i
			}
		}
		if an.FuncName(fn) == "(*"+ls+".LedgerStoreImp).saveBlockToBlockStore" || an.FuncName(fn) == "(*"+ls+".LedgerStoreImp).submitBlock" {
			return true, "" // the block being committed
		}
		n := 0
		for _, caller := range fns {
			if strings.HasSuffix(c.P.Fset.Position(caller.Pos()).Filename, "_test.go") {
				continue
			}
			for _, k := range an.Calls(caller) {
				if k.Common().StaticCallee() != fn || idx < 0 || idx >= len(k.Common().Args) {
					continue
				}
				n++
				if ok, why := completeBlockValue(c, fns, caller, k.Common().Args[idx], depth+1); !ok {
					return false, why
				}
			}
		}
		if n == 0 {
			return false, "no static caller found for " + an.FuncName(fn)
		}
		return true, ""
	case *ssa.Call:
		if o := an.CalleeObj(x.Common()); o != nil && o.Name() == "GetBlock" {
			return true, ""
		}
	case *ssa.Extract:
		if k, ok := x.Tuple.(*ssa.Call); ok {
			if o := an.CalleeObj(k.Common()); o != nil && (o.Name() == "GetBlock" || o.Name() == "GetBlockByHash" || o.Name() == "GetBlockByHeight") {
				return true, ""
			}
		}
	}
	return false, "value inserted into the block cache is not recognisably a complete block (" + v.String() + " in " + an.FuncName(fn) + ")"
}

// txCacheHeightOK: the cached value's Height is a parameter that every caller
// chain fills with block.Header.Height (SaveBlock) .
func txCacheHeightOK(c *an.Ctx, fns []*ssa.Function, fn *ssa.Function, v ssa.Value) (bool, string) {
	al, ok := v.(*ssa.Alloc)
	if !ok || al.Referrers() == nil {
		return false, "cached value is not a literal"
	}
	var h ssa.Value
	for _, r := range *al.Referrers() {
		if fa, isFA := r.(*ssa.FieldAddr); isFA && an.FieldOf(fa) != nil && an.FieldOf(fa).Name() == "Height" && fa.Referrers() != nil {
			for _, r2 := range *fa.Referrers() {
				if st, isSt := r2.(*ssa.Store); isSt {
					h = st.Val
				}
			}
		}
	}
	if h == nil {
		return false, "Height of the cached value is not set"
	}
	var chase func(fn *ssa.Function, v ssa.Value, depth int) (bool, string)
	chase = func(fn *ssa.Function, v ssa.Value, depth int) (bool, string) {
		if depth > 4 {
			return false, "call chain too deep"
		}
		if f := fieldOfLoad(v); f != nil && f.Name() == "Height" {
			return true, ""
		}
		p, isP := v.(*ssa.Parameter)
		if !isP {
			return false, "height is not block.Header.Height (" + v.String() + " in " + an.FuncName(fn) + ")"
		}
		idx := -1
		for i, q := range fn.Params {
			if q == p {
				idx = i
			}
		}
		n := 0
		for _, caller := range fns {
			if strings.HasSuffix(c.P.Fset.Position(caller.Pos()).Filename, "_test.go") {
				continue
			}
			for _, k := range an.Calls(caller) {
				if k.Common().StaticCallee() != fn {
					continue
				}
				n++
				if ok, why := chase(caller, k.Common().Args[idx], depth+1); !ok {
					return false, why
				}
			}
		}
		if n == 0 {
			return false, "no caller"
		}
		return true, ""
	}
	return chase(fn, h, 0)
}
