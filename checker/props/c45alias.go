package props

import (
	"fmt"
	"sort"
	"strings"

	"verif/checker/an"
)

// appendAliasRule (C45): storage keys of the ONT ID contract are built as
// append(encId, FIELD_x); a key that is still in use must not be clobbered by
// a later append to the same encId.
func appendAliasRule(c *an.Ctx, pkgs ...string) {
	a := an.NewAppendAlias()
	pairs := 0
	var issues []string
	nfn := 0
	for _, fn := range c.P.RepoSrcFuncs(pkgs...) {
		if strings.HasSuffix(c.P.Fset.Position(fn.Pos()).Filename, "_test.go") {
			continue
		}
		nfn++
		n, is := a.Hazards(c.P, fn)
		pairs += n
		issues = append(issues, is...)
	}
	sort.Strings(issues)
	c.Count("append_pairs_on_one_base", pairs)
	c.Check(len(issues) == 0, "alias|ontid|append-result-outlives-reappend", "a slice built by append(base, ...) (a storage key) is not used after the same base slice has been appended to again, directly or inside a callee — the two results may share one backing array and the key would silently change",
		strings.Join(pkgs, ","), fmt.Sprintf("%d functions, %d re-append pairs; %s", nfn, pairs, strings.Join(issues, " | ")))
}
