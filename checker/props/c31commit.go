package props

import (
	"fmt"
	"go/token"
	"go/types"
	"math"

	"golang.org/x/tools/go/ssa"

	"verif/checker/an"
)

// commitDoneFallbackRule (C31, added for seed C31c): when the commit messages alone do not reach consensus,
// BlockPool.commitDone falls back to counting the endorsement signatures it holds. It may report a proposer as
// committed from that fallback only on an edge where a count *kept per proposer* (a map entry keyed by the counted
// signature's EndorsedProposer) exceeded the threshold. A counter shared by several proposals - e.g. one counter for
// all empty-block endorsements whichever proposal they name - lets signatures given to different proposals add up
// to a quorum none of them has.
func commitDoneFallbackRule(c *an.Ctx, gc *ssa.Function) {
	cd := mustFunc(c, "consensus/vbft.(*BlockPool).commitDone")
	if cd == nil {
		return
	}
	// the primary path found nothing: getCommitConsensus returned the "no proposer" marker
	extra := map[ssa.Value]an.Abs{}
	for _, k := range an.CallsToReach(cd, funcObj(gc)) {
		for _, e := range an.Extracts(k.Value())[0] {
			extra[e] = an.AInt(math.MaxUint32)
		}
	}
	keyedByProposer := func(v ssa.Value) bool {
		if b, isB := v.(*ssa.BinOp); isB && b.Op == token.ADD {
			v = b.X
		}
		if e, isE := v.(*ssa.Extract); isE {
			v = e.Tuple
		}
		l, isL := v.(*ssa.Lookup)
		if !isL {
			return false
		}
		if _, isMap := l.X.Type().Underlying().(*types.Map); !isMap {
			return false
		}
		f := fieldOfLoad(l.Index)
		return f != nil && f.Name() == "EndorsedProposer"
	}
	// the guard fails when "per-proposer count <= threshold"
	guards := relGuards("endorsements of this proposal > threshold", token.LEQ, keyedByProposer, func(y ssa.Value) bool { return !keyedByProposer(y) })
	// "a proposal is named as the committed one": a read of some signature's EndorsedProposer whose value leaves the
	// counting code as a result (flows into a return value or into the variable that is returned), as opposed to being
	// used as a map key or in a comparison
	isNaming := func(in ssa.Instruction) bool {
		ld, ok := in.(*ssa.UnOp)
		if !ok || ld.Op != token.MUL || ld.Referrers() == nil {
			return false
		}
		if f := fieldOfLoad(ld); f == nil || f.Name() != "EndorsedProposer" {
			return false
		}
		for _, r := range *ld.Referrers() {
			switch r.(type) {
			case *ssa.Phi, *ssa.Return, *ssa.Store:
				return true
			}
		}
		return false
	}
	v := an.GuardedX(c.P, cd, guards, extra, isNaming, false)
	sites, bad := v.GuardSites, ""
	if !v.Holds {
		bad = "a proposal is named as committed although no per-proposal count exceeded the threshold: " + v.Witness
	}
	if v.ActionSites == 0 {
		bad = "no place where the fallback names a proposal was found"
	}
	c.Check(len(extra) >= 1 && sites >= 1 && bad == "", "quorum|commitDone|fallback-counts-per-proposal", "when commit messages alone give no consensus, commitDone reports a proposal as committed only where a count kept for that very proposal (a map entry keyed by the signature's EndorsedProposer) exceeded the signature quorum", c.P.Rel(cd.Pos()),
		fmt.Sprintf("per-proposal comparisons found: %d; %s", sites, bad))
}
