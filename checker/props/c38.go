package props

import (
	"fmt"
	"go/token"
	"go/types"
	"sort"
	"strings"

	"golang.org/x/tools/go/ssa"

	"verif/checker/an"
)

const acct = "account"

func init() {
	register(&Prop{ID: "C38", Patterns: []string{"./account"}, Run: runC38})
}

func runC38(c *an.Ctx) {
	c.Explanation = "A11 siblings + A3 sequence + A2 guards + A5 frame on the wallet client: (1) every encryption and decryption of an account key in the wallet goes through the wallet's own scrypt parameters (walletData.Scrypt): no wallet code path encrypts with the library defaults while decrypting with the wallet's parameters; " +
		"(2) every mutator of the wallet (add/import, delete, set default, set label, change password, change signature scheme) reports success only after save() succeeded, and on a failed save restores the in-memory field it changed; mutations happen under the client lock; " +
		"(3) an Account (private key) is handed out only after DecryptWithCustomScrypt with the caller's password succeeded; DeleteAccount decrypts before deleting; ChangePassword re-encrypts the key decrypted with the old password under the new one and stores that; (4) SetKeyPair and GetKeyPair cover the same fields of the protected key (what is stored is what is read back). " +
		"Decides these structural necessary conditions for all operation sequences; the cryptography itself and JSON round-tripping of the wallet file are not decided."
	if !controlGuard(c) {
		return
	}
	fns := c.P.RepoSrcFuncs(acct)
	scryptField := c.P.Field(acct + ".WalletData.Scrypt")
	if scryptField == nil {
		c.Undecide("anchor|WalletData.Scrypt", "anchors must resolve", "-", "field not found")
		return
	}
	// (1) scrypt parameter agreement
	nEnc, nDec := 0, 0
	for _, fn := range fns {
		if strings.HasSuffix(c.P.Fset.Position(fn.Pos()).Filename, "_test.go") {
			continue
		}
		// only code of the wallet types (ClientImpl, WalletData)
		if fn.Signature.Recv() == nil {
			continue
		}
		rt := fn.Signature.Recv().Type().String()
		if !strings.HasSuffix(rt, "account.ClientImpl") && !strings.HasSuffix(rt, "account.WalletData") {
			continue
		}
		for _, k := range an.Calls(fn) {
			callee := k.Common().StaticCallee()
			if callee == nil || !strings.Contains(an.FuncPkgPath(callee), "ontology-crypto/keypair") {
				continue
			}
			key := fmt.Sprintf("siblings|%s|%s", an.FuncName(fn), callee.Name())
			rule := "the wallet encrypts and decrypts account keys with its own scrypt parameters (walletData.Scrypt), so that every stored key opens with its password"
			switch callee.Name() {
			case "EncryptPrivateKey", "DecryptPrivateKey":
				c.Violate(key, rule, c.P.Rel(k.Pos()), callee.Name()+" uses the library's default scrypt parameters; a wallet whose parameters were changed (low security) cannot decrypt what this call stores")
			case "EncryptWithCustomScrypt", "DecryptWithCustomScrypt":
				args := k.Common().Args
				last := args[len(args)-1]
				ok := fieldOfLoad(last) == scryptField
				if callee.Name() == "EncryptWithCustomScrypt" {
					nEnc++
				} else {
					nDec++
				}
				c.Check(ok, key, rule, c.P.Rel(k.Pos()), "the scrypt parameter is not walletData.Scrypt")
			case "ReencryptPrivateKey":
				args := k.Common().Args
				c.Check(fieldOfLoad(args[3]) == scryptField, key, rule, c.P.Rel(k.Pos()), "re-encryption does not decrypt with the wallet's current parameters")
			}
		}
	}
	c.RequireMin("wallet encryptions with wallet parameters", nEnc, 2)
	c.RequireMin("wallet decryptions with wallet parameters", nDec, 2)

	// (2) mutators: success only after save; rollback; lock
	// the client's private save() is a one-line forwarder to walletData.Save(path); it may have been inlined away
	var save *types.Func
	if sf := c.P.Func(acct + ".(*ClientImpl).save"); sf != nil {
		save = funcObj(sf)
	}
	// persisting = the client's save(), or what it does written in place: walletData.Save(path)
	walletSave := mustObj(c, acct+".(*WalletData).Save")
	if walletSave == nil {
		return
	}
	saveGuard := an.GuardForFuncs("save", save, walletSave)
	mutators := []string{"addAccountData", "DeleteAccount", "SetDefaultAccount", "SetLabel", "ChangePassword", "ChangeSigScheme"}
	for _, m := range mutators {
		fn := mustFunc(c, acct+".(*ClientImpl)."+m)
		if fn == nil {
			continue
		}
		calls := append(an.CallsTo(fn, save), an.CallsTo(fn, walletSave)...)
		if len(calls) != 1 {
			c.Violate("persist|"+m+"|saves-once", "a wallet mutator persists the wallet exactly once", c.P.Rel(fn.Pos()), fmt.Sprintf("%d save() calls", len(calls)))
			continue
		}
		// success returns reachable after the save call only on its success edge
		after := (&an.Query{Fn: fn, Start: calls[0]}).Run()
		succ := map[ssa.Instruction]bool{}
		for _, r := range an.SuccessReturns(fn) {
			succ[r] = true
		}
		v := an.Guarded(c.P, fn, []*an.Guard{saveGuard}, func(in ssa.Instruction) bool {
			// a success return (error result nil, seen through go/ssa's defer spill) that lies after the save call
			return succ[in] && after.Reaches(in)
		}, false)
		c.Check(v.Holds && v.ActionSites >= 1, "persist|"+m+"|success-only-after-save", "after changing the wallet a mutator reports success only if save() succeeded", c.P.Rel(fn.Pos()), v.Witness)
		// rollback: on the failure edge of save some store/call restores state before returning
		fail := (&an.Query{Fn: fn, Start: calls[0], Assume: map[ssa.Value]an.Abs{calls[0].Value(): an.ANonNil}}).Run()
		restores := 0
		for _, b := range fn.Blocks {
			for _, in := range b.Instrs {
				if !fail.Reaches(in) {
					continue
				}
				switch x := in.(type) {
				case *ssa.Store:
					if _, isField := x.Addr.(*ssa.FieldAddr); isField {
						restores++
					}
				case *ssa.Call:
					if o := an.CalleeObj(x.Common()); o != nil && (o.Name() == "DelAccount" || o.Name() == "SetKeyPair") {
						restores++
					}
				}
			}
		}
		c.Check(restores >= 1, "persist|"+m+"|rollback-on-failed-save", "when save() fails the mutator restores the in-memory state it changed (memory and file stay in step)", c.P.Rel(fn.Pos()), "nothing is restored on the failure edge of save()")
		// the restore is effective: what is put back is a snapshot taken before the mutation, not a pointer into the
		// very record that was overwritten (SetKeyPair(&rec.ProtectedKey) on rec copies the new key onto itself), and
		// not a re-read of the field after it was changed
		aliasWhy := ""
		for _, b := range fn.Blocks {
			for _, in := range b.Instrs {
				if !fail.Reaches(in) {
					continue
				}
				switch x := in.(type) {
				case *ssa.Call:
					o := an.CalleeObj(x.Common())
					if o == nil || o.Name() != "SetKeyPair" || len(x.Call.Args) < 2 {
						continue
					}
					recv := x.Call.Args[0]
					for p := x.Call.Args[1]; p != nil; {
						fa, isFA := p.(*ssa.FieldAddr)
						if !isFA {
							break
						}
						if fa.X == recv {
							aliasWhy = "SetKeyPair at " + c.P.Rel(x.Pos()) + " restores from " + an.AccessPath(x.Call.Args[1]) + ", which lies inside the record it overwrites: the new key is copied onto itself"
						}
						p = fa.X
					}
				case *ssa.Store:
					fa, isField := x.Addr.(*ssa.FieldAddr)
					if !isField {
						continue
					}
					// x.f = <load of x.f made after the save call>: restores nothing
					if ld, isLd := x.Val.(*ssa.UnOp); isLd && ld.Op == token.MUL {
						if fa2, isFA2 := ld.X.(*ssa.FieldAddr); isFA2 && fa2.X == fa.X && fa2.Field == fa.Field && fail.Reaches(ld) {
							aliasWhy = "the field restored at " + c.P.Rel(x.Pos()) + " is re-read after the change: nothing is restored"
						}
					}
				}
			}
		}
		c.Check(aliasWhy == "", "persist|"+m+"|rollback-restores-a-snapshot", "what is restored after a failed save() is a copy taken before the change, not an alias of the changed record", c.P.Rel(fn.Pos()), aliasWhy)
		// lock
		locked := false
		for _, k := range an.Calls(fn) {
			if o := an.CalleeObj(k.Common()); o != nil && o.Name() == "Lock" && fieldOfLoadAddr(recvOf(k.Common())) == "lock" && k.Block().Dominates(calls[0].Block()) {
				locked = true
			}
		}
		c.Check(locked, "atomic|"+m+"|under-client-lock", "wallet mutations run under the client lock", c.P.Rel(fn.Pos()), "save() is not dominated by lock.Lock()")
	}

	// (3) accounts handed out only after decryption with the caller's password
	if ga := mustFunc(c, acct+".(*ClientImpl).getAccount"); ga != nil {
		var dec []ssa.CallInstruction
		for _, k := range an.Calls(ga) {
			if f := k.Common().StaticCallee(); f != nil && f.Name() == "DecryptWithCustomScrypt" {
				dec = append(dec, k)
			}
		}
		ok := len(dec) == 1
		if ok {
			ok = dec[0].Common().Args[1] == ssa.Value(ga.Params[2])
		}
		c.Check(ok, "guard|getAccount|decrypts-with-given-password", "an account's private key is obtained by decrypting with the password the caller supplied", c.P.Rel(ga.Pos()), "DecryptWithCustomScrypt is not called with the passwd parameter")
		if ok {
			g := &an.Guard{Name: "DecryptWithCustomScrypt", FailModes: [][]an.Abs{{an.AUnknown, an.ANonNil}}, MatchCall: func(k ssa.CallInstruction) bool { return k == dec[0] }}
			v := an.Guarded(c.P, ga, []*an.Guard{g}, func(in ssa.Instruction) bool {
				r, isR := in.(*ssa.Return)
				if !isR {
					return false
				}
				k, isK := r.Results[0].(*ssa.Const)
				return !(isK && k.Value == nil)
			}, false)
			c.Check(v.Holds && v.ActionSites >= 1, "guard|getAccount|account-only-if-decrypted", "an Account is returned only when decryption succeeded", c.P.Rel(ga.Pos()), v.Witness)
		}
	}
	if del := mustFunc(c, acct+".(*ClientImpl).DeleteAccount"); del != nil {
		ga := mustObj(c, acct+".(*ClientImpl).getAccount")
		da := mustObj(c, acct+".(*WalletData).DelAccount")
		if ga != nil && da != nil {
			v := an.Guarded(c.P, del, []*an.Guard{an.GuardForFuncs("getAccount", ga)}, func(in ssa.Instruction) bool { return isCallTo(in, da) }, false)
			c.Check(v.Holds && v.GuardSites == 1 && v.ActionSites == 1, "guard|DeleteAccount|password-checked-first", "an account is deleted only after it was opened with the supplied password", c.P.Rel(del.Pos()), v.Witness)
		}
	}
	if cp := mustFunc(c, acct+".(*ClientImpl).ChangePassword"); cp != nil {
		var dec, enc ssa.CallInstruction
		var set []ssa.CallInstruction
		var cpCalls []ssa.CallInstruction
		for _, g := range an.InlineReach(cp) {
			cpCalls = append(cpCalls, an.Calls(g)...)
		}
		for _, k := range cpCalls {
			if f := k.Common().StaticCallee(); f != nil {
				switch f.Name() {
				case "DecryptWithCustomScrypt":
					dec = k
				case "EncryptWithCustomScrypt":
					enc = k
				case "SetKeyPair":
					set = append(set, k)
				}
			}
		}
		ok := dec != nil && enc != nil && len(set) >= 1
		why := "decrypt / encrypt / SetKeyPair calls not found"
		if ok {
			// enc(prv from dec, address, newPasswd); dec with oldPasswd
			prv := an.Extracts(dec.Value())[0]
			okPrv := false
			for _, e := range prv {
				if enc.Common().Args[0] == ssa.Value(e) {
					okPrv = true
				}
			}
			newSecret := an.Extracts(enc.Value())[0]
			okSet := false
			// what is stored first is the new secret - directly, or as what the re-encryption helper returned
			for _, e := range newSecret {
				for _, d := range an.Deref(cp, set[0].Common().Args[1]) {
					if d == ssa.Value(e) {
						okSet = true
					}
				}
			}
			ok = okPrv && okSet && an.ResolveActual(cp, dec.Common().Args[1]) == ssa.Value(cp.Params[2]) && an.ResolveActual(cp, enc.Common().Args[2]) == ssa.Value(cp.Params[3])
			why = "the re-encrypted key is not the key decrypted with the old password, or it is not what is stored"
		}
		c.Check(ok, "pair|ChangePassword|reencrypts-same-key", "ChangePassword stores the key that was decrypted with the old password, encrypted under the new one", c.P.Rel(cp.Pos()), why)
	}

	// (4) SetKeyPair / GetKeyPair field agreement
	sk, gk := mustFunc(c, acct+".(*AccountData).SetKeyPair"), mustFunc(c, acct+".(*AccountData).GetKeyPair")
	if sk != nil && gk != nil {
		written := map[string]bool{}
		for _, w := range an.DirectFieldWrites(sk) {
			if w.Kind == "store" {
				written[w.Field.Name()] = true
			}
		}
		read := map[string]bool{}
		for _, w := range an.DirectFieldWrites(gk) {
			if w.Kind == "store" {
				read[w.Field.Name()] = true
			}
		}
		var ws, rs []string
		for k := range written {
			ws = append(ws, k)
		}
		for k := range read {
			rs = append(rs, k)
		}
		sort.Strings(ws)
		sort.Strings(rs)
		c.Check(strings.Join(ws, ",") == strings.Join(rs, ",") && len(ws) >= 7, "frame|AccountData|SetKeyPair-vs-GetKeyPair", "the protected-key fields stored by SetKeyPair are exactly those returned by GetKeyPair", c.P.Rel(sk.Pos()), fmt.Sprintf("set: %v; get: %v", ws, rs))
	}
}
