package props

import (
	"fmt"
	"go/token"
	"go/types"
	"strings"

	"golang.org/x/tools/go/ssa"

	"verif/checker/an"
)

// exprKey renders the computation of v as a canonical term over root's own parameters: conversions are dropped,
// operands of commutative operators are ordered, a private helper's parameter stands for the argument it was given,
// a call to a private helper with one result for what it returns. Two values with the same key are computed the same
// way from the same inputs (loads and calls with effects are keyed by their identity, never merged).
func exprKey(root *ssa.Function, v ssa.Value, depth int) string {
	if depth > 12 {
		return fmt.Sprintf("?%p", v)
	}
	switch x := v.(type) {
	case *ssa.Const:
		if x.Value == nil {
			return "nil"
		}
		return x.Value.ExactString()
	case *ssa.Convert:
		return exprKey(root, x.X, depth+1)
	case *ssa.ChangeType:
		return exprKey(root, x.X, depth+1)
	case *ssa.Parameter:
		if a := an.ResolveActual(root, x); a != ssa.Value(x) {
			return exprKey(root, a, depth+1)
		}
		for i, p := range x.Parent().Params {
			if p == x {
				return fmt.Sprintf("%s#%d", an.FuncName(x.Parent()), i)
			}
		}
	case *ssa.BinOp:
		a, b := exprKey(root, x.X, depth+1), exprKey(root, x.Y, depth+1)
		switch x.Op {
		case token.ADD, token.MUL, token.AND, token.OR, token.XOR, token.EQL, token.NEQ:
			if b < a {
				a, b = b, a
			}
		}
		return "(" + a + " " + x.Op.String() + " " + b + ")"
	case *ssa.Call:
		callee := x.Call.StaticCallee()
		if callee == nil || x.Call.IsInvoke() {
			break
		}
		// a pure arithmetic helper of the same package: by name and arguments
		if callee.Pkg == root.Pkg && pureArith(callee, 0) {
			var as []string
			for _, a := range x.Call.Args {
				as = append(as, exprKey(root, a, depth+1))
			}
			return an.FuncName(callee) + "(" + strings.Join(as, ",") + ")"
		}
	}
	return fmt.Sprintf("?%p", v)
}

// pureArith: fn (and the same-package functions it calls) only computes on its arguments: no stores, no map or
// channel operations, no calls out of the package other than builtins.
func pureArith(fn *ssa.Function, depth int) bool {
	if fn.Blocks == nil || depth > 3 {
		return false
	}
	for _, b := range fn.Blocks {
		for _, in := range b.Instrs {
			switch x := in.(type) {
			case *ssa.Store:
				if _, local := x.Addr.(*ssa.Alloc); !local {
					if ia, isIA := x.Addr.(*ssa.IndexAddr); !isIA || !localAlloc(ia.X) {
						return false
					}
				}
			case *ssa.MapUpdate, *ssa.Send, *ssa.Go, *ssa.Defer, *ssa.Panic:
				return false
			case *ssa.UnOp:
				if x.Op == token.ARROW {
					return false
				}
				if x.Op == token.MUL {
					if _, isG := x.X.(*ssa.Global); isG {
						return false
					}
				}
			case *ssa.Call:
				if _, isB := x.Call.Value.(*ssa.Builtin); isB {
					continue
				}
				callee := x.Call.StaticCallee()
				if callee != nil && callee.Pkg != nil && (callee.Pkg.Pkg.Path() == "math/bits" || callee.Pkg.Pkg.Path() == "math") {
					continue
				}
				if callee == nil || callee.Pkg != fn.Pkg || !pureArith(callee, depth+1) {
					return false
				}
			}
		}
	}
	return true
}

func localAlloc(v ssa.Value) bool {
	switch x := v.(type) {
	case *ssa.Alloc:
		return true
	case *ssa.Slice:
		return localAlloc(x.X)
	case *ssa.MakeSlice:
		return true
	case *ssa.Phi:
		for _, e := range x.Edges {
			if e != v && !localAlloc(e) {
				return false
			}
		}
		return true
	}
	return false
}

// keyFrame binds the parameters of a key-building helper to the arguments of the call being expanded.
type keyFrame struct {
	bind   map[*ssa.Parameter]ssa.Value
	parent *keyFrame
}

// keyParts decomposes a byte-slice key into the ordered list of the locations it is concatenated from: append chains
// are flattened, calls to same-package key builders (one result, one return) are expanded with their parameters bound
// to the arguments of that very call, whole-array slices x[:] name x. A part that is not understood is "?<id>".
func keyParts(root *ssa.Function, v ssa.Value) []string { return keyPartsIn(root, v, nil, 0) }

func keyPartsIn(root *ssa.Function, v ssa.Value, fr *keyFrame, depth int) []string {
	if depth > 16 {
		return []string{fmt.Sprintf("?%p", v)}
	}
	v = an.Origin(v)
	switch x := v.(type) {
	case *ssa.Const:
		if x.Value == nil {
			return nil
		}
	case *ssa.Parameter:
		for f := fr; f != nil; f = f.parent {
			if a, bound := f.bind[x]; bound {
				return keyPartsIn(root, a, f.parent, depth+1)
			}
		}
		return []string{an.AccessPathIn(root, x)}
	case *ssa.Slice:
		if x.Low != nil || x.High != nil {
			break
		}
		if al, isAl := x.X.(*ssa.Alloc); isAl {
			if p := an.SpilledParam(al); p != nil {
				return keyPartsIn(root, p, fr, depth+1)
			}
		}
		if _, isArr := x.X.Type().Underlying().(*types.Pointer); isArr {
			return []string{leafPath(root, x.X, fr)}
		}
		return keyPartsIn(root, x.X, fr, depth+1)
	case *ssa.Call:
		if bi, isB := x.Call.Value.(*ssa.Builtin); isB && bi.Name() == "append" && len(x.Call.Args) == 2 {
			return append(keyPartsIn(root, x.Call.Args[0], fr, depth+1), keyPartsIn(root, x.Call.Args[1], fr, depth+1)...)
		}
		callee := x.Call.StaticCallee()
		if callee != nil && !x.Call.IsInvoke() && callee.Blocks != nil && strings.HasPrefix(an.FuncPkgPath(callee), an.RepoMod) && callee.Signature.Results().Len() == 1 {
			if rets := an.Returns(callee); len(rets) == 1 {
				nf := &keyFrame{bind: map[*ssa.Parameter]ssa.Value{}, parent: fr}
				for i, p := range callee.Params {
					if i < len(x.Call.Args) {
						nf.bind[p] = x.Call.Args[i]
					}
				}
				return keyPartsIn(root, rets[0].Results[0], nf, depth+1)
			}
		}
		return []string{fmt.Sprintf("?%p", v)}
	}
	return []string{leafPath(root, v, fr)}
}

// leafPath names a location; inside an expanded helper a path rooted at the helper's parameter is re-rooted at the
// argument's path.
func leafPath(root *ssa.Function, v ssa.Value, fr *keyFrame) string {
	p := an.AccessPathIn(root, v)
	for f := fr; f != nil; f = f.parent {
		for par, a := range f.bind {
			if p == par.Name() || strings.HasPrefix(p, par.Name()+".") {
				if in, isIn := v.(ssa.Instruction); isIn && in.Parent() == par.Parent() {
					return leafPath(root, a, f.parent) + p[len(par.Name()):]
				}
			}
		}
	}
	return p
}

// variadicElems lists the values stored into the slice literal a variadic call was given (f(a, b) with f(xs ...T)).
func variadicElems(v ssa.Value) []ssa.Value {
	var elems []ssa.Value
	if sl, isSl := v.(*ssa.Slice); isSl {
		if al, isAl := sl.X.(*ssa.Alloc); isAl && al.Referrers() != nil {
			for _, r := range *al.Referrers() {
				if ia, isIA := r.(*ssa.IndexAddr); isIA && ia.Referrers() != nil {
					for _, r2 := range *ia.Referrers() {
						if st, isSt := r2.(*ssa.Store); isSt && st.Addr == ssa.Value(ia) {
							elems = append(elems, st.Val)
						}
					}
				}
			}
		}
	}
	return elems
}

// serializedRecordType: the type (pointer stripped, package-qualified) whose common.SerializeToBytes image v carries,
// possibly wrapped by further single-purpose calls (GenRawStorageItem(SerializeToBytes(x))); "" if v is not such a value.
func serializedRecordType(v ssa.Value, depth int) string {
	if depth > 5 {
		return ""
	}
	k, isCall := an.Origin(v).(*ssa.Call)
	if !isCall || k.Call.StaticCallee() == nil {
		return ""
	}
	if k.Call.StaticCallee().Name() == "SerializeToBytes" && len(k.Call.Args) == 1 {
		if elems := variadicElems(k.Call.Args[0]); len(elems) == 1 {
			x := elems[0]
			if mi, isMI := x.(*ssa.MakeInterface); isMI {
				x = mi.X
			}
			t := x.Type()
			if p, isP := t.Underlying().(*types.Pointer); isP {
				t = p.Elem()
			}
			return t.String()
		}
		return ""
	}
	for _, a := range k.Call.Args {
		if t := serializedRecordType(a, depth+1); t != "" {
			return t
		}
	}
	return ""
}

// isRecordPut: in stores (CacheDB.Put) the serialization of a record of the type named by the suffix.
func isRecordPut(in ssa.Instruction, typeSuffix string) bool {
	k, isCall := in.(ssa.CallInstruction)
	if !isCall {
		return false
	}
	o := an.CalleeObj(k.Common())
	if o == nil || o.Name() != "Put" || o.Pkg() == nil || !strings.HasSuffix(o.Pkg().Path(), "smartcontract/storage") {
		return false
	}
	args := argsNoRecv(k.Common())
	return len(args) == 2 && strings.HasSuffix(serializedRecordType(args[1], 0), typeSuffix)
}

// lessThanGuards: guards for the comparison "a < b" in any of its spellings (a < b, b > a: fails when true;
// a >= b, b <= a: fails when false).
func lessThanGuards(name string, isA, isB func(ssa.Value) bool) []*an.Guard {
	return []*an.Guard{
		{Name: name, FailValue: an.ATrue, MatchValue: func(v ssa.Value) bool {
			b, ok := v.(*ssa.BinOp)
			return ok && (b.Op == token.LSS && isA(b.X) && isB(b.Y) || b.Op == token.GTR && isB(b.X) && isA(b.Y))
		}},
		{Name: name, FailValue: an.AFalse, MatchValue: func(v ssa.Value) bool {
			b, ok := v.(*ssa.BinOp)
			return ok && (b.Op == token.GEQ && isA(b.X) && isB(b.Y) || b.Op == token.LEQ && isB(b.X) && isA(b.Y))
		}},
	}
}

var mirrorOp = map[token.Token]token.Token{token.LSS: token.GTR, token.GTR: token.LSS, token.LEQ: token.GEQ, token.GEQ: token.LEQ, token.EQL: token.EQL, token.NEQ: token.NEQ}
var negOp = map[token.Token]token.Token{token.LSS: token.GEQ, token.GEQ: token.LSS, token.GTR: token.LEQ, token.LEQ: token.GTR, token.EQL: token.NEQ, token.NEQ: token.EQL}

// relMatch: does the comparison v state the relation "A op B" between an operand selected by isA and one selected
// by isB, in any of its spellings (A op B, B mirror(op) A, and the negated forms)? whenTrue tells for which outcome of
// v the relation holds.
func relMatch(v ssa.Value, op token.Token, isA, isB func(ssa.Value) bool) (matches, whenTrue bool) {
	b, ok := v.(*ssa.BinOp)
	if !ok {
		return false, false
	}
	switch {
	case b.Op == op && isA(b.X) && isB(b.Y), b.Op == mirrorOp[op] && isB(b.X) && isA(b.Y):
		return true, true
	case b.Op == negOp[op] && isA(b.X) && isB(b.Y), b.Op == mirrorOp[negOp[op]] && isB(b.X) && isA(b.Y):
		return true, false
	}
	return false, false
}

// relGuards: guards that fail exactly when "A op B" holds, whatever the spelling of the comparison.
func relGuards(name string, op token.Token, isA, isB func(ssa.Value) bool) []*an.Guard {
	return []*an.Guard{
		{Name: name, FailValue: an.ATrue, MatchValue: func(v ssa.Value) bool { m, t := relMatch(v, op, isA, isB); return m && t }},
		{Name: name, FailValue: an.AFalse, MatchValue: func(v ssa.Value) bool { m, t := relMatch(v, op, isA, isB); return m && !t }},
	}
}

func isConstVal(s string) func(ssa.Value) bool {
	return func(v ssa.Value) bool {
		k, isK := v.(*ssa.Const)
		return isK && k.Value != nil && k.Value.String() == s
	}
}

func anyValue(ssa.Value) bool { return true }

// finalStore: the store st to the given field can be the last store to that field before fn returns (under the
// assumptions): some return of fn is reachable from st without passing another store to the field.
func finalStore(fn *ssa.Function, st *ssa.Store, field *types.Var, assume map[ssa.Value]an.Abs) bool {
	cut := map[ssa.Instruction]bool{}
	for _, g := range an.InlineReach(fn) {
		for _, b := range g.Blocks {
			for _, in := range b.Instrs {
				if o, isSt := in.(*ssa.Store); isSt && o != st && an.FieldOf(o.Addr) == field {
					cut[o] = true
				}
			}
		}
	}
	r := (&an.Query{Fn: fn, Start: st, Cut: cut, Assume: assume}).Run()
	for _, ret := range an.Returns(fn) {
		if r.Reaches(ret) {
			return true
		}
	}
	return false
}

// isKeyID: v is the textual identity of a public key: vconfig.PubkeyID(k) or the common.PubKeyToHex(k) it stands for.
func isKeyID(v ssa.Value) bool {
	k, ok := an.Origin(v).(*ssa.Call)
	if !ok || k.Call.StaticCallee() == nil {
		return false
	}
	n := k.Call.StaticCallee().Name()
	return n == "PubkeyID" || n == "PubKeyToHex"
}
