package props

import (
	"strings"
	"fmt"
	"go/constant"
	"go/token"
	"sort"

	"golang.org/x/tools/go/ssa"

	"verif/checker/an"
)

func init() {
	register(&Prop{ID: "C41", Patterns: []string{"./smartcontract/service/native/auth", "./smartcontract/service/native/utils", "./smartcontract/storage"}, Run: runC41})
}

const authPkg = "smartcontract/service/native/auth"

func runC41(c *an.Ctx) {
	c.Explanation = "A2 guard on the auth contract, 'only-if' direction: verifyToken can return true only after verifySig succeeded, only on the ContainsFunc(fn)==true edge, and never on the expireTime < now edge, " +
		"with the expiry tested on the very token/delegation whose role's functions are consulted; verifySig returns true only if the ONT ID contract's verifySignature call succeeded and returned BYTE_TRUE; " +
		"every registered state-changing handler writes only after verifySig (admin / delegator identity) succeeded, except InitContractAdmin which writes only while no admin is set. " +
		"Decides these necessary conditions on all CFG paths. Does not decide the 'if' direction (that every assigned, unexpired role is honoured), which depends on list contents."
	if !controlGuard(c) {
		return
	}
	normalizedRoleFuncs(c)
	vt := mustFunc(c, authPkg+".verifyToken")
	verifySig := mustFunc(c, authPkg+".verifySig")
	contains := mustObj(c, authPkg+".(*roleFuncs).ContainsFunc")
	getRoleFunc := mustFunc(c, authPkg+".getRoleFunc")
	if vt == nil || verifySig == nil || contains == nil || getRoleFunc == nil {
		return
	}
	isTrueRet := func(in ssa.Instruction) bool {
		r, ok := in.(*ssa.Return)
		if !ok || len(r.Results) < 1 {
			return false
		}
		k, isC := r.Results[0].(*ssa.Const)
		return !isC || k.Value == nil || k.Value.Kind() != constant.Bool || constant.BoolVal(k.Value)
	}
	sigGuard := an.GuardForFuncs("verifySig", funcObj(verifySig))
	v := an.Guarded(c.P, vt, []*an.Guard{sigGuard}, isTrueRet, false)
	c.Check(v.Holds && v.GuardSites == 1 && v.ActionSites >= 2, "guard|auth.verifyToken|verifySig", "verifyToken returns true only after the caller proved control of its key (verifySig true, no error)", c.P.Rel(vt.Pos()), v.Witness)
	cg := an.GuardForFuncs("ContainsFunc", contains)
	v = an.Guarded(c.P, vt, []*an.Guard{cg}, isTrueRet, false)
	c.Check(v.Holds && v.GuardSites >= 2, "guard|auth.verifyToken|ContainsFunc", "verifyToken returns true only on the edge where the role's function list contains the requested function", c.P.Rel(vt.Pos()), v.Witness)
	expField := map[string]bool{"expireTime": true}
	expired := &an.Guard{Name: "expireTime < now", FailValue: an.ATrue, MatchValue: func(v ssa.Value) bool {
		b, ok := v.(*ssa.BinOp)
		if !ok || b.Op != token.LSS {
			return false
		}
		f := an.FieldOf(b.X)
		if f == nil {
			if u, isU := b.X.(*ssa.UnOp); isU && u.Op == token.MUL {
				f = an.FieldOf(u.X)
			}
		}
		return f != nil && expField[f.Name()]
	}}
	v = an.Guarded(c.P, vt, []*an.Guard{expired}, isTrueRet, false)
	c.Check(v.Holds && v.GuardSites >= 2, "guard|auth.verifyToken|not-expired", "verifyToken never returns true for a token or delegation whose expiry time is before the current block time", c.P.Rel(vt.Pos()), v.Witness)
	// the comparison is against native.Time
	timeOK := 0
	for _, b := range vt.Blocks {
		for _, in := range b.Instrs {
			if bo, ok := in.(*ssa.BinOp); ok && expired.MatchValue(bo) {
				if f := fieldOfLoad(bo.Y); f != nil && f.Name() == "Time" {
					timeOK++
				}
			}
		}
	}
	c.Check(timeOK >= 2, "same-subject|auth.verifyToken|expiry-vs-block-time", "expiry is compared with the executing block's time (native.Time)", c.P.Rel(vt.Pos()), fmt.Sprintf("only %d comparisons against native.Time", timeOK))
	// same subject: role looked up and expiry tested belong to the same element
	pairs := 0
	bad := ""
	for _, k := range an.CallsTo(vt, funcObj(getRoleFunc)) {
		args := argsNoRecv(k.Common())
		roleBase := baseOfField(args[len(args)-1], "role")
		if roleBase == nil {
			bad = "role argument of getRoleFunc is not <elem>.role at " + c.P.Rel(k.Pos())
			continue
		}
		found := false
		for _, b := range vt.Blocks {
			for _, in := range b.Instrs {
				if bo, ok := in.(*ssa.BinOp); ok && expired.MatchValue(bo) {
					if eb := baseOfField(bo.X, "expireTime"); eb != nil && an.AccessPath(eb) == an.AccessPath(roleBase) {
						found = true
					}
				}
			}
		}
		if found {
			pairs++
		} else {
			bad = "no expiry test on the element whose role is looked up at " + c.P.Rel(k.Pos())
		}
	}
	c.Check(pairs >= 2 && bad == "", "same-subject|auth.verifyToken|role-and-expiry", "the expiry tested is that of the token/delegation whose role grants the function", c.P.Rel(vt.Pos()), bad)

	// expiry of a stored token/delegation is judged against the block time only
	{
		n, badSite := 0, ""
		for _, fn := range c.P.RepoSrcFuncs(authPkg) {
			for _, b := range fn.Blocks {
				for _, in := range b.Instrs {
					bo, ok := in.(*ssa.BinOp)
					if !ok {
						continue
					}
					switch bo.Op {
					case token.LSS, token.LEQ, token.GTR, token.GEQ, token.EQL, token.NEQ:
					default:
						continue
					}
					fx, fy := fieldOfLoad(bo.X), fieldOfLoad(bo.Y)
					var other *typesVar
					switch {
					case fx != nil && fx.Name() == "expireTime":
						other = fy
					case fy != nil && fy.Name() == "expireTime":
						other = fx
					default:
						continue
					}
					n++
					if other == nil || other.Name() != "Time" {
						badSite = c.P.Rel(bo.Pos()) + " in " + an.FuncName(fn)
					}
				}
			}
		}
		c.Check(n >= 3 && badSite == "", "same-subject|auth|expiry-judged-against-block-time", "wherever a stored expireTime is compared directly, the other operand is the executing block's time (native.Time): entries are never dropped or honoured relative to any other time",
			"-", fmt.Sprintf("%d comparisons found; offending comparison at %s", n, badSite))
	}

	// verifySig
	nativeCall := mustObj(c, "smartcontract/service/native.(*NativeService).NativeCall")
	if nativeCall != nil {
		ng := an.GuardForFuncs("NativeCall", nativeCall)
		v := an.Guarded(c.P, verifySig, []*an.Guard{ng}, isTrueRet, false)
		c.Check(v.Holds && v.GuardSites == 1, "guard|auth.verifySig|NativeCall", "verifySig is true only if the call into the ONT ID contract succeeded", c.P.Rel(verifySig.Pos()), v.Witness)
		cmp := &an.Guard{Name: "ret == BYTE_TRUE", FailValue: an.AFalse, MatchValue: func(v ssa.Value) bool {
			b, ok := v.(*ssa.BinOp)
			if !ok || b.Op != token.EQL {
				return false
			}
			call, isC := b.X.(*ssa.Call)
			return isC && call.Call.StaticCallee() != nil && (call.Call.StaticCallee().String() == "bytes.Compare" || call.Call.StaticCallee().String() == "bytes.Equal")
		}}
		v = an.Guarded(c.P, verifySig, []*an.Guard{cmp}, isTrueRet, false)
		c.Check(v.Holds && v.GuardSites == 1, "guard|auth.verifySig|result-is-true", "verifySig is true only if verifySignature returned BYTE_TRUE", c.P.Rel(verifySig.Pos()), v.Witness)
		okArgs := false
		for _, k := range an.CallsTo(verifySig, nativeCall) {
			args := argsNoRecv(k.Common())
			m, isC := args[1].(*ssa.Const)
			if isC && m.Value != nil && constant.StringVal(m.Value) == "verifySignature" && an.AccessPath(args[0]) == "utils.OntIDContractAddress" {
				okArgs = true
			}
		}
		c.Check(okArgs, "same-subject|auth.verifySig|callee", "the identity proof is delegated to method verifySignature of the ONT ID contract", c.P.Rel(verifySig.Pos()), "NativeCall target or method changed")
	}

	// state-changing handlers
	reg := mustFunc(c, authPkg+".RegisterAuthContract")
	putM := mustFunc(c, "smartcontract/storage.(*CacheDB).Put")
	delM := mustFunc(c, "smartcontract/storage.(*CacheDB).Delete")
	getAdmin := mustFunc(c, authPkg+".getContractAdmin")
	if reg == nil || putM == nil || delM == nil || getAdmin == nil {
		return
	}
	handlers := registeredHandlers(c, reg)
	c.RequireMin("registered auth handlers", len(handlers), 7)
	inScope := func(fn *ssa.Function) bool {
		pk := an.FuncPkgPath(fn)
		return pk == an.RepoMod+"/"+authPkg || pk == an.RepoMod+"/smartcontract/service/native/utils"
	}
	isSink := func(fn *ssa.Function) bool { return fn == putM || fn == delM }
	eff := &an.Effects{P: c.P, IsSink: isSink, InScope: inScope, Guards: []*an.Guard{sigGuard}}
	adminUnset := &an.Guard{Name: "getContractAdmin == nil", MatchCall: func(k ssa.CallInstruction) bool { return k.Common().StaticCallee() == getAdmin },
		FailModes: [][]an.Abs{{an.ANonNil, an.AUnknown}, {an.AUnknown, an.ANonNil}}}
	effInit := &an.Effects{P: c.P, IsSink: isSink, InScope: inScope, Guards: []*an.Guard{adminUnset}}
	var ns []string
	for n := range handlers {
		ns = append(ns, n)
	}
	sort.Strings(ns)
	writers := 0
	for _, n := range ns {
		h := handlers[n]
		if !eff.Writes(h) {
			c.Note("readonly|auth."+n, "handler reaches no CacheDB.Put/Delete", c.P.Rel(h.Pos()), "read-only")
			continue
		}
		writers++
		c.Count("callsites_analysed", len(eff.WriteActions(h)))
		if n == "initContractAdmin" {
			v := effInit.Check(h)
			c.Check(v.OK, "guard-admin-unset|auth."+n, "the admin of a contract can be initialised only while none is set (first caller, keyed by the calling contract)", c.P.Rel(h.Pos()), v.Witness)
			continue
		}
		v := eff.Check(h)
		c.Check(v.OK, "guard-verifySig|auth."+n, "every write of the handler is unreachable unless verifySig of the acting identity succeeded", c.P.Rel(h.Pos()), v.Witness)
	}
	c.RequireMin("state-changing auth handlers", writers, 6)
}

func fieldOfLoad(v ssa.Value) *typesVar {
	if f := an.FieldOf(v); f != nil {
		return f
	}
	if u, ok := v.(*ssa.UnOp); ok && u.Op == token.MUL {
		return an.FieldOf(u.X)
	}
	return nil
}

// baseOfField: if v is (a load of) <base>.<field>, return base.
func baseOfField(v ssa.Value, field string) ssa.Value {
	if u, ok := v.(*ssa.UnOp); ok && u.Op == token.MUL {
		v = u.X
	}
	switch x := v.(type) {
	case *ssa.FieldAddr:
		if f := an.FieldOf(x); f != nil && f.Name() == field {
			return x.X
		}
	case *ssa.Field:
		if f := an.FieldOf(x); f != nil && f.Name() == field {
			return x.X
		}
	}
	return nil
}

// normalizedRoleFuncs: roleFuncs.Serialization writes the element count before
// it de-duplicates, so the stored record is only readable if the list is
// already normalised; every assignment of roleFuncs.funcNames must therefore be
// a StringsDedupAndSort result. A record that cannot be decoded makes
// verifyToken fail for every holder of the role.
func normalizedRoleFuncs(c *an.Ctx) {
	field := c.P.Field("smartcontract/service/native/auth.roleFuncs.funcNames")
	if field == nil {
		c.Undecide("anchor|roleFuncs.funcNames", "anchors must resolve", "-", "field not found")
		return
	}
	n := 0
	for _, fn := range c.P.RepoSrcFuncs("smartcontract/service/native/auth") {
		if strings.HasSuffix(c.P.Fset.Position(fn.Pos()).Filename, "_test.go") {
			continue
		}
		idx := 0
		for _, w := range an.DirectFieldWrites(fn) {
			if w.Field != field || w.Kind != "store" {
				continue
			}
			n++
			idx++
			ok := false
			if k, isC := an.Origin(w.Val).(*ssa.Call); isC && k.Call.StaticCallee() != nil && k.Call.StaticCallee().Name() == "StringsDedupAndSort" {
				ok = true
			}
			c.Check(ok, fmt.Sprintf("normalized|roleFuncs.funcNames|%s#%d", an.FuncName(fn), idx), "a role's function list is only ever assigned a de-duplicated, sorted list (Serialization writes the count before normalising: an un-normalised list produces a record that no longer decodes)", c.P.Rel(w.In.Pos()),
				"funcNames assigned a value that is not a StringsDedupAndSort result")
		}
	}
	c.RequireMin("assignments of roleFuncs.funcNames", n, 3)
}
