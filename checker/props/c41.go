package props

import (
	"fmt"
	"go/constant"
	"go/token"
	"go/types"
	"sort"
	"strings"

	"golang.org/x/tools/go/ssa"

	"verif/checker/an"
)

func init() {
	register(&Prop{ID: "C41", Patterns: []string{"./smartcontract/service/native/auth", "./smartcontract/service/native/utils", "./smartcontract/storage"}, Run: runC41})
}

const authPkg = "smartcontract/service/native/auth"

func runC41(c *an.Ctx) {
	c.Explanation = "A2 guard on the auth contract, 'only-if' direction: verifyToken can return true only after verifySig succeeded, only on the ContainsFunc(fn)==true edge, and never on the expireTime < now edge, " +
		"with the expiry tested on the very token/delegation whose role's functions are consulted; verifySig returns true only if the ONT ID contract's verifySignature call succeeded and returned BYTE_TRUE; " +
		"every registered state-changing handler writes only after verifySig (admin / delegator identity) succeeded, except InitContractAdmin which writes only while no admin is set. " +
		"Decides these necessary conditions on all CFG paths. Does not decide the 'if' direction (that every assigned, unexpired role is honoured), which depends on list contents."
	if !controlGuard(c) {
		return
	}
	normalizedRoleFuncs(c)
	vt := mustFunc(c, authPkg+".verifyToken")
	verifySig := mustFunc(c, authPkg+".verifySig")
	contains := mustObj(c, authPkg+".(*roleFuncs).ContainsFunc")
	getRoleFunc := mustFunc(c, authPkg+".getRoleFunc")
	if vt == nil || verifySig == nil || contains == nil || getRoleFunc == nil {
		return
	}
	isTrueRet := func(in ssa.Instruction) bool {
		r, ok := in.(*ssa.Return)
		if !ok || len(r.Results) < 1 {
			return false
		}
		k, isC := r.Results[0].(*ssa.Const)
		return !isC || k.Value == nil || k.Value.Kind() != constant.Bool || constant.BoolVal(k.Value)
	}
	_ = isTrueRet
	// "returns true" = first result may be true (evaluated in the state reaching the return)
	trueSpec := func(fn *ssa.Function) an.RetSpec {
		w := make([]an.Abs, fn.Signature.Results().Len())
		w[0] = an.ATrue
		return an.RetSpec{Want: w}
	}
	// private helpers verifyToken is split into: one that cannot return true unless a guard passed inside it is
	// itself a guard at its call sites (decided bottom-up, A2 wrappers)
	var helpers []*ssa.Function
	for _, g := range an.InlineReach(vt) {
		if g != vt && g != verifySig && g != getRoleFunc && g.Signature.Results().Len() >= 1 {
			if b, isB := g.Signature.Results().At(0).Type().Underlying().(*types.Basic); isB && b.Kind() == types.Bool {
				helpers = append(helpers, g)
			}
		}
	}
	withWrappers := func(base ...*an.Guard) []*an.Guard {
		g := base[0]
		gs, names := an.DiscoverWrappers(helpers, base, 4, nil)
		if len(names) > 0 {
			c.Note("wrappers|auth.verifyToken|"+g.Name, "helpers of verifyToken that return true only if the guard passed inside them", c.P.Rel(vt.Pos()), strings.Join(names, ", "))
		}
		return gs
	}
	sigGuard := an.GuardForFuncs("verifySig", funcObj(verifySig))
	v := an.GuardedReturns(c.P, vt, []*an.Guard{sigGuard}, trueSpec(vt), false)
	c.Check(v.Holds && v.GuardSites == 1 && v.ActionSites >= 1, "guard|auth.verifyToken|verifySig", "verifyToken returns true only after the caller proved control of its key (verifySig true, no error)", c.P.Rel(vt.Pos()), v.Witness)
	cg := an.GuardForFuncs("ContainsFunc", contains)
	v = an.GuardedReturns(c.P, vt, withWrappers(cg), trueSpec(vt), false)
	c.Check(v.Holds && v.GuardSites >= 2, "guard|auth.verifyToken|ContainsFunc", "verifyToken returns true only on the edge where the role's function list contains the requested function", c.P.Rel(vt.Pos()), v.Witness)
	// the expiry operand: <elem>.expireTime, possibly handed to a helper as an argument
	expiryOperands := func(x ssa.Value, ctx []*ssa.Call) []an.ValCtx { return an.DerefCtx(vt, x, ctx) }
	isExpiryField := func(v ssa.Value) bool {
		f := an.FieldOf(v)
		if f == nil {
			if u, isU := v.(*ssa.UnOp); isU && u.Op == token.MUL {
				f = an.FieldOf(u.X)
			}
		}
		return f != nil && f.Name() == "expireTime"
	}
	// expireTime < now, in any spelling (now > expireTime, !(expireTime >= now), ...)
	isExpiryOperand := func(x ssa.Value) bool {
		ops := expiryOperands(x, nil)
		if len(ops) == 0 {
			return false
		}
		for _, o := range ops {
			if !isExpiryField(o.V) {
				return false
			}
		}
		return true
	}
	notExpiryOperand := func(y ssa.Value) bool { return !isExpiryOperand(y) }
	expiredMatch := func(v ssa.Value) bool { m, _ := relMatch(v, token.LSS, isExpiryOperand, notExpiryOperand); return m }
	expiryOf := func(b *ssa.BinOp) (exp, other ssa.Value) {
		if isExpiryOperand(b.X) {
			return b.X, b.Y
		}
		return b.Y, b.X
	}
	expired := relGuards("expireTime < now", token.LSS, isExpiryOperand, notExpiryOperand)
	v = an.GuardedReturns(c.P, vt, withWrappers(expired...), trueSpec(vt), false)
	c.Check(v.Holds && v.GuardSites >= 2, "guard|auth.verifyToken|not-expired", "verifyToken never returns true for a token or delegation whose expiry time is before the current block time", c.P.Rel(vt.Pos()), v.Witness)
	// the comparison is against native.Time
	var expiryTests []*ssa.BinOp
	timeBad := ""
	for _, g := range an.InlineReach(vt) {
		for _, b := range g.Blocks {
			for _, in := range b.Instrs {
				if bo, ok := in.(*ssa.BinOp); ok && expiredMatch(bo) {
					expiryTests = append(expiryTests, bo)
					if _, now := expiryOf(bo); fieldOfLoad(an.ResolveActual(vt, now)) == nil || fieldOfLoad(an.ResolveActual(vt, now)).Name() != "Time" {
						timeBad = c.P.Rel(bo.Pos())
					}
				}
			}
		}
	}
	c.Check(len(expiryTests) >= 1 && timeBad == "", "same-subject|auth.verifyToken|expiry-vs-block-time", "expiry is compared with the executing block's time (native.Time)", c.P.Rel(vt.Pos()), fmt.Sprintf("%d expiry tests; not against native.Time at %s", len(expiryTests), timeBad))
	// same subject: role looked up and expiry tested belong to the same element (per call of the helper that does
	// both, when they were moved into one)
	ctxKey := func(ctx []*ssa.Call) string {
		var s []string
		for _, k := range ctx {
			s = append(s, c.P.Rel(k.Pos()))
		}
		return strings.Join(s, ">")
	}
	pairs := 0
	bad := ""
	for _, k := range an.CallsToReach(vt, funcObj(getRoleFunc)) {
		args := argsNoRecv(k.Common())
		roles := an.DerefCtx(vt, args[len(args)-1], nil)
		if len(roles) == 0 {
			bad = "role argument of getRoleFunc cannot be resolved at " + c.P.Rel(k.Pos())
		}
		for _, rv := range roles {
			roleBase := baseOfField(rv.V, "role")
			if roleBase == nil {
				bad = "role argument of getRoleFunc is not <elem>.role at " + c.P.Rel(k.Pos())
				continue
			}
			found := false
			for _, bo := range expiryTests {
				if bo.Parent() != k.Parent() {
					continue
				}
				for _, ev := range an.DerefCtx(vt, func() ssa.Value { e, _ := expiryOf(bo); return e }(), nil) {
					if ctxKey(ev.Ctx) != ctxKey(rv.Ctx) {
						continue
					}
					if eb := baseOfField(ev.V, "expireTime"); eb != nil && eb.Parent() == roleBase.Parent() && an.AccessPath(eb) == an.AccessPath(roleBase) {
						found = true
					}
				}
			}
			if found {
				pairs++
			} else {
				bad = "no expiry test on the element whose role is looked up at " + c.P.Rel(k.Pos())
			}
		}
	}
	c.Check(pairs >= 2 && bad == "", "same-subject|auth.verifyToken|role-and-expiry", "the expiry tested is that of the token/delegation whose role grants the function", c.P.Rel(vt.Pos()), bad)

	// expiry of a stored token/delegation is judged against the block time only
	{
		n, badSite := 0, ""
		sitesOf := map[*ssa.Function][]ssa.CallInstruction{}
		for _, fn := range c.P.RepoSrcFuncs(authPkg) {
			for _, k := range an.Calls(fn) {
				if callee := k.Common().StaticCallee(); callee != nil {
					sitesOf[callee] = append(sitesOf[callee], k)
				}
			}
		}
		for _, fn := range c.P.RepoSrcFuncs(authPkg) {
			for _, b := range fn.Blocks {
				for _, in := range b.Instrs {
					bo, ok := in.(*ssa.BinOp)
					if !ok {
						continue
					}
					switch bo.Op {
					case token.LSS, token.LEQ, token.GTR, token.GEQ, token.EQL, token.NEQ:
					default:
						continue
					}
					// an operand is a stored field either directly or as the argument a private helper was given
					fieldsOf := func(v ssa.Value) []*typesVar {
						if f := fieldOfLoad(v); f != nil {
							return []*typesVar{f}
						}
						par, isP := v.(*ssa.Parameter)
						if !isP {
							return nil
						}
						var out []*typesVar
						for _, s := range sitesOf[fn] {
							for i, fp := range fn.Params {
								if fp == par && i < len(s.Common().Args) {
									out = append(out, fieldOfLoad(s.Common().Args[i]))
								}
							}
						}
						return out
					}
					fxs, fys := fieldsOf(bo.X), fieldsOf(bo.Y)
					named := func(fs []*typesVar, name string) bool {
						if len(fs) == 0 {
							return false
						}
						for _, f := range fs {
							if f == nil || f.Name() != name {
								return false
							}
						}
						return true
					}
					anyNamed := func(fs []*typesVar, name string) bool {
						for _, f := range fs {
							if f != nil && f.Name() == name {
								return true
							}
						}
						return false
					}
					var other []*typesVar
					switch {
					case anyNamed(fxs, "expireTime"):
						other = fys
					case anyNamed(fys, "expireTime"):
						other = fxs
					default:
						continue
					}
					n++
					if !named(other, "Time") {
						badSite = c.P.Rel(bo.Pos()) + " in " + an.FuncName(fn)
					}
				}
			}
		}
		c.Check(n >= 2 && badSite == "", "same-subject|auth|expiry-judged-against-block-time", "wherever a stored expireTime is compared directly, the other operand is the executing block's time (native.Time): entries are never dropped or honoured relative to any other time",
			"-", fmt.Sprintf("%d comparisons found; offending comparison at %s", n, badSite))
	}

	// verifySig
	nativeCall := mustObj(c, "smartcontract/service/native.(*NativeService).NativeCall")
	if nativeCall != nil {
		ng := an.GuardForFuncs("NativeCall", nativeCall)
		v := an.GuardedReturns(c.P, verifySig, []*an.Guard{ng}, trueSpec(verifySig), false)
		c.Check(v.Holds && v.GuardSites == 1, "guard|auth.verifySig|NativeCall", "verifySig is true only if the call into the ONT ID contract succeeded", c.P.Rel(verifySig.Pos()), v.Witness)
		isBytesCmp := func(v ssa.Value, name string) bool {
			call, isC := v.(*ssa.Call)
			return isC && call.Call.StaticCallee() != nil && call.Call.StaticCallee().String() == name
		}
		cmp := &an.Guard{Name: "ret == BYTE_TRUE", FailValue: an.AFalse, MatchValue: func(v ssa.Value) bool {
			if isBytesCmp(v, "bytes.Equal") {
				// used as a boolean itself (branched on or returned)
				for _, r := range *v.Referrers() {
					if b, isB := r.(*ssa.BinOp); isB && (b.Op == token.EQL || b.Op == token.NEQ) {
						return false
					}
				}
				return true
			}
			b, ok := v.(*ssa.BinOp)
			if !ok || b.Op != token.EQL {
				return false
			}
			return isBytesCmp(b.X, "bytes.Compare") || isBytesCmp(b.X, "bytes.Equal")
		}}
		v = an.GuardedReturns(c.P, verifySig, []*an.Guard{cmp}, trueSpec(verifySig), false)
		c.Check(v.Holds && v.GuardSites == 1, "guard|auth.verifySig|result-is-true", "verifySig is true only if verifySignature returned BYTE_TRUE", c.P.Rel(verifySig.Pos()), v.Witness)
		okArgs := false
		for _, k := range an.CallsTo(verifySig, nativeCall) {
			args := argsNoRecv(k.Common())
			m, isC := args[1].(*ssa.Const)
			if isC && m.Value != nil && constant.StringVal(m.Value) == "verifySignature" && an.AccessPath(args[0]) == "utils.OntIDContractAddress" {
				okArgs = true
			}
		}
		c.Check(okArgs, "same-subject|auth.verifySig|callee", "the identity proof is delegated to method verifySignature of the ONT ID contract", c.P.Rel(verifySig.Pos()), "NativeCall target or method changed")
	}

	// state-changing handlers
	reg := mustFunc(c, authPkg+".RegisterAuthContract")
	putM := mustFunc(c, "smartcontract/storage.(*CacheDB).Put")
	delM := mustFunc(c, "smartcontract/storage.(*CacheDB).Delete")
	getAdmin := mustFunc(c, authPkg+".getContractAdmin")
	if reg == nil || putM == nil || delM == nil || getAdmin == nil {
		return
	}
	handlers := registeredHandlers(c, reg)
	c.RequireMin("registered auth handlers", len(handlers), 7)
	inScope := func(fn *ssa.Function) bool {
		pk := an.FuncPkgPath(fn)
		return pk == an.RepoMod+"/"+authPkg || pk == an.RepoMod+"/smartcontract/service/native/utils"
	}
	isSink := func(fn *ssa.Function) bool { return fn == putM || fn == delM }
	eff := &an.Effects{P: c.P, IsSink: isSink, InScope: inScope, Guards: []*an.Guard{sigGuard}}
	adminUnset := &an.Guard{Name: "getContractAdmin == nil", MatchCall: func(k ssa.CallInstruction) bool { return k.Common().StaticCallee() == getAdmin },
		FailModes: [][]an.Abs{{an.ANonNil, an.AUnknown}, {an.AUnknown, an.ANonNil}}}
	effInit := &an.Effects{P: c.P, IsSink: isSink, InScope: inScope, Guards: []*an.Guard{adminUnset}}
	var ns []string
	for n := range handlers {
		ns = append(ns, n)
	}
	sort.Strings(ns)
	writers := 0
	for _, n := range ns {
		h := handlers[n]
		if !eff.Writes(h) {
			c.Note("readonly|auth."+n, "handler reaches no CacheDB.Put/Delete", c.P.Rel(h.Pos()), "read-only")
			continue
		}
		writers++
		c.Count("callsites_analysed", len(eff.WriteActions(h)))
		if n == "initContractAdmin" {
			v := effInit.Check(h)
			c.Check(v.OK, "guard-admin-unset|auth."+n, "the admin of a contract can be initialised only while none is set (first caller, keyed by the calling contract)", c.P.Rel(h.Pos()), v.Witness)
			continue
		}
		v := eff.Check(h)
		c.Check(v.OK, "guard-verifySig|auth."+n, "every write of the handler is unreachable unless verifySig of the acting identity succeeded", c.P.Rel(h.Pos()), v.Witness)
	}
	c.RequireMin("state-changing auth handlers", writers, 6)
}

func fieldOfLoad(v ssa.Value) *typesVar {
	if f := an.FieldOf(v); f != nil {
		return f
	}
	if u, ok := v.(*ssa.UnOp); ok && u.Op == token.MUL {
		return an.FieldOf(u.X)
	}
	return nil
}

// baseOfField: if v is (a load of) <base>.<field>, return base.
func baseOfField(v ssa.Value, field string) ssa.Value {
	if u, ok := v.(*ssa.UnOp); ok && u.Op == token.MUL {
		v = u.X
	}
	switch x := v.(type) {
	case *ssa.FieldAddr:
		if f := an.FieldOf(x); f != nil && f.Name() == field {
			return x.X
		}
	case *ssa.Field:
		if f := an.FieldOf(x); f != nil && f.Name() == field {
			return x.X
		}
	}
	return nil
}

// normalizedRoleFuncs: roleFuncs.Serialization writes the element count before
// it de-duplicates, so the stored record is only readable if the list is
// already normalised; every assignment of roleFuncs.funcNames must therefore be
// a StringsDedupAndSort result. A record that cannot be decoded makes
// verifyToken fail for every holder of the role.
func normalizedRoleFuncs(c *an.Ctx) {
	field := c.P.Field("smartcontract/service/native/auth.roleFuncs.funcNames")
	if field == nil {
		c.Undecide("anchor|roleFuncs.funcNames", "anchors must resolve", "-", "field not found")
		return
	}
	n := 0
	for _, fn := range c.P.RepoSrcFuncs("smartcontract/service/native/auth") {
		if strings.HasSuffix(c.P.Fset.Position(fn.Pos()).Filename, "_test.go") {
			continue
		}
		idx := 0
		for _, w := range an.DirectFieldWrites(fn) {
			if w.Field != field || w.Kind != "store" {
				continue
			}
			n++
			idx++
			ok := false
			if k, isC := an.Origin(w.Val).(*ssa.Call); isC && k.Call.StaticCallee() != nil && k.Call.StaticCallee().Name() == "StringsDedupAndSort" {
				ok = true
			}
			c.Check(ok, fmt.Sprintf("normalized|roleFuncs.funcNames|%s#%d", an.FuncName(fn), idx), "a role's function list is only ever assigned a de-duplicated, sorted list (Serialization writes the count before normalising: an un-normalised list produces a record that no longer decodes)", c.P.Rel(w.In.Pos()),
				"funcNames assigned a value that is not a StringsDedupAndSort result")
		}
	}
	c.RequireMin("assignments of roleFuncs.funcNames", n, 1)
}
