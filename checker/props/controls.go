package props

import (
	"sync"

	"golang.org/x/tools/go/ssa"

	"verif/checker/an"
)

// Fixture programs: tiny packages under /verif/checker/fixtures on which each
// analyzer must fire (bad) and stay silent (good) on every run.

var (
	fixOnce sync.Once
	fixProg *an.Prog
	fixErr  error
)

func fixtures(c *an.Ctx) *an.Prog {
	fixOnce.Do(func() {
		fixProg, fixErr = an.Load(c.VerifDir+"/checker", nil, "./fixtures/...")
	})
	if fixErr != nil {
		c.Control("fixtures-load", false, fixErr.Error())
		return nil
	}
	return fixProg
}

func fixFunc(c *an.Ctx, p *an.Prog, q string) *ssa.Function {
	fn := p.Func(q)
	if fn == nil {
		c.Control("fixture-func "+q, false, "not found")
	}
	return fn
}

func controlConfine(c *an.Ctx) bool {
	p := fixtures(c)
	if p == nil {
		return false
	}
	cg := p.CallGraph()
	sink := fixFunc(c, p, "verif/checker/fixtures/confine.(*Store).Put")
	bad := fixFunc(c, p, "verif/checker/fixtures/confine.BadRoot")
	good := fixFunc(c, p, "verif/checker/fixtures/confine.GoodRoot")
	cb := fixFunc(c, p, "verif/checker/fixtures/confine.CallbackRoot")
	if sink == nil || bad == nil || good == nil || cb == nil {
		return false
	}
	rb := cg.Reach([]*ssa.Function{bad}, an.ReachOpts{})
	rg := cg.Reach([]*ssa.Function{good}, an.ReachOpts{})
	rc := cg.Reach([]*ssa.Function{cb}, an.ReachOpts{})
	ok := rb.Has(sink) && !rg.Has(sink) && !rc.Has(sink)
	c.Control("A4 confine: fires on fixtures/confine.BadRoot (sink behind an interface and a goroutine), silent on GoodRoot and CallbackRoot", ok,
		"reachability on the fixture does not match expectations")
	return ok
}
