package props

import (
	"sync"

	"golang.org/x/tools/go/ssa"

	"verif/checker/an"
)

// Fixture programs: tiny packages under /verif/checker/fixtures on which each
// analyzer must fire (bad) and stay silent (good) on every run.

var (
	fixOnce sync.Once
	fixProg *an.Prog
	fixErr  error
)

func fixtures(c *an.Ctx) *an.Prog {
	fixOnce.Do(func() {
		fixProg, fixErr = an.Load(c.VerifDir+"/checker", nil, "./fixtures/...")
	})
	if fixErr != nil {
		c.Control("fixtures-load", false, fixErr.Error())
		return nil
	}
	return fixProg
}

func fixFunc(c *an.Ctx, p *an.Prog, q string) *ssa.Function {
	fn := p.Func(q)
	if fn == nil {
		c.Control("fixture-func "+q, false, "not found")
	}
	return fn
}

func controlConfine(c *an.Ctx) bool {
	p := fixtures(c)
	if p == nil {
		return false
	}
	cg := p.CallGraph()
	sink := fixFunc(c, p, "verif/checker/fixtures/confine.(*Store).Put")
	bad := fixFunc(c, p, "verif/checker/fixtures/confine.BadRoot")
	good := fixFunc(c, p, "verif/checker/fixtures/confine.GoodRoot")
	cb := fixFunc(c, p, "verif/checker/fixtures/confine.CallbackRoot")
	if sink == nil || bad == nil || good == nil || cb == nil {
		return false
	}
	rb := cg.Reach([]*ssa.Function{bad}, an.ReachOpts{})
	rg := cg.Reach([]*ssa.Function{good}, an.ReachOpts{})
	rc := cg.Reach([]*ssa.Function{cb}, an.ReachOpts{})
	ok := rb.Has(sink) && !rg.Has(sink) && !rc.Has(sink)
	c.Control("A4 confine: fires on fixtures/confine.BadRoot (sink behind an interface and a goroutine), silent on GoodRoot and CallbackRoot", ok,
		"reachability on the fixture does not match expectations")
	return ok
}

// controlGuard: A2 on fixtures/guard.
func controlGuard(c *an.Ctx) bool {
	p := fixtures(c)
	if p == nil {
		return false
	}
	const pk = "verif/checker/fixtures/guard."
	check := p.Func(pk + "check")
	act := p.Func(pk + "act")
	if check == nil || act == nil {
		c.Control("A2 fixture anchors", false, "check/act not found")
		return false
	}
	base := []*an.Guard{an.GuardForFuncs("check", funcObj(check))}
	var cands []*ssa.Function
	for _, f := range p.RepoSrcFuncs() {
		cands = append(cands, f)
	}
	guards, wr := an.DiscoverWrappers(cands, base, 3, nil)
	isAct := func(in ssa.Instruction) bool { return isCallTo(in, funcObj(act)) }
	ok := true
	detail := ""
	for _, tc := range []struct {
		fn    string
		holds bool
	}{
		{"GoodDirect", true}, {"GoodWrapped", true}, {"GoodShortCircuit", true}, {"GoodSwitch", true}, {"GoodNamedResult", true},
		{"BadNoCheck", false}, {"BadIgnoredResult", false}, {"BadOneBranch", false}, {"BadCheckAfter", false}, {"BadWrongPolarity", false},
	} {
		fn := p.Func(pk + tc.fn)
		if fn == nil {
			ok, detail = false, detail+" missing "+tc.fn
			continue
		}
		v := an.Guarded(p, fn, guards, isAct, false)
		got := v.Holds && v.GuardSites > 0
		if got != tc.holds {
			ok = false
			detail += " " + tc.fn + ": got holds=" + map[bool]string{true: "true", false: "false"}[got] + " " + v.Witness
		}
	}
	if len(wr) < 2 {
		ok, detail = false, detail+" wrappers not discovered"
	}
	c.Control("A2 guard: silent on 5 conforming fixtures (direct, wrapped, short-circuit, switch, named result), fires on 5 violating ones (no check, ignored result, one branch, check after, wrong polarity)", ok, detail)
	return ok
}
