package props

import (
	"fmt"
	"go/types"
	"sort"
	"strings"

	"golang.org/x/tools/go/ssa"

	"verif/checker/an"
)

// argsNoRecv returns the call's arguments without the receiver.
func argsNoRecv(c *ssa.CallCommon) []ssa.Value {
	if c.IsInvoke() {
		return c.Args
	}
	if fn := c.StaticCallee(); fn != nil && fn.Signature.Recv() != nil && len(c.Args) > 0 {
		return c.Args[1:]
	}
	return c.Args
}

// recvOf returns the receiver value of a method call (nil if none).
func recvOf(c *ssa.CallCommon) ssa.Value {
	if c.IsInvoke() {
		return c.Value
	}
	if fn := c.StaticCallee(); fn != nil && fn.Signature.Recv() != nil && len(c.Args) > 0 {
		return c.Args[0]
	}
	return nil
}

// funcObj returns the types.Func of an ssa function (origin for instances).
func funcObj(fn *ssa.Function) *types.Func {
	if fn == nil {
		return nil
	}
	if fn.Origin() != nil {
		fn = fn.Origin()
	}
	o, _ := fn.Object().(*types.Func)
	return o
}

// isCallTo: the instruction is a call (not go/defer) whose static callee or
// interface method is one of objs.
func isCallTo(in ssa.Instruction, objs ...*types.Func) bool {
	c, ok := in.(ssa.CallInstruction)
	if !ok {
		return false
	}
	o := an.CalleeObj(c.Common())
	if o == nil {
		return false
	}
	for _, w := range objs {
		if w != nil && (o == w || o.Origin() == w) {
			return true
		}
	}
	return false
}

// callsIn lists calls in fn to any of objs.
func callsIn(fn *ssa.Function, objs ...*types.Func) []ssa.Instruction {
	var out []ssa.Instruction
	for _, c := range an.CallsToReach(fn, objs...) {
		out = append(out, c)
	}
	return out
}

// successUnreachable decides: with every instance of the guards failing (and the extra assumptions), no return of
// fn itself is reachable whose last result - the error - may be nil. The result is evaluated in the state, so
// `return parse(x)` is judged by what parse can return under the same assumptions. It reports the number of guard
// sites, of reachable returns examined, and a witness path ("" if the rule holds).
func successUnreachable(c *an.Ctx, fn *ssa.Function, guards []*an.Guard, extra map[ssa.Value]an.Abs) (sites, rets int, witness string) {
	sites = an.RunAllFail(fn, guards, extra, false, func(r *an.Result) {
		for _, ret := range an.Returns(fn) {
			if len(ret.Results) == 0 {
				continue
			}
			for _, st := range r.StatesAt(ret) {
				rets++
				if a := r.Eval(ret.Results[len(ret.Results)-1], st); a.K != an.KNonNil {
					witness = c.P.Rel(ret.Pos()) + " via " + r.Witness(c.P, st)
				}
			}
		}
	})
	return
}

// loopsAround lists the loops (back edge from, header) - in fn or in a helper a query on fn enters - whose body
// contains the instruction, directly or through the calls made in the body.
func loopsAround(fn *ssa.Function, in ssa.Instruction) [][2]*ssa.BasicBlock {
	var out [][2]*ssa.BasicBlock
	for _, g := range an.InlineReach(fn) {
		for _, e := range an.BackEdges(g) {
			body := an.LoopBlocks(e[0], e[1])
			if body[in.Block()] {
				out = append(out, e)
				continue
			}
			found := false
			for b := range body {
				for _, x := range b.Instrs {
					k, ok := x.(*ssa.Call)
					if !ok {
						continue
					}
					var callee *ssa.Function
					switch v := k.Call.Value.(type) {
					case *ssa.Function:
						callee = v
					case *ssa.MakeClosure:
						callee, _ = v.Fn.(*ssa.Function)
					}
					if callee == nil {
						// a call through a parameter: any closure created in the functions entered may be meant
						if _, isP := k.Call.Value.(*ssa.Parameter); isP && in.Parent() != g {
							for _, cl := range an.InlineReach(fn) {
								if cl.Parent() == nil {
									continue
								}
								for _, h := range an.InlineReach(cl) {
									if h == in.Parent() {
										found = true
									}
								}
							}
						}
						continue
					}
					for _, h := range an.InlineReach(callee) {
						if h == in.Parent() {
							found = true
						}
					}
				}
			}
			if found {
				out = append(out, e)
			}
		}
	}
	return out
}

// mustObj resolves a method or function object by qualified name.
func mustObj(c *an.Ctx, q string) *types.Func {
	if fn := c.P.Func(q); fn != nil {
		if o := funcObj(fn); o != nil {
			return o
		}
	}
	if m := c.P.Method(q); m != nil {
		return m
	}
	if o, ok := c.P.Obj(q).(*types.Func); ok {
		return o
	}
	c.Undecide("anchor|"+q, "every anchor named in a slot table must resolve through type information", "-",
		fmt.Sprintf("function/method %s not found (renamed or removed): the rule cannot be evaluated", q))
	return nil
}

// callersInRepo lists repository functions that contain a call (incl. go and
// defer) whose callee object is obj, with the call sites.
func callSitesInRepo(p *an.Prog, obj *types.Func, prefixes ...string) map[*ssa.Function][]ssa.CallInstruction {
	out := map[*ssa.Function][]ssa.CallInstruction{}
	for _, fn := range p.RepoSrcFuncs(prefixes...) {
		if cs := an.CallsTo(fn, obj); len(cs) > 0 {
			out[fn] = cs
		}
	}
	return out
}

func sortedFuncs(m map[*ssa.Function][]ssa.CallInstruction) []*ssa.Function {
	var fs []*ssa.Function
	for f := range m {
		fs = append(fs, f)
	}
	sort.Slice(fs, func(i, j int) bool { return fs[i].String() < fs[j].String() })
	return fs
}

// guardedCalls checks, for every call site of action in the repository, that
// it is unreachable when all guards fail. Returns the number of sites.
func guardedCalls(c *an.Ctx, ruleID, rule string, action *types.Func, guards []*an.Guard, prefixes []string, exempt map[string]string) int {
	sites := callSitesInRepo(c.P, action, prefixes...)
	n := 0
	for _, fn := range sortedFuncs(sites) {
		name := an.FuncName(fn)
		calls := sites[fn]
		n += len(calls)
		key := fmt.Sprintf("%s|%s|%s", ruleID, name, action.Name())
		if why, ok := exempt[name]; ok {
			c.Note(key, rule, c.P.Rel(calls[0].Pos()), "exempt by table: "+why)
			continue
		}
		set := map[ssa.Instruction]bool{}
		for _, k := range calls {
			set[k] = true
		}
		v := an.Guarded(c.P, fn, guards, func(in ssa.Instruction) bool { return set[in] }, false)
		c.Count("callsites_analysed", len(calls))
		if v.Holds && v.GuardSites > 0 {
			c.Hold(key, rule, c.P.Rel(calls[0].Pos()), fmt.Sprintf("%d guard site(s), %d action site(s)", v.GuardSites, v.ActionSites))
		} else if v.GuardSites == 0 {
			c.Violate(key, rule, c.P.Rel(calls[0].Pos()), "no guard call at all in "+name)
		} else {
			c.Violate(key, rule, c.P.Rel(v.Action.Pos()), "reachable with every guard failing: "+v.Witness)
		}
	}
	return n
}

func names(fs []*ssa.Function) string {
	var s []string
	for _, f := range fs {
		s = append(s, an.FuncName(f))
	}
	return strings.Join(s, ", ")
}

// loopIterationsMustCall: in every loop of fn that contains a call to
// inLoop, every path around the loop (header to back edge) passes a call to
// each of must.
func loopIterationsMustCall(c *an.Ctx, ruleID, rule string, fn *ssa.Function, must ...*types.Func) {
	loopIterationsMustCallAt(c, ruleID, rule, fn, nil, must...)
}

// loopIterationsMustCallAt: as loopIterationsMustCall, but the loops examined are those around the calls to anchor
// (the cursor advance of the iteration that matters), wherever the calls to must are.
func loopIterationsMustCallAt(c *an.Ctx, ruleID, rule string, fn *ssa.Function, anchor *types.Func, must ...*types.Func) {
	for _, m := range must {
		calls := callsIn(fn, m)
		key := fmt.Sprintf("%s|%s|%s", ruleID, an.FuncName(fn), m.Name())
		if len(calls) == 0 {
			c.Violate(key, rule, c.P.Rel(fn.Pos()), "no call to "+m.Name()+" in "+an.FuncName(fn))
			continue
		}
		cut := map[ssa.Instruction]bool{}
		inLoop := false
		for _, k := range calls {
			cut[k] = true
		}
		bad := ""
		seenLoop := map[[2]*ssa.BasicBlock]bool{}
		around := calls
		if anchor != nil {
			around = callsIn(fn, anchor)
		}
		for _, k := range around {
			for _, e := range loopsAround(fn, k) {
				if seenLoop[e] {
					continue
				}
				seenLoop[e] = true
				inLoop = true
				p, b := e[0], e[1]
				q := &an.Query{Fn: fn, Cut: cut, Start: b.Instrs[0]}
				r := q.Run()
				term := p.Instrs[len(p.Instrs)-1]
				if r.Reaches(term) {
					bad = fmt.Sprintf("an iteration of the loop at %s can reach its back edge without calling %s", c.P.Rel(loopPos(b)), m.Name())
				}
			}
		}
		if !inLoop {
			c.Violate(key, rule, c.P.Rel(fn.Pos()), "no loop found")
		} else if bad != "" {
			c.Violate(key, rule, c.P.Rel(fn.Pos()), bad)
		} else {
			c.Hold(key, rule, c.P.Rel(calls[0].Pos()), "")
		}
	}
}

// loopContains: some call lies in the natural loop of back edge p->h.
func loopContains(h, p *ssa.BasicBlock, calls []ssa.Instruction) bool {
	body := map[*ssa.BasicBlock]bool{h: true}
	var stack []*ssa.BasicBlock
	if !body[p] {
		body[p] = true
		stack = append(stack, p)
	}
	for len(stack) > 0 {
		x := stack[len(stack)-1]
		stack = stack[:len(stack)-1]
		for _, q := range x.Preds {
			if !body[q] {
				body[q] = true
				stack = append(stack, q)
			}
		}
	}
	for _, k := range calls {
		if body[k.Block()] {
			return true
		}
	}
	return false
}

func loopPos(b *ssa.BasicBlock) (pos tokenPos) {
	for _, in := range b.Instrs {
		if in.Pos().IsValid() {
			return in.Pos()
		}
	}
	for _, s := range b.Succs {
		for _, in := range s.Instrs {
			if in.Pos().IsValid() {
				return in.Pos()
			}
		}
	}
	return 0
}

// seqStep is one required call in an ordered sequence.
type seqStep struct {
	name string
	objs []*types.Func
}

// sequenceOnSuccess decides (A3): on every path of fn to a success return the
// steps occur, in this order, each step's error result (if it has one) is
// tested before the next step, and — per loop iteration, when the steps lie in
// a loop — step i+1 is unreachable from the loop header without passing step i.
func sequenceOnSuccess(c *an.Ctx, id, rule string, fn *ssa.Function, steps []seqStep, requireOnSuccess bool) {
	calls := make([][]ssa.Instruction, len(steps))
	for i, s := range steps {
		calls[i] = callsIn(fn, s.objs...)
		if len(calls[i]) == 0 {
			c.Violate(fmt.Sprintf("%s|%s|%s", id, an.FuncName(fn), s.name), rule, c.P.Rel(fn.Pos()), "required call "+s.name+" not found in "+an.FuncName(fn))
			return
		}
	}
	for i, s := range steps {
		key := fmt.Sprintf("%s|%s|%s", id, an.FuncName(fn), s.name)
		if requireOnSuccess {
			if ok, why := an.MustPassToSuccess(c.P, fn, calls[i]); !ok {
				c.Violate(key+"|on-every-success-path", rule, c.P.Rel(calls[i][0].Pos()), why)
				continue
			}
		}
		if i+1 < len(steps) {
			nextKey := fmt.Sprintf("%s|%s|%s<%s", id, an.FuncName(fn), s.name, steps[i+1].name)
			ok, why := an.MustPass(c.P, fn, calls[i], calls[i+1], nil)
			// per iteration
			if ok {
				cut := map[ssa.Instruction]bool{}
				for _, k := range calls[i] {
					cut[k] = true
				}
				for _, nx := range calls[i+1] {
					for _, e := range loopsAround(fn, nx) {
						q := &an.Query{Fn: fn, Cut: cut, Start: e[1].Instrs[0]}
						if q.Run().Reaches(nx) {
							ok, why = false, fmt.Sprintf("within an iteration of the loop at %s, %s is reachable without passing %s", c.P.Rel(loopPos(e[1])), steps[i+1].name, s.name)
						}
					}
				}
			}
			// error of step i tested before step i+1
			if ok {
				var gs []*an.Guard
				for _, o := range s.objs {
					if o != nil && len(an.DefaultFailModes(o.Type().(*types.Signature))) > 0 {
						gs = append(gs, an.GuardForFuncs(s.name, o))
					}
				}
				if len(gs) > 0 {
					set := map[ssa.Instruction]bool{}
					for _, k := range calls[i+1] {
						set[k] = true
					}
					v := an.Guarded(c.P, fn, gs, func(in ssa.Instruction) bool { return set[in] }, false)
					if !v.Holds {
						ok, why = false, fmt.Sprintf("%s is reachable although %s failed: %s", steps[i+1].name, s.name, v.Witness)
					}
				}
			}
			c.Check(ok, nextKey, rule, c.P.Rel(calls[i+1][0].Pos()), why)
		}
		c.Hold(key, rule, c.P.Rel(calls[i][0].Pos()), "")
	}
}

func step(c *an.Ctx, name string, quals ...string) seqStep {
	s := seqStep{name: name}
	for _, q := range quals {
		if o := mustObj(c, q); o != nil {
			s.objs = append(s.objs, o)
		}
	}
	return s
}
