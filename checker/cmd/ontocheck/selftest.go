package main

import (
	"encoding/json"
	"fmt"
	"io"
	"io/fs"
	"os"
	"os/exec"
	"path/filepath"
	"regexp"
	"sort"
	"strings"
)

// Thorough tier, part 2: sensitivity self-test. For every recorded seeded
// change of this property (verif/seeded/<id>*/patch.diff) the current working
// tree of the repository is copied to a scratch directory outside the
// repository and the verification directory, the patch is applied there, the
// same property check is run on the copy, and the copy is removed. The check
// must report a violation on each mutant. Nothing here executes repository
// code; it is the same static analysis on a modified source tree.

type mutantResult struct {
	Seed     string   `json:"seed"`
	Applied  bool     `json:"patch_applies_to_current_tree"`
	Caught   bool     `json:"violation_reported"`
	Keys     []string `json:"violated_or_undecided_obligations,omitempty"`
	Note     string   `json:"note,omitempty"`
	Duration string   `json:"wall,omitempty"`
}

func copyTree(src, dst string) error {
	return filepath.WalkDir(src, func(path string, d fs.DirEntry, err error) error {
		if err != nil {
			return err
		}
		rel, _ := filepath.Rel(src, path)
		if rel == ".git" {
			return filepath.SkipDir
		}
		target := filepath.Join(dst, rel)
		if d.IsDir() {
			return os.MkdirAll(target, 0o755)
		}
		info, err := d.Info()
		if err != nil {
			return err
		}
		if !info.Mode().IsRegular() {
			return nil
		}
		in, err := os.Open(path)
		if err != nil {
			return err
		}
		defer in.Close()
		out, err := os.OpenFile(target, os.O_CREATE|os.O_WRONLY|os.O_TRUNC, info.Mode().Perm())
		if err != nil {
			return err
		}
		defer out.Close()
		_, err = io.Copy(out, in)
		return err
	})
}

var obRe = regexp.MustCompile(`(?m)^\s+(?:violated|undecided)\s+(\S.*)$`)

// runMutants returns the results and writes nothing into repo or verif.
func runMutants(prop, repo, verif string) []mutantResult {
	return runVariants(prop, repo, verif, "seeded")
}

// runControls does the same for the behaviour-preserving refactorings recorded under verif/benign/<id>*: the check
// must stay silent on each of them (specificity control).
func runControls(prop, repo, verif string) []mutantResult {
	return runVariants(prop, repo, verif, "benign")
}

func runVariants(prop, repo, verif, sub string) []mutantResult {
	seedsDir := filepath.Join(verif, sub)
	entries, err := os.ReadDir(seedsDir)
	if err != nil {
		return nil
	}
	var ids []string
	for _, e := range entries {
		if e.IsDir() && strings.HasPrefix(e.Name(), prop) {
			if _, err := os.Stat(filepath.Join(seedsDir, e.Name(), "patch.diff")); err == nil {
				ids = append(ids, e.Name())
			}
		}
	}
	sort.Strings(ids)
	if len(ids) == 0 {
		return nil
	}
	base := os.Getenv("TMPDIR")
	if base == "" {
		base = os.TempDir()
	}
	// a stable path keeps the Go build cache warm across runs
	scratch := filepath.Join(base, "ontocheck-mutant-"+prop)
	sv := filepath.Join(base, "ontocheck-mutant-"+prop+"-verif-"+sub)
	defer os.RemoveAll(scratch)
	defer os.RemoveAll(sv)
	var out []mutantResult
	for _, id := range ids {
		r := mutantResult{Seed: id}
		os.RemoveAll(scratch)
		os.RemoveAll(sv)
		if err := copyTree(repo, scratch); err != nil {
			r.Note = "copy failed: " + err.Error()
			out = append(out, r)
			continue
		}
		patch, _ := filepath.Abs(filepath.Join(seedsDir, id, "patch.diff"))
		ap := exec.Command("git", "apply", "--whitespace=nowarn", patch)
		ap.Dir = scratch
		ap.Env = append(os.Environ(), "GIT_CEILING_DIRECTORIES="+base)
		if msg, err := ap.CombinedOutput(); err != nil {
			r.Note = "patch does not apply to the current tree: " + strings.TrimSpace(string(msg))
			out = append(out, r)
			continue
		}
		r.Applied = true
		os.MkdirAll(filepath.Join(sv, "evidence"), 0o755)
		os.Symlink(filepath.Join(verif, "checker"), filepath.Join(sv, "checker"))
		if b, err := os.ReadFile(filepath.Join(verif, "known_findings.json")); err == nil {
			os.WriteFile(filepath.Join(sv, "known_findings.json"), b, 0o644)
		}
		cmd := exec.Command(os.Args[0], "-prop", prop, "-tier", "quick", "-repo", scratch, "-verif", sv)
		cmd.Env = os.Environ()
		outb, _ := cmd.CombinedOutput()
		txt := string(outb)
		r.Caught = strings.Contains(txt, "VIOLATION property="+prop)
		for _, m := range obRe.FindAllStringSubmatch(txt, 12) {
			r.Keys = append(r.Keys, m[1])
		}
		out = append(out, r)
	}
	return out
}

// mergeMutantsIntoEvidence adds the self-test record to the evidence file the
// check just wrote.
func mergeControlsIntoEvidence(evPath string, res []mutantResult) {
	b, err := os.ReadFile(evPath)
	if err != nil {
		return
	}
	var ev map[string]interface{}
	if json.Unmarshal(b, &ev) != nil {
		return
	}
	cov, _ := ev["coverage"].(map[string]interface{})
	if cov == nil {
		return
	}
	silent, applied := 0, 0
	for _, r := range res {
		if r.Applied {
			applied++
			if !r.Caught {
				silent++
			}
		}
	}
	cov["specificity_selftest"] = map[string]interface{}{
		"what":                  "each recorded behaviour-preserving refactoring touching this property's code was applied to a scratch copy of the current working tree and the same static check was run on the copy; the check must stay silent",
		"refactorings":          len(res),
		"applied":               applied,
		"silent":                silent,
		"results":               res,
	}
	nb, _ := json.MarshalIndent(ev, "", " ")
	os.WriteFile(evPath, append(nb, '\n'), 0o644)
	fmt.Printf("  specificity self-test: %d behaviour-preserving refactorings, %d apply to this tree, %d leave the check silent\n", len(res), applied, silent)
	for _, r := range res {
		if r.Applied && r.Caught {
			fmt.Printf("  note: the check raises a false alarm on the behaviour-preserving refactoring %s: %v\n", r.Seed, r.Keys)
		}
	}
}

func mergeMutantsIntoEvidence(evPath string, res []mutantResult) {
	b, err := os.ReadFile(evPath)
	if err != nil {
		return
	}
	var ev map[string]interface{}
	if json.Unmarshal(b, &ev) != nil {
		return
	}
	cov, _ := ev["coverage"].(map[string]interface{})
	if cov == nil {
		return
	}
	caught, applied := 0, 0
	for _, r := range res {
		if r.Applied {
			applied++
		}
		if r.Caught {
			caught++
		}
	}
	cov["sensitivity_selftest"] = map[string]interface{}{
		"what":                   "each recorded seeded change of this property was applied to a scratch copy of the current working tree and the same static check was run on the copy; the copy was removed afterwards",
		"seeded_changes":         len(res),
		"applied":                applied,
		"reported_as_violation":  caught,
		"results":                res,
	}
	nb, _ := json.MarshalIndent(ev, "", " ")
	os.WriteFile(evPath, append(nb, '\n'), 0o644)
	fmt.Printf("  sensitivity self-test: %d seeded changes, %d apply to this tree, %d reported as violations\n", len(res), applied, caught)
	for _, r := range res {
		if r.Applied && !r.Caught {
			fmt.Printf("  note: seeded change %s is NOT detected by this check on the current tree\n", r.Seed)
		}
	}
}
