// ontocheck decides one property of /verif/properties.jsonl on the current
// source tree of the repository by static analysis.
package main

import (
	"flag"
	"fmt"
	"os"
	"runtime/debug"
	"strconv"

	"verif/checker/an"
	"verif/checker/props"
)

func main() {
	prop := flag.String("prop", "", "property id (C01..C45)")
	tier := flag.String("tier", "quick", "quick|thorough")
	repo := flag.String("repo", "/repo", "repository working tree to analyse")
	verif := flag.String("verif", "/verif", "verification directory (evidence, known findings, fixtures)")
	list := flag.Bool("list", false, "list registered properties")
	flag.Parse()
	if *list {
		for _, id := range props.IDs() {
			fmt.Println(id)
		}
		return
	}
	if t := os.Getenv("VERIF_TIER"); t != "" && !isFlagSet("tier") {
		*tier = t
	}
	seed := 0
	if s := os.Getenv("VERIF_SEED"); s != "" {
		seed, _ = strconv.Atoi(s)
	}
	p := props.Get(*prop)
	if p == nil {
		fmt.Fprintf(os.Stderr, "unknown property %q\n", *prop)
		os.Exit(2)
	}
	c := an.NewCtx(*prop, *tier, seed, *repo, *verif)
	code := run(c, p)
	if *tier == "thorough" && os.Getenv("ONTOCHECK_NO_SELFTEST") == "" {
		// sensitivity self-test on scratch copies (never touches repo or verif/seeded)
		if res := runMutants(*prop, *repo, *verif); len(res) > 0 {
			mergeMutantsIntoEvidence(*verif+"/evidence/"+*prop+".json", res)
		}
		if res := runControls(*prop, *repo, *verif); len(res) > 0 {
			mergeControlsIntoEvidence(*verif+"/evidence/"+*prop+".json", res)
		}
	}
	os.Exit(code)
}

func isFlagSet(name string) bool {
	set := false
	flag.Visit(func(f *flag.Flag) {
		if f.Name == name {
			set = true
		}
	})
	return set
}

func run(c *an.Ctx, p *props.Prop) (code int) {
	var fatal error
	func() {
		defer func() {
			if r := recover(); r != nil {
				fatal = fmt.Errorf("analyzer panic: %v\n%s", r, debug.Stack())
			}
		}()
		prog, err := an.Load(c.RepoDir, nil, p.Patterns...)
		if err != nil {
			fatal = err
			return
		}
		c.P = prog
		an.SetOpaqueUnits()
		p.Run(c)
	}()
	return c.Finish(fatal)
}
