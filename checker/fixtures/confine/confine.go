// Package confine is the positive/negative control for analyzer A4.
package confine

import "sort"

type KV interface{ Put(k, v []byte) }

type Store struct{ m map[string][]byte }

func (s *Store) Put(k, v []byte) { s.m[string(k)] = v }

type Mem struct{ m map[string][]byte }

func (s *Mem) Put(k, v []byte) { s.m[string(k)] = v }

type svc struct{ kv KV }

func (s *svc) apply() { go s.kv.Put([]byte("k"), nil) }

// BadRoot reaches (*Store).Put through an interface value and a go statement.
func BadRoot() {
	s := &svc{kv: &Store{m: map[string][]byte{}}}
	s.apply()
}

type msvc struct{ kv KV }

func (s *msvc) apply() { s.kv.Put([]byte("k"), nil) }

// GoodRoot only ever writes to the in-memory implementation.
func GoodRoot() {
	s := &msvc{kv: &Mem{m: map[string][]byte{}}}
	s.apply()
}

var st = &Store{m: map[string][]byte{}}

// OtherSorter passes a closure that writes the store to sort.Slice; it must
// not make CallbackRoot reach the sink (callback binding).
func OtherSorter(xs []int) {
	sort.Slice(xs, func(i, j int) bool { st.Put(nil, nil); return xs[i] < xs[j] })
}

// CallbackRoot sorts with a pure comparator.
func CallbackRoot(xs []int) {
	sort.Slice(xs, func(i, j int) bool { return xs[i] < xs[j] })
}
