// Package guard is the positive/negative control for analyzer A2.
package guard

import "errors"

var state int

func check(x int) error {
	if x < 0 {
		return errors.New("negative")
	}
	return nil
}

func act(x int) { state = x }

func ensure(x int) error {
	if err := check(x); err != nil {
		return errors.New("wrapped: " + err.Error())
	}
	return nil
}

func ensure2(x int) (bool, error) {
	if err := ensure(x); err != nil {
		return false, err
	}
	return true, nil
}

func GoodDirect(x int) error {
	if err := check(x); err != nil {
		return err
	}
	act(x)
	return nil
}

func GoodWrapped(x int) error {
	ok, err := ensure2(x)
	if err != nil || !ok {
		return errors.New("no")
	}
	act(x)
	return nil
}

func GoodShortCircuit(x int, allow bool) error {
	pass := check(x) == nil && allow
	if !pass && check(x+1) != nil {
		return errors.New("no")
	}
	act(x)
	return nil
}

func GoodSwitch(x int) error {
	switch err := check(x); {
	case err != nil:
		return err
	default:
		act(x)
	}
	return nil
}

func GoodNamedResult(x int) (err error) {
	err = check(x)
	if err != nil {
		return
	}
	act(x)
	return
}

func BadNoCheck(x int) error {
	act(x)
	return nil
}

func BadIgnoredResult(x int) error {
	_ = check(x)
	act(x)
	return nil
}

func BadOneBranch(x int, fast bool) error {
	if !fast {
		if err := check(x); err != nil {
			return err
		}
	}
	act(x)
	return nil
}

func BadCheckAfter(x int) error {
	act(x)
	return check(x)
}

func BadWrongPolarity(x int) error {
	if err := check(x); err == nil {
		return nil
	}
	act(x)
	return nil
}
