package an

import (
	"fmt"
	"os"
	"go/types"
	"sort"
	"strings"

	"golang.org/x/tools/go/ssa"
)

// Guard describes a check whose failure must make an action unreachable
// (analyzer A2). A guard instance is either a call (results assumed to take a
// failing value) or an arbitrary boolean SSA value selected by MatchValue.
type Guard struct {
	Name string
	// MatchCall selects guard calls.
	MatchCall func(c ssa.CallInstruction) bool
	// FailModes: each mode gives the abstract value of each result under
	// failure (AUnknown = unconstrained). For a single-result call a mode has
	// one element.
	FailModes [][]Abs
	// MatchValue selects non-call guard values (comparisons); FailValue is
	// the value they take when the check fails.
	MatchValue func(v ssa.Value) bool
	FailValue  Abs
}

// GuardForFuncs builds a guard matching calls whose callee object is one of
// objs; fail modes are derived from the callee's result types: the last
// error result non-nil, or a bool result false (each as a separate mode).
func GuardForFuncs(name string, objs ...*types.Func) *Guard {
	var modes [][]Abs
	for _, o := range objs {
		if o == nil {
			continue
		}
		modes = DefaultFailModes(o.Type().(*types.Signature))
		break
	}
	set := map[*types.Func]bool{}
	for _, o := range objs {
		if o != nil {
			set[o] = true
		}
	}
	return &Guard{Name: name, FailModes: modes, MatchCall: func(c ssa.CallInstruction) bool {
		o := CalleeObj(c.Common())
		return o != nil && (set[o] || set[o.Origin()])
	}}
}

// DefaultFailModes: error results non-nil; bool results false; one mode per
// such result.
func DefaultFailModes(sig *types.Signature) [][]Abs {
	n := sig.Results().Len()
	var modes [][]Abs
	for i := 0; i < n; i++ {
		t := sig.Results().At(i).Type()
		var a Abs
		if isErrorType(t) {
			a = ANonNil
		} else if b, ok := t.Underlying().(*types.Basic); ok && b.Kind() == types.Bool {
			a = AFalse
		} else {
			continue
		}
		m := make([]Abs, n)
		m[i] = a
		modes = append(modes, m)
	}
	return modes
}

func isErrorType(t types.Type) bool {
	if types.Identical(t, types.Universe.Lookup("error").Type()) {
		return true
	}
	if n, ok := t.(*types.Named); ok {
		if _, isI := n.Underlying().(*types.Interface); isI {
			// interfaces embedding error (errors.ErrCoder)
			ms := types.NewMethodSet(t)
			for i := 0; i < ms.Len(); i++ {
				if ms.At(i).Obj().Name() == "Error" {
					return true
				}
			}
		}
	}
	return false
}

// guardInstance is one matched guard site in a function.
type guardInstance struct {
	g     *Guard
	call  ssa.CallInstruction
	value ssa.Value
}

func findGuards(fn *ssa.Function, guards []*Guard) []guardInstance {
	var out []guardInstance
	for _, g := range guardReach(fn, guards) {
		out = append(out, findGuardsIn(g, guards)...)
	}
	return out
}

// guardReach: the functions a guarded query on fn enters - the inline reach without the bodies reached only through
// a guard call (a guard call is decided at its call site and never entered).
func guardReach(fn *ssa.Function, guards []*Guard) []*ssa.Function {
	return InlineReachSkipping(fn, func(c *ssa.Call) bool {
		for _, g := range guards {
			if g.MatchCall != nil && g.MatchCall(c) {
				return true
			}
		}
		return false
	})
}

func findGuardsIn(fn *ssa.Function, guards []*Guard) []guardInstance {
	var out []guardInstance
	for _, b := range fn.Blocks {
		for _, in := range b.Instrs {
			for _, g := range guards {
				if c, ok := in.(ssa.CallInstruction); ok && g.MatchCall != nil && g.MatchCall(c) {
					if _, isCall := in.(*ssa.Call); isCall {
						out = append(out, guardInstance{g: g, call: c})
					}
				}
				if v, ok := in.(ssa.Value); ok && g.MatchValue != nil && g.MatchValue(v) {
					out = append(out, guardInstance{g: g, value: v})
				}
			}
		}
	}
	return out
}

// assumptions enumerates the assumption maps for "every guard instance
// fails", one per combination of failure modes (capped).
func assumptions(insts []guardInstance) []map[ssa.Value]Abs {
	combos := []map[ssa.Value]Abs{{}}
	for _, gi := range insts {
		if gi.value != nil {
			for _, m := range combos {
				m[gi.value] = gi.g.FailValue
			}
			continue
		}
		cv := gi.call.Value()
		if cv == nil {
			continue
		}
		modes := gi.g.FailModes
		if len(modes) == 0 {
			continue
		}
		var next []map[ssa.Value]Abs
		for _, base := range combos {
			for _, mode := range modes {
				m := map[ssa.Value]Abs{}
				for k, v := range base {
					m[k] = v
				}
				if _, isT := cv.Type().(*types.Tuple); len(mode) == 1 && !isT {
					m[cv] = mode[0]
				} else if _, isTuple := cv.Type().(*types.Tuple); !isTuple {
					if len(mode) > 0 {
						m[cv] = mode[len(mode)-1]
					}
				} else {
					for idx, exs := range Extracts(cv) {
						if idx < len(mode) && mode[idx].K != KUnknown {
							for _, e := range exs {
								m[e] = mode[idx]
							}
						}
					}
				}
				next = append(next, m)
			}
		}
		if len(next) > 64 {
			next = next[:64]
		}
		combos = next
	}
	return combos
}

// GuardVerdict is the outcome of a guarded-action query.
type GuardVerdict struct {
	Holds       bool
	GuardSites  int
	ActionSites int
	Witness     string // path reaching the action with all guards failing
	Action      ssa.Instruction
	GuardPos    []string // where the guard instances are
}

// Guarded decides: with every instance of the given guards failing, no
// instruction selected by isAction is reachable from the entry of fn.
// Equivalently every path to an action crosses a success edge of a guard.
func Guarded(p *Prog, fn *ssa.Function, guards []*Guard, isAction func(ssa.Instruction) bool, nonEmptyRange bool) GuardVerdict {
	insts := findGuards(fn, guards)
	actions := actionsIn(fn, guards, isAction)
	v := GuardVerdict{Holds: true, GuardSites: len(insts), ActionSites: len(actions)}
	for _, gi := range insts {
		if gi.call != nil {
			v.GuardPos = append(v.GuardPos, p.Rel(gi.call.Pos()))
		} else if in, ok := gi.value.(ssa.Instruction); ok {
			v.GuardPos = append(v.GuardPos, p.Rel(in.Pos()))
		}
	}
	if os.Getenv("ONTOCHECK_DEBUG") != "" {
		fmt.Fprintf(os.Stderr, "DEBUG Guarded %s: guards=%v actions=%d\n", FuncName(fn), v.GuardPos, len(actions))
		if d := os.Getenv("ONTOCHECK_DUMP"); d != "" && strings.Contains(FuncName(fn), d) {
			fn.WriteTo(os.Stderr)
			for _, as := range assumptions(insts) {
				for k, a := range as {
					fmt.Fprintf(os.Stderr, "DEBUG assume %s = %v\n", k.Name(), a)
				}
			}
		}
	}
	if len(actions) == 0 {
		return v
	}
	for _, as := range assumptions(insts) {
		q := &Query{Fn: fn, Assume: as, NonEmptyRange: nonEmptyRange, Opaque: opaqueFor(insts, actions)}
		r := q.Run()
		for _, a := range actions {
			if sts := r.StatesAt(a); len(sts) > 0 {
				v.Holds = false
				v.Action = a
				v.Witness = r.Witness(p, sts[0])
				return v
			}
		}
	}
	return v
}

// RetSpec says which results make a return a *success* return.
type RetSpec struct {
	// Want[i] is the abstract value result i must have for success
	// (AUnknown = don't care).
	Want []Abs
}

// SuccessSpecFor derives the success spec from a signature: error results
// nil, bool results true.
func SuccessSpecFor(sig *types.Signature) RetSpec {
	n := sig.Results().Len()
	w := make([]Abs, n)
	for i := 0; i < n; i++ {
		t := sig.Results().At(i).Type()
		if isErrorType(t) {
			w[i] = ANil
		} else if b, ok := t.Underlying().(*types.Basic); ok && b.Kind() == types.Bool {
			w[i] = ATrue
		}
	}
	return RetSpec{Want: w}
}

// definitelyFails: some result provably differs from its wanted value.
func (s RetSpec) definitelyFails(r *Result, ret *ssa.Return, st pstate) bool {
	for i, w := range s.Want {
		if w.K == KUnknown || i >= len(ret.Results) {
			continue
		}
		a := r.Eval(ret.Results[i], st)
		if a.Contradicts(w) {
			return true
		}
		if w.K == KNil && a.K == KNonNil {
			return true
		}
	}
	return false
}

// SuccessReturnsReachable runs the query and lists the returns that may be
// success returns under it (with a witness state each).
func SuccessReturnsReachable(q *Query, spec RetSpec) (*Result, []*ssa.Return, []pstate) {
	r := q.Run()
	var rets []*ssa.Return
	var sts []pstate
	for _, ret := range Returns(q.Fn) {
		for _, st := range r.StatesAt(ret) {
			if !spec.definitelyFails(r, ret, st) {
				rets = append(rets, ret)
				sts = append(sts, st)
				break
			}
		}
	}
	return r, rets, sts
}

// IsWrapper decides whether fn is itself a guard: with all instances of the
// known guards failing, no success return of fn is reachable.
func IsWrapper(fn *ssa.Function, guards []*Guard, nonEmptyRange bool) bool {
	if fn.Blocks == nil {
		return false
	}
	sig := fn.Signature
	spec := SuccessSpecFor(sig)
	has := false
	for _, w := range spec.Want {
		if w.K != KUnknown {
			has = true
		}
	}
	if !has {
		return false
	}
	insts := findGuardsIn(fn, guards)
	if len(insts) == 0 {
		return false
	}
	for _, as := range assumptions(insts) {
		q := &Query{Fn: fn, Assume: as, NonEmptyRange: nonEmptyRange, NoInline: true}
		_, rets, _ := SuccessReturnsReachable(q, spec)
		if len(rets) > 0 {
			return false
		}
	}
	return true
}

// DiscoverWrappers extends the guard set with functions (among candidates)
// that are guards themselves, to a fixpoint of at most depth rounds. It
// returns the extended guard list and the names of discovered wrappers.
func DiscoverWrappers(cands []*ssa.Function, base []*Guard, depth int, nonEmptyRange func(*ssa.Function) bool) ([]*Guard, []string) {
	guards := append([]*Guard{}, base...)
	found := map[*ssa.Function]bool{}
	var names []string
	for round := 0; round < depth; round++ {
		var add []*ssa.Function
		for _, fn := range cands {
			if found[fn] {
				continue
			}
			ne := nonEmptyRange != nil && nonEmptyRange(fn)
			if IsWrapper(fn, guards, ne) {
				add = append(add, fn)
			}
		}
		if len(add) == 0 {
			break
		}
		for _, fn := range add {
			found[fn] = true
			names = append(names, FuncName(fn))
			f := fn
			guards = append(guards, &Guard{
				Name:      "wrapper:" + FuncName(fn),
				FailModes: DefaultFailModes(fn.Signature),
				MatchCall: func(c ssa.CallInstruction) bool {
					callee := c.Common().StaticCallee()
					return callee == f
				},
			})
		}
	}
	sort.Strings(names)
	return guards, names
}

// MustPass decides: every path from the entry of fn to an instruction in
// targets passes through an instruction in via (A3 must-pass-through).
// Returns ok and a witness path that avoids via.
func MustPass(p *Prog, fn *ssa.Function, via []ssa.Instruction, targets []ssa.Instruction, assume map[ssa.Value]Abs) (bool, string) {
	cut := map[ssa.Instruction]bool{}
	for _, v := range via {
		cut[v] = true
	}
	q := &Query{Fn: fn, Cut: cut, Assume: assume}
	r := q.Run()
	for _, t := range targets {
		if cut[t] {
			continue
		}
		if sts := r.StatesAt(t); len(sts) > 0 {
			return false, fmt.Sprintf("%s reachable avoiding the required call: %s", p.Rel(t.Pos()), r.Witness(p, sts[0]))
		}
	}
	return true, ""
}

// SuccessReturns lists the returns of fn that may be success returns with no
// assumptions.
func SuccessReturns(fn *ssa.Function) []ssa.Instruction {
	q := &Query{Fn: fn}
	_, rets, _ := SuccessReturnsReachable(q, SuccessSpecFor(fn.Signature))
	var out []ssa.Instruction
	for _, r := range rets {
		out = append(out, r)
	}
	return out
}

// MustPassToSuccess decides: every path from entry to a success return of fn
// passes one of via, and (if tested) the via call's failure makes success
// unreachable from it.
func MustPassToSuccess(p *Prog, fn *ssa.Function, via []ssa.Instruction) (bool, string) {
	cut := map[ssa.Instruction]bool{}
	for _, v := range via {
		cut[v] = true
	}
	q := &Query{Fn: fn, Cut: cut}
	r, rets, sts := SuccessReturnsReachable(q, SuccessSpecFor(fn.Signature))
	if len(rets) > 0 {
		return false, fmt.Sprintf("success return %s reachable avoiding the required call: %s", p.Rel(rets[0].Pos()), r.Witness(p, sts[0]))
	}
	return true, ""
}

// RunAllFail runs one query per failure-mode combination of the guards in
// fn and calls visit for each result.
func RunAllFail(fn *ssa.Function, guards []*Guard, extra map[ssa.Value]Abs, nonEmptyRange bool, visit func(r *Result)) (guardSites int) {
	insts := findGuards(fn, guards)
	for _, as := range assumptions(insts) {
		for k, v := range extra {
			as[k] = v
		}
		q := &Query{Fn: fn, Assume: as, NonEmptyRange: nonEmptyRange, Opaque: opaqueFor(insts, nil)}
		visit(q.Run())
	}
	return len(insts)
}

// BackEdges lists the loops of fn as back edges (from, to), one per loop header: a loop with several latches
// (`continue`, or `if c { x = y }` at the end of the body once go/ssa drops the empty join block) is one loop, and
// LoopBlocks returns its whole body whichever of its latches is named.
func BackEdges(fn *ssa.Function) [][2]*ssa.BasicBlock {
	var out [][2]*ssa.BasicBlock
	for _, b := range fn.Blocks {
		for _, p := range b.Preds {
			if b.Dominates(p) {
				out = append(out, [2]*ssa.BasicBlock{p, b})
				break
			}
		}
	}
	return out
}

// LoopBlocks returns the loop with header h: the union of the natural loops of all back edges into h (p names one
// of its latches and is kept for the callers' convenience).
func LoopBlocks(p, h *ssa.BasicBlock) map[*ssa.BasicBlock]bool {
	body := map[*ssa.BasicBlock]bool{h: true}
	var stack []*ssa.BasicBlock
	push := func(x *ssa.BasicBlock) {
		if !body[x] {
			body[x] = true
			stack = append(stack, x)
		}
	}
	push(p)
	for _, q := range h.Preds {
		if h.Dominates(q) {
			push(q)
		}
	}
	for len(stack) > 0 {
		x := stack[len(stack)-1]
		stack = stack[:len(stack)-1]
		for _, q := range x.Preds {
			push(q)
		}
	}
	return body
}

// GuardedX is Guarded with extra assumptions (side conditions that are not
// guards, e.g. "the block is not empty").
func GuardedX(p *Prog, fn *ssa.Function, guards []*Guard, extra map[ssa.Value]Abs, isAction func(ssa.Instruction) bool, nonEmptyRange bool) GuardVerdict {
	insts := findGuards(fn, guards)
	actions := actionsIn(fn, guards, isAction)
	v := GuardVerdict{Holds: true, GuardSites: len(insts), ActionSites: len(actions)}
	for _, gi := range insts {
		if gi.call != nil {
			v.GuardPos = append(v.GuardPos, p.Rel(gi.call.Pos()))
		} else if in, ok := gi.value.(ssa.Instruction); ok {
			v.GuardPos = append(v.GuardPos, p.Rel(in.Pos()))
		}
	}
	if os.Getenv("ONTOCHECK_DEBUG") != "" {
		fmt.Fprintf(os.Stderr, "DEBUG Guarded %s: guards=%v actions=%d\n", FuncName(fn), v.GuardPos, len(actions))
	}
	if len(actions) == 0 {
		return v
	}
	for _, as := range assumptions(insts) {
		for k, val := range extra {
			as[k] = val
		}
		q := &Query{Fn: fn, Assume: as, NonEmptyRange: nonEmptyRange, Opaque: opaqueFor(insts, actions)}
		r := q.Run()
		for _, a := range actions {
			if sts := r.StatesAt(a); len(sts) > 0 {
				v.Holds = false
				v.Action = a
				v.Witness = r.Witness(p, sts[0])
				return v
			}
		}
	}
	return v
}

// GuardedReturns decides: with every instance of the given guards failing, no return of fn whose results may satisfy
// spec is reachable (results are evaluated in the state that reaches the return, so `return ok, nil` with ok the
// failed guard's own value is not a success). ActionSites counts the returns that are not failures by their constants.
func GuardedReturns(p *Prog, fn *ssa.Function, guards []*Guard, spec RetSpec, nonEmptyRange bool) GuardVerdict {
	insts := findGuards(fn, guards)
	v := GuardVerdict{Holds: true, GuardSites: len(insts)}
	for _, gi := range insts {
		if gi.call != nil {
			v.GuardPos = append(v.GuardPos, p.Rel(gi.call.Pos()))
		} else if in, ok := gi.value.(ssa.Instruction); ok {
			v.GuardPos = append(v.GuardPos, p.Rel(in.Pos()))
		}
	}
	for _, ret := range Returns(fn) {
		fails := false
		for i, w := range spec.Want {
			if w.K == KUnknown || i >= len(ret.Results) {
				continue
			}
			if k, isC := ret.Results[i].(*ssa.Const); isC {
				a := AUnknown
				if k.Value == nil {
					if isNillable(k.Type()) {
						a = ANil
					}
				} else {
					a = Abs{K: KConst, C: k.Value}
				}
				if a.Contradicts(w) || (w.K == KNil && a.K == KNonNil) {
					fails = true
				}
			}
		}
		if !fails {
			v.ActionSites++
		}
	}
	if os.Getenv("ONTOCHECK_DEBUG") != "" {
		fmt.Fprintf(os.Stderr, "DEBUG GuardedReturns %s: guards=%v returns=%d\n", FuncName(fn), v.GuardPos, v.ActionSites)
	}
	if v.ActionSites == 0 {
		return v
	}
	for _, as := range assumptions(insts) {
		q := &Query{Fn: fn, Assume: as, NonEmptyRange: nonEmptyRange, Opaque: opaqueFor(insts, nil)}
		r, rets, sts := SuccessReturnsReachable(q, spec)
		if len(rets) > 0 {
			v.Holds = false
			v.Action = rets[0]
			v.Witness = r.Witness(p, sts[0])
			return v
		}
	}
	return v
}

// GuardBlocks returns the blocks that contain an instance of the guards.
func GuardBlocks(fn *ssa.Function, guards []*Guard) map[*ssa.BasicBlock]bool {
	out := map[*ssa.BasicBlock]bool{}
	for _, gi := range findGuards(fn, guards) {
		if gi.call != nil {
			out[gi.call.Block()] = true
		} else if in, ok := gi.value.(ssa.Instruction); ok {
			out[in.Block()] = true
		}
	}
	return out
}

// FindValues lists the SSA values in fn selected by match.
func FindValues(fn *ssa.Function, match func(ssa.Value) bool) []ssa.Value {
	var out []ssa.Value
	for _, b := range fn.Blocks {
		for _, in := range b.Instrs {
			if v, ok := in.(ssa.Value); ok && match(v) {
				out = append(out, v)
			}
		}
	}
	return out
}

// actionsIn lists the instructions selected by isAction in fn and in the functions a query on fn may enter.
func actionsIn(fn *ssa.Function, guards []*Guard, isAction func(ssa.Instruction) bool) []ssa.Instruction {
	var actions []ssa.Instruction
	for _, g := range guardReach(fn, guards) {
		for _, b := range g.Blocks {
			for _, in := range b.Instrs {
				// the returns of an entered helper are not returns of fn
				if _, isRet := in.(*ssa.Return); isRet && g != fn {
					continue
				}
				if isAction(in) {
					actions = append(actions, in)
				}
			}
		}
	}
	return actions
}

// opaqueFor: guard calls and action calls are decided at their call site and are not entered.
func opaqueFor(insts []guardInstance, actions []ssa.Instruction) func(ssa.CallInstruction) bool {
	set := map[ssa.Instruction]bool{}
	for _, gi := range insts {
		if gi.call != nil {
			set[gi.call] = true
		}
	}
	for _, a := range actions {
		set[a] = true
	}
	return func(c ssa.CallInstruction) bool { return set[c] }
}

// GuardInstrs lists the instructions of the guard instances in fn and in the functions a query on fn may enter.
func GuardInstrs(fn *ssa.Function, guards []*Guard) []ssa.Instruction {
	var out []ssa.Instruction
	for _, gi := range findGuards(fn, guards) {
		if gi.call != nil {
			out = append(out, gi.call)
		} else if in, ok := gi.value.(ssa.Instruction); ok {
			out = append(out, in)
		}
	}
	return out
}
