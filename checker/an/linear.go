package an

import (
	"fmt"
	"go/constant"
	"go/token"
	"go/types"
	"sort"
	"strings"

	"golang.org/x/tools/go/ssa"
)

// Linear conservation analysis (used by C11): along each acyclic CFG path
// through a record-update region the unsigned-integer fields of one record
// are evaluated as linear expressions over atomic symbols (the record's
// initial field values and every SSA value that is not itself a sum or
// difference). The analysis is a forward dataflow in the affine domain; no
// solver is involved and nothing is executed.

// Lin is a linear expression: sum of coeff*symbol plus a constant.
type Lin struct {
	C    int64
	Term map[string]int64
}

func LinConst(c int64) Lin { return Lin{C: c, Term: map[string]int64{}} }
func LinSym(s string) Lin  { return Lin{Term: map[string]int64{s: 1}} }

func (a Lin) Add(b Lin, sign int64) Lin {
	out := Lin{C: a.C + sign*b.C, Term: map[string]int64{}}
	for k, v := range a.Term {
		out.Term[k] = v
	}
	for k, v := range b.Term {
		out.Term[k] += sign * v
		if out.Term[k] == 0 {
			delete(out.Term, k)
		}
	}
	return out
}

func (a Lin) IsZero() bool { return a.C == 0 && len(a.Term) == 0 }

func (a Lin) String() string {
	var ks []string
	for k := range a.Term {
		ks = append(ks, k)
	}
	sort.Strings(ks)
	var sb strings.Builder
	for _, k := range ks {
		v := a.Term[k]
		switch {
		case v == 1:
			sb.WriteString(" +" + k)
		case v == -1:
			sb.WriteString(" -" + k)
		default:
			sb.WriteString(fmt.Sprintf(" %+d*%s", v, k))
		}
	}
	if a.C != 0 || sb.Len() == 0 {
		sb.WriteString(fmt.Sprintf(" %+d", a.C))
	}
	return strings.TrimSpace(sb.String())
}

// LinPath is the result of evaluating one path.
type LinPath struct {
	Blocks []*ssa.BasicBlock
	Env    map[int]Lin // field index -> value at the end instruction
	// Val evaluates an SSA value in the state at the end of the path.
	val map[ssa.Value]Lin
	ev  *linEval
}

type linEval struct {
	rec   ssa.Value
	val   map[ssa.Value]Lin
	env   map[int]Lin
	pred  map[*ssa.BasicBlock]*ssa.BasicBlock
	onPth map[*ssa.BasicBlock]bool
	bad   string
}

// symName names an atomic symbol. A load of a struct field is named
// "<Type>.<Field>@<object>" so that tables can refer to it by type and field
// while two different objects of the same type stay different symbols.
func symName(v ssa.Value) string {
	x := v
	if cv, ok := x.(*ssa.Convert); ok {
		x = cv.X
	}
	if u, ok := x.(*ssa.UnOp); ok && u.Op == token.MUL {
		if fa, isFA := u.X.(*ssa.FieldAddr); isFA {
			if pt, isP := fa.X.Type().Underlying().(*types.Pointer); isP {
				if nm, isN := pt.Elem().(*types.Named); isN {
					if st, isS := nm.Underlying().(*types.Struct); isS {
						return nm.Obj().Name() + "." + st.Field(fa.Field).Name() + "@" + fa.X.Name()
					}
				}
			}
		}
	}
	ap := AccessPath(v)
	if ap != "" && !strings.HasPrefix(ap, "%") && !strings.Contains(ap, "[%") {
		return ap
	}
	return "%" + v.Name() + "@" + v.Parent().Name()
}

// SymBase strips the "@object" suffix of a symbol name.
func SymBase(s string) string {
	if i := strings.IndexByte(s, '@'); i >= 0 {
		return s[:i]
	}
	return s
}

func isUintLike(t types.Type) bool {
	b, ok := t.Underlying().(*types.Basic)
	return ok && b.Info()&types.IsInteger != 0
}

func intSize(t types.Type) int {
	b, ok := t.Underlying().(*types.Basic)
	if !ok {
		return 0
	}
	switch b.Kind() {
	case types.Uint8, types.Int8:
		return 8
	case types.Uint16, types.Int16:
		return 16
	case types.Uint32, types.Int32:
		return 32
	}
	return 64
}

func (e *linEval) fieldIndexOfAddr(a ssa.Value) (int, bool) {
	fa, ok := a.(*ssa.FieldAddr)
	if !ok || fa.X != e.rec {
		return 0, false
	}
	return fa.Field, true
}

func (e *linEval) expr(v ssa.Value) Lin {
	if l, ok := e.val[v]; ok {
		return l
	}
	switch x := v.(type) {
	case *ssa.Const:
		if x.Value != nil && x.Value.Kind() == constant.Int {
			if i, ok := constant.Int64Val(x.Value); ok {
				return LinConst(i)
			}
		}
		if x.Value == nil && isUintLike(x.Type()) {
			return LinConst(0)
		}
	}
	return LinSym(symName(v))
}

// step evaluates one instruction.
func (e *linEval) step(in ssa.Instruction, blk *ssa.BasicBlock) {
	switch x := in.(type) {
	case *ssa.Phi:
		if p := e.pred[blk]; p != nil {
			for i, q := range blk.Preds {
				if q == p {
					e.val[x] = e.expr(x.Edges[i])
					return
				}
			}
		}
	case *ssa.UnOp:
		if x.Op == token.MUL {
			if f, ok := e.fieldIndexOfAddr(x.X); ok {
				if l, has := e.env[f]; has {
					e.val[x] = l
				}
			}
		}
	case *ssa.BinOp:
		if !isUintLike(x.Type()) {
			return
		}
		switch x.Op {
		case token.ADD:
			e.val[x] = e.expr(x.X).Add(e.expr(x.Y), 1)
		case token.SUB:
			e.val[x] = e.expr(x.X).Add(e.expr(x.Y), -1)
		}
	case *ssa.Convert:
		if isUintLike(x.Type()) && isUintLike(x.X.Type()) && intSize(x.Type()) >= intSize(x.X.Type()) {
			e.val[x] = e.expr(x.X)
		}
	case *ssa.ChangeType:
		if isUintLike(x.Type()) {
			e.val[x] = e.expr(x.X)
		}
	case *ssa.Store:
		if f, ok := e.fieldIndexOfAddr(x.Addr); ok {
			e.env[f] = e.expr(x.Val)
		} else if x.Addr == e.rec {
			e.bad = "the whole record is overwritten"
		}
	}
}

// LinRegion describes one record-update region.
type LinRegion struct {
	Fn     *ssa.Function
	Rec    ssa.Value       // pointer to the record (Alloc or a call result)
	Start  ssa.Instruction // where the record's fields take their initial values
	Zero   bool            // initial field values are zero (fresh composite literal)
	End    ssa.Instruction // where the record is persisted
	Fields []int           // tracked field indexes
	Names  map[int]string
}

// Paths enumerates the acyclic paths from Start through End (continuing to
// the back edge of the innermost loop containing End, so that loop-carried
// accumulators can be evaluated) and evaluates each. tooMany reports that the
// path cap was hit.
func (rg *LinRegion) Paths(capPaths int) (out []*LinPath, tooMany bool, bad string) {
	fn := rg.Fn
	sb, eb := rg.Start.Block(), rg.End.Block()
	// innermost loop containing the end block
	var loopHdr *ssa.BasicBlock
	var loop map[*ssa.BasicBlock]bool
	for _, be := range BackEdges(fn) {
		body := LoopBlocks(be[0], be[1])
		if body[eb] && (loop == nil || len(body) < len(loop)) {
			loop, loopHdr = body, be[1]
		}
	}
	var cur []*ssa.BasicBlock
	on := map[*ssa.BasicBlock]bool{}
	var walk func(b *ssa.BasicBlock, passedEnd bool)
	walk = func(b *ssa.BasicBlock, passedEnd bool) {
		if tooMany {
			return
		}
		cur = append(cur, b)
		on[b] = true
		defer func() { cur = cur[:len(cur)-1]; on[b] = false }()
		if b == eb {
			passedEnd = true
		}
		done := false
		if passedEnd {
			if loopHdr == nil {
				done = b == eb
			} else {
				for _, s := range b.Succs {
					if s == loopHdr {
						done = true
					}
				}
			}
		}
		if done {
			if len(out) >= capPaths {
				tooMany = true
				return
			}
			p := append([]*ssa.BasicBlock(nil), cur...)
			out = append(out, &LinPath{Blocks: p})
			return
		}
		for _, s := range b.Succs {
			if on[s] {
				continue
			}
			if loop != nil && !loop[s] {
				continue // leaves the loop (error exit / break)
			}
			if s == loopHdr {
				continue
			}
			walk(s, passedEnd)
		}
	}
	walk(sb, false)
	// evaluate
	for _, p := range out {
		e := &linEval{rec: rg.Rec, val: map[ssa.Value]Lin{}, env: map[int]Lin{}, pred: map[*ssa.BasicBlock]*ssa.BasicBlock{}, onPth: map[*ssa.BasicBlock]bool{}}
		for _, f := range rg.Fields {
			if rg.Zero {
				e.env[f] = LinConst(0)
			} else {
				e.env[f] = LinSym(rg.Names[f] + "0")
			}
		}
		for i, b := range p.Blocks {
			if i > 0 {
				e.pred[b] = p.Blocks[i-1]
			}
		}
		started, ended := false, false
		for _, b := range p.Blocks {
			for _, in := range b.Instrs {
				if !started {
					if in == rg.Start {
						started = true
					}
					if !(rg.Zero && started) {
						continue
					}
				}
				if in == rg.End {
					ended = true
					p.Env = map[int]Lin{}
					for k, v := range e.env {
						p.Env[k] = v
					}
					continue
				}
				if !ended {
					// other calls that receive the record may mutate it
					if k, isCall := in.(ssa.CallInstruction); isCall && in != rg.Start {
						for _, a := range k.Common().Args {
							if a == rg.Rec {
								e.bad = "the record is passed to " + callName(in) + " between load and store"
							}
						}
					}
				}
				e.step(in, b)
			}
		}
		if e.bad != "" {
			bad = e.bad
		}
		p.val, p.ev = e.val, e
	}
	return out, tooMany, bad
}

// Val evaluates v in the state at the end of the path.
func (p *LinPath) Val(v ssa.Value) Lin { return p.ev.expr(v) }

// Has reports whether the instruction lies on the path.
func (p *LinPath) Has(in ssa.Instruction) bool {
	for _, b := range p.Blocks {
		if b == in.Block() {
			return true
		}
	}
	return false
}

// LatchValue returns the value a header phi receives from the path's last
// block (the loop's back edge), or nil.
func (p *LinPath) LatchValue(ph *ssa.Phi) ssa.Value {
	last := p.Blocks[len(p.Blocks)-1]
	for i, q := range ph.Block().Preds {
		if q == last {
			return ph.Edges[i]
		}
	}
	return nil
}
