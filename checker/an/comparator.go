package an

import (
	"fmt"
	"go/token"
	"go/types"
	"sort"
	"strings"

	"golang.org/x/tools/go/ssa"
)

// Comparator totality (part of A1): collect-then-sort makes a loop over a map
// order-independent only if the comparator separates every two distinct
// collected elements; where it ties, the sorted slice keeps (stable sort) or
// scrambles (unstable sort) the map's iteration order.
//
// Recognised as total: sorting basic values (equal elements are
// interchangeable), and comparators that compare, among other things, the same
// plain projection (field chain, argument-free method calls, conversions) of
// the two elements where that projection is unique per map entry: it is the
// element itself, a field the loop fills from the range key, or a field listed
// in the UniqueFields table (data invariants confirmed by reading).

// ComparatorVerdict describes the comparator of one sorter call.
type ComparatorVerdict struct {
	Total       bool
	Projections []string // compared projections, e.g. ".Stake", ".PeerPubkey"
	Why         string
}

// projection renders v as a projection of slice element idx (param i or j):
// returns the path and which index parameter it projects.
func projection(v ssa.Value, isSlice func(ssa.Value) bool, depth int) (path string, idx ssa.Value, ok bool) {
	if depth > 8 {
		return "", nil, false
	}
	// inside a named comparator less(a, b) the parameters are the two elements themselves
	if elemRoot != nil {
		if m := elemRoot(v); m != nil {
			return "", m, true
		}
	}
	switch x := v.(type) {
	case *ssa.UnOp:
		if x.Op != token.MUL {
			return "", nil, false
		}
		switch a := x.X.(type) {
		case *ssa.IndexAddr:
			if isSlice(a.X) {
				return "", a.Index, true
			}
		case *ssa.FieldAddr:
			p, i, ok := projection(a.X, isSlice, depth+1)
			if ok {
				return p + "." + fieldName(a.X.Type(), a.Field), i, true
			}
			// field of the element struct stored in the slice: &s[i].F
			if ia, isIA := a.X.(*ssa.IndexAddr); isIA && isSlice(ia.X) {
				return "." + fieldName(a.X.Type(), a.Field), ia.Index, true
			}
		}
	case *ssa.FieldAddr:
		// address of a field of the element (receiver of a pointer method)
		p, i, ok := projection(x.X, isSlice, depth+1)
		if ok {
			return p + "." + fieldName(x.X.Type(), x.Field), i, true
		}
	case *ssa.Field:
		p, i, ok := projection(x.X, isSlice, depth+1)
		if ok {
			return p + "." + fieldName(x.X.Type(), x.Field), i, true
		}
	case *ssa.Convert:
		return projection(x.X, isSlice, depth+1)
	case *ssa.ChangeType:
		return projection(x.X, isSlice, depth+1)
	case *ssa.Call:
		// argument-free method call on a projection
		if callee := x.Call.StaticCallee(); callee != nil && callee.Signature.Recv() != nil && len(x.Call.Args) == 1 {
			p, i, ok := projection(x.Call.Args[0], isSlice, depth+1)
			if ok {
				return p + "." + callee.Name() + "()", i, true
			}
		}
	case *ssa.Slice:
		if x.Low == nil && x.High == nil {
			return projection(x.X, isSlice, depth+1)
		}
	}
	return "", nil, false
}

// elemRoot, when set, maps a value that *is* one of the two compared elements (a parameter of a named comparator)
// to the index parameter it stands for.
var elemRoot func(ssa.Value) ssa.Value

// lessFunction resolves the comparator of a sorter call: the function, and a
// predicate recognising the sorted slice inside it.
func lessFunction(call *ssa.Call) (*ssa.Function, func(ssa.Value) bool, types.Type) {
	callee := call.Call.StaticCallee()
	if callee == nil {
		return nil, nil, nil
	}
	unwrap := func(v ssa.Value) ssa.Value {
		for {
			switch x := v.(type) {
			case *ssa.MakeInterface:
				v = x.X
			case *ssa.ChangeType:
				v = x.X
			default:
				return v
			}
		}
	}
	switch callee.String() {
	case "sort.Slice", "sort.SliceStable":
		if len(call.Call.Args) < 2 {
			return nil, nil, nil
		}
		sl := unwrap(call.Call.Args[0])
		var fn *ssa.Function
		var bindings []ssa.Value
		switch f := call.Call.Args[1].(type) {
		case *ssa.MakeClosure:
			fn = f.Fn.(*ssa.Function)
			bindings = f.Bindings
		case *ssa.Function:
			fn = f
		}
		if fn == nil {
			return nil, nil, nil
		}
		// the slice inside the closure: a free variable bound to the same
		// variable (alloc) or value
		var root ssa.Value = sl
		if u, ok := sl.(*ssa.UnOp); ok && u.Op == token.MUL {
			root = u.X
		}
		isSlice := func(v ssa.Value) bool {
			if u, ok := v.(*ssa.UnOp); ok && u.Op == token.MUL {
				v = u.X
			}
			fv, ok := v.(*ssa.FreeVar)
			if !ok {
				return false
			}
			for i, f := range fn.FreeVars {
				if f == fv && i < len(bindings) && (bindings[i] == root || bindings[i] == sl) {
					return true
				}
			}
			return false
		}
		return fn, isSlice, sl.Type()
	case "sort.Sort", "sort.Stable":
		if len(call.Call.Args) < 1 {
			return nil, nil, nil
		}
		x := call.Call.Args[0]
		mi, ok := x.(*ssa.MakeInterface)
		if !ok {
			return nil, nil, nil
		}
		t := mi.X.Type()
		prog := call.Parent().Prog
		ms := prog.MethodSets.MethodSet(t)
		sel := ms.Lookup(nil, "Less")
		if sel == nil {
			for i := 0; i < ms.Len(); i++ {
				if ms.At(i).Obj().Name() == "Less" {
					sel = ms.At(i)
				}
			}
		}
		if sel == nil {
			return nil, nil, nil
		}
		fn := prog.MethodValue(sel)
		if fn == nil || len(fn.Params) < 3 {
			return nil, nil, nil
		}
		recv := fn.Params[0]
		isSlice := func(v ssa.Value) bool { return v == ssa.Value(recv) }
		return fn, isSlice, t
	}
	return nil, nil, nil
}

// CheckComparator analyses the comparator of a sorter call. uniqueProj says
// whether a projection path (of the given element type) is unique per entry.
func CheckComparator(call *ssa.Call, uniqueProj func(elem types.Type, path string) bool) ComparatorVerdict {
	callee := call.Call.StaticCallee()
	if callee == nil {
		return ComparatorVerdict{Why: "dynamic sorter"}
	}
	switch callee.String() {
	case "sort.Strings", "sort.Ints", "sort.Float64s":
		return ComparatorVerdict{Total: true, Why: "sorts basic values: equal elements are interchangeable"}
	}
	if strings.HasPrefix(callee.String(), "slices.Sort") && !strings.Contains(callee.String(), "Func") {
		return ComparatorVerdict{Total: true, Why: "sorts ordered basic values"}
	}
	fn, isSlice, slT := lessFunction(call)
	if fn == nil || fn.Blocks == nil {
		return ComparatorVerdict{Why: "comparator is not a function literal or Less method that can be resolved"}
	}
	var elem types.Type
	if st, ok := slT.Underlying().(*types.Slice); ok {
		elem = st.Elem()
	}
	if elem == nil {
		return ComparatorVerdict{Why: "sorted value is not a slice"}
	}
	pi, pj := fn.Params[len(fn.Params)-2], fn.Params[len(fn.Params)-1]
	// a comparator that only forwards to a named function, less(s[i], s[j]): judge that function, with its two
	// parameters standing for the elements
	elemRoot = nil
	defer func() { elemRoot = nil }()
	if h, a, b := forwardedComparator(fn, isSlice, pi, pj); h != nil {
		fn = h
		elemRoot = func(v ssa.Value) ssa.Value {
			switch v {
			case ssa.Value(a):
				return pi
			case ssa.Value(b):
				return pj
			}
			return nil
		}
	}
	set := map[string]bool{}
	opaque := 0
	record := func(a, b ssa.Value) {
		p1, i1, ok1 := projection(a, isSlice, 0)
		p2, i2, ok2 := projection(b, isSlice, 0)
		if ok1 && ok2 && p1 == p2 && (i1 == ssa.Value(pi) && i2 == ssa.Value(pj) || i1 == ssa.Value(pj) && i2 == ssa.Value(pi)) {
			set[p1] = true
			return
		}
		opaque++
	}
	for _, b := range fn.Blocks {
		for _, in := range b.Instrs {
			switch x := in.(type) {
			case *ssa.BinOp:
				switch x.Op {
				case token.LSS, token.GTR, token.LEQ, token.GEQ, token.EQL, token.NEQ:
					if k, isK := x.Y.(*ssa.Const); isK && k.Value != nil {
						// result of a three-way compare against 0 — handled at the call
						if _, isCall := x.X.(*ssa.Call); isCall {
							continue
						}
					}
					record(x.X, x.Y)
				}
			case *ssa.Call:
				if c := x.Call.StaticCallee(); c != nil {
					switch c.String() {
					case "bytes.Compare", "strings.Compare", "bytes.Equal":
						record(x.Call.Args[0], x.Call.Args[1])
					}
				}
			}
		}
	}
	var ps []string
	for k := range set {
		ps = append(ps, k)
	}
	sort.Strings(ps)
	v := ComparatorVerdict{Projections: ps}
	for _, pth := range ps {
		if pth == "" {
			if _, isB := elem.Underlying().(*types.Basic); isB {
				v.Total, v.Why = true, "compares the basic elements themselves"
				return v
			}
		}
		if uniqueProj(elem, pth) {
			v.Total, v.Why = true, "compares "+pth+", which is unique per entry"
			return v
		}
	}
	v.Why = fmt.Sprintf("the comparator compares {%s} (+%d comparisons of computed values); none of these is known to differ for every two distinct entries, so tied entries stay in map order", strings.Join(ps, ","), opaque)
	return v
}

// forwardedComparator: the closure's result is the result of its only call to a function with a body, whose
// arguments are the elements s[i] and s[j] (in either order); returns that function and its parameters for i and j.
func forwardedComparator(fn *ssa.Function, isSlice func(ssa.Value) bool, pi, pj *ssa.Parameter) (*ssa.Function, *ssa.Parameter, *ssa.Parameter) {
	var only *ssa.Call
	for _, k := range Calls(fn) {
		c, ok := k.(*ssa.Call)
		if !ok {
			continue
		}
		if _, isB := c.Call.Value.(*ssa.Builtin); isB {
			continue
		}
		if only != nil {
			return nil, nil, nil
		}
		only = c
	}
	if only == nil {
		return nil, nil, nil
	}
	h := only.Call.StaticCallee()
	if h == nil || h.Blocks == nil || h.Signature.Recv() != nil || len(h.Params) != 2 || len(only.Call.Args) != 2 {
		return nil, nil, nil
	}
	for _, r := range Returns(fn) {
		if len(r.Results) != 1 || r.Results[0] != ssa.Value(only) {
			return nil, nil, nil
		}
	}
	var pa, pb *ssa.Parameter
	for n, arg := range only.Call.Args {
		path, idx, ok := projection(arg, isSlice, 0)
		if !ok || path != "" {
			// the address of the element is as good as the element
			if ia, isIA := arg.(*ssa.IndexAddr); isIA && isSlice(ia.X) {
				idx, ok = ia.Index, true
			} else {
				return nil, nil, nil
			}
		}
		switch idx {
		case ssa.Value(pi):
			pa = h.Params[n]
		case ssa.Value(pj):
			pb = h.Params[n]
		}
	}
	if pa == nil || pb == nil {
		return nil, nil, nil
	}
	return h, pa, pb
}

// ComparatorBody resolves the function that holds the comparisons of a sorter call - the comparator closure, its
// Less method, or the named function the closure forwards to - and predicates that say whether a value is (a
// projection of) the first or the second compared element.
func ComparatorBody(call *ssa.Call) (fn *ssa.Function, ofI, ofJ func(v ssa.Value) bool) {
	cl, isSlice, _ := lessFunction(call)
	if cl == nil || cl.Blocks == nil || len(cl.Params) < 2 {
		return nil, nil, nil
	}
	pi, pj := cl.Params[len(cl.Params)-2], cl.Params[len(cl.Params)-1]
	fn = cl
	var root func(ssa.Value) ssa.Value
	if h, a, b := forwardedComparator(cl, isSlice, pi, pj); h != nil {
		fn = h
		root = func(v ssa.Value) ssa.Value {
			switch v {
			case ssa.Value(a):
				return pi
			case ssa.Value(b):
				return pj
			}
			return nil
		}
	}
	of := func(want *ssa.Parameter) func(ssa.Value) bool {
		return func(v ssa.Value) bool {
			saved := elemRoot
			elemRoot = root
			defer func() { elemRoot = saved }()
			_, idx, ok := projection(v, isSlice, 0)
			return ok && idx == ssa.Value(want)
		}
	}
	return fn, of(pi), of(pj)
}
