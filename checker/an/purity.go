package an

import (
	"go/token"
	"go/types"
	"strings"

	"golang.org/x/tools/go/ssa"
)

// EffectSummary classifies functions for the order analysis: "pure" (no
// effect that outlives the call except on objects it allocates), "keyed"
// (effects addressed by its arguments: storage put/delete, field writes on
// the passed object — commutative across distinct elements), "ordered"
// (appends to a sequence: serialization sinks, hashers, notifications,
// writers), "" unknown.
type EffectSummary struct {
	P *Prog
	// Ordered / Keyed name functions (ssa String() form) or prefixes ending in '*'.
	Ordered []string
	Keyed   []string
	Pure    []string
	memo    map[*ssa.Function]string
	// ordParams[fn]: when fn is "ordered" and every ordered effect lands on
	// objects passed in through these parameter positions (0 = receiver);
	// absent = the function has an ordered effect on something else.
	ordParams map[*ssa.Function]map[int]bool
}

var stdPurePkgs = []string{"strings", "strconv", "math", "math/big", "math/bits", "sort", "encoding/hex", "encoding/binary", "crypto/sha256", "crypto/sha512",
	"errors", "unicode", "unicode/utf8", "bytes", "reflect", "golang.org/x/crypto/ripemd160", "hash", "sync", "sync/atomic", "time", "runtime", "internal", "slices", "maps", "container/list",
	"github.com/ontio/ontology-crypto", "github.com/ethereum/go-ethereum/common", "github.com/ethereum/go-ethereum/crypto", "github.com/ethereum/go-ethereum/rlp", "github.com/holiman/uint256",
	"encoding/json", "encoding/base64", "regexp", "github.com/itchyny/base58-go", "crypto", "github.com/ethereum/go-ethereum/core/types", "github.com/ethereum/go-ethereum/params"}

func matchName(list []string, name string) bool {
	for _, s := range list {
		if strings.HasSuffix(s, "*") {
			if strings.HasPrefix(name, strings.TrimSuffix(s, "*")) {
				return true
			}
		} else if s == name {
			return true
		}
	}
	return false
}

// Class returns the effect class of fn.
func (e *EffectSummary) Class(fn *ssa.Function) string {
	if e.memo == nil {
		e.memo = map[*ssa.Function]string{}
	}
	return e.class(fn, 0)
}

func (e *EffectSummary) class(fn *ssa.Function, depth int) string {
	if fn == nil {
		return ""
	}
	if c, ok := e.memo[fn]; ok {
		return c
	}
	name := fn.String()
	switch {
	case matchName(e.Ordered, name):
		e.memo[fn] = "ordered"
		if fn.Signature.Recv() != nil {
			e.setOrdParams(fn, map[int]bool{0: true})
		}
		return "ordered"
	case matchName(e.Keyed, name):
		e.memo[fn] = "keyed"
		return "keyed"
	case matchName(e.Pure, name):
		e.memo[fn] = "pure"
		return "pure"
	}
	pk := FuncPkgPath(fn)
	if cut, _ := IsCut(fn); cut {
		e.memo[fn] = "pure"
		return "pure"
	}
	if pk == "fmt" {
		c := "pure"
		if strings.HasPrefix(fn.Name(), "Fprint") || strings.HasPrefix(fn.Name(), "Print") {
			c = "ordered"
		}
		e.memo[fn] = c
		return c
	}
	for _, s := range stdPurePkgs {
		if pk == s || strings.HasPrefix(pk, s+"/") {
			e.memo[fn] = "pure"
			return "pure"
		}
	}
	if fn.Blocks == nil || depth > 12 {
		return ""
	}
	e.memo[fn] = "pure" // optimistic for recursion
	res := "pure"
	global := false         // an ordered effect on something that is not a parameter
	mine := map[int]bool{} // parameters of fn whose objects receive ordered effects
	// sinkArg: the ordered effect on object v is visible to fn's callers
	// (records through which parameter, or sets global).
	sinkArg := func(v ssa.Value) bool {
		kind, idx, _ := ObjOrigin(v, 0)
		switch kind {
		case "fresh":
			return false
		case "param":
			mine[idx] = true
			return true
		}
		global = true
		return true
	}
	worse := func(c string) {
		switch c {
		case "":
			res = ""
		case "ordered":
			if res != "" {
				res = "ordered"
			}
		case "keyed":
			if res == "pure" {
				res = "keyed"
			}
		}
	}
	for _, b := range fn.Blocks {
		for _, in := range b.Instrs {
			if res == "" {
				break
			}
			switch x := in.(type) {
			case *ssa.Store:
				if !localAddr(x.Addr) {
					if isAppendTo(x.Val, x.Addr) {
						worse("ordered") // grows a sequence that outlives the call
						sinkArg(x.Addr)
					} else {
						worse("keyed")
					}
				}
			case *ssa.MapUpdate:
				if !localValue(x.Map) {
					worse("keyed")
				}
			case *ssa.Send, *ssa.Go:
				worse("")
			case ssa.CallInstruction:
				cc := x.Common()
				if _, isB := cc.Value.(*ssa.Builtin); isB {
					continue
				}
				if cc.IsInvoke() {
					cl := e.invoke(cc.Method)
					if cl == "ordered" {
						if !sinkArg(cc.Value) {
							continue
						}
					}
					worse(cl)
					continue
				}
				if callee := cc.StaticCallee(); callee != nil {
					cl := e.class(callee, depth+1)
					if cl == "ordered" {
						if ps, ok := e.ordParams[callee]; ok {
							hit := false
							for i := range ps {
								if i < len(cc.Args) && sinkArg(cc.Args[i]) {
									hit = true
								}
							}
							if !hit {
								// appends only to sinks this function created
								// itself: nothing outlives the call except its result
								continue
							}
						} else {
							global = true
						}
					}
					worse(cl)
					continue
				}
				// dynamic call through a function value: unknown
				worse("")
			}
		}
	}
	e.memo[fn] = res
	if res == "ordered" && !global {
		e.setOrdParams(fn, mine)
	}
	return res
}

func (e *EffectSummary) setOrdParams(fn *ssa.Function, ps map[int]bool) {
	if e.ordParams == nil {
		e.ordParams = map[*ssa.Function]map[int]bool{}
	}
	e.ordParams[fn] = ps
}

// OrderedArgs returns the argument values of a static call on which the
// callee has its ordered effects, and ok=false when the callee (also) has an
// ordered effect on something that is not an argument.
func (e *EffectSummary) OrderedArgs(call ssa.CallInstruction) ([]ssa.Value, bool) {
	cc := call.Common()
	if cc.IsInvoke() {
		return []ssa.Value{cc.Value}, true
	}
	callee := cc.StaticCallee()
	if callee == nil {
		return nil, false
	}
	e.Class(callee)
	ps, ok := e.ordParams[callee]
	if !ok {
		return nil, false
	}
	var out []ssa.Value
	for i := range ps {
		if i < len(cc.Args) {
			out = append(out, cc.Args[i])
		}
	}
	return out, true
}

// ObjOrigin says where the object v refers to comes from: "fresh" (created in
// this function: allocations and constructor results into which no foreign
// reference was stored; creators lists the creating instructions), "param"
// (reached from parameter idx, receiver = 0), or "" unknown.
func ObjOrigin(v ssa.Value, depth int) (kind string, idx int, creators []ssa.Instruction) {
	if depth > 8 {
		return "", 0, nil
	}
	merge := func(k1 string, i1 int, c1 []ssa.Instruction, k2 string, i2 int, c2 []ssa.Instruction) (string, int, []ssa.Instruction) {
		switch {
		case k1 == "" || k2 == "":
			return "", 0, nil
		case k1 == "fresh" && k2 == "fresh":
			return "fresh", 0, append(c1, c2...)
		case k1 == "param" && k2 == "param":
			if i1 == i2 {
				return "param", i1, nil
			}
			return "", 0, nil
		case k1 == "param":
			return "param", i1, nil
		default:
			return "param", i2, nil
		}
	}
	switch x := v.(type) {
	case *ssa.Parameter:
		for i, p := range x.Parent().Params {
			if p == x {
				return "param", i, nil
			}
		}
		return "", 0, nil
	case *ssa.Const:
		return "fresh", 0, nil
	case *ssa.MakeSlice, *ssa.MakeMap:
		return "fresh", 0, []ssa.Instruction{x.(ssa.Instruction)}
	case *ssa.Alloc:
		k, i, c := "fresh", 0, []ssa.Instruction{x}
		// references stored into the allocation make it an alias holder
		var scan func(addr ssa.Value, d int)
		scan = func(addr ssa.Value, d int) {
			if d > 3 || addr.Referrers() == nil {
				return
			}
			for _, r := range *addr.Referrers() {
				switch y := r.(type) {
				case *ssa.Store:
					if y.Addr == addr && refLike(y.Val.Type()) {
						k2, i2, c2 := ObjOrigin(y.Val, depth+1)
						k, i, c = merge(k, i, c, k2, i2, c2)
					}
				case *ssa.FieldAddr:
					scan(y, d+1)
				case *ssa.IndexAddr:
					scan(y, d+1)
				}
			}
		}
		scan(x, 0)
		return k, i, c
	case *ssa.Call:
		if callee := x.Call.StaticCallee(); callee != nil && freshCtors[callee.String()] {
			return "fresh", 0, []ssa.Instruction{x}
		}
		// fluent style: the callee returns one of its parameters
		if callee := x.Call.StaticCallee(); callee != nil {
			if i := returnsParam(callee, 0); i >= 0 && i < len(x.Call.Args) {
				return ObjOrigin(x.Call.Args[i], depth+1)
			}
		}
		return "", 0, nil
	case *ssa.UnOp:
		if x.Op == token.MUL {
			return ObjOrigin(x.X, depth+1)
		}
		return "", 0, nil
	case *ssa.FieldAddr:
		return ObjOrigin(x.X, depth+1)
	case *ssa.Field:
		return ObjOrigin(x.X, depth+1)
	case *ssa.IndexAddr:
		return ObjOrigin(x.X, depth+1)
	case *ssa.MakeInterface:
		return ObjOrigin(x.X, depth+1)
	case *ssa.ChangeType:
		return ObjOrigin(x.X, depth+1)
	case *ssa.ChangeInterface:
		return ObjOrigin(x.X, depth+1)
	case *ssa.Slice:
		return ObjOrigin(x.X, depth+1)
	case *ssa.Phi:
		k, i, c := "fresh", 0, []ssa.Instruction(nil)
		for _, e := range x.Edges {
			if e == v {
				continue
			}
			k2, i2, c2 := ObjOrigin(e, depth+1)
			k, i, c = merge(k, i, c, k2, i2, c2)
		}
		return k, i, c
	}
	return "", 0, nil
}

// returnsParam: every return of fn yields (as its only result) the same
// parameter, directly or through calls that return their own parameter;
// -1 otherwise.
func returnsParam(fn *ssa.Function, depth int) int {
	if fn.Blocks == nil || depth > 4 || fn.Signature.Results().Len() != 1 {
		return -1
	}
	res := -2
	for _, r := range Returns(fn) {
		i := -1
		switch x := r.Results[0].(type) {
		case *ssa.Parameter:
			for k, p := range fn.Params {
				if p == x {
					i = k
				}
			}
		case *ssa.Call:
			if callee := x.Call.StaticCallee(); callee != nil {
				if j := returnsParam(callee, depth+1); j >= 0 && j < len(x.Call.Args) {
					if p, ok := x.Call.Args[j].(*ssa.Parameter); ok {
						for k, q := range fn.Params {
							if q == p {
								i = k
							}
						}
					}
				}
			}
		}
		if i < 0 || res != -2 && res != i {
			return -1
		}
		res = i
	}
	if res == -2 {
		return -1
	}
	return res
}

func refLike(t types.Type) bool {
	switch t.Underlying().(type) {
	case *types.Pointer, *types.Interface, *types.Slice, *types.Map, *types.Signature, *types.Chan:
		return true
	case *types.Struct:
		return true
	}
	return false
}

// InvokeClass classifies an interface method by name through the tables.
func (e *EffectSummary) invoke(m *types.Func) string {
	if m == nil {
		return ""
	}
	full := m.FullName()
	switch {
	case matchName(e.Ordered, full):
		return "ordered"
	case matchName(e.Keyed, full):
		return "keyed"
	case matchName(e.Pure, full):
		return "pure"
	}
	if m.Pkg() != nil {
		for _, s := range stdPurePkgs {
			if m.Pkg().Path() == s || strings.HasPrefix(m.Pkg().Path(), s+"/") {
				return "pure"
			}
		}
	}
	if m.Name() == "Error" || m.Name() == "String" {
		return "pure"
	}
	return ""
}

// Invoke is the exported form.
func (e *EffectSummary) Invoke(m *types.Func) string { return e.invoke(m) }

// freshCtors return a new object that nothing else refers to.
var freshCtors = map[string]bool{
	RepoMod + "/common.NewZeroCopySink": true, "crypto/sha256.New": true, "bytes.NewBuffer": true, "bytes.NewBufferString": true,
	"golang.org/x/crypto/ripemd160.New": true, "golang.org/x/crypto/sha3.NewLegacyKeccak256": true, "crypto/sha512.New": true,
	RepoMod + "/vm/neovm.NewParamsBuilder": true,
	// an in-memory copy of the merkle tree without a hash store (used to predict roots)
	"(*" + RepoMod + "/merkle.CompactMerkleTree).cloneMem": true,
}

// FreshObject: v is an object created in this function (an allocation or the
// result of a constructor in freshCtors); returns the creating instruction.
func FreshObject(v ssa.Value) ssa.Instruction {
	switch x := v.(type) {
	case *ssa.Alloc:
		return x
	case *ssa.Call:
		if callee := x.Call.StaticCallee(); callee != nil && freshCtors[callee.String()] {
			return x
		}
	}
	return nil
}

// localAddr: the address is (derived from) an allocation made in the same
// function.
func localAddr(a ssa.Value) bool {
	for i := 0; i < 10; i++ {
		switch x := a.(type) {
		case *ssa.Alloc:
			return true
		case *ssa.FieldAddr:
			a = x.X
		case *ssa.IndexAddr:
			a = x.X
		case *ssa.MakeSlice, *ssa.MakeMap:
			return true
		case *ssa.Slice:
			a = x.X
		case *ssa.Call:
			// result of a constructor-like call: treat as local object
			if bi, ok := x.Call.Value.(*ssa.Builtin); ok && bi.Name() == "append" {
				a = x.Call.Args[0]
				continue
			}
			return false
		case *ssa.Phi:
			for _, e := range x.Edges {
				if e != a && !localAddr(e) {
					return false
				}
			}
			return true
		default:
			return false
		}
	}
	return false
}

func localValue(v ssa.Value) bool {
	switch x := v.(type) {
	case *ssa.MakeMap, *ssa.MakeSlice, *ssa.Alloc:
		return true
	case *ssa.Phi:
		for _, e := range x.Edges {
			if e != v && !localValue(e) {
				return false
			}
		}
		return true
	}
	return false
}

// isAppendTo: v is append(load(addr'), ...) where addr' denotes the same
// location as addr.
func isAppendTo(v ssa.Value, addr ssa.Value) bool {
	call, ok := v.(*ssa.Call)
	if !ok {
		return false
	}
	bi, isB := call.Call.Value.(*ssa.Builtin)
	if !isB || bi.Name() != "append" {
		return false
	}
	u, isU := call.Call.Args[0].(*ssa.UnOp)
	if !isU {
		return false
	}
	return u.X == addr || AccessPath(u.X) == AccessPath(addr)
}

// IsSliceType reports whether t is a slice.
func IsSliceType(t types.Type) bool {
	_, ok := t.Underlying().(*types.Slice)
	return ok
}

// SortedBeforeUseValue: v (a slice in map order) is passed to a sorter, or to
// a function whose first use of that parameter is a sort, before any other
// use. Returns "" when fine.
func SortedBeforeUseValue(p *Prog, v ssa.Value, cfg *OrderCfg) string {
	return sortedValue(p, v, cfg, 0)
}

func sortedValue(p *Prog, v ssa.Value, cfg *OrderCfg, depth int) string {
	if v.Referrers() == nil {
		return ""
	}
	var sorter ssa.Instruction
	sorterIsHelper := false
	var others []ssa.Instruction
	var handoff []*ssa.Call
	for _, r := range *v.Referrers() {
		switch x := r.(type) {
		case *ssa.DebugRef, *ssa.MakeClosure:
		case *ssa.Store:
			// a parameter/value spilled into a local because a closure (the
			// comparator) captures it: judge the uses of that local
			if al, ok := x.Addr.(*ssa.Alloc); ok && x.Val == v {
				c, calls := allocSortedBeforeUse(p, al, func(in ssa.Instruction) bool { return in == ssa.Instruction(x) }, cfg)
				if c.Kind != "" {
					return c.Detail
				}
				if len(calls) == 0 {
					return "stored to a local that is never sorted (" + p.Rel(x.Pos()) + ")"
				}
				for _, k := range calls {
					if cv := CheckComparator(k, func(elem types.Type, path string) bool { return uniqueProjection(nil, cfg, elem, path) }); !cv.Total {
						return "sorted at " + p.Rel(k.Pos()) + ", but " + cv.Why
					}
				}
				continue
			}
			others = append(others, r)
		case *ssa.Call:
			if callee := x.Call.StaticCallee(); callee != nil {
				if cfg.IsSorter(callee) && len(x.Call.Args) > 0 && x.Call.Args[0] == v {
					if sorter == nil {
						sorter = x
					}
					continue
				}
				// a helper that sorts this very argument in place before using it in any other way is a sort of v
				// (sortPeers(peers)); its comparator is judged there
				if depth < 3 && callee.Blocks != nil {
					idx := -1
					for i, a := range x.Call.Args {
						if a == v {
							idx = i
						}
					}
					if idx >= 0 && idx < len(callee.Params) && sortsParamFirst(p, callee, idx, cfg, depth) {
						if sorter == nil {
							sorter, sorterIsHelper = x, true
						}
						continue
					}
				}
				handoff = append(handoff, x)
				continue
			}
			if bi, ok := x.Call.Value.(*ssa.Builtin); ok && (bi.Name() == "len" || bi.Name() == "cap") {
				continue
			}
			// copied into a fresh slice (copy(dst, v) / append(empty, v...)):
			// the copy carries the order; judge the copy instead
			if bi, ok := x.Call.Value.(*ssa.Builtin); ok && depth < 3 {
				var dst ssa.Value
				switch {
				case bi.Name() == "copy" && len(x.Call.Args) == 2 && x.Call.Args[1] == v:
					dst = x.Call.Args[0]
				case bi.Name() == "append" && len(x.Call.Args) == 2 && x.Call.Args[1] == v && isFreshOrEmpty(x.Call.Args[0]):
					dst = x
				}
				if dst != nil {
					if why := copiedSliceSorted(p, dst, x, cfg, depth+1); why != "" {
						return why
					}
					continue
				}
			}
			others = append(others, r)
		case *ssa.MakeInterface:
			// sort.Sort(byX(v)) style
			if s := sortedValue(p, x, cfg, depth); s == "" {
				continue
			}
			others = append(others, r)
		default:
			others = append(others, r)
		}
	}
	if sorter != nil {
		if k, ok := sorter.(*ssa.Call); ok && !sorterIsHelper {
			if v := CheckComparator(k, func(elem types.Type, path string) bool { return uniqueProjection(nil, cfg, elem, path) }); !v.Total {
				return "sorted at " + p.Rel(k.Pos()) + ", but " + v.Why
			}
		}
		for _, o := range append(others, callsToInstrs(handoff)...) {
			if !instrDominates(sorter, o) {
				return "used at " + p.Rel(o.Pos()) + " before being sorted"
			}
		}
		return ""
	}
	if len(others) > 0 {
		return "used unsorted at " + p.Rel(others[0].Pos())
	}
	// only handed to other functions: each must sort the parameter first (one level)
	if depth >= 1 && len(handoff) > 0 {
		return "handed on unsorted more than one level at " + p.Rel(handoff[0].Pos())
	}
	for _, h := range handoff {
		callee := h.Call.StaticCallee()
		idx := -1
		for i, a := range h.Call.Args {
			if a == v {
				idx = i
			}
		}
		if callee == nil || callee.Blocks == nil || idx < 0 || idx >= len(callee.Params) {
			return "handed unsorted to " + callName(h) + " at " + p.Rel(h.Pos())
		}
		if s := sortedValue(p, callee.Params[idx], cfg, depth+1); s != "" {
			return "handed to " + FuncName(callee) + " which does not sort it first: " + s
		}
	}
	return ""
}

func callsToInstrs(cs []*ssa.Call) []ssa.Instruction {
	var out []ssa.Instruction
	for _, c := range cs {
		out = append(out, c)
	}
	return out
}

// rootAlloc returns the allocation an address is derived from through
// field/index selection, or nil.
func rootAlloc(a ssa.Value) *ssa.Alloc {
	for i := 0; i < 8; i++ {
		switch x := a.(type) {
		case *ssa.Alloc:
			return x
		case *ssa.FieldAddr:
			a = x.X
		case *ssa.IndexAddr:
			a = x.X
		default:
			return nil
		}
	}
	return nil
}

func isFreshOrEmpty(v ssa.Value) bool {
	switch x := v.(type) {
	case *ssa.Const:
		return true
	case *ssa.MakeSlice:
		return true
	case *ssa.Slice:
		return isFreshOrEmpty(x.X)
	case *ssa.Alloc:
		return true
	}
	return false
}

// copiedSliceSorted: dst received a copy of a map-ordered slice at instruction
// at; dst (a fresh slice value, possibly held in a local variable) must be
// sorted before any other use.
func copiedSliceSorted(p *Prog, dst ssa.Value, at ssa.Instruction, cfg *OrderCfg, depth int) string {
	// dst is a load of a local variable: judge the variable
	if u, ok := dst.(*ssa.UnOp); ok && u.Op == token.MUL {
		if al, isA := u.X.(*ssa.Alloc); isA {
			c, calls := allocSortedBeforeUse(p, al, func(in ssa.Instruction) bool {
				// uses that come before the copy (creation of the slice) are not uses of the copied data
				return in == at || !instrDominates(at, in)
			}, cfg)
			if c.Kind != "" {
				return c.Detail
			}
			if len(calls) == 0 {
				return "copied at " + p.Rel(at.Pos()) + " into a slice that is never sorted"
			}
			for _, k := range calls {
				if cv := CheckComparator(k, func(elem types.Type, path string) bool { return uniqueProjection(nil, cfg, elem, path) }); !cv.Total {
					return "sorted at " + p.Rel(k.Pos()) + ", but " + cv.Why
				}
			}
			return ""
		}
	}
	// dst is an SSA slice value (MakeSlice / append result)
	root := dst
	if sl, ok := root.(*ssa.Slice); ok {
		root = sl.X
	}
	if why := sortedValueSkipping(p, root, at, cfg, depth); why != "" {
		return why
	}
	return ""
}

// sortedValueSkipping is sortedValue ignoring the copy instruction itself.
func sortedValueSkipping(p *Prog, v ssa.Value, skip ssa.Instruction, cfg *OrderCfg, depth int) string {
	if v.Referrers() == nil {
		return ""
	}
	// temporarily judge with the generic routine; the copy call is a len/cap-like neutral use
	saved := *v.Referrers()
	var kept []ssa.Instruction
	for _, r := range saved {
		if r != skip {
			kept = append(kept, r)
		}
	}
	*v.Referrers() = kept
	defer func() { *v.Referrers() = saved }()
	return sortedValue(p, v, cfg, depth)
}

// sortsParamFirst: callee's parameter idx is sorted (by a recognised sorter with a total comparator) before any
// other use inside callee, and callee does contain such a sort.
func sortsParamFirst(p *Prog, callee *ssa.Function, idx int, cfg *OrderCfg, depth int) bool {
	param := callee.Params[idx]
	if !IsSliceType(param.Type()) {
		return false
	}
	has := false
	var scan func(v ssa.Value, d int)
	scan = func(v ssa.Value, d int) {
		if v.Referrers() == nil || d > 3 {
			return
		}
		for _, r := range *v.Referrers() {
			switch x := r.(type) {
			case *ssa.Call:
				if c := x.Call.StaticCallee(); c != nil && cfg.IsSorter(c) {
					has = true
				}
			case *ssa.Store:
				// spilled because the comparator closure captures it
				if al, ok := x.Addr.(*ssa.Alloc); ok && x.Val == v && al.Referrers() != nil {
					for _, r2 := range *al.Referrers() {
						if ld, isLd := r2.(*ssa.UnOp); isLd {
							scan(ld, d+1)
						}
					}
				}
			case *ssa.MakeInterface:
				scan(x, d+1)
			}
		}
	}
	scan(param, 0)
	return has && sortedValue(p, param, cfg, depth+1) == ""
}
