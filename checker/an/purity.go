package an

import (
	"go/types"
	"strings"

	"golang.org/x/tools/go/ssa"
)

// EffectSummary classifies functions for the order analysis: "pure" (no
// effect that outlives the call except on objects it allocates), "keyed"
// (effects addressed by its arguments: storage put/delete, field writes on
// the passed object — commutative across distinct elements), "ordered"
// (appends to a sequence: serialization sinks, hashers, notifications,
// writers), "" unknown.
type EffectSummary struct {
	P *Prog
	// Ordered / Keyed name functions (ssa String() form) or prefixes ending in '*'.
	Ordered []string
	Keyed   []string
	Pure    []string
	memo    map[*ssa.Function]string
}

var stdPurePkgs = []string{"strings", "strconv", "math", "math/big", "math/bits", "sort", "encoding/hex", "encoding/binary", "crypto/sha256", "crypto/sha512",
	"errors", "unicode", "unicode/utf8", "bytes", "reflect", "golang.org/x/crypto/ripemd160", "hash", "sync", "sync/atomic", "time", "runtime", "internal", "slices", "maps", "container/list",
	"github.com/ontio/ontology-crypto", "github.com/ethereum/go-ethereum/common", "github.com/ethereum/go-ethereum/crypto", "github.com/ethereum/go-ethereum/rlp", "github.com/holiman/uint256",
	"encoding/json", "encoding/base64", "regexp", "github.com/itchyny/base58-go", "crypto", "github.com/ethereum/go-ethereum/core/types", "github.com/ethereum/go-ethereum/params"}

func matchName(list []string, name string) bool {
	for _, s := range list {
		if strings.HasSuffix(s, "*") {
			if strings.HasPrefix(name, strings.TrimSuffix(s, "*")) {
				return true
			}
		} else if s == name {
			return true
		}
	}
	return false
}

// Class returns the effect class of fn.
func (e *EffectSummary) Class(fn *ssa.Function) string {
	if e.memo == nil {
		e.memo = map[*ssa.Function]string{}
	}
	return e.class(fn, 0)
}

func (e *EffectSummary) class(fn *ssa.Function, depth int) string {
	if fn == nil {
		return ""
	}
	if c, ok := e.memo[fn]; ok {
		return c
	}
	name := fn.String()
	switch {
	case matchName(e.Ordered, name):
		e.memo[fn] = "ordered"
		return "ordered"
	case matchName(e.Keyed, name):
		e.memo[fn] = "keyed"
		return "keyed"
	case matchName(e.Pure, name):
		e.memo[fn] = "pure"
		return "pure"
	}
	pk := FuncPkgPath(fn)
	if cut, _ := IsCut(fn); cut {
		e.memo[fn] = "pure"
		return "pure"
	}
	if pk == "fmt" {
		c := "pure"
		if strings.HasPrefix(fn.Name(), "Fprint") || strings.HasPrefix(fn.Name(), "Print") {
			c = "ordered"
		}
		e.memo[fn] = c
		return c
	}
	for _, s := range stdPurePkgs {
		if pk == s || strings.HasPrefix(pk, s+"/") {
			e.memo[fn] = "pure"
			return "pure"
		}
	}
	if fn.Blocks == nil || depth > 12 {
		return ""
	}
	e.memo[fn] = "pure" // optimistic for recursion
	res := "pure"
	worse := func(c string) {
		switch c {
		case "":
			res = ""
		case "ordered":
			if res != "" {
				res = "ordered"
			}
		case "keyed":
			if res == "pure" {
				res = "keyed"
			}
		}
	}
	for _, b := range fn.Blocks {
		for _, in := range b.Instrs {
			if res == "" {
				break
			}
			switch x := in.(type) {
			case *ssa.Store:
				if !localAddr(x.Addr) {
					if isAppendTo(x.Val, x.Addr) {
						worse("ordered") // grows a sequence that outlives the call
					} else {
						worse("keyed")
					}
				}
			case *ssa.MapUpdate:
				if !localValue(x.Map) {
					worse("keyed")
				}
			case *ssa.Send, *ssa.Go:
				worse("")
			case ssa.CallInstruction:
				cc := x.Common()
				if _, isB := cc.Value.(*ssa.Builtin); isB {
					continue
				}
				if cc.IsInvoke() {
					worse(e.invoke(cc.Method))
					continue
				}
				if callee := cc.StaticCallee(); callee != nil {
					worse(e.class(callee, depth+1))
					continue
				}
				// dynamic call through a function value: unknown
				worse("")
			}
		}
	}
	e.memo[fn] = res
	return res
}

// InvokeClass classifies an interface method by name through the tables.
func (e *EffectSummary) invoke(m *types.Func) string {
	if m == nil {
		return ""
	}
	full := m.FullName()
	switch {
	case matchName(e.Ordered, full):
		return "ordered"
	case matchName(e.Keyed, full):
		return "keyed"
	case matchName(e.Pure, full):
		return "pure"
	}
	if m.Pkg() != nil {
		for _, s := range stdPurePkgs {
			if m.Pkg().Path() == s || strings.HasPrefix(m.Pkg().Path(), s+"/") {
				return "pure"
			}
		}
	}
	if m.Name() == "Error" || m.Name() == "String" {
		return "pure"
	}
	return ""
}

// Invoke is the exported form.
func (e *EffectSummary) Invoke(m *types.Func) string { return e.invoke(m) }

// localAddr: the address is (derived from) an allocation made in the same
// function.
func localAddr(a ssa.Value) bool {
	for i := 0; i < 10; i++ {
		switch x := a.(type) {
		case *ssa.Alloc:
			return true
		case *ssa.FieldAddr:
			a = x.X
		case *ssa.IndexAddr:
			a = x.X
		case *ssa.MakeSlice, *ssa.MakeMap:
			return true
		case *ssa.Slice:
			a = x.X
		case *ssa.Call:
			// result of a constructor-like call: treat as local object
			if bi, ok := x.Call.Value.(*ssa.Builtin); ok && bi.Name() == "append" {
				a = x.Call.Args[0]
				continue
			}
			return false
		case *ssa.Phi:
			for _, e := range x.Edges {
				if e != a && !localAddr(e) {
					return false
				}
			}
			return true
		default:
			return false
		}
	}
	return false
}

func localValue(v ssa.Value) bool {
	switch x := v.(type) {
	case *ssa.MakeMap, *ssa.MakeSlice, *ssa.Alloc:
		return true
	case *ssa.Phi:
		for _, e := range x.Edges {
			if e != v && !localValue(e) {
				return false
			}
		}
		return true
	}
	return false
}

// isAppendTo: v is append(load(addr'), ...) where addr' denotes the same
// location as addr.
func isAppendTo(v ssa.Value, addr ssa.Value) bool {
	call, ok := v.(*ssa.Call)
	if !ok {
		return false
	}
	bi, isB := call.Call.Value.(*ssa.Builtin)
	if !isB || bi.Name() != "append" {
		return false
	}
	u, isU := call.Call.Args[0].(*ssa.UnOp)
	if !isU {
		return false
	}
	return u.X == addr || AccessPath(u.X) == AccessPath(addr)
}

// IsSliceType reports whether t is a slice.
func IsSliceType(t types.Type) bool {
	_, ok := t.Underlying().(*types.Slice)
	return ok
}

// SortedBeforeUseValue: v (a slice in map order) is passed to a sorter, or to
// a function whose first use of that parameter is a sort, before any other
// use. Returns "" when fine.
func SortedBeforeUseValue(p *Prog, v ssa.Value, cfg *OrderCfg) string {
	return sortedValue(p, v, cfg, 0)
}

func sortedValue(p *Prog, v ssa.Value, cfg *OrderCfg, depth int) string {
	if v.Referrers() == nil {
		return ""
	}
	var sorter ssa.Instruction
	var others []ssa.Instruction
	var handoff []*ssa.Call
	for _, r := range *v.Referrers() {
		switch x := r.(type) {
		case *ssa.DebugRef, *ssa.MakeClosure:
		case *ssa.Call:
			if callee := x.Call.StaticCallee(); callee != nil {
				if cfg.IsSorter(callee) && len(x.Call.Args) > 0 && x.Call.Args[0] == v {
					if sorter == nil {
						sorter = x
					}
					continue
				}
				handoff = append(handoff, x)
				continue
			}
			if bi, ok := x.Call.Value.(*ssa.Builtin); ok && (bi.Name() == "len" || bi.Name() == "cap") {
				continue
			}
			others = append(others, r)
		case *ssa.MakeInterface:
			// sort.Sort(byX(v)) style
			if s := sortedValue(p, x, cfg, depth); s == "" {
				continue
			}
			others = append(others, r)
		default:
			others = append(others, r)
		}
	}
	if sorter != nil {
		for _, o := range append(others, callsToInstrs(handoff)...) {
			if !instrDominates(sorter, o) {
				return "used at " + p.Rel(o.Pos()) + " before being sorted"
			}
		}
		return ""
	}
	if len(others) > 0 {
		return "used unsorted at " + p.Rel(others[0].Pos())
	}
	// only handed to other functions: each must sort the parameter first (one level)
	if depth >= 1 && len(handoff) > 0 {
		return "handed on unsorted more than one level at " + p.Rel(handoff[0].Pos())
	}
	for _, h := range handoff {
		callee := h.Call.StaticCallee()
		idx := -1
		for i, a := range h.Call.Args {
			if a == v {
				idx = i
			}
		}
		if callee == nil || callee.Blocks == nil || idx < 0 || idx >= len(callee.Params) {
			return "handed unsorted to " + callName(h) + " at " + p.Rel(h.Pos())
		}
		if s := sortedValue(p, callee.Params[idx], cfg, depth+1); s != "" {
			return "handed to " + FuncName(callee) + " which does not sort it first: " + s
		}
	}
	return ""
}

func callsToInstrs(cs []*ssa.Call) []ssa.Instruction {
	var out []ssa.Instruction
	for _, c := range cs {
		out = append(out, c)
	}
	return out
}

// rootAlloc returns the allocation an address is derived from through
// field/index selection, or nil.
func rootAlloc(a ssa.Value) *ssa.Alloc {
	for i := 0; i < 8; i++ {
		switch x := a.(type) {
		case *ssa.Alloc:
			return x
		case *ssa.FieldAddr:
			a = x.X
		case *ssa.IndexAddr:
			a = x.X
		default:
			return nil
		}
	}
	return nil
}
