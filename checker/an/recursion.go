package an

import (
	"go/token"
	"sort"
	"strings"

	"golang.org/x/tools/go/ssa"
)

// A8 `recursion`: recursive cycles among a set of functions, over static
// calls (incl. closures created in the caller), with justifications.

// SCC is a recursive strongly connected component.
type SCC struct {
	Funcs []*ssa.Function
	in    map[*ssa.Function]bool
}

func (s *SCC) Has(f *ssa.Function) bool { return s.in[f] }

// Name is the stable key of the component.
func (s *SCC) Name() string {
	// named by its exported members when it has any: private helpers that a refactoring moves into or out of the
	// cycle do not rename the component
	var ns []string
	for _, f := range s.Funcs {
		if f.Object() != nil && f.Object().Exported() {
			ns = append(ns, FuncName(f))
		}
	}
	if len(ns) == 0 {
		for _, f := range s.Funcs {
			ns = append(ns, FuncName(f))
		}
	}
	sort.Strings(ns)
	if len(ns) > 4 {
		ns = append(ns[:4], "...")
	}
	return strings.Join(ns, "+")
}

// CycleEdges lists the call instructions inside the component that call
// into it.
func (s *SCC) CycleEdges(edges func(*ssa.Function) []CallEdge) []CallEdge {
	var out []CallEdge
	for _, f := range s.Funcs {
		for _, e := range edges(f) {
			if s.in[e.Callee] {
				out = append(out, e)
			}
		}
	}
	return out
}

// CallEdge is a resolved call.
type CallEdge struct {
	Caller *ssa.Function
	Site   ssa.CallInstruction
	Callee *ssa.Function
}

// StaticEdges returns the static call edges of fn: direct calls, calls of
// closures made in place, and — so that closures are not lost — an edge to
// every anonymous function it creates.
func StaticEdges(fn *ssa.Function) []CallEdge {
	var out []CallEdge
	for _, c := range Calls(fn) {
		if callee := c.Common().StaticCallee(); callee != nil {
			out = append(out, CallEdge{fn, c, callee})
		}
	}
	for _, a := range fn.AnonFuncs {
		out = append(out, CallEdge{fn, nil, a})
	}
	return out
}

// RecursiveSCCs computes the recursive components among funcs using edges.
func RecursiveSCCs(funcs []*ssa.Function, edges func(*ssa.Function) []CallEdge) []*SCC {
	inSet := map[*ssa.Function]bool{}
	for _, f := range funcs {
		inSet[f] = true
	}
	index := map[*ssa.Function]int{}
	low := map[*ssa.Function]int{}
	on := map[*ssa.Function]bool{}
	var stack []*ssa.Function
	var out []*SCC
	n := 0
	type frame struct {
		f  *ssa.Function
		es []CallEdge
		i  int
	}
	for _, root := range funcs {
		if _, seen := index[root]; seen {
			continue
		}
		var fs []*frame
		push := func(f *ssa.Function) {
			index[f] = n
			low[f] = n
			n++
			stack = append(stack, f)
			on[f] = true
			fs = append(fs, &frame{f: f, es: edges(f)})
		}
		push(root)
		for len(fs) > 0 {
			fr := fs[len(fs)-1]
			if fr.i < len(fr.es) {
				e := fr.es[fr.i]
				fr.i++
				w := e.Callee
				if !inSet[w] {
					continue
				}
				if _, seen := index[w]; !seen {
					push(w)
				} else if on[w] {
					if index[w] < low[fr.f] {
						low[fr.f] = index[w]
					}
				}
				continue
			}
			fs = fs[:len(fs)-1]
			if len(fs) > 0 {
				p := fs[len(fs)-1].f
				if low[fr.f] < low[p] {
					low[p] = low[fr.f]
				}
			}
			if low[fr.f] == index[fr.f] {
				scc := &SCC{in: map[*ssa.Function]bool{}}
				for {
					w := stack[len(stack)-1]
					stack = stack[:len(stack)-1]
					on[w] = false
					scc.Funcs = append(scc.Funcs, w)
					scc.in[w] = true
					if w == fr.f {
						break
					}
				}
				rec := len(scc.Funcs) > 1
				if !rec {
					for _, e := range edges(scc.Funcs[0]) {
						if e.Callee == scc.Funcs[0] {
							rec = true
						}
					}
				}
				if rec {
					sort.Slice(scc.Funcs, func(i, j int) bool { return scc.Funcs[i].String() < scc.Funcs[j].String() })
					out = append(out, scc)
				}
			}
		}
	}
	sort.Slice(out, func(i, j int) bool { return out[i].Name() < out[j].Name() })
	return out
}

// BoundOperand: bo compares a non-constant x with a constant K in a way that can express "x exceeds the bound":
// x > K, x >= K, K < x, K <= x (exceeded when true), x <= K, x < K, K >= x, K > x (exceeded when false; `!(x <= K)`),
// x == K (exceeded when true; accepted by the caller only for a counter parameter).
func BoundOperand(bo *ssa.BinOp) (x ssa.Value, k *ssa.Const, op token.Token, exceeded Abs, ok bool) {
	op = bo.Op
	kx, xIsK := bo.X.(*ssa.Const)
	ky, yIsK := bo.Y.(*ssa.Const)
	switch {
	case yIsK && !xIsK:
		x, k = bo.X, ky
	case xIsK && !yIsK:
		x, k = bo.Y, kx
		op = map[token.Token]token.Token{token.LSS: token.GTR, token.GTR: token.LSS, token.LEQ: token.GEQ, token.GEQ: token.LEQ, token.EQL: token.EQL}[op]
	default:
		return nil, nil, op, AUnknown, false
	}
	switch op {
	case token.GTR, token.GEQ, token.EQL:
		return x, k, op, ATrue, true
	case token.LEQ:
		return x, k, token.GTR, AFalse, true
	case token.LSS:
		return x, k, token.GEQ, AFalse, true
	}
	return nil, nil, op, AUnknown, false
}

// BoundGuards finds, in fn, comparisons `x > K` / `x >= K` (K constant, any spelling incl. the negated ones) where x
// is a parameter, a load through a pointer parameter, or a field of the
// receiver/parameter — the shapes a recursion bound takes.
func BoundGuards(fn *ssa.Function) []*Guard {
	var out []*Guard
	for _, b := range fn.Blocks {
		for _, in := range b.Instrs {
			bo, ok := in.(*ssa.BinOp)
			if !ok {
				continue
			}
			x, kc, nop, exceeded, isCmp := BoundOperand(bo)
			if !isCmp {
				continue
			}
			if cv, isC := x.(*ssa.Convert); isC {
				x = cv.X
			}
			if _, isParam := x.(*ssa.Parameter); nop == token.EQL && !isParam {
				continue // `depth == MAX` is a bound only for a counter parameter stepped by one
			}
			isBound := false
			switch v := x.(type) {
			case *ssa.Parameter:
				isBound = true
			case *ssa.UnOp:
				if v.Op == token.MUL {
					switch a := v.X.(type) {
					case *ssa.Parameter, *ssa.FreeVar:
						isBound = true
					case *ssa.FieldAddr:
						_ = a
						isBound = true
					}
				}
			case *ssa.Call:
				if bi, isB := v.Call.Value.(*ssa.Builtin); isB && bi.Name() == "len" {
					isBound = true
				}
			}
			if !isBound {
				continue
			}
			val := bo
			label := AccessPath(x)
			if k, isCall := x.(*ssa.Call); isCall {
				label = "len(" + AccessPath(k.Call.Args[0]) + ")"
				if inner, isInner := k.Call.Args[0].(*ssa.Call); isInner && inner.Call.StaticCallee() != nil {
					label = "len(" + inner.Call.StaticCallee().Name() + "())"
				}
			}
			out = append(out, &Guard{Name: "bound " + label + " " + nop.String() + " " + kc.Name(), FailValue: exceeded, MatchValue: func(v ssa.Value) bool { return v == ssa.Value(val) }})
		}
	}
	return out
}
