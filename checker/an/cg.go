package an

import (
	"go/types"
	"sort"
	"strings"

	"golang.org/x/tools/go/callgraph"
	"golang.org/x/tools/go/callgraph/cha"
	"golang.org/x/tools/go/callgraph/vta"
	"golang.org/x/tools/go/ssa"
)

// CutPackages are the asynchronous / irrelevant boundaries that reachability
// does not cross (DESIGN.md §2, refinement 1). One reason per entry.
var CutPackages = []struct{ Prefix, Reason string }{
	{"github.com/ontio/ontology-eventbus", "actor mailbox: a message to another actor is not an effect of this call"},
	{RepoMod + "/common/log", "logging: writes only to the log file/terminal, never to ledger state"},
}

// CallbackInvokers are functions whose only dynamic calls are through a
// func-typed parameter; at a call site the callee set is the closure passed
// there (refinement 2).
var CallbackInvokers = []string{
	"(*" + RepoMod + "/core/store/overlaydb.MemDB).ForEach",
	"(*sync.Map).Range",
	"sort.Slice",
	"sort.SliceStable",
	"sort.SliceIsSorted",
	"sort.Search",
	"(*github.com/scylladb/go-set/strset.Set).Each",
}

// CG is the refined call graph.
type CG struct {
	P        *Prog
	G        *callgraph.Graph
	Kind     string
	invokers map[*ssa.Function]bool
}

// CallGraph builds (once) the VTA call graph seeded with CHA.
func (p *Prog) CallGraph() *CG {
	if p.cg != nil {
		return p.cg
	}
	chaG := cha.CallGraph(p.SSA)
	g := vta.CallGraph(p.AllFuncs(), chaG)
	p.cg = newCG(p, g, "vta(cha)")
	return p.cg
}

// CHAGraph builds the coarser CHA graph (thorough-tier cross-check).
func (p *Prog) CHAGraph() *CG {
	return newCG(p, cha.CallGraph(p.SSA), "cha")
}

func newCG(p *Prog, g *callgraph.Graph, kind string) *CG {
	c := &CG{P: p, G: g, Kind: kind, invokers: map[*ssa.Function]bool{}}
	want := map[string]bool{}
	for _, s := range CallbackInvokers {
		want[s] = true
	}
	for fn := range g.Nodes {
		if fn != nil && want[fn.String()] && invokerBodyIsPure(p, fn) {
			c.invokers[fn] = true
		}
	}
	return c
}

// IsCut reports whether calls into fn are not followed.
func IsCut(fn *ssa.Function) (bool, string) {
	pk := FuncPkgPath(fn)
	for _, c := range CutPackages {
		if pk == c.Prefix || strings.HasPrefix(pk, c.Prefix+"/") {
			return true, c.Reason
		}
	}
	return false, ""
}

// Reach is the result of a reachability query.
type Reach struct {
	cg     *CG
	Parent map[*ssa.Function]*callgraph.Edge // nil for roots
	Order  []*ssa.Function
}

// ReachOpts tunes a reachability query.
type ReachOpts struct {
	// Stop: do not expand callees of these functions (they are still reached).
	Stop func(*ssa.Function) bool
	// SkipEdge: ignore this edge.
	SkipEdge func(*callgraph.Edge) bool
}

// Reach computes the functions reachable from roots in the refined graph.
func (c *CG) Reach(roots []*ssa.Function, o ReachOpts) *Reach {
	r := &Reach{cg: c, Parent: map[*ssa.Function]*callgraph.Edge{}}
	var work []*ssa.Function
	push := func(fn *ssa.Function, via *callgraph.Edge) {
		if fn == nil {
			return
		}
		if _, ok := r.Parent[fn]; ok {
			return
		}
		r.Parent[fn] = via
		r.Order = append(r.Order, fn)
		work = append(work, fn)
	}
	for _, f := range roots {
		push(f, nil)
	}
	for len(work) > 0 {
		fn := work[len(work)-1]
		work = work[:len(work)-1]
		if cut, _ := IsCut(fn); cut {
			continue
		}
		if o.Stop != nil && o.Stop(fn) {
			continue
		}
		n := c.G.Nodes[fn]
		if n == nil {
			continue
		}
		for _, e := range n.Out {
			if o.SkipEdge != nil && o.SkipEdge(e) {
				continue
			}
			callee := e.Callee.Func
			if c.invokers[callee] && e.Site != nil {
				// bind callbacks at the site
				if bound, ok := boundCallbacks(e.Site); ok {
					if _, seen := r.Parent[callee]; !seen {
						r.Parent[callee] = e
						r.Order = append(r.Order, callee)
						// The invoker's own body is not expanded: stdlib
						// invokers (sort.*, sync.Map.Range) only compare,
						// swap and call the callback; repository invokers
						// are admitted by invokerBodyIsPure.
					}
					for _, b := range bound {
						push(b, e)
					}
					continue
				}
			}
			push(callee, e)
		}
	}
	return r
}

// boundCallbacks resolves the func-typed arguments at a call site to
// functions; ok is false if some func-typed argument is not a closure or
// function literal.
func boundCallbacks(site ssa.CallInstruction) ([]*ssa.Function, bool) {
	var out []*ssa.Function
	for _, a := range site.Common().Args {
		if _, isSig := a.Type().Underlying().(*types.Signature); !isSig {
			continue
		}
		switch v := a.(type) {
		case *ssa.MakeClosure:
			out = append(out, v.Fn.(*ssa.Function))
		case *ssa.Function:
			out = append(out, v)
		default:
			return nil, false
		}
	}
	return out, true
}

// Has reports whether fn was reached.
func (r *Reach) Has(fn *ssa.Function) bool {
	_, ok := r.Parent[fn]
	return ok
}

// Path renders the call path from a root to fn.
func (r *Reach) Path(fn *ssa.Function) []string {
	var rev []string
	seen := map[*ssa.Function]bool{}
	for fn != nil && !seen[fn] {
		seen[fn] = true
		e := r.Parent[fn]
		if e == nil {
			rev = append(rev, FuncName(fn))
			break
		}
		at := "?"
		if e.Site != nil {
			at = r.cg.P.Rel(e.Site.Pos())
		}
		rev = append(rev, FuncName(fn)+" @"+at)
		fn = e.Caller.Func
	}
	for i, j := 0, len(rev)-1; i < j; i, j = i+1, j-1 {
		rev[i], rev[j] = rev[j], rev[i]
	}
	return rev
}

// RepoFuncs returns the reached functions that belong to the repository.
func (r *Reach) RepoFuncs() []*ssa.Function {
	var out []*ssa.Function
	for _, fn := range r.Order {
		if r.cg.P.InRepo(fn) {
			out = append(out, fn)
		}
	}
	sort.Slice(out, func(i, j int) bool { return out[i].String() < out[j].String() })
	return out
}

// Callers returns the distinct caller functions of fn with one site each.
func (c *CG) Callers(fn *ssa.Function) []*callgraph.Edge {
	n := c.G.Nodes[fn]
	if n == nil {
		return nil
	}
	seen := map[*ssa.Function]bool{}
	var out []*callgraph.Edge
	for _, e := range n.In {
		if seen[e.Caller.Func] {
			continue
		}
		seen[e.Caller.Func] = true
		out = append(out, e)
	}
	sort.Slice(out, func(i, j int) bool { return out[i].Caller.Func.String() < out[j].Caller.Func.String() })
	return out
}

// CalleesAt returns the callee functions of a call site in the graph.
func (c *CG) CalleesAt(site ssa.CallInstruction) []*ssa.Function {
	n := c.G.Nodes[site.Parent()]
	if n == nil {
		return nil
	}
	var out []*ssa.Function
	for _, e := range n.Out {
		if e.Site == site {
			out = append(out, e.Callee.Func)
		}
	}
	return out
}

// invokerBodyIsPure admits a repository function as a callback invoker only
// if every call in its body is a call through one of its own parameters or a
// static call to another admitted invoker / builtin. Non-repository invokers
// (sort, sync, strset) are trusted by table.
func invokerBodyIsPure(p *Prog, fn *ssa.Function) bool {
	if !p.InRepo(fn) {
		return true
	}
	for _, c := range Calls(fn) {
		cc := c.Common()
		if cc.IsInvoke() {
			return false
		}
		switch v := cc.Value.(type) {
		case *ssa.Parameter:
			continue
		case *ssa.Builtin:
			continue
		case *ssa.Function:
			ok := false
			for _, s := range CallbackInvokers {
				if v.String() == s {
					ok = true
				}
			}
			if !ok {
				return false
			}
		default:
			return false
		}
	}
	return true
}

// CallsStatically reports whether fn reaches target through static calls
// only, within depth levels.
func CallsStatically(fn, target *ssa.Function, depth int) bool {
	if fn == nil || depth < 0 {
		return false
	}
	for _, c := range Calls(fn) {
		callee := c.Common().StaticCallee()
		if callee == nil {
			continue
		}
		if callee == target || depth > 0 && CallsStatically(callee, target, depth-1) {
			return true
		}
	}
	return false
}
