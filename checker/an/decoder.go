package an

import (
	"fmt"
	"go/constant"
	"go/token"
	"go/types"
	"strings"

	"golang.org/x/tools/go/ssa"
)

// A7 `decoder`: discipline of functions that read untrusted bytes through
// common.ZeroCopySource (or the io.Reader helpers of common/serialization).

// DecIssue is one finding of the decoder rules.
type DecIssue struct {
	Rule   string // "irregular-dropped", "eof-dropped", "unbounded-size"
	Key    string
	Pos    token.Pos
	Detail string
}

// DecStats counts what was inspected.
type DecStats struct {
	Reads, IrregularSites, SizeUses int
}

var srcReadPrefixes = []string{"Next", "Read"}

func isSourceRead(callee *ssa.Function) bool {
	if callee == nil || callee.Signature.Recv() == nil {
		return false
	}
	rt := callee.Signature.Recv().Type().String()
	if !strings.HasSuffix(rt, "common.ZeroCopySource") {
		return false
	}
	for _, p := range srcReadPrefixes {
		if strings.HasPrefix(callee.Name(), p) {
			return true
		}
	}
	return callee.Name() == "Skip"
}

func resultIndex(sig *types.Signature, name string) int {
	for i := 0; i < sig.Results().Len(); i++ {
		if sig.Results().At(i).Name() == name {
			return i
		}
	}
	return -1
}

func usedExtract(call ssa.Value, idx int) bool {
	if idx < 0 {
		return true
	}
	if _, isTuple := call.Type().(*types.Tuple); !isTuple {
		// single result: the call value itself
		return hasRealUse(call)
	}
	for _, e := range Extracts(call)[idx] {
		if hasRealUse(e) {
			return true
		}
	}
	return false
}

func hasRealUse(v ssa.Value) bool {
	if v.Referrers() == nil {
		return false
	}
	for _, r := range *v.Referrers() {
		if _, isDbg := r.(*ssa.DebugRef); !isDbg {
			return true
		}
	}
	return false
}

// CheckDecoder applies the A7 rules to fn.
func CheckDecoder(p *Prog, fn *ssa.Function) ([]DecIssue, DecStats) {
	return checkDecoder(p, fn, false)
}

// CheckDecoderWithHelpers also treats the integer results of decode helpers - repository functions that take the
// byte source (or an io.Reader) as an argument and return an integer first, like utils.DecodeVarUint - as integers
// decoded from the input (for the size clause only).
func CheckDecoderWithHelpers(p *Prog, fn *ssa.Function) ([]DecIssue, DecStats) {
	return checkDecoder(p, fn, true)
}

// isDecodeHelper: a repository function with a byte-source parameter whose first result is an integer.
func isDecodeHelper(p *Prog, callee *ssa.Function) bool {
	if callee == nil || !p.InRepo(callee) || callee.Signature.Results().Len() == 0 {
		return false
	}
	if b, ok := callee.Signature.Results().At(0).Type().Underlying().(*types.Basic); !ok || b.Info()&types.IsInteger == 0 {
		return false
	}
	for i := 0; i < callee.Signature.Params().Len(); i++ {
		ts := callee.Signature.Params().At(i).Type().String()
		if strings.HasSuffix(ts, "common.ZeroCopySource") || ts == "io.Reader" {
			return true
		}
	}
	return false
}

func checkDecoder(p *Prog, fn *ssa.Function, helpers bool) ([]DecIssue, DecStats) {
	var issues []DecIssue
	var st DecStats
	type read struct {
		call   *ssa.Call
		callee *ssa.Function
	}
	var reads []read
	for _, k := range Calls(fn) {
		c, ok := k.(*ssa.Call)
		if !ok {
			continue
		}
		callee := c.Call.StaticCallee()
		if isSourceRead(callee) {
			reads = append(reads, read{c, callee})
		}
	}
	st.Reads = len(reads)
	var helperReads []*ssa.Call
	helperWraps := map[*ssa.Call]bool{}
	if helpers {
		for _, k := range Calls(fn) {
			if c, ok := k.(*ssa.Call); ok && !isSourceRead(c.Call.StaticCallee()) && isDecodeHelper(p, c.Call.StaticCallee()) {
				bounded, wraps := helperResult(p, c.Call.StaticCallee())
				if bounded {
					continue // the helper itself bounds what it returns
				}
				helperReads = append(helperReads, c)
				if wraps {
					helperWraps[c] = true
				}
			}
		}
		st.Reads += len(helperReads)
	}
	ord := map[string]int{}
	for _, r := range reads {
		sig := r.callee.Signature
		ord[r.callee.Name()]++
		site := fmt.Sprintf("%s|%s#%d", FuncName(fn), r.callee.Name(), ord[r.callee.Name()])
		if ii := resultIndex(sig, "irregular"); ii >= 0 {
			st.IrregularSites++
			if !usedExtract(r.call, ii) {
				issues = append(issues, DecIssue{Rule: "irregular-dropped", Key: site, Pos: r.call.Pos(),
					Detail: "the `irregular` result of " + r.callee.Name() + " is discarded: a non-canonical encoding is accepted, so re-serialization differs from the consumed bytes"})
			}
		}
		ei := resultIndex(sig, "eof")
		if ei >= 0 && !usedExtract(r.call, ei) && !readsExactlyRest(r.call) && !rereadAfterBackUp(r.call) {
			// sticky eof: a later read on the same source whose eof/err is used
			later := false
			for _, o := range reads {
				if o.call == r.call || recvOf2(&o.call.Call) != recvOf2(&r.call.Call) {
					continue
				}
				if !instrDominates(r.call, o.call) {
					continue
				}
				oe := resultIndex(o.callee.Signature, "eof")
				if oe < 0 {
					oe = resultIndex(o.callee.Signature, "err")
				}
				if oe >= 0 && usedExtract(o.call, oe) {
					later = true
				}
			}
			if !later {
				issues = append(issues, DecIssue{Rule: "eof-dropped", Key: site, Pos: r.call.Pos(),
					Detail: "the `eof` result of " + r.callee.Name() + " is discarded and no later read on the same source tests it: truncated input is accepted as zero values"})
			}
		}
	}
	// input-derived sizes
	derived := map[ssa.Value]ssa.Value{} // value -> originating extract
	for _, r := range reads {
		sig := r.callee.Signature
		if sig.Results().Len() == 0 {
			continue
		}
		t0 := sig.Results().At(0).Type()
		if b, ok := t0.Underlying().(*types.Basic); !ok || b.Info()&types.IsInteger == 0 {
			continue
		}
		if _, isTuple := r.call.Type().(*types.Tuple); isTuple {
			for _, e := range Extracts(r.call)[0] {
				derived[e] = e
			}
		} else {
			derived[r.call] = r.call
		}
	}
	for _, c := range helperReads {
		if _, isTuple := c.Type().(*types.Tuple); isTuple {
			for _, e := range Extracts(c)[0] {
				derived[e] = e
			}
		} else {
			derived[c] = c
		}
	}
	propagateDerived(fn, derived)
	wrap := wrappedValues(fn, derived, helperWraps)
	sizeOrd := 0
	for _, b := range fn.Blocks {
		for _, in := range b.Instrs {
			var uses []ssa.Value
			what := ""
			switch x := in.(type) {
			case *ssa.MakeSlice:
				uses, what = []ssa.Value{x.Len, x.Cap}, "make size"
			case *ssa.Slice:
				uses, what = []ssa.Value{x.Low, x.High, x.Max}, "slice bound"
			case *ssa.IndexAddr:
				uses, what = []ssa.Value{x.Index}, "index"
			case *ssa.MakeMap:
				uses, what = []ssa.Value{x.Reserve}, "map size hint"
			}
			for _, u := range uses {
				if u == nil || derived[u] == nil {
					continue
				}
				st.SizeUses++
				sizeOrd++
				if sl, isSl := in.(*ssa.Slice); isSl {
					if sliceBoundOK(fn, sl, u, derived) {
						continue
					}
					issues = append(issues, DecIssue{Rule: "unbounded-size", Key: fmt.Sprintf("%s|%s#%d", FuncName(fn), strings.ReplaceAll(what, " ", "-"), sizeOrd), Pos: in.Pos(),
						Detail: "an integer decoded from the input bounds a slice expression on " + AccessPath(sl.X) + " without a dominating comparison against the length/capacity of that slice (a constant limit does not help when fewer elements were appended): out-of-range panic"})
					continue
				}
				if comparedBefore(fn, u, derived, wrap, in) {
					continue
				}
				issues = append(issues, DecIssue{Rule: "unbounded-size", Key: fmt.Sprintf("%s|%s#%d", FuncName(fn), strings.ReplaceAll(what, " ", "-"), sizeOrd), Pos: in.Pos(),
					Detail: "an integer decoded from the input is used as " + what + " without a dominating comparison against a limit, the input length or len of the object: a crafted value allocates or slices out of bounds"})
			}
		}
	}
	return issues, st
}

func recvOf2(c *ssa.CallCommon) ssa.Value {
	if c.IsInvoke() {
		return c.Value
	}
	if len(c.Args) > 0 {
		return c.Args[0]
	}
	return nil
}

// comparedBefore: some value derived from the same input integer takes part
// in an ordering/equality comparison whose branch dominates the use.
func comparedBefore(fn *ssa.Function, u ssa.Value, derived map[ssa.Value]ssa.Value, wrap map[ssa.Value]bool, use ssa.Instruction) bool {
	origin := derived[u]
	any, beforeWrap, upper, lower := false, false, false, false
	for _, b := range fn.Blocks {
		iff, ok := b.Instrs[len(b.Instrs)-1].(*ssa.If)
		if !ok {
			continue
		}
		if !condMentions(iff.Cond, origin, derived, 0) {
			continue
		}
		if b == use.Block() {
			continue
		}
		if b.Dominates(use.Block()) {
			any = true
			for _, cmp := range comparisonsOn(iff.Cond, origin, derived, 0) {
				x, other := cmp.X, cmp.Y
				if derived[x] != origin {
					x, other = cmp.Y, cmp.X
				}
				if !wrap[x] {
					beforeWrap = true
					continue
				}
				if k, isK := other.(*ssa.Const); isK && k.Value != nil && constant.Sign(k.Value) <= 0 {
					lower = true
				} else {
					upper = true
				}
			}
		}
	}
	if !any {
		return false
	}
	// a signed value obtained by converting an unsigned one of the same width can be negative: an upper bound on it
	// is not a bound (make/slice/index with a negative size panics); it needs a test before the conversion, or a
	// lower bound as well
	if wrap[u] {
		return beforeWrap || (upper && lower)
	}
	return true
}

// comparisonsOn lists the comparisons inside cond that mention a value derived from origin.
func comparisonsOn(c ssa.Value, origin ssa.Value, derived map[ssa.Value]ssa.Value, depth int) []*ssa.BinOp {
	if depth > 5 {
		return nil
	}
	switch x := c.(type) {
	case *ssa.BinOp:
		switch x.Op {
		case token.LSS, token.LEQ, token.GTR, token.GEQ, token.EQL, token.NEQ:
			if derived[x.X] == origin && derived[x.X] != nil || derived[x.Y] == origin && derived[x.Y] != nil {
				return []*ssa.BinOp{x}
			}
			return nil
		}
		return append(comparisonsOn(x.X, origin, derived, depth+1), comparisonsOn(x.Y, origin, derived, depth+1)...)
	case *ssa.UnOp:
		return comparisonsOn(x.X, origin, derived, depth+1)
	case *ssa.Phi:
		var out []*ssa.BinOp
		for _, e := range x.Edges {
			out = append(out, comparisonsOn(e, origin, derived, depth+1)...)
		}
		return out
	}
	return nil
}

func intInfo(t types.Type) (signed bool, size int, ok bool) {
	b, isB := t.Underlying().(*types.Basic)
	if !isB || b.Info()&types.IsInteger == 0 {
		return false, 0, false
	}
	switch b.Kind() {
	case types.Int8, types.Uint8:
		size = 8
	case types.Int16, types.Uint16:
		size = 16
	case types.Int32, types.Uint32:
		size = 32
	default:
		size = 64
	}
	return b.Info()&types.IsUnsigned == 0, size, true
}

// wrappedValues: the input-derived values that are signed results of converting an unsigned value of at least
// their width (uint64 -> int), or are computed from such a value: they may be negative whatever upper bound holds.
func wrappedValues(fn *ssa.Function, derived map[ssa.Value]ssa.Value, helperWraps map[*ssa.Call]bool) map[ssa.Value]bool {
	wrap := map[ssa.Value]bool{}
	for c := range helperWraps {
		wrap[c] = true
		if _, isTuple := c.Type().(*types.Tuple); isTuple {
			for _, e := range Extracts(c)[0] {
				wrap[e] = true
			}
		}
	}
	for changed := true; changed; {
		changed = false
		for _, b := range fn.Blocks {
			for _, in := range b.Instrs {
				v, ok := in.(ssa.Value)
				if !ok || derived[v] == nil || wrap[v] {
					continue
				}
				sgn, size, isInt := intInfo(v.Type())
				if !isInt || !sgn {
					continue
				}
				w := false
				switch x := in.(type) {
				case *ssa.Convert:
					xs, xsize, xok := intInfo(x.X.Type())
					w = xok && (!xs && xsize >= size || wrap[x.X])
				case *ssa.ChangeType:
					w = wrap[x.X]
				case *ssa.BinOp:
					w = wrap[x.X] || wrap[x.Y]
				case *ssa.Phi:
					for _, e := range x.Edges {
						w = w || wrap[e]
					}
				}
				if w {
					wrap[v] = true
					changed = true
				}
			}
		}
	}
	return wrap
}

// helperResult summarises a decode helper: bounded - every integer it returns first is a constant, not derived from
// a source read, or bounded inside the helper (sign-aware); wraps - some returned value may be negative after a
// sign-changing conversion.
func helperResult(p *Prog, h *ssa.Function) (bounded, wraps bool) {
	if h == nil || h.Blocks == nil {
		return false, false
	}
	derived := map[ssa.Value]ssa.Value{}
	for _, k := range Calls(h) {
		c, ok := k.(*ssa.Call)
		if !ok {
			continue
		}
		callee := c.Call.StaticCallee()
		if !(isSourceRead(callee) || isDecodeHelper(p, callee)) || callee.Signature.Results().Len() == 0 {
			continue
		}
		if _, _, isInt := intInfo(callee.Signature.Results().At(0).Type()); !isInt {
			continue
		}
		if _, isTuple := c.Type().(*types.Tuple); isTuple {
			for _, e := range Extracts(c)[0] {
				derived[e] = e
			}
		} else {
			derived[c] = c
		}
	}
	propagateDerived(h, derived)
	wrap := wrappedValues(h, derived, nil)
	bounded = true
	for _, r := range Returns(h) {
		if len(r.Results) == 0 {
			continue
		}
		v := r.Results[0]
		if _, isK := v.(*ssa.Const); isK {
			continue
		}
		if derived[v] == nil {
			// computed in a way this analysis does not follow (e.g. through big.Int): not known to be bounded
			bounded = false
			continue
		}
		if wrap[v] {
			wraps = true
		}
		if !comparedBefore(h, v, derived, wrap, r) {
			bounded = false
		}
	}
	return bounded, wraps
}

func condMentions(c ssa.Value, origin ssa.Value, derived map[ssa.Value]ssa.Value, depth int) bool {
	if depth > 5 {
		return false
	}
	switch x := c.(type) {
	case *ssa.BinOp:
		switch x.Op {
		case token.LSS, token.LEQ, token.GTR, token.GEQ, token.EQL, token.NEQ:
			return derived[x.X] == origin && derived[x.X] != nil || derived[x.Y] == origin && derived[x.Y] != nil
		}
		return condMentions(x.X, origin, derived, depth+1) || condMentions(x.Y, origin, derived, depth+1)
	case *ssa.UnOp:
		return condMentions(x.X, origin, derived, depth+1)
	case *ssa.Phi:
		for _, e := range x.Edges {
			if condMentions(e, origin, derived, depth+1) {
				return true
			}
		}
	}
	return false
}

// sliceBoundOK: the input-derived bound u of sl is safe: the sliced object
// was allocated with a size from the same input value, or a dominating
// comparison relates the value with len/cap of the sliced object.
func sliceBoundOK(fn *ssa.Function, sl *ssa.Slice, u ssa.Value, derived map[ssa.Value]ssa.Value) bool {
	origin := derived[u]
	if mk, ok := sl.X.(*ssa.MakeSlice); ok {
		if derived[mk.Len] == origin || derived[mk.Cap] == origin {
			return true
		}
	}
	xpath := AccessPath(sl.X)
	if filledByCountingLoop(fn, sl, xpath, origin, derived) {
		return true
	}
	for _, b := range fn.Blocks {
		iff, ok := b.Instrs[len(b.Instrs)-1].(*ssa.If)
		if !ok || b == sl.Block() || !b.Dominates(sl.Block()) {
			continue
		}
		var ok2 bool
		var visit func(c ssa.Value, d int)
		visit = func(c ssa.Value, d int) {
			if d > 5 {
				return
			}
			switch x := c.(type) {
			case *ssa.BinOp:
				switch x.Op {
				case token.LSS, token.LEQ, token.GTR, token.GEQ:
					for _, pair := range [][2]ssa.Value{{x.X, x.Y}, {x.Y, x.X}} {
						if derived[pair[0]] == origin && derived[pair[0]] != nil && isLenOf(pair[1], xpath) {
							ok2 = true
						}
					}
				default:
					visit(x.X, d+1)
					visit(x.Y, d+1)
				}
			case *ssa.UnOp:
				visit(x.X, d+1)
			case *ssa.Phi:
				for _, e := range x.Edges {
					visit(e, d+1)
				}
			}
		}
		visit(iff.Cond, 0)
		if ok2 {
			return true
		}
	}
	return false
}

func isLenOf(v ssa.Value, path string) bool {
	for i := 0; i < 3; i++ {
		if cv, ok := v.(*ssa.Convert); ok {
			v = cv.X
			continue
		}
		break
	}
	k, ok := v.(*ssa.Call)
	if !ok {
		return false
	}
	bi, isB := k.Call.Value.(*ssa.Builtin)
	if !isB || (bi.Name() != "len" && bi.Name() != "cap") {
		return false
	}
	return AccessPath(k.Call.Args[0]) == path
}

// readsExactlyRest: NextBytes(source.Len()) on the same source cannot hit eof.
func readsExactlyRest(c *ssa.Call) bool {
	callee := c.Call.StaticCallee()
	if callee == nil || callee.Name() != "NextBytes" || len(c.Call.Args) < 2 {
		return false
	}
	k, ok := c.Call.Args[1].(*ssa.Call)
	if !ok || k.Call.StaticCallee() == nil || k.Call.StaticCallee().Name() != "Len" {
		return false
	}
	return len(k.Call.Args) > 0 && k.Call.Args[0] == c.Call.Args[0]
}

// filledByCountingLoop: before sl, a loop `for i < N` with N the same input
// value (reaching the comparison without a conversion that can wrap or go
// negative) appends one element to the sliced object in every iteration that
// continues; afterwards the object holds at least N elements.
func filledByCountingLoop(fn *ssa.Function, sl *ssa.Slice, xpath string, origin ssa.Value, derived map[ssa.Value]ssa.Value) bool {
	for _, e := range BackEdges(fn) {
		hdr := e[1]
		iff, ok := hdr.Instrs[len(hdr.Instrs)-1].(*ssa.If)
		if !ok {
			continue
		}
		cmp, isB := iff.Cond.(*ssa.BinOp)
		if !isB || !countsTo(hdr, cmp, origin, derived) {
			continue
		}
		// the loop exit must dominate the slice expression
		if !hdr.Dominates(sl.Block()) {
			continue
		}
		body := LoopBlocks(e[0], hdr)
		var appends []ssa.Instruction
		for b := range body {
			for _, in := range b.Instrs {
				if st, isSt := in.(*ssa.Store); isSt && AccessPath(st.Addr) == xpath && isAppendTo(st.Val, st.Addr) {
					appends = append(appends, in)
				}
			}
		}
		if len(appends) == 0 {
			continue
		}
		cut := map[ssa.Instruction]bool{}
		for _, a := range appends {
			cut[a] = true
		}
		q := &Query{Fn: fn, Cut: cut, Start: hdr.Instrs[0]}
		r := q.Run()
		if r.Reaches(e[0].Instrs[len(e[0].Instrs)-1]) {
			continue // an iteration can continue without appending
		}
		return true
	}
	return false
}

// countsTo: the loop headed by hdr runs (at most) origin times: its condition is `i < n` with n the decoded count
// (any spelling: n > i, !(i >= n)), or it counts the decoded count down to zero (`for r := n; r > 0; r--`, r != 0,
// r >= 1, 0 < r).
func countsTo(hdr *ssa.BasicBlock, cmp *ssa.BinOp, origin ssa.Value, derived map[ssa.Value]ssa.Value) bool {
	isCount := func(v ssa.Value) bool { return derived[v] == origin && derived[v] != nil && safeFrom(v, origin) }
	// i < n
	for _, form := range []struct {
		op   token.Token
		x, y ssa.Value
	}{{cmp.Op, cmp.X, cmp.Y}, {mirrorTok(cmp.Op), cmp.Y, cmp.X}} {
		if form.op == token.LSS && isCount(form.y) && !isCount(form.x) {
			return true
		}
	}
	// count-down from n
	for _, form := range []struct {
		op   token.Token
		x, y ssa.Value
	}{{cmp.Op, cmp.X, cmp.Y}, {mirrorTok(cmp.Op), cmp.Y, cmp.X}} {
		ph, isPhi := form.x.(*ssa.Phi)
		k, isK := form.y.(*ssa.Const)
		if !isPhi || !isK || k.Value == nil || ph.Block() != hdr {
			continue
		}
		kv := k.Value.String()
		if !(form.op == token.GTR && kv == "0" || form.op == token.NEQ && kv == "0" || form.op == token.GEQ && kv == "1") {
			continue
		}
		initOK, stepOK := false, false
		for i, e := range ph.Edges {
			if hdr.Dominates(hdr.Preds[i]) {
				// latch: ph - 1
				if b, isB := e.(*ssa.BinOp); isB && b.Op == token.SUB && b.X == ssa.Value(ph) {
					if one, isOne := b.Y.(*ssa.Const); isOne && one.Value != nil && one.Value.String() == "1" {
						stepOK = true
					}
				}
			} else if isCount(e) {
				initOK = true
			}
		}
		if initOK && stepOK {
			return true
		}
	}
	return false
}

func mirrorTok(op token.Token) token.Token {
	switch op {
	case token.LSS:
		return token.GTR
	case token.GTR:
		return token.LSS
	case token.LEQ:
		return token.GEQ
	case token.GEQ:
		return token.LEQ
	}
	return op
}

// safeFrom: v is origin, possibly through conversions that cannot change the
// numeric value on a 64-bit target (from an unsigned type of at most 32 bits).
func safeFrom(v, origin ssa.Value) bool {
	for i := 0; i < 4; i++ {
		if v == origin {
			return true
		}
		cv, ok := v.(*ssa.Convert)
		if !ok {
			return false
		}
		b, isB := cv.X.Type().Underlying().(*types.Basic)
		if !isB {
			return false
		}
		switch b.Kind() {
		case types.Uint8, types.Uint16, types.Uint32:
		default:
			return false
		}
		v = cv.X
	}
	return false
}

// rereadAfterBackUp: NextBytes(n) directly after BackUp(n) on the same source
// re-reads bytes that were already consumed; it cannot hit eof.
func rereadAfterBackUp(c *ssa.Call) bool {
	callee := c.Call.StaticCallee()
	if callee == nil || callee.Name() != "NextBytes" || len(c.Call.Args) < 2 {
		return false
	}
	b := c.Block()
	for i, in := range b.Instrs {
		if in != ssa.Instruction(c) {
			continue
		}
		for j := i - 1; j >= 0; j-- {
			k, ok := b.Instrs[j].(*ssa.Call)
			if !ok {
				continue
			}
			kc := k.Call.StaticCallee()
			if kc == nil {
				return false
			}
			if kc.Name() == "BackUp" && len(k.Call.Args) == 2 && k.Call.Args[0] == c.Call.Args[0] && k.Call.Args[1] == c.Call.Args[1] {
				return true
			}
			return false
		}
	}
	return false
}

// RereadOK exports rereadAfterBackUp.
func RereadOK(c *ssa.Call) bool { return rereadAfterBackUp(c) }

// propagateDerived closes the set of input-derived values under conversion, arithmetic and merging.
func propagateDerived(fn *ssa.Function, derived map[ssa.Value]ssa.Value) {
	changed := true
	for changed {
		changed = false
		for _, b := range fn.Blocks {
			for _, in := range b.Instrs {
				v, ok := in.(ssa.Value)
				if !ok || derived[v] != nil {
					continue
				}
				switch x := in.(type) {
				case *ssa.Convert:
					if o := derived[x.X]; o != nil {
						derived[v] = o
						changed = true
					}
				case *ssa.ChangeType:
					if o := derived[x.X]; o != nil {
						derived[v] = o
						changed = true
					}
				case *ssa.BinOp:
					switch x.Op {
					case token.ADD, token.SUB, token.MUL, token.SHL:
						if o := derived[x.X]; o != nil {
							derived[v] = o
							changed = true
						} else if o := derived[x.Y]; o != nil {
							derived[v] = o
							changed = true
						}
					}
				case *ssa.Phi:
					for _, e := range x.Edges {
						if o := derived[e]; o != nil {
							derived[v] = o
							changed = true
							break
						}
					}
				}
			}
		}
	}
}
