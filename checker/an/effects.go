package an

import (
	"fmt"

	"golang.org/x/tools/go/ssa"
)

// Effects decides "every call that can reach a sink is guarded", following
// static calls inside a scope (A2 lifted over helpers): a call is a *write
// action* of fn if its static callee is a sink or transitively reaches one
// through functions in scope. fn is *internally guarded* if each of its write
// actions is unreachable with all guards failing, or is a call to a function
// that is internally guarded itself.
type Effects struct {
	P      *Prog
	IsSink func(*ssa.Function) bool
	// IsSinkInstr optionally selects non-call instructions (field stores,
	// map updates) that are effects themselves.
	IsSinkInstr func(ssa.Instruction) bool
	InScope     func(*ssa.Function) bool
	Guards      []*Guard
	NonEmpty    func(*ssa.Function) bool
	MaxDepth    int

	writes  map[*ssa.Function]int // 0 unknown, 1 no, 2 yes, 3 in progress
	guarded map[*ssa.Function]*EffVerdict
}

// EffVerdict is the result for one function.
type EffVerdict struct {
	OK      bool
	Actions int
	Witness string
}

// Writes reports whether fn can reach a sink through static calls in scope.
func (e *Effects) Writes(fn *ssa.Function) bool {
	if e.writes == nil {
		e.writes = map[*ssa.Function]int{}
	}
	if fn == nil {
		return false
	}
	if e.IsSink(fn) {
		return true
	}
	switch e.writes[fn] {
	case 1, 3:
		return false
	case 2:
		return true
	}
	if !e.InScope(fn) || fn.Blocks == nil {
		e.writes[fn] = 1
		return false
	}
	e.writes[fn] = 3
	res := 1
	if e.IsSinkInstr != nil {
		for _, b := range fn.Blocks {
			for _, in := range b.Instrs {
				if e.IsSinkInstr(in) {
					res = 2
				}
			}
		}
	}
	for _, c := range Calls(fn) {
		if callee := c.Common().StaticCallee(); callee != nil && e.Writes(callee) {
			res = 2
			break
		}
		// closures created and called in place
		if mc, ok := c.Common().Value.(*ssa.MakeClosure); ok {
			if e.Writes(mc.Fn.(*ssa.Function)) {
				res = 2
				break
			}
		}
	}
	e.writes[fn] = res
	return res == 2
}

// WriteActions lists the instructions in fn that are effects or calls that
// can reach one.
func (e *Effects) WriteActions(fn *ssa.Function) []ssa.Instruction {
	var out []ssa.Instruction
	for _, b := range fn.Blocks {
		for _, in := range b.Instrs {
			if c, ok := in.(ssa.CallInstruction); ok {
				if callee := c.Common().StaticCallee(); callee != nil && e.Writes(callee) {
					out = append(out, in)
				}
				continue
			}
			if e.IsSinkInstr != nil && e.IsSinkInstr(in) {
				out = append(out, in)
			}
		}
	}
	return out
}

// Check decides whether fn is internally guarded.
func (e *Effects) Check(fn *ssa.Function) *EffVerdict {
	return e.check(fn, 0)
}

func (e *Effects) check(fn *ssa.Function, depth int) *EffVerdict {
	if e.guarded == nil {
		e.guarded = map[*ssa.Function]*EffVerdict{}
	}
	if v, ok := e.guarded[fn]; ok {
		return v
	}
	max := e.MaxDepth
	if max == 0 {
		max = 3
	}
	v := &EffVerdict{OK: true}
	e.guarded[fn] = v // recursion guard (optimistic for cycles; cycles of writers are rare and re-checked at the entry)
	actions := e.WriteActions(fn)
	v.Actions = len(actions)
	set := map[ssa.Instruction]bool{}
	for _, a := range actions {
		set[a] = true
	}
	ne := e.NonEmpty != nil && e.NonEmpty(fn)
	g := Guarded(e.P, fn, e.Guards, func(in ssa.Instruction) bool { return set[in] }, ne)
	if g.Holds && (g.GuardSites > 0 || len(actions) == 0) {
		return v
	}
	// find the unguarded actions one by one
	for _, a := range actions {
		one := Guarded(e.P, fn, e.Guards, func(in ssa.Instruction) bool { return in == a }, ne)
		if one.Holds && one.GuardSites > 0 {
			continue
		}
		var callee *ssa.Function
		if ci, isCall := a.(ssa.CallInstruction); isCall {
			callee = ci.Common().StaticCallee()
		}
		if callee != nil && !e.IsSink(callee) && e.InScope(callee) && depth < max {
			sub := e.check(callee, depth+1)
			if sub.OK && sub.Actions > 0 {
				continue
			}
			v.OK = false
			v.Witness = fmt.Sprintf("%s calls %s at %s on a path with every guard failing (%s); inside it: %s",
				FuncName(fn), FuncName(callee), e.P.Rel(a.Pos()), one.Witness, sub.Witness)
			return v
		}
		v.OK = false
		v.Witness = fmt.Sprintf("%s reaches the write %s at %s with every guard failing: %s", FuncName(fn), callName(a), e.P.Rel(a.Pos()), one.Witness)
		return v
	}
	return v
}

func callName(in ssa.Instruction) string {
	c, ok := in.(ssa.CallInstruction)
	if !ok {
		return in.String()
	}
	if f := c.Common().StaticCallee(); f != nil {
		return FuncName(f)
	}
	if c.Common().IsInvoke() {
		return c.Common().Method.FullName()
	}
	return c.Common().Value.Name()
}

// ForallLoopExit checks the ∀-idiom of a wrapper whose guard call lies in a
// loop: after a *successful* check, a success return must not be reachable
// without going back through the loop header (no early success exit that
// leaves later elements unchecked). Returns "" when fine.
func ForallLoopExit(p *Prog, fn *ssa.Function, guards []*Guard) string {
	insts := findGuards(fn, guards)
	spec := SuccessSpecFor(fn.Signature)
	for _, gi := range insts {
		if gi.call == nil {
			continue
		}
		blk := gi.call.Block()
		for _, e := range BackEdges(fn) {
			body := LoopBlocks(e[0], e[1])
			if !body[blk] {
				continue
			}
			hdr := e[1]
			cut := map[ssa.Instruction]bool{hdr.Instrs[len(hdr.Instrs)-1]: true}
			// the header's terminator decides exhaustion; cut it, start after the guard call
			q := &Query{Fn: fn, Cut: cut, Start: gi.call.(ssa.Instruction)}
			_, rets, sts := SuccessReturnsReachable(q, spec)
			if len(rets) > 0 {
				r := q.Run()
				return fmt.Sprintf("after the check at %s a success return (%s) is reachable without re-entering the loop header: %s",
					p.Rel(gi.call.Pos()), p.Rel(rets[0].Pos()), r.Witness(p, sts[0]))
			}
		}
	}
	return ""
}
