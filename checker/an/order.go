package an

import (
	"fmt"
	"go/token"
	"go/types"
	"strings"

	"golang.org/x/tools/go/ssa"
)

// A1 `order`: classification of loops that range over a Go map.

// MapLoop is one `for ... range <map>` loop.
type MapLoop struct {
	Fn          *ssa.Function
	Range       *ssa.Range
	Next        *ssa.Next
	Header      *ssa.BasicBlock
	Body        map[*ssa.BasicBlock]bool // natural loop incl. header (only header if the body never continues)
	HasBackEdge bool
	SortCalls   []*ssa.Call // sorter calls found for collected slices
}

// LoopClass is the verdict for one loop.
type LoopClass struct {
	Kind   string // "commutative", "collect-then-sort", "exists-exit", "first-element", "order-sensitive", "undecided", "returns-unsorted"
	Detail string
	Pos    token.Pos
}

// MapLoops finds the map-range loops of fn.
func MapLoops(fn *ssa.Function) []*MapLoop {
	var out []*MapLoop
	for _, b := range fn.Blocks {
		for _, in := range b.Instrs {
			nx, ok := in.(*ssa.Next)
			if !ok || nx.IsString {
				continue
			}
			rg, ok := nx.Iter.(*ssa.Range)
			if !ok {
				continue
			}
			if _, isMap := rg.X.Type().Underlying().(*types.Map); !isMap {
				continue
			}
			l := &MapLoop{Fn: fn, Range: rg, Next: nx, Header: b, Body: map[*ssa.BasicBlock]bool{b: true}}
			for _, p := range b.Preds {
				if b.Dominates(p) {
					l.HasBackEdge = true
					for k := range LoopBlocks(p, b) {
						l.Body[k] = true
					}
				}
			}
			if !l.HasBackEdge {
				// body = blocks dominated by the body successor up to returns
				if iff, ok := b.Instrs[len(b.Instrs)-1].(*ssa.If); ok && iff != nil {
					var walk func(x *ssa.BasicBlock)
					walk = func(x *ssa.BasicBlock) {
						if l.Body[x] {
							return
						}
						l.Body[x] = true
						for _, s := range x.Succs {
							walk(s)
						}
					}
					walk(b.Succs[0])
				}
			}
			out = append(out, l)
		}
	}
	return out
}

// OrderCfg supplies the repository-specific knowledge.
type OrderCfg struct {
	// CallClass classifies a static callee invoked inside a loop body:
	// "pure" (no effect), "keyed" (effect keyed by its arguments, commutative
	// across distinct keys), "ordered" (appends to an ordered sink), "" unknown.
	CallClass func(callee *ssa.Function, call ssa.CallInstruction) string
	// InvokeClass classifies interface-method calls the same way.
	InvokeClass func(m *types.Func) string
	// OrderedArgs: for a call classified "ordered", the argument objects the
	// ordered effect lands on (ok=false: not confined to arguments).
	OrderedArgs func(call ssa.CallInstruction) ([]ssa.Value, bool)
	// UniqueFields: "<TypeName><projection>" entries (e.g. "PeerStakeInfo.PeerPubkey")
	// whose value differs for every two distinct entries of the collections
	// the repository sorts (data invariants confirmed by reading).
	UniqueFields map[string]string
	// Sorters are the functions that sort their first argument in place.
	IsSorter func(callee *ssa.Function) bool
}

// elemDerived computes the values in the loop body that depend on the
// current element (key/value extracts of Next and anything computed from
// them), plus loads from allocs assigned from them.
func elemDerived(l *MapLoop) map[ssa.Value]bool {
	d := map[ssa.Value]bool{}
	for _, ref := range *l.Next.Referrers() {
		if e, ok := ref.(*ssa.Extract); ok && e.Index > 0 {
			d[e] = true
		}
	}
	changed := true
	for changed {
		changed = false
		for b := range l.Body {
			for _, in := range b.Instrs {
				v, ok := in.(ssa.Value)
				if ok && !d[v] {
					for _, op := range in.Operands(nil) {
						if *op != nil && d[*op] {
							if _, isPhiInHeader := v.(*ssa.Phi); isPhiInHeader && v.(*ssa.Phi).Block() == l.Header {
								continue
							}
							d[v] = true
							changed = true
							break
						}
					}
				}
				if st, ok := in.(*ssa.Store); ok && d[st.Val] {
					if ra := rootAlloc(st.Addr); ra != nil && ra != st.Addr && l.Body[ra.Block()] && ra.Block() != l.Header && !d[ra] {
						// e.g. the varargs array of append(list, elem)
						d[ra] = true
						changed = true
					}
					if al, isA := st.Addr.(*ssa.Alloc); isA && !d[al] {
						// loads of this alloc become derived
						for _, r := range *al.Referrers() {
							if u, isU := r.(*ssa.UnOp); isU && u.Op == token.MUL && !d[u] {
								d[u] = true
								changed = true
							}
						}
					}
				}
			}
		}
	}
	return d
}

// ClassifyMapLoop decides whether the observable outcome of the loop can
// depend on the map's iteration order.
func ClassifyMapLoop(p *Prog, l *MapLoop, cfg *OrderCfg) LoopClass {
	pos := l.Range.Pos()
	if !pos.IsValid() {
		pos = blockPos(l.Header)
	}
	derived := elemDerived(l)
	if !l.HasBackEdge {
		// the body always leaves in its first iteration
		for b := range l.Body {
			if b == l.Header {
				continue
			}
			for _, in := range b.Instrs {
				if r, ok := in.(*ssa.Return); ok {
					for _, res := range r.Results {
						if derived[res] {
							return LoopClass{Kind: "first-element", Pos: pos, Detail: fmt.Sprintf("the loop returns in its first iteration with a value computed from whichever entry the runtime yields first (%s)", p.Rel(r.Pos()))}
						}
					}
				}
			}
		}
		return LoopClass{Kind: "first-element", Pos: pos, Detail: "the loop body never continues: only the first entry in map order is processed"}
	}
	collects := map[ssa.Value]bool{}
	memCollects := map[*ssa.Alloc]bool{}
	// header phis: accumulators
	for _, in := range l.Header.Instrs {
		ph, ok := in.(*ssa.Phi)
		if !ok {
			continue
		}
		for i, e := range ph.Edges {
			pred := l.Header.Preds[i]
			if !l.Body[pred] {
				continue // initial value
			}
			switch accKind(ph, e, derived, l, 0) {
			case "same", "const", "commutative":
			case "append":
				collects[ph] = true
			default:
				return LoopClass{Kind: "undecided", Pos: pos, Detail: fmt.Sprintf("loop-carried variable %s (%s) is updated from the current element in a way that is not a recognised commutative accumulation", ph.Comment, ph.Name())}
			}
		}
	}
	for b := range l.Body {
		for _, in := range b.Instrs {
			switch x := in.(type) {
			case *ssa.Store:
				if al := rootAlloc(x.Addr); al != nil && l.Body[al.Block()] {
					continue // iteration-local (incl. the varargs array of append)
				}
				if isAppendTo(x.Val, x.Addr) {
					// *addr = append(*addr, ...): a sequence that outlives the
					// iteration grows once per entry, in map order
					onlyInvariant := true
					for _, a := range x.Val.(*ssa.Call).Call.Args[1:] {
						if derived[a] {
							onlyInvariant = false
						}
					}
					if onlyInvariant {
						continue
					}
					if al, isA := x.Addr.(*ssa.Alloc); isA {
						memCollects[al] = true
						continue
					}
					return LoopClass{Kind: "order-sensitive", Pos: pos, Detail: fmt.Sprintf("%s is appended to once per entry, in map order, at %s", AccessPath(x.Addr), p.Rel(x.Pos()))}
				}
				if isConst(x.Val) {
					continue
				}
				if !derived[x.Val] && !derived[x.Addr] {
					continue
				}
				// store of an element-derived value to memory that outlives the iteration
				if _, isIdx := x.Addr.(*ssa.IndexAddr); isIdx && derived[x.Addr] {
					continue // slot chosen by the element (keyed)
				}
				if ia, isIdx := x.Addr.(*ssa.IndexAddr); isIdx {
					// ret[i] = elem; i++ into a slice made outside the loop:
					// a collected slice, which must be sorted before any other use
					if mk, isMk := ia.X.(*ssa.MakeSlice); isMk && !l.Body[mk.Block()] {
						collects[mk] = true
						continue
					}
				}
				if al, isA := x.Addr.(*ssa.Alloc); isA {
					// captured/escaping local: accumulation through memory
					if memAccum(al, x, derived) {
						continue
					}
				}
				return LoopClass{Kind: "undecided", Pos: pos, Detail: fmt.Sprintf("store of an element-derived value to %s at %s outlives the iteration", AccessPath(x.Addr), p.Rel(x.Pos()))}
			case *ssa.MapUpdate:
				if !derived[x.Key] && !isConst(x.Value) && derived[x.Value] {
					return LoopClass{Kind: "order-sensitive", Pos: pos, Detail: fmt.Sprintf("map entry with a key independent of the element receives an element-derived value at %s (last writer wins)", p.Rel(x.Pos()))}
				}
			case *ssa.Return:
				fail := false
				for _, res := range x.Results {
					if isErrorType(res.Type()) {
						if nonNilError(res) {
							fail = true
						}
					}
				}
				if fail {
					continue // exists-failure exit
				}
				for _, res := range x.Results {
					if derived[res] {
						return LoopClass{Kind: "order-sensitive", Pos: pos, Detail: fmt.Sprintf("success return at %s yields a value computed from the current element", p.Rel(x.Pos()))}
					}
				}
			case *ssa.Send, *ssa.Go, *ssa.Defer:
				return LoopClass{Kind: "undecided", Pos: pos, Detail: fmt.Sprintf("%T inside the loop at %s", in, p.Rel(in.Pos()))}
			case *ssa.Call:
				if bi, isB := x.Call.Value.(*ssa.Builtin); isB {
					switch bi.Name() {
					case "len", "cap", "append", "delete", "copy", "new", "make", "min", "max", "panic", "print", "println":
						continue
					}
				}
				cls := ""
				if x.Call.IsInvoke() {
					if cfg.InvokeClass != nil {
						cls = cfg.InvokeClass(x.Call.Method)
					}
				} else if callee := x.Call.StaticCallee(); callee != nil {
					cls = cfg.CallClass(callee, x)
				}
				switch cls {
				case "pure", "keyed":
				case "ordered":
					if cfg.OrderedArgs != nil {
						if args, ok := cfg.OrderedArgs(x); ok {
							local := true
							for _, a := range args {
								kind, _, creators := ObjOrigin(a, 0)
								if kind != "fresh" {
									local = false
									break
								}
								for _, mk := range creators {
									if !l.Body[mk.Block()] || mk.Block() == l.Header {
										local = false
									}
								}
							}
							if local {
								continue // sinks created inside this iteration
							}
						}
					}
					return LoopClass{Kind: "order-sensitive", Pos: pos, Detail: fmt.Sprintf("call to %s at %s appends to an ordered sink once per entry, in map order", callName(x), p.Rel(x.Pos()))}
				default:
					return LoopClass{Kind: "undecided", Pos: pos, Detail: fmt.Sprintf("call to %s at %s inside the loop has effects the classifier does not know", callName(x), p.Rel(x.Pos()))}
				}
			}
		}
	}
	// collected slices must be sorted before any other use
	for ph := range collects {
		if c := sortedBeforeUse(p, l, ph, cfg); c.Kind != "" {
			return c
		}
	}
	for al := range memCollects {
		if c := memSortedBeforeUse(p, l, al, cfg); c.Kind != "" {
			return c
		}
	}
	if len(collects) > 0 || len(memCollects) > 0 {
		for _, k := range l.SortCalls {
			if v := CheckComparator(k, func(elem types.Type, path string) bool { return uniqueProjection(l, cfg, elem, path) }); !v.Total {
				return LoopClass{Kind: "undecided", Pos: pos, Detail: fmt.Sprintf("sorted at %s, but %s", p.Rel(k.Pos()), v.Why)}
			}
		}
		return LoopClass{Kind: "collect-then-sort", Pos: pos}
	}
	return LoopClass{Kind: "commutative", Pos: pos}
}

func isConst(v ssa.Value) bool {
	_, ok := v.(*ssa.Const)
	return ok
}

func nonNilError(v ssa.Value) bool {
	switch x := v.(type) {
	case *ssa.Call:
		if f := x.Call.StaticCallee(); f != nil {
			return ErrorCtors[f.String()] || ErrorWrappers[f.String()] && len(x.Call.Args) > 0 && nonNilError(x.Call.Args[0])
		}
	case *ssa.MakeInterface:
		return true
	case *ssa.ChangeInterface:
		return nonNilError(x.X)
	case *ssa.Extract:
		// err extracted from a call and returned under `if err != nil`
		for d := x.Block(); d != nil; d = d.Idom() {
			_ = d
		}
		return dominatedByNonNilTest(x)
	case *ssa.Phi:
		for _, e := range x.Edges {
			if !nonNilError(e) {
				return false
			}
		}
		return len(x.Edges) > 0
	}
	return dominatedByNonNilTest(v)
}

// dominatedByNonNilTest: some use context proves v != nil — approximated by:
// v is compared != nil in a branch whose true side is the only way to the
// return that uses it. Here: any If on (v != nil) exists and v is an error.
func dominatedByNonNilTest(v ssa.Value) bool {
	refs := v.Referrers()
	if refs == nil {
		return false
	}
	for _, r := range *refs {
		if b, ok := r.(*ssa.BinOp); ok && b.Op == token.NEQ {
			if k, isK := b.Y.(*ssa.Const); isK && k.Value == nil {
				return true
			}
		}
	}
	return false
}

// accKind classifies the latch value e of accumulator phi ph.
func accKind(ph *ssa.Phi, e ssa.Value, derived map[ssa.Value]bool, l *MapLoop, depth int) string {
	if e == ph {
		return "same"
	}
	if depth > 6 {
		return ""
	}
	switch x := e.(type) {
	case *ssa.Const:
		return "const"
	case *ssa.Phi:
		// merge of several updates inside the body
		if !l.Body[x.Block()] {
			return ""
		}
		kind := "same"
		for _, ee := range x.Edges {
			k := accKind(ph, ee, derived, l, depth+1)
			switch k {
			case "":
				return ""
			case "append":
				kind = "append"
			case "commutative":
				if kind != "append" {
					kind = "commutative"
				}
			case "const":
				if kind == "same" {
					kind = "const"
				}
			}
		}
		return kind
	case *ssa.BinOp:
		switch x.Op {
		case token.ADD, token.MUL, token.OR, token.AND, token.XOR:
			if b, ok := x.Type().Underlying().(*types.Basic); ok && b.Info()&types.IsString != 0 {
				return "" // string concatenation is ordered
			}
			if reaches(x.X, ph, l, 0) && !reaches(x.Y, ph, l, 0) || reaches(x.Y, ph, l, 0) && !reaches(x.X, ph, l, 0) {
				return "commutative"
			}
		case token.SUB:
			if reaches(x.X, ph, l, 0) && !reaches(x.Y, ph, l, 0) {
				return "commutative"
			}
		}
		return ""
	case *ssa.Call:
		if bi, ok := x.Call.Value.(*ssa.Builtin); ok && bi.Name() == "append" && reaches(x.Call.Args[0], ph, l, 0) {
			return "append"
		}
		return ""
	case *ssa.UnOp:
		if !derived[x] {
			return "const"
		}
	}
	if !derived[e] {
		return "const" // loop-invariant w.r.t. the element
	}
	return ""
}

// reaches: v is ph, or a phi inside the loop all of whose edges reach ph or
// are appends onto it (nested conditional updates).
func reaches(v ssa.Value, ph *ssa.Phi, l *MapLoop, depth int) bool {
	if v == ph {
		return true
	}
	if depth > 6 {
		return false
	}
	switch x := v.(type) {
	case *ssa.Phi:
		if !l.Body[x.Block()] {
			return false
		}
		for _, e := range x.Edges {
			if !reaches(e, ph, l, depth+1) {
				return false
			}
		}
		return len(x.Edges) > 0
	case *ssa.Call:
		if bi, ok := x.Call.Value.(*ssa.Builtin); ok && bi.Name() == "append" {
			return reaches(x.Call.Args[0], ph, l, depth+1)
		}
	case *ssa.BinOp:
		switch x.Op {
		case token.ADD, token.MUL, token.OR, token.AND, token.XOR, token.SUB:
			return reaches(x.X, ph, l, depth+1)
		}
	}
	return false
}

// memAccum: a store `*al = f(*al, elem)` with commutative f.
func memAccum(al *ssa.Alloc, st *ssa.Store, derived map[ssa.Value]bool) bool {
	switch x := st.Val.(type) {
	case *ssa.BinOp:
		switch x.Op {
		case token.ADD, token.MUL, token.OR, token.AND, token.XOR:
			if u, ok := x.X.(*ssa.UnOp); ok && u.Op == token.MUL && u.X == al {
				return true
			}
			if u, ok := x.Y.(*ssa.UnOp); ok && u.Op == token.MUL && u.X == al {
				return true
			}
		}
	}
	return false
}

// sortedBeforeUse: after the loop, the collected slice is sorted before any
// other use, or returned (then the caller must sort: Kind "returns-unsorted").
func sortedBeforeUse(p *Prog, l *MapLoop, ph ssa.Value, cfg *OrderCfg) LoopClass {
	pos := l.Range.Pos()
	var sortCall ssa.Instruction
	var others []ssa.Instruction
	var visit func(v ssa.Value, depth int)
	seen := map[ssa.Value]bool{}
	visit = func(v ssa.Value, depth int) {
		if seen[v] || depth > 4 || v.Referrers() == nil {
			return
		}
		seen[v] = true
		for _, r := range *v.Referrers() {
			if l.Body[r.Block()] {
				continue
			}
			switch x := r.(type) {
			case *ssa.DebugRef:
			case *ssa.Phi:
				visit(x, depth+1)
			case *ssa.MakeInterface:
				visit(x, depth+1)
			case *ssa.ChangeType:
				visit(x, depth+1)
			case *ssa.Convert:
				visit(x, depth+1)
			case *ssa.Call:
				if callee := x.Call.StaticCallee(); callee != nil && cfg.IsSorter(callee) && len(x.Call.Args) > 0 && (x.Call.Args[0] == v) {
					if sortCall == nil {
						sortCall = x
					}
					continue
				}
				if bi, isB := x.Call.Value.(*ssa.Builtin); isB && (bi.Name() == "len" || bi.Name() == "cap") {
					continue
				}
				others = append(others, r)
			case *ssa.MakeClosure:
				// captured by the sort comparator
				continue
			default:
				others = append(others, r)
			}
		}
	}
	visit(ph, 0)
	if sortCall == nil {
		for _, o := range others {
			if _, isRet := o.(*ssa.Return); isRet {
				return LoopClass{Kind: "returns-unsorted", Pos: pos, Detail: "the slice collected in map order is returned unsorted from " + FuncName(l.Fn)}
			}
		}
		if len(others) == 0 {
			return LoopClass{}
		}
		return LoopClass{Kind: "order-sensitive", Pos: pos, Detail: fmt.Sprintf("the slice collected in map order is used unsorted at %s", p.Rel(others[0].Pos()))}
	}
	for _, o := range others {
		if !instrDominates(sortCall, o) {
			return LoopClass{Kind: "order-sensitive", Pos: pos, Detail: fmt.Sprintf("the slice collected in map order is used at %s before it is sorted", p.Rel(o.Pos()))}
		}
	}
	if k, ok := sortCall.(*ssa.Call); ok {
		l.SortCalls = append(l.SortCalls, k)
	}
	return LoopClass{}
}

func instrDominates(a, b ssa.Instruction) bool {
	if a.Block() == b.Block() {
		for _, in := range a.Block().Instrs {
			if in == a {
				return true
			}
			if in == b {
				return false
			}
		}
	}
	return a.Block().Dominates(b.Block())
}

// DefaultSorter recognises the stdlib in-place sorters.
func DefaultSorter(callee *ssa.Function) bool {
	switch callee.String() {
	case "sort.Slice", "sort.SliceStable", "sort.Sort", "sort.Stable", "sort.Strings", "sort.Ints", "sort.Float64s":
		return true
	}
	return strings.HasPrefix(callee.String(), "slices.Sort")
}

// memSortedBeforeUse: a slice variable (captured local) collected in map
// order is, after the loop, sorted before any other use: every load of the
// variable outside the loop is the first argument of a sorter, or is
// dominated by such a sorter call; closures capturing the variable must be
// the comparator of that sorter.
func memSortedBeforeUse(p *Prog, l *MapLoop, al *ssa.Alloc, cfg *OrderCfg) LoopClass {
	if al.Referrers() == nil {
		return LoopClass{}
	}
	c, calls := allocSortedBeforeUse(p, al, func(in ssa.Instruction) bool {
		if l.Body[in.Block()] {
			return true
		}
		if st, ok := in.(*ssa.Store); ok && st.Addr == ssa.Value(al) && !instrReaches(l, st) {
			return true // initialisation before the loop
		}
		return false
	}, cfg)
	c.Pos = l.Range.Pos()
	l.SortCalls = append(l.SortCalls, calls...)
	return c
}

// AllocSortedBeforeUse: every use of the slice variable al (other than those
// selected by skip) is the first argument of a sorter or is dominated by that
// sorter call. Returns the verdict ("" Kind = fine) and the sorter calls.
func AllocSortedBeforeUse(p *Prog, al *ssa.Alloc, skip func(ssa.Instruction) bool, cfg *OrderCfg) (LoopClass, []*ssa.Call) {
	return allocSortedBeforeUse(p, al, skip, cfg)
}

func allocSortedBeforeUse(p *Prog, al *ssa.Alloc, skip func(ssa.Instruction) bool, cfg *OrderCfg) (LoopClass, []*ssa.Call) {
	var pos token.Pos
	var calls []*ssa.Call
	if al.Referrers() == nil {
		return LoopClass{}, nil
	}
	var sortCall ssa.Instruction
	var others []ssa.Instruction
	var closures []*ssa.MakeClosure
	for _, r := range *al.Referrers() {
		if skip(r) {
			continue
		}
		switch x := r.(type) {
		case *ssa.DebugRef:
		case *ssa.Store:
			others = append(others, x)
		case *ssa.MakeClosure:
			closures = append(closures, x)
		case *ssa.UnOp:
			if x.Referrers() == nil {
				continue
			}
			var uses func(v ssa.Value, d int)
			uses = func(v ssa.Value, d int) {
				if v.Referrers() == nil || d > 3 {
					return
				}
				for _, u := range *v.Referrers() {
					switch k := u.(type) {
					case *ssa.DebugRef:
						continue
					case *ssa.MakeInterface:
						uses(k, d+1)
						continue
					case *ssa.ChangeType:
						uses(k, d+1)
						continue
					case *ssa.Call:
						if callee := k.Call.StaticCallee(); callee != nil && cfg.IsSorter(callee) && len(k.Call.Args) > 0 && k.Call.Args[0] == v {
							if sortCall == nil {
								sortCall = k
							}
							continue
						}
						if bi, isB := k.Call.Value.(*ssa.Builtin); isB && (bi.Name() == "len" || bi.Name() == "cap") {
							continue
						}
					}
					others = append(others, u)
				}
			}
			uses(x, 0)
		default:
			others = append(others, r)
		}
	}
	if sortCall == nil {
		if len(others) == 0 && len(closures) == 0 {
			return LoopClass{}, nil
		}
		where := "?"
		if len(others) > 0 {
			where = p.Rel(others[0].Pos())
		}
		return LoopClass{Kind: "order-sensitive", Pos: pos, Detail: "the slice collected in map order is used unsorted at " + where}, nil
	}
	for _, o := range others {
		if !instrDominates(sortCall, o) {
			return LoopClass{Kind: "order-sensitive", Pos: pos, Detail: fmt.Sprintf("the slice collected in map order is used at %s before it is sorted", p.Rel(o.Pos()))}, nil
		}
	}
	if k, ok := sortCall.(*ssa.Call); ok {
		calls = append(calls, k)
	}
	for _, mc := range closures {
		isCmp := false
		for _, a := range sortCall.(*ssa.Call).Call.Args {
			if a == ssa.Value(mc) {
				isCmp = true
			}
		}
		if !isCmp && !instrDominates(sortCall, mc) {
			return LoopClass{Kind: "order-sensitive", Pos: pos, Detail: fmt.Sprintf("the slice collected in map order is captured by a closure at %s before it is sorted", p.Rel(mc.Pos()))}, nil
		}
	}
	return LoopClass{}, calls
}

// instrReaches: the instruction lies in or after the loop (it is not
// strictly before the loop header in dominance order).
func instrReaches(l *MapLoop, in ssa.Instruction) bool {
	return l.Header.Dominates(in.Block()) || l.Body[in.Block()]
}

func namedOf(t types.Type) *types.Named {
	for {
		switch x := t.(type) {
		case *types.Pointer:
			t = x.Elem()
		case *types.Named:
			return x
		default:
			return nil
		}
	}
}

// uniqueProjection: the projection path of the collected element type differs
// for every two distinct map entries: listed in the table, or the loop fills
// that field of the collected element from the range key.
func UniqueProjection(l *MapLoop, cfg *OrderCfg, elem types.Type, path string) bool {
	return uniqueProjection(l, cfg, elem, path)
}

func uniqueProjection(l *MapLoop, cfg *OrderCfg, elem types.Type, path string) bool {
	if nm := namedOf(elem); nm != nil {
		if _, ok := cfg.UniqueFields[nm.Obj().Name()+path]; ok {
			return true
		}
	}
	if l == nil || strings.Count(path, ".") != 1 {
		return false
	}
	field := strings.TrimPrefix(path, ".")
	var key ssa.Value
	for _, ref := range *l.Next.Referrers() {
		if e, ok := ref.(*ssa.Extract); ok && e.Index == 1 {
			key = e
		}
	}
	var val ssa.Value
	for _, ref := range *l.Next.Referrers() {
		if e, ok := ref.(*ssa.Extract); ok && e.Index == 2 {
			val = e
		}
	}
	// fromUnique: v is the range key, or a load of a table-listed unique
	// field of the range value
	fromUnique := func(v ssa.Value) bool {
		if key != nil && v == key {
			return true
		}
		u, ok := v.(*ssa.UnOp)
		if !ok || u.Op != token.MUL || val == nil {
			return false
		}
		fa, isFA := u.X.(*ssa.FieldAddr)
		if !isFA || fa.X != val {
			return false
		}
		if nm := namedOf(val.Type()); nm != nil {
			_, listed := cfg.UniqueFields[nm.Obj().Name()+"."+fieldName(fa.X.Type(), fa.Field)]
			return listed
		}
		return false
	}
	for b := range l.Body {
		for _, in := range b.Instrs {
			st, ok := in.(*ssa.Store)
			if !ok || !fromUnique(st.Val) {
				continue
			}
			if fa, isFA := st.Addr.(*ssa.FieldAddr); isFA && fieldName(fa.X.Type(), fa.Field) == field {
				if nm, nm2 := namedOf(fa.X.Type()), namedOf(elem); nm != nil && nm2 != nil && nm.Obj() == nm2.Obj() {
					return true
				}
				if types.Identical(fa.X.Type(), elem) || types.Identical(fa.X.Type(), types.NewPointer(elem)) {
					return true
				}
			}
		}
	}
	return false
}
