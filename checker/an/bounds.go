package an

import (
	"fmt"
	"strings"
	"go/constant"
	"go/token"
	"go/types"

	"golang.org/x/tools/go/ssa"
)

// Bounds analysis (part of C12): slice and index expressions whose bounds
// derive from a call result (a value popped from the VM stack, decoded from
// input, ...) must be proven in range by comparisons that dominate them. The
// proof is a small inequality closure over SSA values; sums need explicit
// no-overflow facts (both addends bounded by a length).

// BoundSite is one slice/index expression with a call-derived bound.
type BoundSite struct {
	In   ssa.Instruction
	Kind string // "slice" | "index"
	Base ssa.Value
	Low  ssa.Value // slice low (nil = 0)
	High ssa.Value // slice high (nil = len)
	Idx  ssa.Value // index
}

func (s BoundSite) Pos() token.Pos { return s.In.Pos() }

func callDerived(v ssa.Value, depth int, seen map[ssa.Value]bool) bool {
	if v == nil || depth > 8 || seen[v] {
		return false
	}
	seen[v] = true
	switch x := v.(type) {
	case *ssa.Call:
		if bi, ok := x.Call.Value.(*ssa.Builtin); ok {
			switch bi.Name() {
			case "len", "cap", "min", "max":
				return false
			}
		}
		return true
	case *ssa.Extract:
		_, isCall := x.Tuple.(*ssa.Call)
		return isCall
	case *ssa.BinOp:
		return callDerived(x.X, depth+1, seen) || callDerived(x.Y, depth+1, seen)
	case *ssa.Convert:
		return callDerived(x.X, depth+1, seen)
	case *ssa.ChangeType:
		return callDerived(x.X, depth+1, seen)
	case *ssa.UnOp:
		if x.Op == token.SUB {
			return callDerived(x.X, depth+1, seen)
		}
		// load of a field/local: treat loads of struct fields as opaque inputs
		return false
	case *ssa.Phi:
		for _, e := range x.Edges {
			if callDerived(e, depth+1, seen) {
				return true
			}
		}
	}
	return false
}

// BoundSites lists the slice/index expressions of fn with a call-derived bound.
func BoundSites(fn *ssa.Function) []BoundSite {
	var out []BoundSite
	der := func(v ssa.Value) bool { return v != nil && callDerived(v, 0, map[ssa.Value]bool{}) }
	for _, b := range fn.Blocks {
		for _, in := range b.Instrs {
			switch x := in.(type) {
			case *ssa.Slice:
				if der(x.Low) || der(x.High) {
					out = append(out, BoundSite{In: x, Kind: "slice", Base: x.X, Low: x.Low, High: x.High})
				}
			case *ssa.IndexAddr:
				if der(x.Index) {
					out = append(out, BoundSite{In: x, Kind: "index", Base: x.X, Idx: x.Index})
				}
			case *ssa.Index:
				if der(x.Index) {
					out = append(out, BoundSite{In: x, Kind: "index", Base: x.X, Idx: x.Index})
				}
			}
		}
	}
	return out
}

// term is a canonical operand of an inequality.
type term struct {
	v ssa.Value // nil for constants
	c int64
	isConst bool
	lenOf   string // non-empty: len() of the object with this access path / value name
	sym     string // non-empty: an opaque key (used when renaming a helper's facts into its caller)
}

func (t term) key() string {
	switch {
	case t.isConst:
		return fmt.Sprintf("#%d", t.c)
	case t.lenOf != "":
		return "len(" + t.lenOf + ")"
	case t.sym != "":
		return t.sym
	}
	// sums and differences of simple terms get a structural key, so that the
	// same expression computed twice (or in a helper) is one term
	if bo, ok := t.v.(*ssa.BinOp); ok && (bo.Op == token.ADD || bo.Op == token.SUB) && isIntType(bo.Type()) {
		a, b := mkTerm(bo.X), mkTerm(bo.Y)
		if bo.Op == token.ADD {
			if a.isConst && a.c == 0 {
				return b.key()
			}
			if b.isConst && b.c == 0 {
				return a.key()
			}
			ka, kb := a.key(), b.key()
			if ka > kb {
				ka, kb = kb, ka
			}
			return "(" + ka + "+" + kb + ")"
		}
		if b.isConst && b.c == 0 {
			return a.key()
		}
		return "(" + a.key() + "-" + b.key() + ")"
	}
	return "%" + t.v.Name() + "@" + t.v.Parent().Name()
}

func objKey(v ssa.Value) string {
	for i := 0; i < 4; i++ {
		switch x := v.(type) {
		case *ssa.ChangeType:
			v = x.X
			continue
		case *ssa.Convert:
			v = x.X
			continue
		}
		break
	}
	if ap := AccessPath(v); ap != "" {
		return ap
	}
	return "%" + v.Name()
}

func mkTerm(v ssa.Value) term {
	for i := 0; i < 6; i++ {
		switch x := v.(type) {
		case *ssa.Convert:
			// integer conversions that cannot change the value's order are
			// looked through (same or wider signed width); narrowing is opaque
			if isIntType(x.Type()) && isIntType(x.X.Type()) && intBits(x.Type()) >= intBits(x.X.Type()) {
				v = x.X
				continue
			}
		case *ssa.ChangeType:
			v = x.X
			continue
		}
		break
	}
	switch x := v.(type) {
	case *ssa.Const:
		if x.Value != nil && x.Value.Kind() == constant.Int {
			if i, ok := constant.Int64Val(x.Value); ok {
				return term{isConst: true, c: i}
			}
		}
	case *ssa.Call:
		if bi, ok := x.Call.Value.(*ssa.Builtin); ok && (bi.Name() == "len" || bi.Name() == "cap") {
			return term{lenOf: objKey(x.Call.Args[0])}
		}
		// a method that returns len(recv.F): the length of that field
		if callee := x.Call.StaticCallee(); callee != nil && len(x.Call.Args) == 1 {
			if f := returnsLenOfField(callee); f != "" {
				return term{lenOf: objKey(x.Call.Args[0]) + "." + f}
			}
		}
	}
	return term{v: v}
}

// returnsLenOfField: every return of fn is (a widening conversion of)
// len(recv.F); returns F.
func returnsLenOfField(fn *ssa.Function) string {
	if fn.Blocks == nil || len(fn.Params) != 1 || fn.Signature.Results().Len() != 1 {
		return ""
	}
	out := ""
	for _, r := range Returns(fn) {
		v := r.Results[0]
		if cv, ok := v.(*ssa.Convert); ok {
			v = cv.X
		}
		k, ok := v.(*ssa.Call)
		if !ok {
			return ""
		}
		bi, isB := k.Call.Value.(*ssa.Builtin)
		if !isB || bi.Name() != "len" {
			return ""
		}
		u, isU := k.Call.Args[0].(*ssa.UnOp)
		if !isU {
			return ""
		}
		fa, isFA := u.X.(*ssa.FieldAddr)
		if !isFA || fa.X != ssa.Value(fn.Params[0]) {
			return ""
		}
		name := fieldName(fa.X.Type(), fa.Field)
		if out != "" && out != name {
			return ""
		}
		out = name
	}
	return out
}

func isIntType(t types.Type) bool {
	b, ok := t.Underlying().(*types.Basic)
	return ok && b.Info()&types.IsInteger != 0
}

func intBits(t types.Type) int {
	b, ok := t.Underlying().(*types.Basic)
	if !ok {
		return 0
	}
	switch b.Kind() {
	case types.Int8, types.Uint8:
		return 8
	case types.Int16, types.Uint16:
		return 16
	case types.Int32, types.Uint32:
		return 32
	}
	return 64
}

func isUnsigned(t types.Type) bool {
	b, ok := t.Underlying().(*types.Basic)
	return ok && b.Info()&types.IsUnsigned != 0
}

// facts: a set of "a <= b" edges (strict ones recorded as a <= b too, plus
// strict flag), over term keys.
type facts struct {
	le map[string]map[string]bool // a -> b : a <= b
}

func (f *facts) add(a, b term) {
	f.addKeys(a.key(), b.key())
	// 0 <= x - y  gives  y <= x
	if a.isConst && a.c >= 0 && b.v != nil {
		if bo, ok := b.v.(*ssa.BinOp); ok && bo.Op == token.SUB {
			f.addKeys(mkTerm(bo.Y).key(), mkTerm(bo.X).key())
		}
	}
}

func (f *facts) addKeys(a, b string) {
	if f.le[a] == nil {
		f.le[a] = map[string]bool{}
	}
	f.le[a][b] = true
}

// leq: a <= b follows from the facts (reflexive-transitive closure, with
// constant comparison and len >= 0).
func (f *facts) leq(a, b term) bool {
	if a.key() == b.key() {
		return true
	}
	if a.isConst && b.isConst {
		return a.c <= b.c
	}
	if a.isConst && a.c <= 0 && b.lenOf != "" {
		return true
	}
	seen := map[string]bool{}
	var dfs func(k string) bool
	dfs = func(k string) bool {
		if k == b.key() {
			return true
		}
		if seen[k] {
			return false
		}
		seen[k] = true
		// constant successor: if k <= #c and #c <= b
		for n := range f.le[k] {
			if n == b.key() {
				return true
			}
			if len(n) > 0 && n[0] == '#' && b.isConst {
				var c int64
				fmt.Sscanf(n[1:], "%d", &c)
				if c <= b.c {
					return true
				}
			}
			if len(n) > 0 && n[0] == '#' && b.lenOf != "" {
				var c int64
				fmt.Sscanf(n[1:], "%d", &c)
				if c <= 0 {
					return true
				}
			}
			if dfs(n) {
				return true
			}
		}
		return false
	}
	if a.isConst {
		// #c <= x if some #d >= c with #d <= x recorded
		for k := range f.le {
			if len(k) > 0 && k[0] == '#' {
				var d int64
				fmt.Sscanf(k[1:], "%d", &d)
				if d >= a.c && dfs(k) {
					return true
				}
			}
		}
		return false
	}
	return dfs(a.key())
}

// learnCond adds the inequalities implied by cond == pol.
func (f *facts) learnCond(cond ssa.Value, pol bool, depth int) {
	if depth > 6 {
		return
	}
	switch x := cond.(type) {
	case *ssa.UnOp:
		if x.Op == token.NOT {
			f.learnCond(x.X, !pol, depth+1)
		}
	case *ssa.Call:
		// a boolean helper: what its single true-return implies, renamed to the arguments
		if pol {
			f.learnHelper(x)
		}
	case *ssa.BinOp:
		if !isIntType(x.X.Type()) {
			return
		}
		a, b := mkTerm(x.X), mkTerm(x.Y)
		op := x.Op
		if !pol {
			switch op {
			case token.LSS:
				op = token.GEQ
			case token.LEQ:
				op = token.GTR
			case token.GTR:
				op = token.LEQ
			case token.GEQ:
				op = token.LSS
			case token.EQL:
				op = token.NEQ
			case token.NEQ:
				op = token.EQL
			}
		}
		switch op {
		case token.LSS:
			f.add(a, b)
			// a < b  =>  a <= b-1 for constants
			if b.isConst {
				f.add(a, term{isConst: true, c: b.c - 1})
			}
			if a.isConst {
				f.add(term{isConst: true, c: a.c + 1}, b)
			}
		case token.LEQ:
			f.add(a, b)
		case token.GTR:
			f.add(b, a)
			if a.isConst {
				f.add(b, term{isConst: true, c: a.c - 1})
			}
			if b.isConst {
				f.add(term{isConst: true, c: b.c + 1}, a)
			}
		case token.GEQ:
			f.add(b, a)
		case token.EQL:
			f.add(a, b)
			f.add(b, a)
		}
	}
}

// factsAt collects the inequalities that hold whenever in executes: from
// every If whose taken edge dominates in's block.
func factsAt(fn *ssa.Function, in ssa.Instruction) *facts {
	f := &facts{le: map[string]map[string]bool{}}
	b := in.Block()
	for d := b; d != nil; d = d.Idom() {
		p := d.Idom()
		if p == nil {
			break
		}
		// edge p->d is the only way into d?
		if len(d.Preds) != 1 || d.Preds[0] != p {
			// d may still be reached only through one edge of an If in p when
			// other preds are dominated by d (loop header): skip
			continue
		}
		iff, ok := p.Instrs[len(p.Instrs)-1].(*ssa.If)
		if !ok {
			continue
		}
		if p.Succs[0] == d && p.Succs[1] != d {
			f.learnCond(iff.Cond, true, 0)
		} else if p.Succs[1] == d && p.Succs[0] != d {
			f.learnCond(iff.Cond, false, 0)
		}
	}
	// unsigned values are >= 0
	return f
}

// BoundsResult is the verdict for one site.
type BoundsResult struct {
	OK  bool
	Why string
}

func nonNeg(f *facts, v ssa.Value) bool {
	if v == nil {
		return true
	}
	t := mkTerm(v)
	if t.isConst {
		return t.c >= 0
	}
	if t.lenOf != "" {
		return true
	}
	if t.v != nil && isUnsigned(t.v.Type()) {
		return true
	}
	if f.leq(term{isConst: true, c: 0}, t) {
		return true
	}
	// x - y with y <= x
	if bo, ok := t.v.(*ssa.BinOp); ok && bo.Op == token.SUB {
		return f.leq(mkTerm(bo.Y), mkTerm(bo.X)) && noOverflowOperands(f, bo)
	}
	if bo, ok := t.v.(*ssa.BinOp); ok && bo.Op == token.ADD {
		return nonNeg(f, bo.X) && nonNeg(f, bo.Y) && noOverflowOperands(f, bo)
	}
	return false
}

// noOverflowOperands: both operands of an add/sub are bounded above by some
// length or a small constant and below by 0 (so the machine result is the
// mathematical one).
func noOverflowOperands(f *facts, bo *ssa.BinOp) bool {
	bounded := func(v ssa.Value) bool {
		t := mkTerm(v)
		if t.isConst {
			return t.c >= -(1<<40) && t.c <= 1<<40
		}
		if t.lenOf != "" {
			return true
		}
		if intBits(v.Type()) <= 32 {
			return true
		}
		// v <= some len or small constant
		for n := range f.le[t.key()] {
			if len(n) > 4 && n[:4] == "len(" {
				return true
			}
			if len(n) > 0 && n[0] == '#' {
				var c int64
				fmt.Sscanf(n[1:], "%d", &c)
				if c <= 1<<40 {
					return true
				}
			}
		}
		return false
	}
	low := func(v ssa.Value) bool {
		t := mkTerm(v)
		return t.isConst || t.lenOf != "" || (t.v != nil && (isUnsigned(t.v.Type()) || f.leq(term{isConst: true, c: 0}, t))) || intBits(v.Type()) <= 32
	}
	return bounded(bo.X) && bounded(bo.Y) && low(bo.X) && low(bo.Y)
}

// upperLen: v <= len(base)
func upperLen(f *facts, v ssa.Value, base ssa.Value, strict bool) bool {
	t := mkTerm(v)
	L := term{lenOf: objKey(base)}
	if _, isArr := derefArray(base.Type()); isArr {
		n, _ := derefArray(base.Type())
		L = term{isConst: true, c: n}
	}
	if strict {
		// v < len: v <= len-1: accept recorded strict facts as v <= L with v != L unknown; approximate by searching v <= x where x < L recorded
		if t.isConst && L.isConst {
			return t.c < L.c
		}
		// strict facts were added as a <= b only for non-constants; require an explicit a < b comparison: look for edge to L and a recorded strict marker
		return f.leq(t, L) && f.strictLess(t, L)
	}
	if f.leq(t, L) {
		return true
	}
	// x - y <= len when x <= len and y >= 0
	if bo, ok := t.v.(*ssa.BinOp); ok && bo.Op == token.SUB {
		return f.leq(mkTerm(bo.X), L) && nonNeg(f, bo.Y) && noOverflowOperands(f, bo)
	}
	return false
}

func derefArray(t types.Type) (int64, bool) {
	if p, ok := t.Underlying().(*types.Pointer); ok {
		t = p.Elem()
	}
	if a, ok := t.Underlying().(*types.Array); ok {
		return a.Len(), true
	}
	return 0, false
}

func (f *facts) strictLess(a, b term) bool {
	// a < b recorded as a <= b-1 for constant b; for len bounds we record a
	// marker edge a -> "<"+b
	return f.le[a.key()]["<"+b.key()]
}

// ProveBounds tries to prove the site in range.
func ProveBounds(fn *ssa.Function, s BoundSite) BoundsResult {
	f := factsAt(fn, s.In)
	// record strict markers: re-walk conditions
	markStrict(fn, s.In, f)
	switch s.Kind {
	case "slice":
		if !nonNeg(f, s.Low) {
			return BoundsResult{Why: "lower bound not proven >= 0"}
		}
		if s.High != nil && !upperLen(f, s.High, s.Base, false) {
			return BoundsResult{Why: "upper bound not proven <= len"}
		}
		if s.High == nil && s.Low != nil && !upperLen(f, s.Low, s.Base, false) {
			return BoundsResult{Why: "lower bound not proven <= len"}
		}
		if s.Low != nil && s.High != nil {
			lo, hi := mkTerm(s.Low), mkTerm(s.High)
			ok := f.leq(lo, hi)
			if !ok {
				// hi = lo + c with c >= 0 and no overflow
				if bo, isB := hi.v.(*ssa.BinOp); hi.v != nil && isB && bo.Op == token.ADD {
					if mkTerm(bo.X).key() == lo.key() && nonNeg(f, bo.Y) && noOverflowOperands(f, bo) {
						ok = true
					}
					if mkTerm(bo.Y).key() == lo.key() && nonNeg(f, bo.X) && noOverflowOperands(f, bo) {
						ok = true
					}
				}
			}
			if !ok {
				return BoundsResult{Why: "low <= high not proven (a sum needs both addends bounded to exclude overflow)"}
			}
		}
		return BoundsResult{OK: true}
	case "index":
		// an index of a narrow unsigned type into an array that has an element for every value of that type
		if n, isArr := derefArray(s.Base.Type()); isArr && isUnsigned(s.Idx.Type()) && intBits(s.Idx.Type()) <= 16 && n >= int64(1)<<uint(intBits(s.Idx.Type())) {
			return BoundsResult{OK: true}
		}
		if !nonNeg(f, s.Idx) {
			return BoundsResult{Why: "index not proven >= 0"}
		}
		if !upperLen(f, s.Idx, s.Base, true) {
			return BoundsResult{Why: "index not proven < len"}
		}
		return BoundsResult{OK: true}
	}
	return BoundsResult{Why: "unknown site kind"}
}

func markStrict(fn *ssa.Function, in ssa.Instruction, f *facts) {
	b := in.Block()
	for d := b; d != nil; d = d.Idom() {
		p := d.Idom()
		if p == nil {
			break
		}
		if len(d.Preds) != 1 || d.Preds[0] != p {
			continue
		}
		iff, ok := p.Instrs[len(p.Instrs)-1].(*ssa.If)
		if !ok {
			continue
		}
		pol := p.Succs[0] == d
		markStrictCond(iff.Cond, pol, f, 0)
	}
}

func markStrictCond(cond ssa.Value, pol bool, f *facts, depth int) {
	if depth > 6 {
		return
	}
	switch x := cond.(type) {
	case *ssa.UnOp:
		if x.Op == token.NOT {
			markStrictCond(x.X, !pol, f, depth+1)
		}
	case *ssa.BinOp:
		if !isIntType(x.X.Type()) {
			return
		}
		a, b := mkTerm(x.X), mkTerm(x.Y)
		op := x.Op
		if !pol {
			switch op {
			case token.LSS:
				op = token.GEQ
			case token.LEQ:
				op = token.GTR
			case token.GTR:
				op = token.LEQ
			case token.GEQ:
				op = token.LSS
			}
		}
		mark := func(a, b term) {
			if f.le[a.key()] == nil {
				f.le[a.key()] = map[string]bool{}
			}
			f.le[a.key()]["<"+b.key()] = true
		}
		switch op {
		case token.LSS:
			mark(a, b)
		case token.GTR:
			mark(b, a)
		}
	}
}

// learnHelper: call is a static call to a function returning one bool. If the
// function has exactly one return that can yield true, the inequalities that
// dominate that return (plus the returned comparison itself) hold in the
// caller after substituting the arguments for the parameters.
func (f *facts) learnHelper(call *ssa.Call) {
	callee := call.Call.StaticCallee()
	if callee == nil || callee.Blocks == nil || callee.Signature.Results().Len() != 1 || len(callee.Blocks) > 24 {
		return
	}
	if b, ok := callee.Signature.Results().At(0).Type().Underlying().(*types.Basic); !ok || b.Kind() != types.Bool {
		return
	}
	var trueRet *ssa.Return
	for _, r := range Returns(callee) {
		if k, isK := r.Results[0].(*ssa.Const); isK && k.Value != nil && !constant.BoolVal(k.Value) {
			continue
		}
		if trueRet != nil {
			return // several ways to return true: not summarised
		}
		trueRet = r
	}
	if trueRet == nil {
		return
	}
	hf := factsAt(callee, trueRet)
	if _, isK := trueRet.Results[0].(*ssa.Const); !isK {
		hf.learnCond(trueRet.Results[0], true, 0)
	}
	// rename parameter keys to argument keys
	ren := map[string]string{}
	for i, p := range callee.Params {
		if i < len(call.Call.Args) {
			ren[mkTerm(p).key()] = mkTerm(call.Call.Args[i]).key()
		}
	}
	rename := func(k string) (string, bool) {
		out := k
		for from, to := range ren {
			out = strings.ReplaceAll(out, from, to)
		}
		// keys still naming callee-local values cannot be transferred
		if strings.Contains(out, "@"+callee.Name()) {
			return "", false
		}
		return canonKey(normKey(out)), true
	}
	for a, bs := range hf.le {
		ka, ok := rename(a)
		if !ok {
			continue
		}
		for b := range bs {
			strict := strings.HasPrefix(b, "<")
			kb, ok2 := rename(strings.TrimPrefix(b, "<"))
			if !ok2 {
				continue
			}
			if strict {
				kb = "<" + kb
			}
			f.addKeys(ka, kb)
			// #c <= (X-Y) with c >= 0 gives Y <= X
			if !strict && strings.HasPrefix(ka, "#") && !strings.HasPrefix(ka, "#-") {
				if x, y, ok := splitDiff(kb); ok {
					f.addKeys(y, x)
				}
			}
		}
	}
}

// normKey simplifies "(#0+x)" / "(x+#0)" / "(x-#0)" produced by substitution.
func normKey(k string) string {
	for _, pat := range []string{"(#0+", "+#0)", "-#0)"} {
		for strings.Contains(k, pat) {
			i := strings.Index(k, pat)
			switch pat {
			case "(#0+":
				// find matching ')'
				depth, j := 0, i
				for ; j < len(k); j++ {
					if k[j] == '(' {
						depth++
					} else if k[j] == ')' {
						depth--
						if depth == 0 {
							break
						}
					}
				}
				k = k[:i] + k[i+4:j] + k[j+1:]
			default:
				// find matching '(' backwards
				depth, j := 0, i+len(pat)-1
				for ; j >= 0; j-- {
					if k[j] == ')' {
						depth++
					} else if k[j] == '(' {
						depth--
						if depth == 0 {
							break
						}
					}
				}
				k = k[:j] + k[j+1:i] + k[i+len(pat):]
			}
		}
	}
	return k
}

// canonKey re-sorts the operands of sums after a substitution changed them.
func canonKey(k string) string {
	if len(k) < 2 || k[0] != '(' || k[len(k)-1] != ')' {
		return k
	}
	depth := 0
	for i := 1; i < len(k)-1; i++ {
		switch k[i] {
		case '(':
			depth++
		case ')':
			depth--
		case '+', '-':
			if depth == 0 && i > 1 {
				a, b := canonKey(k[1:i]), canonKey(k[i+1:len(k)-1])
				if k[i] == '+' && a > b {
					a, b = b, a
				}
				return "(" + a + string(k[i]) + b + ")"
			}
		}
	}
	return k
}

// splitDiff parses a key of the form "(X-Y)" at top level.
func splitDiff(k string) (x, y string, ok bool) {
	if len(k) < 2 || k[0] != '(' || k[len(k)-1] != ')' {
		return "", "", false
	}
	depth := 0
	for i := 1; i < len(k)-1; i++ {
		switch k[i] {
		case '(':
			depth++
		case ')':
			depth--
		case '-':
			if depth == 0 && i > 1 && k[i-1] != '#' {
				return k[1:i], k[i+1 : len(k)-1], true
			}
		}
	}
	return "", "", false
}

// ProveLeqAt: a <= b follows from the comparisons that dominate instruction at.
func ProveLeqAt(fn *ssa.Function, at ssa.Instruction, a, b ssa.Value) bool {
	f := factsAt(fn, at)
	return f.leq(mkTerm(a), mkTerm(b))
}

// LenKeyOfField returns the structural key under which len(<x>.field) is known in fn's facts (from any load of that
// field in fn), or "".
func LenKeyOfField(fn *ssa.Function, field *types.Var) string {
	for _, b := range fn.Blocks {
		for _, in := range b.Instrs {
			if u, ok := in.(*ssa.UnOp); ok && u.Op == token.MUL && FieldOf(u.X) == field {
				return objKey(u)
			}
		}
	}
	return ""
}

// ProveLeqLen: v <= len(lenKey) holds whenever `at` executes (comparisons that dominate it), or - with an edge given -
// whenever control passes from pred to succ (the comparisons that dominate pred plus pred's own branch condition).
func ProveLeqLen(fn *ssa.Function, at ssa.Instruction, pred, succ *ssa.BasicBlock, v ssa.Value, lenKey string) bool {
	var f *facts
	if pred != nil {
		f = factsAt(fn, pred.Instrs[len(pred.Instrs)-1])
		if iff, ok := pred.Instrs[len(pred.Instrs)-1].(*ssa.If); ok && pred.Succs[0] != pred.Succs[1] {
			if pred.Succs[0] == succ {
				f.learnCond(iff.Cond, true, 0)
			} else if pred.Succs[1] == succ {
				f.learnCond(iff.Cond, false, 0)
			}
		}
	} else {
		f = factsAt(fn, at)
	}
	return f.leq(mkTerm(v), term{lenOf: lenKey})
}

// ProveLeqConstAt: v <= c follows from the comparisons that dominate instruction at.
func ProveLeqConstAt(fn *ssa.Function, at ssa.Instruction, v ssa.Value, c int64) bool {
	f := factsAt(fn, at)
	return f.leq(mkTerm(v), term{isConst: true, c: c})
}
