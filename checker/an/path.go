package an

import (
	"fmt"
	"go/constant"
	"go/token"
	"go/types"
	"strings"

	"golang.org/x/tools/go/ssa"
)

// ---------------------------------------------------------------------------
// Abstract values: a tiny constant / nil-ness lattice used to fold branch
// conditions on the SSA CFG.

type AbsKind int

const (
	KUnknown AbsKind = iota
	KNil
	KNonNil
	KConst
)

type Abs struct {
	K AbsKind
	C constant.Value
}

var (
	AUnknown = Abs{}
	ANil     = Abs{K: KNil}
	ANonNil  = Abs{K: KNonNil}
	ATrue    = Abs{K: KConst, C: constant.MakeBool(true)}
	AFalse   = Abs{K: KConst, C: constant.MakeBool(false)}
)

func AInt(i int64) Abs { return Abs{K: KConst, C: constant.MakeInt64(i)} }

func (a Abs) String() string {
	switch a.K {
	case KNil:
		return "nil"
	case KNonNil:
		return "non-nil"
	case KConst:
		return a.C.String()
	}
	return "?"
}

func (a Abs) IsBool() (val, ok bool) {
	if a.K == KConst && a.C.Kind() == constant.Bool {
		return constant.BoolVal(a.C), true
	}
	return false, false
}

// Same reports whether a and b are the same known abstract value.
func (a Abs) Same(b Abs) bool {
	if a.K != b.K || a.K == KUnknown {
		return false
	}
	if a.K == KConst {
		if a.C.Kind() != b.C.Kind() {
			return false
		}
		return constant.Compare(a.C, token.EQL, b.C)
	}
	return true
}

// Contradicts reports whether a and b are both known and different.
func (a Abs) Contradicts(b Abs) bool {
	if a.K == KUnknown || b.K == KUnknown {
		return false
	}
	if a.K == KConst && b.K == KConst {
		if a.C.Kind() != b.C.Kind() {
			return false
		}
		return !constant.Compare(a.C, token.EQL, b.C)
	}
	if a.K == KConst || b.K == KConst {
		return false
	}
	return a.K != b.K
}

// ErrorCtors are functions whose result is always a non-nil error.
var ErrorCtors = map[string]bool{
	"errors.New":                   true,
	"fmt.Errorf":                   true,
	RepoMod + "/errors.NewErr":     true,
	"github.com/pkg/errors.New":    true,
	"github.com/pkg/errors.Errorf": true,
}

// ErrorWrappers return nil iff their first argument is nil.
var ErrorWrappers = map[string]bool{
	RepoMod + "/errors.NewDetailErr":  true,
	"github.com/pkg/errors.Wrap":      true,
	"github.com/pkg/errors.Wrapf":     true,
	"github.com/pkg/errors.WithStack": true,
}

// ---------------------------------------------------------------------------
// Path query

// Query is a reachability question on one function's SSA CFG, with branch
// folding under assumptions. Paths stop *before* executing an instruction in
// Cut.
type Query struct {
	Fn     *ssa.Function
	Assume map[ssa.Value]Abs
	Cut    map[ssa.Instruction]bool
	// NonEmptyRange: on first entry (not via a back edge) a `range` loop
	// header takes its body edge. Only set with a reasoned table entry.
	NonEmptyRange bool
	// Start, if set, begins exploration after this instruction instead of at
	// the function entry.
	Start ssa.Instruction
}

type pstate struct {
	pred int // index of predecessor block, -1 entry, -2 unknown
	blk  int
}

// Result of a Query.
type Result struct {
	q      *Query
	parent map[pstate]pstate
	seen   map[pstate]bool
	limit  map[*ssa.BasicBlock]int // instructions [0,limit) are reachable once the block is
	first  map[*ssa.BasicBlock]int // for the start block: first reachable instr index
	byBlk  map[int][]pstate

	hasStart   bool
	startLimit int
}

func (q *Query) Run() *Result {
	r := &Result{q: q, parent: map[pstate]pstate{}, seen: map[pstate]bool{},
		limit: map[*ssa.BasicBlock]int{}, first: map[*ssa.BasicBlock]int{}, byBlk: map[int][]pstate{}}
	fn := q.Fn
	if len(fn.Blocks) == 0 {
		return r
	}
	for _, b := range fn.Blocks {
		lim := len(b.Instrs)
		for i, in := range b.Instrs {
			if q.Cut[in] {
				lim = i
				break
			}
		}
		r.limit[b] = lim
	}
	var work []pstate
	start := pstate{-1, 0}
	startIdx := 0
	if q.Start != nil {
		b := q.Start.Block()
		start = pstate{-2, b.Index}
		for i, in := range b.Instrs {
			if in == q.Start {
				startIdx = i + 1
			}
		}
		r.first[b] = startIdx
		// a cut before the start in the same block does not apply to the
		// first visit
		lim := len(b.Instrs)
		for i := startIdx; i < len(b.Instrs); i++ {
			if q.Cut[b.Instrs[i]] {
				lim = i
				break
			}
		}
		// handle the start block specially: expand its successors here
		r.seen[start] = true
		r.byBlk[b.Index] = append(r.byBlk[b.Index], start)
		if lim == len(b.Instrs) {
			for _, s := range r.succs(start) {
				if !r.seen[s] {
					r.seen[s] = true
					r.parent[s] = start
					r.byBlk[s.blk] = append(r.byBlk[s.blk], s)
					work = append(work, s)
				}
			}
		}
		r.startLimit = lim
		r.hasStart = true
	} else {
		r.seen[start] = true
		r.byBlk[0] = append(r.byBlk[0], start)
		work = append(work, start)
	}
	for len(work) > 0 {
		st := work[len(work)-1]
		work = work[:len(work)-1]
		b := fn.Blocks[st.blk]
		if r.limit[b] < len(b.Instrs) {
			continue // cut inside this block
		}
		for _, s := range r.succs(st) {
			if !r.seen[s] {
				r.seen[s] = true
				r.parent[s] = st
				r.byBlk[s.blk] = append(r.byBlk[s.blk], s)
				work = append(work, s)
			}
		}
	}
	return r
}

func (r *Result) succs(st pstate) []pstate {
	b := r.q.Fn.Blocks[st.blk]
	if len(b.Instrs) == 0 {
		return nil
	}
	switch t := b.Instrs[len(b.Instrs)-1].(type) {
	case *ssa.If:
		if r.q.NonEmptyRange && strings.HasPrefix(b.Comment, "range") && strings.HasSuffix(b.Comment, ".loop") {
			if st.pred >= 0 && !b.Dominates(r.q.Fn.Blocks[st.pred]) {
				return []pstate{{st.blk, b.Succs[0].Index}}
			}
		}
		c := r.Eval(t.Cond, st)
		if v, ok := c.IsBool(); ok {
			if v {
				return []pstate{{st.blk, b.Succs[0].Index}}
			}
			return []pstate{{st.blk, b.Succs[1].Index}}
		}
		return []pstate{{st.blk, b.Succs[0].Index}, {st.blk, b.Succs[1].Index}}
	case *ssa.Jump:
		return []pstate{{st.blk, b.Succs[0].Index}}
	}
	return nil
}

// Reaches reports whether the instruction is reachable.
func (r *Result) Reaches(in ssa.Instruction) bool {
	return len(r.StatesAt(in)) > 0
}

// StatesAt lists the (pred,block) states in which the instruction executes.
func (r *Result) StatesAt(in ssa.Instruction) []pstate {
	b := in.Block()
	if b == nil {
		return nil
	}
	idx := -1
	for i, x := range b.Instrs {
		if x == in {
			idx = i
			break
		}
	}
	if idx < 0 {
		return nil
	}
	var out []pstate
	for _, st := range r.byBlk[b.Index] {
		if r.hasStart && st.pred == -2 {
			if idx >= r.first[b] && idx < r.startLimit {
				out = append(out, st)
			}
			continue
		}
		if idx < r.limit[b] {
			out = append(out, st)
		}
	}
	return out
}

// Witness renders one path of blocks leading to the state.
func (r *Result) Witness(p *Prog, st pstate) string {
	var rev []string
	cur := st
	for n := 0; n < 200; n++ {
		b := r.q.Fn.Blocks[cur.blk]
		rev = append(rev, fmt.Sprintf("b%d(%s)", b.Index, p.Rel(blockPos(b))))
		par, ok := r.parent[cur]
		if !ok {
			break
		}
		cur = par
	}
	for i, j := 0, len(rev)-1; i < j; i, j = i+1, j-1 {
		rev[i], rev[j] = rev[j], rev[i]
	}
	if len(rev) > 14 {
		rev = append(append(rev[:6:6], "..."), rev[len(rev)-7:]...)
	}
	return strings.Join(rev, " -> ")
}

func blockPos(b *ssa.BasicBlock) token.Pos {
	for _, in := range b.Instrs {
		if in.Pos().IsValid() {
			return in.Pos()
		}
		if v, ok := in.(ssa.Value); ok {
			_ = v
		}
	}
	return token.NoPos
}

// Eval evaluates v abstractly in the given state.
func (r *Result) Eval(v ssa.Value, st pstate) Abs {
	return r.eval(v, st, 0)
}

func (r *Result) eval(v ssa.Value, st pstate, depth int) Abs {
	if depth > 12 {
		return AUnknown
	}
	if a, ok := r.q.Assume[v]; ok {
		return a
	}
	a := r.evalStruct(v, st, depth)
	if a.K != KUnknown {
		return a
	}
	return r.facts(v, st, depth)
}

func (r *Result) evalStruct(v ssa.Value, st pstate, depth int) Abs {
	switch x := v.(type) {
	case *ssa.Const:
		if x.Value == nil {
			if isNillable(x.Type()) {
				return ANil
			}
			return AUnknown // zero value of a struct etc.
		}
		switch x.Value.Kind() {
		case constant.Bool, constant.Int, constant.String:
			return Abs{K: KConst, C: x.Value}
		}
		return AUnknown
	case *ssa.Phi:
		if x.Block().Index == st.blk && st.pred >= 0 {
			for i, p := range x.Block().Preds {
				if p.Index == st.pred {
					return r.eval(x.Edges[i], pstate{-2, st.pred}, depth+1)
				}
			}
		}
		var acc Abs
		for i, e := range x.Edges {
			if e == v {
				continue
			}
			a := r.eval(e, pstate{-2, x.Block().Preds[i].Index}, depth+1)
			if a.K == KUnknown {
				return AUnknown
			}
			if acc.K == KUnknown {
				acc = a
			} else if !acc.Same(a) {
				return AUnknown
			}
		}
		return acc
	case *ssa.UnOp:
		switch x.Op {
		case token.MUL:
			// load of a non-escaping local (e.g. the result slot go/ssa spills
			// returns into when the function has defers): the value stored
			// last in the same block
			if al, ok := x.X.(*ssa.Alloc); ok && !allocEscapes(al) {
				var last ssa.Value
				for _, in := range x.Block().Instrs {
					if in == ssa.Instruction(x) {
						break
					}
					if st, isSt := in.(*ssa.Store); isSt && st.Addr == ssa.Value(al) {
						last = st.Val
					}
				}
				if last != nil {
					return r.eval(last, st, depth+1)
				}
			}
			return AUnknown
		case token.NOT:
			if b, ok := r.eval(x.X, st, depth+1).IsBool(); ok {
				if b {
					return AFalse
				}
				return ATrue
			}
		}
		return AUnknown
	case *ssa.BinOp:
		switch x.Op {
		case token.EQL, token.NEQ:
			if x.X == x.Y {
				if x.Op == token.EQL {
					return ATrue
				}
				return AFalse
			}
			a, b := r.eval(x.X, st, depth+1), r.eval(x.Y, st, depth+1)
			var eq, known bool
			switch {
			case a.Same(b) && (a.K == KNil || a.K == KConst):
				eq, known = true, true
			case a.Contradicts(b):
				eq, known = false, true
			}
			if known {
				if (x.Op == token.EQL) == eq {
					return ATrue
				}
				return AFalse
			}
		case token.LSS, token.LEQ, token.GTR, token.GEQ:
			a, b := r.eval(x.X, st, depth+1), r.eval(x.Y, st, depth+1)
			if a.K == KConst && b.K == KConst && a.C.Kind() == constant.Int && b.C.Kind() == constant.Int {
				if constant.Compare(a.C, x.Op, b.C) {
					return ATrue
				}
				return AFalse
			}
		}
		return AUnknown
	case *ssa.Call:
		if callee := x.Call.StaticCallee(); callee != nil {
			name := callee.String()
			if ErrorCtors[name] {
				return ANonNil
			}
			if ErrorWrappers[name] && len(x.Call.Args) > 0 {
				a := r.eval(x.Call.Args[0], st, depth+1)
				if a.K == KNonNil || a.K == KNil {
					return a
				}
			}
		}
		return AUnknown
	case *ssa.MakeInterface:
		return ANonNil
	case *ssa.ChangeInterface:
		return nilness(r.eval(x.X, st, depth+1))
	case *ssa.ChangeType:
		return nilness(r.eval(x.X, st, depth+1))
	case *ssa.Alloc, *ssa.MakeMap, *ssa.MakeSlice, *ssa.MakeClosure, *ssa.MakeChan,
		*ssa.FieldAddr, *ssa.IndexAddr, *ssa.Function, *ssa.Global:
		return ANonNil
	}
	return AUnknown
}

func nilness(a Abs) Abs {
	if a.K == KNil || a.K == KNonNil {
		return a
	}
	return AUnknown
}

func isNillable(t types.Type) bool {
	switch t.Underlying().(type) {
	case *types.Pointer, *types.Interface, *types.Map, *types.Slice, *types.Chan, *types.Signature:
		return true
	}
	if b, ok := t.Underlying().(*types.Basic); ok && b.Kind() == types.UnsafePointer || ok && b.Kind() == types.UntypedNil {
		return true
	}
	return false
}

// facts derives what is known about v at st from branch edges that dominate
// the state's block (and from the state's own incoming edge).
func (r *Result) facts(v ssa.Value, st pstate, depth int) Abs {
	fn := r.q.Fn
	if st.blk < 0 || st.blk >= len(fn.Blocks) {
		return AUnknown
	}
	b := fn.Blocks[st.blk]
	// A value defined in the state's own block is a fresh instance there:
	// what an earlier edge said about the previous instance (loop-carried
	// re-execution) does not apply to it.
	if in, ok := v.(ssa.Instruction); ok && in.Block() == b {
		return AUnknown
	}
	// incoming edge
	if st.pred >= 0 {
		p := fn.Blocks[st.pred]
		if a := edgeFact(p, b, v); a.K != KUnknown {
			return a
		}
		// then everything that dominates the predecessor
		b = p
		if a := edgeFactSelf(b, v); a.K != KUnknown {
			return a
		}
	}
	for d := b; d != nil; d = d.Idom() {
		p := d.Idom()
		if p == nil {
			break
		}
		if len(d.Preds) == 1 && d.Preds[0] == p {
			if a := edgeFact(p, d, v); a.K != KUnknown {
				return a
			}
		}
	}
	return AUnknown
}

func edgeFactSelf(b *ssa.BasicBlock, v ssa.Value) Abs { return AUnknown }

// edgeFact: what the edge p->s tells about v.
func edgeFact(p, s *ssa.BasicBlock, v ssa.Value) Abs {
	if len(p.Instrs) == 0 {
		return AUnknown
	}
	iff, ok := p.Instrs[len(p.Instrs)-1].(*ssa.If)
	if !ok || p.Succs[0] == p.Succs[1] {
		return AUnknown
	}
	pol := p.Succs[0] == s
	if !pol && p.Succs[1] != s {
		return AUnknown
	}
	return learn(iff.Cond, pol, v, 0)
}

// learn: given that cond evaluates to pol, what is v?
func learn(cond ssa.Value, pol bool, v ssa.Value, depth int) Abs {
	if depth > 6 {
		return AUnknown
	}
	if cond == v {
		if pol {
			return ATrue
		}
		return AFalse
	}
	switch c := cond.(type) {
	case *ssa.UnOp:
		if c.Op == token.NOT {
			return learn(c.X, !pol, v, depth+1)
		}
	case *ssa.BinOp:
		if c.Op != token.EQL && c.Op != token.NEQ {
			return AUnknown
		}
		eq := (c.Op == token.EQL) == pol
		var other ssa.Value
		switch {
		case c.X == v:
			other = c.Y
		case c.Y == v:
			other = c.X
		default:
			return AUnknown
		}
		k, ok := other.(*ssa.Const)
		if !ok {
			return AUnknown
		}
		if k.Value == nil && isNillable(k.Type()) {
			if eq {
				return ANil
			}
			return ANonNil
		}
		if k.Value != nil && eq {
			switch k.Value.Kind() {
			case constant.Bool, constant.Int, constant.String:
				return Abs{K: KConst, C: k.Value}
			}
		}
		if k.Value != nil && !eq && k.Value.Kind() == constant.Bool {
			if constant.BoolVal(k.Value) {
				return AFalse
			}
			return ATrue
		}
	}
	return AUnknown
}

// ---------------------------------------------------------------------------
// Helpers over instructions

// Calls returns all call instructions (call, go, defer) in fn in block order.
func Calls(fn *ssa.Function) []ssa.CallInstruction {
	var out []ssa.CallInstruction
	for _, b := range fn.Blocks {
		for _, in := range b.Instrs {
			if c, ok := in.(ssa.CallInstruction); ok {
				out = append(out, c)
			}
		}
	}
	return out
}

// Returns lists the return instructions of fn.
func Returns(fn *ssa.Function) []*ssa.Return {
	var out []*ssa.Return
	for _, b := range fn.Blocks {
		if fn.Recover == b {
			continue
		}
		for _, in := range b.Instrs {
			if r, ok := in.(*ssa.Return); ok {
				out = append(out, r)
			}
		}
	}
	return out
}

// CalleeObj returns the types.Func a call resolves to statically: the
// interface method for invoke-mode calls, the function/method object for
// static calls (instantiations map to their origin), nil for dynamic calls.
func CalleeObj(c *ssa.CallCommon) *types.Func {
	if c.IsInvoke() {
		return c.Method
	}
	if fn := c.StaticCallee(); fn != nil {
		if fn.Origin() != nil {
			fn = fn.Origin()
		}
		if o, ok := fn.Object().(*types.Func); ok {
			return o
		}
		// bound method closure / wrappers
		return nil
	}
	return nil
}

// CallsTo lists the calls in fn whose callee object is one of objs.
func CallsTo(fn *ssa.Function, objs ...*types.Func) []ssa.CallInstruction {
	var out []ssa.CallInstruction
	for _, c := range Calls(fn) {
		o := CalleeObj(c.Common())
		if o == nil {
			continue
		}
		for _, w := range objs {
			if w != nil && (o == w || o.Origin() == w) {
				out = append(out, c)
				break
			}
		}
	}
	return out
}

// Extracts returns the Extract instructions of a tuple-valued call by index.
func Extracts(c ssa.Value) map[int][]*ssa.Extract {
	out := map[int][]*ssa.Extract{}
	if c.Referrers() == nil {
		return out
	}
	for _, ref := range *c.Referrers() {
		if e, ok := ref.(*ssa.Extract); ok {
			out[e.Index] = append(out[e.Index], e)
		}
	}
	return out
}

// AccessPath renders a value as a stable access path when it is a chain of
// field/deref/index-by-constant operations rooted at a parameter, free
// variable, global or another SSA value ("%t12"). Two loads of the same path
// are treated as the same value by the pairing rules (assumption: the path is
// not stored to in between; the rules that rely on it say so).
func AccessPath(v ssa.Value) string {
	switch x := v.(type) {
	case *ssa.Parameter:
		return x.Name()
	case *ssa.FreeVar:
		return x.Name()
	case *ssa.Global:
		return x.Pkg.Pkg.Name() + "." + x.Name()
	case *ssa.FieldAddr:
		return AccessPath(x.X) + "." + fieldName(x.X.Type(), x.Field)
	case *ssa.Field:
		return AccessPath(x.X) + "." + fieldName(x.X.Type(), x.Field)
	case *ssa.UnOp:
		if x.Op == token.MUL {
			return AccessPath(x.X)
		}
	case *ssa.IndexAddr:
		if k, ok := x.Index.(*ssa.Const); ok && k.Value != nil {
			return AccessPath(x.X) + "[" + k.Value.String() + "]"
		}
		return AccessPath(x.X) + "[%" + x.Index.Name() + "]"
	case *ssa.Const:
		if x.Value == nil {
			return "nil"
		}
		return x.Value.String()
	case *ssa.ChangeType:
		return AccessPath(x.X)
	case *ssa.Convert:
		return AccessPath(x.X)
	case *ssa.MakeInterface:
		return AccessPath(x.X)
	case *ssa.Slice:
		if x.Low == nil && x.High == nil {
			return AccessPath(x.X)
		}
	case *ssa.Alloc:
		// a local struct copy: name by the source variable if there is one
		if x.Comment != "" {
			return "&" + x.Comment + "@" + x.Name()
		}
	}
	return "%" + v.Name()
}

func fieldName(t types.Type, i int) string {
	if p, ok := t.Underlying().(*types.Pointer); ok {
		t = p.Elem()
	}
	if s, ok := t.Underlying().(*types.Struct); ok && i < s.NumFields() {
		return s.Field(i).Name()
	}
	return fmt.Sprintf("#%d", i)
}

// FieldOf returns the struct field a FieldAddr/Field refers to.
func FieldOf(v ssa.Value) *types.Var {
	var t types.Type
	var i int
	switch x := v.(type) {
	case *ssa.FieldAddr:
		t, i = x.X.Type(), x.Field
	case *ssa.Field:
		t, i = x.X.Type(), x.Field
	default:
		return nil
	}
	if p, ok := t.Underlying().(*types.Pointer); ok {
		t = p.Elem()
	}
	if s, ok := t.Underlying().(*types.Struct); ok && i < s.NumFields() {
		return s.Field(i)
	}
	return nil
}

// Origin strips loads of single-assignment local variables: if v is a load
// of an Alloc that is stored to exactly once in the function, the stored
// value is returned (recursively); conversions that preserve identity are
// stripped too.
func Origin(v ssa.Value) ssa.Value {
	for i := 0; i < 8; i++ {
		switch x := v.(type) {
		case *ssa.UnOp:
			if x.Op != token.MUL {
				return v
			}
			al, ok := x.X.(*ssa.Alloc)
			if !ok {
				return v
			}
			var stored ssa.Value
			n := 0
			for _, ref := range *al.Referrers() {
				if st, ok := ref.(*ssa.Store); ok && st.Addr == al {
					stored = st.Val
					n++
				}
			}
			if n != 1 {
				return v
			}
			v = stored
		case *ssa.ChangeType:
			v = x.X
		case *ssa.MakeInterface:
			v = x.X
		default:
			return v
		}
	}
	return v
}


// allocEscapes: the allocation's address is used for anything but direct
// loads and stores (so something else may write it).
func allocEscapes(al *ssa.Alloc) bool {
	if al.Referrers() == nil {
		return false
	}
	for _, r := range *al.Referrers() {
		switch x := r.(type) {
		case *ssa.Store:
			if x.Val == ssa.Value(al) {
				return true
			}
		case *ssa.UnOp, *ssa.DebugRef:
		default:
			return true
		}
	}
	return false
}
