package an

import (
	"fmt"
	"go/constant"
	"go/token"
	"go/types"
	"sync"

	"golang.org/x/tools/go/ssa"
)

// ---------------------------------------------------------------------------
// Abstract values: a tiny constant / nil-ness lattice used to fold branch
// conditions on the SSA CFG.

type AbsKind int

const (
	KUnknown AbsKind = iota
	KNil
	KNonNil
	KConst
)

type Abs struct {
	K AbsKind
	C constant.Value
}

var (
	AUnknown = Abs{}
	ANil     = Abs{K: KNil}
	ANonNil  = Abs{K: KNonNil}
	ATrue    = Abs{K: KConst, C: constant.MakeBool(true)}
	AFalse   = Abs{K: KConst, C: constant.MakeBool(false)}
)

func AInt(i int64) Abs { return Abs{K: KConst, C: constant.MakeInt64(i)} }

func (a Abs) String() string {
	switch a.K {
	case KNil:
		return "nil"
	case KNonNil:
		return "non-nil"
	case KConst:
		return a.C.String()
	}
	return "?"
}

func (a Abs) IsBool() (val, ok bool) {
	if a.K == KConst && a.C.Kind() == constant.Bool {
		return constant.BoolVal(a.C), true
	}
	return false, false
}

// Same reports whether a and b are the same known abstract value.
func (a Abs) Same(b Abs) bool {
	if a.K != b.K || a.K == KUnknown {
		return false
	}
	if a.K == KConst {
		if a.C.Kind() != b.C.Kind() {
			return false
		}
		return constant.Compare(a.C, token.EQL, b.C)
	}
	return true
}

// Contradicts reports whether a and b are both known and different.
func (a Abs) Contradicts(b Abs) bool {
	if a.K == KUnknown || b.K == KUnknown {
		return false
	}
	if a.K == KConst && b.K == KConst {
		if a.C.Kind() != b.C.Kind() {
			return false
		}
		return !constant.Compare(a.C, token.EQL, b.C)
	}
	if a.K == KConst || b.K == KConst {
		return false
	}
	return a.K != b.K
}

// ErrorCtors are functions whose result is always a non-nil error.
var ErrorCtors = map[string]bool{
	"errors.New":                   true,
	"fmt.Errorf":                   true,
	RepoMod + "/errors.NewErr":     true,
	"github.com/pkg/errors.New":    true,
	"github.com/pkg/errors.Errorf": true,
}

// ErrorWrappers return nil iff their first argument is nil.
var ErrorWrappers = map[string]bool{
	RepoMod + "/errors.NewDetailErr":  true,
	"github.com/pkg/errors.Wrap":      true,
	"github.com/pkg/errors.Wrapf":     true,
	"github.com/pkg/errors.WithStack": true,
}

func blockPos(b *ssa.BasicBlock) token.Pos {
	for _, in := range b.Instrs {
		if in.Pos().IsValid() {
			return in.Pos()
		}
		if v, ok := in.(ssa.Value); ok {
			_ = v
		}
	}
	return token.NoPos
}

func (r *Result) evalStruct(v ssa.Value, st pstate, depth int) Abs {
	switch x := v.(type) {
	case *ssa.Const:
		if x.Value == nil {
			if isNillable(x.Type()) {
				return ANil
			}
			return AUnknown // zero value of a struct etc.
		}
		switch x.Value.Kind() {
		case constant.Bool, constant.Int, constant.String:
			return Abs{K: KConst, C: x.Value}
		}
		return AUnknown
	case *ssa.Phi:
		if x.Block().Index == st.blk && st.pred >= 0 {
			for i, p := range x.Block().Preds {
				if p.Index == st.pred {
					return r.eval(x.Edges[i], pstate{fr: st.fr, pred: -2, blk: st.pred}, depth+1)
				}
			}
		}
		var acc Abs
		for i, e := range x.Edges {
			if e == v {
				continue
			}
			// an incoming edge whose own branch condition (or that of the single block before it) is decided the
			// other way cannot have been taken: `a || b` with a known true is true although b is not
			if depth < 10 && !r.edgeFeasible(x.Block().Preds[i], x.Block(), st, depth) {
				continue
			}
			a := r.eval(e, pstate{fr: st.fr, pred: -2, blk: x.Block().Preds[i].Index}, depth+1)
			if a.K == KUnknown {
				return AUnknown
			}
			if acc.K == KUnknown {
				acc = a
			} else if !acc.Same(a) {
				return AUnknown
			}
		}
		return acc
	case *ssa.UnOp:
		switch x.Op {
		case token.MUL:
			// load of a non-escaping local (e.g. the result slot go/ssa spills
			// returns into when the function has defers): the value stored
			// last in the same block
			// a package-level error variable that its package initialises once with an error constructor and
			// never assigns again (var ErrX = errors.New(..)) is non-nil
			if g, ok := x.X.(*ssa.Global); ok && sentinelError(g) {
				return ANonNil
			}
			if al, ok := x.X.(*ssa.Alloc); ok && !allocEscapes(al) {
				var last ssa.Value
				for _, in := range x.Block().Instrs {
					if in == ssa.Instruction(x) {
						break
					}
					if st, isSt := in.(*ssa.Store); isSt && st.Addr == ssa.Value(al) {
						last = st.Val
					}
				}
				if last != nil {
					return r.eval(last, st, depth+1)
				}
			}
			return AUnknown
		case token.NOT:
			if b, ok := r.eval(x.X, st, depth+1).IsBool(); ok {
				if b {
					return AFalse
				}
				return ATrue
			}
		}
		return AUnknown
	case *ssa.BinOp:
		switch x.Op {
		case token.EQL, token.NEQ:
			if x.X == x.Y {
				if x.Op == token.EQL {
					return ATrue
				}
				return AFalse
			}
			a, b := r.eval(x.X, st, depth+1), r.eval(x.Y, st, depth+1)
			var eq, known bool
			switch {
			case a.Same(b) && (a.K == KNil || a.K == KConst):
				eq, known = true, true
			case a.Contradicts(b):
				eq, known = false, true
			}
			if known {
				if (x.Op == token.EQL) == eq {
					return ATrue
				}
				return AFalse
			}
		case token.LSS, token.LEQ, token.GTR, token.GEQ:
			a, b := r.eval(x.X, st, depth+1), r.eval(x.Y, st, depth+1)
			if a.K == KConst && b.K == KConst && a.C.Kind() == constant.Int && b.C.Kind() == constant.Int {
				if constant.Compare(a.C, x.Op, b.C) {
					return ATrue
				}
				return AFalse
			}
		}
		return AUnknown
	case *ssa.Call:
		if callee := x.Call.StaticCallee(); callee != nil {
			name := callee.String()
			if ErrorCtors[name] {
				return ANonNil
			}
			if ErrorWrappers[name] && len(x.Call.Args) > 0 {
				a := r.eval(x.Call.Args[0], st, depth+1)
				if a.K == KNonNil || a.K == KNil {
					return a
				}
			}
		}
		return AUnknown
	case *ssa.MakeInterface:
		return ANonNil
	case *ssa.ChangeInterface:
		return nilness(r.eval(x.X, st, depth+1))
	case *ssa.ChangeType:
		return nilness(r.eval(x.X, st, depth+1))
	case *ssa.Alloc, *ssa.MakeMap, *ssa.MakeSlice, *ssa.MakeClosure, *ssa.MakeChan,
		*ssa.FieldAddr, *ssa.IndexAddr, *ssa.Function, *ssa.Global:
		return ANonNil
	}
	return AUnknown
}

// edgeFeasible: false only if the branch that decides whether control goes from p to b is evaluated (independently
// of the path) to go elsewhere.
func (r *Result) edgeFeasible(p, b *ssa.BasicBlock, st pstate, depth int) bool {
	decided := func(from, to *ssa.BasicBlock) (known, taken bool) {
		if len(from.Instrs) == 0 {
			return false, false
		}
		iff, ok := from.Instrs[len(from.Instrs)-1].(*ssa.If)
		if !ok || from.Succs[0] == from.Succs[1] {
			return false, false
		}
		c := r.eval(iff.Cond, pstate{fr: st.fr, pred: -2, blk: from.Index}, depth+2)
		v, isB := c.IsBool()
		if !isB {
			return false, false
		}
		if v {
			return true, from.Succs[0] == to
		}
		return true, from.Succs[1] == to
	}
	if known, taken := decided(p, b); known && !taken {
		return false
	}
	// ... or a branch further up the chain of blocks that have p as their only way in (`a && b && c`: the edge out of
	// c's block is infeasible when a is known false)
	for q, i := p, 0; len(q.Preds) == 1 && i < 6; q, i = q.Preds[0], i+1 {
		if known, taken := decided(q.Preds[0], q); known && !taken {
			return false
		}
	}
	return true
}

var sentinelCache sync.Map

// sentinelError: the global is stored exactly once in its whole package, by the package initialiser, with the result
// of an error constructor.
func sentinelError(g *ssa.Global) bool {
	if v, ok := sentinelCache.Load(g); ok {
		return v.(bool)
	}
	res := false
	if g.Pkg != nil && isNillable(g.Type().(*types.Pointer).Elem()) {
		stores, good := 0, 0
		var scan func(fn *ssa.Function)
		scan = func(fn *ssa.Function) {
			for _, b := range fn.Blocks {
				for _, in := range b.Instrs {
					st, isSt := in.(*ssa.Store)
					if !isSt || st.Addr != ssa.Value(g) {
						continue
					}
					stores++
					if fn.Name() != "init" {
						continue
					}
					v := st.Val
					if mi, isMI := v.(*ssa.MakeInterface); isMI {
						v = mi.X
					}
					if c, isC := v.(*ssa.Call); isC {
						if callee := c.Call.StaticCallee(); callee != nil && ErrorCtors[callee.String()] {
							good++
						}
					}
				}
			}
			for _, a := range fn.AnonFuncs {
				scan(a)
			}
		}
		for _, m := range g.Pkg.Members {
			if fn, isF := m.(*ssa.Function); isF {
				scan(fn)
			}
			if tp, isT := m.(*ssa.Type); isT {
				ms := g.Pkg.Prog.MethodSets.MethodSet(types.NewPointer(tp.Type()))
				for i := 0; i < ms.Len(); i++ {
					if fn := g.Pkg.Prog.MethodValue(ms.At(i)); fn != nil && fn.Pkg == g.Pkg {
						scan(fn)
					}
				}
			}
		}
		res = stores == 1 && good == 1
	}
	sentinelCache.Store(g, res)
	return res
}

func nilness(a Abs) Abs {
	if a.K == KNil || a.K == KNonNil {
		return a
	}
	return AUnknown
}

func isNillable(t types.Type) bool {
	switch t.Underlying().(type) {
	case *types.Pointer, *types.Interface, *types.Map, *types.Slice, *types.Chan, *types.Signature:
		return true
	}
	if b, ok := t.Underlying().(*types.Basic); ok && b.Kind() == types.UnsafePointer || ok && b.Kind() == types.UntypedNil {
		return true
	}
	return false
}

// facts derives what is known about v at st from branch edges that dominate
// the state's block (and from the state's own incoming edge).
func (r *Result) facts(v ssa.Value, st pstate, depth int) Abs {
	fn := st.fr.fn
	if st.blk < 0 || st.blk >= len(fn.Blocks) {
		return AUnknown
	}
	b := fn.Blocks[st.blk]
	// A value defined in the state's own block is a fresh instance there:
	// what an earlier edge said about the previous instance (loop-carried
	// re-execution) does not apply to it.
	if in, ok := v.(ssa.Instruction); ok && in.Block() == b {
		if _, _, immutable := paramField(v); !immutable {
			return AUnknown
		}
	}
	// incoming edge
	if st.pred >= 0 {
		p := fn.Blocks[st.pred]
		if a := edgeFact(p, b, v); a.K != KUnknown {
			return a
		}
		// the branch in p tests a phi of p (`a && b` built as a value): when only one way into p can have produced
		// the outcome taken, control came that way, and what that way's branches say holds here
		if depth < 8 {
			if q := r.singleFeasiblePred(p, b, st, depth); q != nil {
				if a := edgeFact(q, p, v); a.K != KUnknown {
					return a
				}
				for d := q; d != nil; d = d.Idom() {
					pd := d.Idom()
					if pd == nil {
						break
					}
					if len(d.Preds) == 1 && d.Preds[0] == pd {
						if a := edgeFact(pd, d, v); a.K != KUnknown {
							return a
						}
					}
				}
			}
		}
		// then everything that dominates the predecessor
		b = p
		if a := edgeFactSelf(b, v); a.K != KUnknown {
			return a
		}
	}
	for d := b; d != nil; d = d.Idom() {
		p := d.Idom()
		if p == nil {
			break
		}
		if len(d.Preds) == 1 && d.Preds[0] == p {
			if a := edgeFact(p, d, v); a.K != KUnknown {
				return a
			}
		}
	}
	return AUnknown
}

func edgeFactSelf(b *ssa.BasicBlock, v ssa.Value) Abs { return AUnknown }

// singleFeasiblePred: p ends in a branch on a boolean phi of p itself (possibly negated); the edge p->succ fixes the
// phi's value; if exactly one incoming edge of p carries a value that can be that outcome, that predecessor is
// returned.
func (r *Result) singleFeasiblePred(p, succ *ssa.BasicBlock, st pstate, depth int) *ssa.BasicBlock {
	if len(p.Instrs) == 0 || len(p.Preds) < 2 {
		return nil
	}
	iff, ok := p.Instrs[len(p.Instrs)-1].(*ssa.If)
	if !ok || p.Succs[0] == p.Succs[1] {
		return nil
	}
	pol := p.Succs[0] == succ
	cond := iff.Cond
	for i := 0; i < 3; i++ {
		if u, isU := cond.(*ssa.UnOp); isU && u.Op == token.NOT {
			cond, pol = u.X, !pol
			continue
		}
		break
	}
	phi, isPhi := cond.(*ssa.Phi)
	if !isPhi || phi.Block() != p {
		return nil
	}
	var only *ssa.BasicBlock
	for i, e := range phi.Edges {
		a := r.eval(e, pstate{fr: st.fr, pred: -2, blk: p.Preds[i].Index}, depth+2)
		if bv, isB := a.IsBool(); isB && bv != pol {
			continue
		}
		if only != nil {
			return nil
		}
		only = p.Preds[i]
	}
	return only
}

// edgeFact: what the edge p->s tells about v.
func edgeFact(p, s *ssa.BasicBlock, v ssa.Value) Abs {
	if len(p.Instrs) == 0 {
		return AUnknown
	}
	iff, ok := p.Instrs[len(p.Instrs)-1].(*ssa.If)
	if !ok || p.Succs[0] == p.Succs[1] {
		return AUnknown
	}
	pol := p.Succs[0] == s
	if !pol && p.Succs[1] != s {
		return AUnknown
	}
	return learn(iff.Cond, pol, v, 0)
}

// paramField: v is a field (of a field ...) of a struct-valued parameter, read with Field instructions only. Such a
// value is immutable: every instruction that reads the same path of the same parameter yields the same value
// (go/ssa performs no common-subexpression elimination, so `p.f` written twice is two instructions).
func paramField(v ssa.Value) (*ssa.Parameter, string, bool) {
	path := ""
	// the same through go/ssa's memory copy of an address-taken parameter: a load of &copy.f... where the copy is
	// written once (by the parameter) and its address is only used to read fields
	if ld, isLd := v.(*ssa.UnOp); isLd && ld.Op == token.MUL {
		a := ld.X
		for i := 0; i < 6; i++ {
			fa, ok := a.(*ssa.FieldAddr)
			if !ok {
				break
			}
			path = fmt.Sprintf(".%d", fa.Field) + path
			a = fa.X
		}
		if al, isAl := a.(*ssa.Alloc); isAl && path != "" {
			if p := readOnlySpill(al); p != nil {
				return p, path, true
			}
		}
		return nil, "", false
	}
	for i := 0; i < 6; i++ {
		f, ok := v.(*ssa.Field)
		if !ok {
			break
		}
		path = fmt.Sprintf(".%d", f.Field) + path
		v = f.X
	}
	p, isP := v.(*ssa.Parameter)
	return p, path, isP && path != ""
}

var spillCache sync.Map

// readOnlySpill: al is the memory copy of a parameter (SpilledParam) that is never written again and whose address
// is used only to read it (field addresses that are only loaded from, loads of the whole value).
func readOnlySpill(al *ssa.Alloc) *ssa.Parameter {
	if v, ok := spillCache.Load(al); ok {
		p, _ := v.(*ssa.Parameter)
		return p
	}
	p := SpilledParam(al)
	var onlyRead func(addr ssa.Value, depth int) bool
	onlyRead = func(addr ssa.Value, depth int) bool {
		refs := addr.Referrers()
		if refs == nil || depth > 6 {
			return false
		}
		for _, u := range *refs {
			switch x := u.(type) {
			case *ssa.Store:
				if x.Addr != addr || addr != ssa.Value(al) {
					return false
				}
			case *ssa.UnOp:
				if x.Op != token.MUL {
					return false
				}
			case *ssa.FieldAddr:
				if !onlyRead(x, depth+1) {
					return false
				}
			case *ssa.DebugRef:
			default:
				return false
			}
		}
		return true
	}
	if p != nil && !onlyRead(al, 0) {
		p = nil
	}
	if p == nil {
		spillCache.Store(al, false)
	} else {
		spillCache.Store(al, p)
	}
	return p
}

// sameVal: a and b are the same SSA value, or two reads of the same immutable parameter field.
func sameVal(a, b ssa.Value) bool {
	if a == b {
		return true
	}
	pa, fa, oka := paramField(a)
	if !oka {
		return false
	}
	pb, fb, okb := paramField(b)
	return okb && pa == pb && fa == fb
}

// learn: given that cond evaluates to pol, what is v?
func learn(cond ssa.Value, pol bool, v ssa.Value, depth int) Abs {
	if depth > 6 {
		return AUnknown
	}
	if sameVal(cond, v) {
		if pol {
			return ATrue
		}
		return AFalse
	}
	switch c := cond.(type) {
	case *ssa.UnOp:
		if c.Op == token.NOT {
			return learn(c.X, !pol, v, depth+1)
		}
	case *ssa.BinOp:
		if c.Op != token.EQL && c.Op != token.NEQ {
			return AUnknown
		}
		eq := (c.Op == token.EQL) == pol
		var other ssa.Value
		switch {
		case sameVal(c.X, v):
			other = c.Y
		case sameVal(c.Y, v):
			other = c.X
		default:
			return AUnknown
		}
		k, ok := other.(*ssa.Const)
		if !ok {
			return AUnknown
		}
		if k.Value == nil && isNillable(k.Type()) {
			if eq {
				return ANil
			}
			return ANonNil
		}
		if k.Value != nil && eq {
			switch k.Value.Kind() {
			case constant.Bool, constant.Int, constant.String:
				return Abs{K: KConst, C: k.Value}
			}
		}
		if k.Value != nil && !eq && k.Value.Kind() == constant.Bool {
			if constant.BoolVal(k.Value) {
				return AFalse
			}
			return ATrue
		}
	}
	return AUnknown
}

// ---------------------------------------------------------------------------
// Helpers over instructions

// Calls returns all call instructions (call, go, defer) in fn in block order.
func Calls(fn *ssa.Function) []ssa.CallInstruction {
	var out []ssa.CallInstruction
	for _, b := range fn.Blocks {
		for _, in := range b.Instrs {
			if c, ok := in.(ssa.CallInstruction); ok {
				out = append(out, c)
			}
		}
	}
	return out
}

// Returns lists the return instructions of fn.
func Returns(fn *ssa.Function) []*ssa.Return {
	var out []*ssa.Return
	for _, b := range fn.Blocks {
		if fn.Recover == b {
			continue
		}
		for _, in := range b.Instrs {
			if r, ok := in.(*ssa.Return); ok {
				out = append(out, r)
			}
		}
	}
	return out
}

// CalleeObj returns the types.Func a call resolves to statically: the
// interface method for invoke-mode calls, the function/method object for
// static calls (instantiations map to their origin), nil for dynamic calls.
func CalleeObj(c *ssa.CallCommon) *types.Func {
	if c.IsInvoke() {
		return c.Method
	}
	if fn := c.StaticCallee(); fn != nil {
		if fn.Origin() != nil {
			fn = fn.Origin()
		}
		if o, ok := fn.Object().(*types.Func); ok {
			return o
		}
		// bound method closure / wrappers
		return nil
	}
	return nil
}

// CallsTo lists the calls in fn whose callee object is one of objs.
func CallsTo(fn *ssa.Function, objs ...*types.Func) []ssa.CallInstruction {
	var out []ssa.CallInstruction
	for _, c := range Calls(fn) {
		o := CalleeObj(c.Common())
		if o == nil {
			continue
		}
		for _, w := range objs {
			if w != nil && (o == w || o.Origin() == w) {
				out = append(out, c)
				break
			}
		}
	}
	return out
}

// Extracts returns the Extract instructions of a tuple-valued call by index.
func Extracts(c ssa.Value) map[int][]*ssa.Extract {
	out := map[int][]*ssa.Extract{}
	if c.Referrers() == nil {
		return out
	}
	for _, ref := range *c.Referrers() {
		if e, ok := ref.(*ssa.Extract); ok {
			out[e.Index] = append(out[e.Index], e)
		}
	}
	return out
}

// AccessPath renders a value as a stable access path when it is a chain of
// field/deref/index-by-constant operations rooted at a parameter, free
// variable, global or another SSA value ("%t12"). Two loads of the same path
// are treated as the same value by the pairing rules (assumption: the path is
// not stored to in between; the rules that rely on it say so).
func AccessPath(v ssa.Value) string { return accessPath(nil, v) }

// AccessPathIn is AccessPath with the parameters of helpers entered from root replaced by the path of the
// argument passed at the helper's only call site: the path names the same location whether the code sits in root or
// in a private helper of it.
func AccessPathIn(root *ssa.Function, v ssa.Value) string { return accessPath(root, v) }

func accessPath(root *ssa.Function, v ssa.Value) string {
	switch x := v.(type) {
	case *ssa.Parameter:
		if root != nil && x.Parent() != root {
			if a := ResolveActual(root, x); a != ssa.Value(x) {
				return accessPath(root, a)
			}
		}
		return x.Name()
	case *ssa.FreeVar:
		return x.Name()
	case *ssa.Global:
		return x.Pkg.Pkg.Name() + "." + x.Name()
	case *ssa.FieldAddr:
		return accessPath(root, x.X) + "." + fieldName(x.X.Type(), x.Field)
	case *ssa.Field:
		return accessPath(root, x.X) + "." + fieldName(x.X.Type(), x.Field)
	case *ssa.UnOp:
		if x.Op == token.MUL {
			return accessPath(root, x.X)
		}
	case *ssa.IndexAddr:
		if k, ok := x.Index.(*ssa.Const); ok && k.Value != nil {
			return accessPath(root, x.X) + "[" + k.Value.String() + "]"
		}
		return accessPath(root, x.X) + "[%" + x.Index.Name() + "]"
	case *ssa.Const:
		if x.Value == nil {
			return "nil"
		}
		return x.Value.String()
	case *ssa.ChangeType:
		return accessPath(root, x.X)
	case *ssa.Convert:
		return accessPath(root, x.X)
	case *ssa.MakeInterface:
		return accessPath(root, x.X)
	case *ssa.Slice:
		if x.Low == nil && x.High == nil {
			return accessPath(root, x.X)
		}
	case *ssa.Alloc:
		// a parameter go/ssa spilled to memory because its address is taken: the parameter itself
		if p := SpilledParam(x); p != nil {
			return accessPath(root, p)
		}
		// a local struct copy: name by the source variable if there is one
		if x.Comment != "" {
			return "&" + x.Comment + "@" + x.Name()
		}
	}
	return "%" + v.Name()
}

// SpilledParam: the alloc is the memory copy go/ssa makes of a parameter whose address is taken (its only store
// is the parameter, at function entry); returns that parameter.
func SpilledParam(al *ssa.Alloc) *ssa.Parameter {
	if al == nil || al.Referrers() == nil {
		return nil
	}
	var p *ssa.Parameter
	for _, u := range *al.Referrers() {
		st, ok := u.(*ssa.Store)
		if !ok || st.Addr != ssa.Value(al) {
			continue
		}
		q, isP := st.Val.(*ssa.Parameter)
		if !isP || p != nil {
			return nil
		}
		p = q
	}
	return p
}

func fieldName(t types.Type, i int) string {
	if p, ok := t.Underlying().(*types.Pointer); ok {
		t = p.Elem()
	}
	if s, ok := t.Underlying().(*types.Struct); ok && i < s.NumFields() {
		return s.Field(i).Name()
	}
	return fmt.Sprintf("#%d", i)
}

// FieldOf returns the struct field a FieldAddr/Field refers to.
func FieldOf(v ssa.Value) *types.Var {
	var t types.Type
	var i int
	switch x := v.(type) {
	case *ssa.FieldAddr:
		t, i = x.X.Type(), x.Field
	case *ssa.Field:
		t, i = x.X.Type(), x.Field
	default:
		return nil
	}
	if p, ok := t.Underlying().(*types.Pointer); ok {
		t = p.Elem()
	}
	if s, ok := t.Underlying().(*types.Struct); ok && i < s.NumFields() {
		return s.Field(i)
	}
	return nil
}

// Origin strips loads of single-assignment local variables: if v is a load
// of an Alloc that is stored to exactly once in the function, the stored
// value is returned (recursively); conversions that preserve identity are
// stripped too.
func Origin(v ssa.Value) ssa.Value {
	for i := 0; i < 8; i++ {
		switch x := v.(type) {
		case *ssa.UnOp:
			if x.Op != token.MUL {
				return v
			}
			al, ok := x.X.(*ssa.Alloc)
			if !ok {
				return v
			}
			var stored ssa.Value
			n := 0
			for _, ref := range *al.Referrers() {
				if st, ok := ref.(*ssa.Store); ok && st.Addr == al {
					stored = st.Val
					n++
				}
			}
			if n != 1 {
				return v
			}
			v = stored
		case *ssa.ChangeType:
			v = x.X
		case *ssa.MakeInterface:
			v = x.X
		default:
			return v
		}
	}
	return v
}


// allocEscapes: the allocation's address is used for anything but direct
// loads and stores (so something else may write it).
func allocEscapes(al *ssa.Alloc) bool {
	if al.Referrers() == nil {
		return false
	}
	for _, r := range *al.Referrers() {
		switch x := r.(type) {
		case *ssa.Store:
			if x.Val == ssa.Value(al) {
				return true
			}
		case *ssa.UnOp, *ssa.DebugRef:
		default:
			return true
		}
	}
	return false
}
