package an

import (
	"fmt"

	"golang.org/x/tools/go/ssa"
)

// Append-alias analysis (C45): `k := append(base, x)` may share base's
// backing array (when base has spare capacity). If base is appended to again
// — directly or inside a callee that appends to the parameter it receives —
// while k is still used afterwards, the later append overwrites k's last
// bytes: a storage key built this way silently becomes another key.

type AppendAlias struct {
	memo map[*ssa.Function]map[int]bool
}

func NewAppendAlias() *AppendAlias { return &AppendAlias{memo: map[*ssa.Function]map[int]bool{}} }

func isAppend(v ssa.Value) (*ssa.Call, bool) {
	k, ok := v.(*ssa.Call)
	if !ok {
		return nil, false
	}
	bi, isB := k.Call.Value.(*ssa.Builtin)
	return k, isB && bi.Name() == "append" && len(k.Call.Args) >= 1
}

func baseOf(v ssa.Value) ssa.Value {
	for i := 0; i < 4; i++ {
		switch x := v.(type) {
		case *ssa.Slice:
			if x.High != nil || x.Max != nil {
				return v // a re-sliced prefix may drop capacity semantics; treat as its own value
			}
			v = x.X
			continue
		case *ssa.ChangeType:
			v = x.X
			continue
		}
		break
	}
	return v
}

// appendsTo: parameter indices of fn whose slice is the first argument of an
// append inside fn (or inside callees that receive it).
func (a *AppendAlias) appendsTo(fn *ssa.Function, depth int) map[int]bool {
	if s, ok := a.memo[fn]; ok {
		return s
	}
	s := map[int]bool{}
	a.memo[fn] = s
	if fn.Blocks == nil || depth > 4 {
		return s
	}
	for _, b := range fn.Blocks {
		for _, in := range b.Instrs {
			if k, ok := isAppend(valueOf(in)); ok {
				if i := paramIndex(fn, baseOf(k.Call.Args[0])); i >= 0 {
					s[i] = true
				}
				continue
			}
			if k, ok := in.(ssa.CallInstruction); ok {
				callee := k.Common().StaticCallee()
				if callee == nil || callee == fn {
					continue
				}
				for j := range a.appendsTo(callee, depth+1) {
					if j < len(k.Common().Args) {
						if i := paramIndex(fn, baseOf(k.Common().Args[j])); i >= 0 {
							s[i] = true
						}
					}
				}
			}
		}
	}
	return s
}

func valueOf(in ssa.Instruction) ssa.Value {
	v, _ := in.(ssa.Value)
	return v
}

// Hazards lists, for fn, the appends whose result is still used after the
// same base slice was appended to again.
func (a *AppendAlias) Hazards(p *Prog, fn *ssa.Function) (pairs int, issues []string) {
	type ev struct {
		in   ssa.Instruction
		base ssa.Value
	}
	var appends []*ssa.Call
	var later []ev
	for _, b := range fn.Blocks {
		for _, in := range b.Instrs {
			if k, ok := isAppend(valueOf(in)); ok {
				base := baseOf(k.Call.Args[0])
				if kind, _, _ := ObjOrigin(base, 0); kind == "fresh" {
					if _, isAlloc := base.(*ssa.Alloc); !isAlloc {
						continue
					}
				}
				if _, isConst := base.(*ssa.Const); isConst {
					continue
				}
				appends = append(appends, k)
				later = append(later, ev{k, base})
				continue
			}
			if k, ok := in.(ssa.CallInstruction); ok {
				callee := k.Common().StaticCallee()
				if callee == nil {
					continue
				}
				for j := range a.appendsTo(callee, 0) {
					if j < len(k.Common().Args) {
						later = append(later, ev{k, baseOf(k.Common().Args[j])})
					}
				}
			}
		}
	}
	for _, k := range appends {
		base := baseOf(k.Call.Args[0])
		if k.Referrers() == nil {
			continue
		}
		// the append result re-assigned to the base variable itself (x = append(x, ..)) is growth, not aliasing
		for _, e := range later {
			if e.in == ssa.Instruction(k) || e.base != base {
				continue
			}
			// e happens after k ...
			if !(&Query{Fn: fn, Start: k}).Run().Reaches(e.in) {
				continue
			}
			pairs++
			// ... and k's result is used after e
			after := (&Query{Fn: fn, Start: e.in}).Run()
			for _, u := range *k.Referrers() {
				if _, isDbg := u.(*ssa.DebugRef); isDbg {
					continue
				}
				if u == e.in {
					// the later event itself consumes k (e.g. append(k, ...)): not a use after
					continue
				}
				if after.Reaches(u) {
					issues = append(issues, fmt.Sprintf("%s: %s = append(%s, ...) at %s is still used at %s after %s appends to the same slice again at %s (shared backing array: the earlier result's tail is overwritten)",
						FuncName(fn), k.Name(), AccessPath(base), p.Rel(k.Pos()), p.Rel(u.Pos()), callName(e.in), p.Rel(e.in.Pos())))
					break
				}
			}
		}
	}
	return pairs, issues
}
