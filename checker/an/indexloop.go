package an

import (
	"go/token"

	"golang.org/x/tools/go/ssa"
)

// indexLoopBody: b is the header of a counting loop over a whole list - its branch compares a counter that starts at
// 0 (a phi of b) with len(xs), in any spelling - and the result is the successor taken while the counter is below the
// length (the loop body). nil if b is not such a header.
func indexLoopBody(b *ssa.BasicBlock, iff *ssa.If) *ssa.BasicBlock {
	cmp, ok := iff.Cond.(*ssa.BinOp)
	if !ok {
		return nil
	}
	isCounter := func(v ssa.Value) bool {
		ph, isPhi := v.(*ssa.Phi)
		if !isPhi || ph.Block() != b {
			return false
		}
		for i, e := range ph.Edges {
			if b.Dominates(b.Preds[i]) {
				continue // latch
			}
			k, isK := e.(*ssa.Const)
			if !isK || k.Value == nil || k.Value.String() != "0" {
				return false
			}
		}
		return true
	}
	isLen := func(v ssa.Value) bool {
		if cv, isC := v.(*ssa.Convert); isC {
			v = cv.X
		}
		k, isCall := v.(*ssa.Call)
		if !isCall {
			return false
		}
		bi, isB := k.Call.Value.(*ssa.Builtin)
		return isB && bi.Name() == "len"
	}
	// counter < len : body on true;  counter >= len : body on false; and mirrored
	switch {
	case cmp.Op == token.LSS && isCounter(cmp.X) && isLen(cmp.Y), cmp.Op == token.GTR && isLen(cmp.X) && isCounter(cmp.Y):
		return b.Succs[0]
	case cmp.Op == token.GEQ && isCounter(cmp.X) && isLen(cmp.Y), cmp.Op == token.LEQ && isLen(cmp.X) && isCounter(cmp.Y):
		return b.Succs[1]
	}
	return nil
}
