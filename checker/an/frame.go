package an

import (
	"go/token"
	"go/types"

	"golang.org/x/tools/go/ssa"
)

// FieldWrite is one write to a struct field (A5 frame analysis).
type FieldWrite struct {
	Field *types.Var
	In    ssa.Instruction
	Kind  string    // "store", "mapupdate", "delete"
	Val   ssa.Value // stored value for "store"
}

// DirectFieldWrites lists the writes to struct fields performed directly in
// fn: stores through a FieldAddr, updates/deletes of a map loaded from a
// field.
func DirectFieldWrites(fn *ssa.Function) []FieldWrite {
	var out []FieldWrite
	loadedField := func(v ssa.Value) *types.Var {
		if u, ok := v.(*ssa.UnOp); ok && u.Op == token.MUL {
			return FieldOf(u.X)
		}
		if f, ok := v.(*ssa.Field); ok {
			return FieldOf(f)
		}
		return nil
	}
	for _, b := range fn.Blocks {
		for _, in := range b.Instrs {
			switch x := in.(type) {
			case *ssa.Store:
				if f := FieldOf(x.Addr); f != nil {
					out = append(out, FieldWrite{Field: f, In: in, Kind: "store", Val: x.Val})
				}
			case *ssa.MapUpdate:
				if f := loadedField(x.Map); f != nil {
					out = append(out, FieldWrite{Field: f, In: in, Kind: "mapupdate"})
				}
			case *ssa.Call:
				if bi, ok := x.Call.Value.(*ssa.Builtin); ok && bi.Name() == "delete" && len(x.Call.Args) > 0 {
					if f := loadedField(x.Call.Args[0]); f != nil {
						out = append(out, FieldWrite{Field: f, In: in, Kind: "delete"})
					}
				}
			}
		}
	}
	return out
}

// FieldWritesTransitive collects the fields written by fn and by the
// functions it calls statically that satisfy inScope, to the given depth.
func FieldWritesTransitive(fn *ssa.Function, inScope func(*ssa.Function) bool, depth int, seen map[*ssa.Function]bool, out map[*types.Var][]FieldWrite) {
	if fn == nil || seen[fn] || fn.Blocks == nil {
		return
	}
	seen[fn] = true
	for _, w := range DirectFieldWrites(fn) {
		out[w.Field] = append(out[w.Field], w)
	}
	if depth <= 0 {
		return
	}
	for _, c := range Calls(fn) {
		if callee := c.Common().StaticCallee(); callee != nil && inScope(callee) {
			FieldWritesTransitive(callee, inScope, depth-1, seen, out)
		}
	}
}

// FieldReads lists the fields fn loads directly.
func FieldReads(fn *ssa.Function) map[*types.Var]bool {
	out := map[*types.Var]bool{}
	for _, b := range fn.Blocks {
		for _, in := range b.Instrs {
			switch x := in.(type) {
			case *ssa.UnOp:
				if x.Op == token.MUL {
					if f := FieldOf(x.X); f != nil {
						out[f] = true
					}
				}
			case *ssa.Field:
				if f := FieldOf(x); f != nil {
					out[f] = true
				}
			case *ssa.Slice:
				// x.f[:] of an array field
				if f := FieldOf(x.X); f != nil {
					out[f] = true
				}
			}
		}
	}
	return out
}

// StructFields returns the fields of a named struct type.
func StructFields(t types.Type) []*types.Var {
	if p, ok := t.Underlying().(*types.Pointer); ok {
		t = p.Elem()
	}
	s, ok := t.Underlying().(*types.Struct)
	if !ok {
		return nil
	}
	var out []*types.Var
	for i := 0; i < s.NumFields(); i++ {
		out = append(out, s.Field(i))
	}
	return out
}

// AllSources follows phis and returns the set of non-phi values that can
// flow into v.
func AllSources(v ssa.Value) []ssa.Value {
	var out []ssa.Value
	seen := map[ssa.Value]bool{}
	var walk func(ssa.Value)
	walk = func(x ssa.Value) {
		if seen[x] {
			return
		}
		seen[x] = true
		if p, ok := x.(*ssa.Phi); ok {
			for _, e := range p.Edges {
				walk(e)
			}
			return
		}
		out = append(out, x)
	}
	walk(v)
	return out
}
