package an

import (
	"encoding/json"
	"fmt"
	"os"
	"path/filepath"
	"sort"
	"strings"
	"time"
)

// Verdicts of an obligation.
const (
	Holds     = "holds"
	Violated  = "violated"
	Undecided = "undecided"
	Known     = "known-finding"
	Info      = "info"
)

// Ob is one rule instance.
type Ob struct {
	Key     string `json:"key"`
	Rule    string `json:"rule"`
	Site    string `json:"site"`
	Verdict string `json:"verdict"`
	Detail  string `json:"detail,omitempty"`
}

// Ctx collects the obligations and coverage of one property check.
type Ctx struct {
	Prop        string
	Tier        string
	Seed        int
	RepoDir     string
	VerifDir    string
	P           *Prog
	Obs         []*Ob
	Explanation string
	Assumptions []string
	Trusted     []string
	Counters    map[string]int
	Extra       map[string]interface{}
	Controls    []string // positive-control results
	start       time.Time
	keys        map[string]bool
}

func NewCtx(prop, tier string, seed int, repo, verif string) *Ctx {
	return &Ctx{Prop: prop, Tier: tier, Seed: seed, RepoDir: repo, VerifDir: verif,
		Counters: map[string]int{}, Extra: map[string]interface{}{}, start: time.Now(), keys: map[string]bool{}}
}

func (c *Ctx) add(key, rule, site, verdict, detail string) *Ob {
	k := key
	for n := 2; c.keys[k]; n++ {
		k = fmt.Sprintf("%s#%d", key, n)
	}
	c.keys[k] = true
	o := &Ob{Key: k, Rule: rule, Site: site, Verdict: verdict, Detail: detail}
	c.Obs = append(c.Obs, o)
	return o
}

func (c *Ctx) Hold(key, rule, site, detail string)    { c.add(key, rule, site, Holds, detail) }
func (c *Ctx) Violate(key, rule, site, detail string) { c.add(key, rule, site, Violated, detail) }
func (c *Ctx) Undecide(key, rule, site, detail string) {
	c.add(key, rule, site, Undecided, detail)
}
func (c *Ctx) Note(key, rule, site, detail string) { c.add(key, rule, site, Info, detail) }

// Check records holds/violated by a boolean.
func (c *Ctx) Check(ok bool, key, rule, site, detail string) bool {
	if ok {
		c.Hold(key, rule, site, "")
	} else {
		c.Violate(key, rule, site, detail)
	}
	return ok
}

// Count adds to a named coverage counter.
func (c *Ctx) Count(name string, n int) { c.Counters[name] += n }

// RequireMin fails the check when fewer instances than confirmed by reading
// were found (a rule matching nothing must not pass vacuously).
func (c *Ctx) RequireMin(what string, got, min int) {
	key := "count|" + what
	if got < min {
		c.Undecide(key, "instance count must not fall below what was confirmed by reading", "-",
			fmt.Sprintf("%s: found %d, confirmed minimum %d — the rule would pass vacuously", what, got, min))
	} else {
		c.Hold(key, "instance count must not fall below what was confirmed by reading", "-", fmt.Sprintf("%s: %d >= %d", what, got, min))
	}
}

// Control records a positive/negative control on a fixture.
func (c *Ctx) Control(name string, ok bool, detail string) {
	if ok {
		c.Controls = append(c.Controls, name+": ok")
		return
	}
	c.Controls = append(c.Controls, name+": FAILED "+detail)
	c.Undecide("control|"+name, "analyzer self-control on fixture must fire on bad and stay silent on good", "fixtures", detail)
}

// KnownFinding is one entry of known_findings.json.
type KnownFinding struct {
	Property string `json:"property"`
	Key      string `json:"key"`
	What     string `json:"what"`
	Evidence string `json:"evidence_of_failure"`
}

type knownFile struct {
	Findings []KnownFinding `json:"findings"`
	Fixed    []string       `json:"fixed"`
}

func loadKnown(path string) (*knownFile, error) {
	b, err := os.ReadFile(path)
	if err != nil {
		if os.IsNotExist(err) {
			return &knownFile{}, nil
		}
		return nil, err
	}
	var k knownFile
	if err := json.Unmarshal(b, &k); err != nil {
		return nil, err
	}
	return &k, nil
}

// Finish applies known findings, writes the evidence file, prints the
// report and returns the process exit code.
func (c *Ctx) Finish(fatal error) int {
	evPath := filepath.Join(c.VerifDir, "evidence", c.Prop+".json")
	if fatal != nil {
		c.Undecide("fatal", "the analysis must complete", "-", fatal.Error())
	}
	known, err := loadKnown(filepath.Join(c.VerifDir, "known_findings.json"))
	if err != nil {
		c.Undecide("known_findings", "known_findings.json must parse", "-", err.Error())
		known = &knownFile{}
	}
	kf := map[string]KnownFinding{}
	for _, f := range known.Findings {
		if f.Property == c.Prop {
			kf[f.Key] = f
		}
	}
	viol, undec, holds, knownN, info := 0, 0, 0, 0, 0
	var lines []string
	usedKnown := map[string]bool{}
	for _, o := range c.Obs {
		if o.Verdict == Violated {
			if f, ok := kf[o.Key]; ok {
				o.Verdict = Known
				usedKnown[o.Key] = true
				lines = append(lines, fmt.Sprintf("KNOWN-FINDING: property=%s %s [%s at %s]", c.Prop, f.What, o.Key, o.Site))
			}
		}
		switch o.Verdict {
		case Violated:
			viol++
			lines = append(lines, fmt.Sprintf("  violated  %s\n            at %s\n            rule: %s\n            %s", o.Key, o.Site, o.Rule, clip(o.Detail)))
		case Undecided:
			undec++
			lines = append(lines, fmt.Sprintf("  undecided %s\n            at %s\n            rule: %s\n            %s", o.Key, o.Site, o.Rule, clip(o.Detail)))
		case Holds:
			holds++
		case Known:
			knownN++
		case Info:
			info++
		}
	}
	// a listed finding that no longer fires is reported (not an error): the
	// file is edited by hand only.
	for k := range kf {
		if !usedKnown[k] {
			lines = append(lines, fmt.Sprintf("  note: known finding %q did not fire on this tree (repaired or renamed?)", k))
		}
	}
	total := holds + viol + undec + knownN
	samples := []interface{}{}
	// samples: first few of each verdict
	per := map[string]int{}
	for _, o := range c.Obs {
		lim := 6
		if o.Verdict == Violated || o.Verdict == Undecided || o.Verdict == Known {
			lim = 40
		}
		if per[o.Verdict] < lim {
			per[o.Verdict]++
			samples = append(samples, o)
		}
	}
	cov := map[string]interface{}{
		"explanation":         c.Explanation,
		"obligations":         total,
		"discharged":          holds,
		"known_findings":      knownN,
		"undecided":           undec,
		"info_notes":          info,
		"samples":             samples,
		"positive_controls":   c.Controls,
		"checker_cmd":         strings.Join(os.Args, " "),
		"trusted_base":        append([]string{"go/types", "golang.org/x/tools v0.29.0 go/packages, go/ssa, callgraph/vta+cha", "the slot tables in /verif/checker/props"}, c.Trusted...),
		"evaluations":         total,
		"distinct_nontrivial": len(c.keys),
		"rule":                "one obligation per (rule, construct) instance found in the current source tree; keys are rule|function-or-type|construct, never line numbers",
		"all_obligation_keys": c.sortedKeys(),
	}
	if c.P != nil {
		cov["packages_loaded"] = len(c.P.All)
		cov["root_packages"] = len(c.P.Roots)
		cov["repo_dir"] = c.P.Dir
	}
	for k, v := range c.Counters {
		cov[k] = v
	}
	for k, v := range c.Extra {
		cov[k] = v
	}
	if c.Assumptions == nil {
		c.Assumptions = []string{"none beyond the trusted base"}
	}
	ev := map[string]interface{}{
		"property_id": c.Prop,
		"tier":        c.Tier,
		"seed":        c.Seed,
		"level":       "other",
		"coverage":    cov,
		"assumptions": c.Assumptions,
		"wall_s":      time.Since(c.start).Seconds(),
		"violations":  viol + undec,
	}
	os.MkdirAll(filepath.Dir(evPath), 0o755)
	b, _ := json.MarshalIndent(ev, "", " ")
	if err := os.WriteFile(evPath, append(b, '\n'), 0o644); err != nil {
		fmt.Printf("cannot write evidence: %v\n", err)
		viol++
	}
	fmt.Printf("property %s tier=%s: %d obligations: %d hold, %d violated, %d undecided, %d known findings (%d info) in %.1fs\n",
		c.Prop, c.Tier, total, holds, viol, undec, knownN, info, time.Since(c.start).Seconds())
	for _, k := range sortedCounters(c.Counters) {
		fmt.Printf("  analysed %s=%d\n", k, c.Counters[k])
	}
	for _, l := range lines {
		fmt.Println(l)
	}
	if viol+undec > 0 {
		fmt.Printf("VIOLATION property=%s replay=%s\n", c.Prop, evPath)
		return 1
	}
	return 0
}

func (c *Ctx) sortedKeys() []string {
	var ks []string
	for _, o := range c.Obs {
		ks = append(ks, o.Verdict+" "+o.Key)
	}
	return ks
}

func sortedCounters(m map[string]int) []string {
	var ks []string
	for k := range m {
		ks = append(ks, k)
	}
	sort.Strings(ks)
	return ks
}

func clip(s string) string {
	if len(s) > 700 {
		return s[:340] + " ... " + s[len(s)-340:]
	}
	return s
}
