package an

import (
	"fmt"
	"go/types"

	"golang.org/x/tools/go/ssa"
)

// Stale-read analysis (C06): a storage record is updated by read-modify-write.
// If another record that may be the same record (same key namespace) is
// written between the read and the write that stores a value computed from
// that read, the write clobbers the other update when the two keys coincide
// (e.g. from == to). Helpers are summarised by which key parameter they read
// and which they write.

// RWTables names the base storage accessors: function object -> index of the
// key argument (receiver excluded).
type RWTables struct {
	Readers map[*types.Func]int
	Writers map[*types.Func]int
}

type rwSummary struct {
	reads  map[int]bool // parameter index (incl. receiver) read as a key
	writes map[int]bool
}

type StaleReadAnalyzer struct {
	T    RWTables
	memo map[*ssa.Function]*rwSummary
}

func NewStaleRead(t RWTables) *StaleReadAnalyzer {
	return &StaleReadAnalyzer{T: t, memo: map[*ssa.Function]*rwSummary{}}
}

func paramIndex(fn *ssa.Function, v ssa.Value) int {
	for i := 0; i < 4; i++ {
		switch x := v.(type) {
		case *ssa.Slice:
			v = x.X
			continue
		case *ssa.ChangeType:
			v = x.X
			continue
		}
		break
	}
	for i, p := range fn.Params {
		if ssa.Value(p) == v {
			return i
		}
	}
	return -1
}

// keyArg returns the key argument of a base accessor call, or nil.
func (a *StaleReadAnalyzer) baseKey(k ssa.CallInstruction) (key ssa.Value, isWrite, ok bool) {
	o := CalleeObj(k.Common())
	if o == nil {
		return nil, false, false
	}
	args := k.Common().Args
	off := 0
	if !k.Common().IsInvoke() && k.Common().StaticCallee() != nil && k.Common().StaticCallee().Signature.Recv() != nil {
		off = 1
	}
	if i, isR := a.T.Readers[o]; isR && off+i < len(args) {
		return args[off+i], false, true
	}
	if i, isW := a.T.Writers[o]; isW && off+i < len(args) {
		return args[off+i], true, true
	}
	return nil, false, false
}

func (a *StaleReadAnalyzer) summary(fn *ssa.Function, depth int) *rwSummary {
	if s, ok := a.memo[fn]; ok {
		return s
	}
	s := &rwSummary{reads: map[int]bool{}, writes: map[int]bool{}}
	a.memo[fn] = s
	if fn.Blocks == nil || depth > 4 {
		return s
	}
	for _, k := range Calls(fn) {
		if key, isW, ok := a.baseKey(k); ok {
			if i := paramIndex(fn, key); i >= 0 {
				if isW {
					s.writes[i] = true
				} else {
					s.reads[i] = true
				}
			}
			continue
		}
		callee := k.Common().StaticCallee()
		if callee == nil || callee == fn {
			continue
		}
		cs := a.summary(callee, depth+1)
		for j := range cs.reads {
			if j < len(k.Common().Args) {
				if i := paramIndex(fn, k.Common().Args[j]); i >= 0 {
					s.reads[i] = true
				}
			}
		}
		for j := range cs.writes {
			if j < len(k.Common().Args) {
				if i := paramIndex(fn, k.Common().Args[j]); i >= 0 {
					s.writes[i] = true
				}
			}
		}
	}
	return s
}

// RWEvent is a read or write of a keyed record at a call site.
type RWEvent struct {
	Call  ssa.CallInstruction
	Key   ssa.Value
	Write bool
	Read  bool
}

// Events lists the record accesses performed by the calls of fn.
func (a *StaleReadAnalyzer) Events(fn *ssa.Function) []RWEvent {
	var out []RWEvent
	for _, k := range Calls(fn) {
		if key, isW, ok := a.baseKey(k); ok {
			out = append(out, RWEvent{Call: k, Key: key, Write: isW, Read: !isW})
			continue
		}
		callee := k.Common().StaticCallee()
		if callee == nil {
			continue
		}
		cs := a.summary(callee, 0)
		idx := map[int]*RWEvent{}
		for j := range cs.reads {
			if j < len(k.Common().Args) {
				idx[j] = &RWEvent{Call: k, Key: k.Common().Args[j], Read: true}
			}
		}
		for j := range cs.writes {
			if j < len(k.Common().Args) {
				if e, ok := idx[j]; ok {
					e.Write = true
				} else {
					idx[j] = &RWEvent{Call: k, Key: k.Common().Args[j], Write: true}
				}
			}
		}
		for _, e := range idx {
			out = append(out, *e)
		}
	}
	return out
}

// keyNamespace: the function that built the key ("" unknown).
func keyNamespace(key ssa.Value) string {
	for i := 0; i < 4; i++ {
		switch x := key.(type) {
		case *ssa.Call:
			if c := x.Call.StaticCallee(); c != nil {
				return c.String()
			}
			return ""
		case *ssa.Slice:
			key = x.X
			continue
		case *ssa.Phi:
			ns := ""
			for _, e := range x.Edges {
				n := keyNamespace(e)
				if ns != "" && n != ns {
					return ""
				}
				ns = n
			}
			return ns
		}
		break
	}
	return ""
}

func sameKey(a, b ssa.Value) bool {
	if a == b {
		return true
	}
	pa, pb := AccessPath(a), AccessPath(b)
	if pa != "" && pa == pb {
		return true
	}
	// the same constructor applied to the same arguments
	ca, okA := a.(*ssa.Call)
	cb, okB := b.(*ssa.Call)
	if okA && okB && ca.Call.StaticCallee() != nil && ca.Call.StaticCallee() == cb.Call.StaticCallee() && len(ca.Call.Args) == len(cb.Call.Args) {
		for i := range ca.Call.Args {
			if !sameKey(ca.Call.Args[i], cb.Call.Args[i]) {
				return false
			}
		}
		return true
	}
	return false
}

func mayAlias(a, b ssa.Value) bool {
	na, nb := keyNamespace(a), keyNamespace(b)
	if na != "" && nb != "" && na != nb {
		return false
	}
	return true
}

func dependsOn(v, root ssa.Value, depth int, seen map[ssa.Value]bool) bool {
	if v == root {
		return true
	}
	if depth > 10 || seen[v] {
		return false
	}
	seen[v] = true
	// results of a tuple call
	if e, ok := v.(*ssa.Extract); ok && e.Tuple == root {
		return true
	}
	if in, ok := v.(ssa.Instruction); ok {
		for _, op := range in.Operands(nil) {
			if *op != nil && dependsOn(*op, root, depth+1, seen) {
				return true
			}
		}
	}
	return false
}

// StaleReads reports, for fn, every write of a record whose stored value is
// computed from an earlier read of the same record while another record that
// may alias it is written in between.
func (a *StaleReadAnalyzer) StaleReads(p *Prog, fn *ssa.Function) (pairs int, issues []string) {
	evs := a.Events(fn)
	for _, w := range evs {
		if !w.Write {
			continue
		}
		for _, r := range evs {
			if !r.Read || r.Call == w.Call || !sameKey(r.Key, w.Key) || r.Call.Value() == nil {
				continue
			}
			// the write's non-key arguments depend on the read's result
			dep := false
			for _, arg := range w.Call.Common().Args {
				if arg == w.Key {
					continue
				}
				if dependsOn(arg, r.Call.Value(), 0, map[ssa.Value]bool{}) {
					dep = true
				}
			}
			if !dep {
				continue
			}
			pairs++
			// another write between r and w
			after := (&Query{Fn: fn, Start: r.Call, Cut: map[ssa.Instruction]bool{w.Call: true}}).Run()
			for _, o := range evs {
				if !o.Write || o.Call == w.Call || o.Call == r.Call || sameKey(o.Key, w.Key) || !mayAlias(o.Key, w.Key) {
					continue
				}
				if !after.Reaches(o.Call) {
					continue
				}
				if (&Query{Fn: fn, Start: o.Call}).Run().Reaches(w.Call) {
					issues = append(issues, fmt.Sprintf("%s: the value written at %s is computed from the read at %s, but another record of the same kind is written in between at %s — if both keys name the same record (from == to) that update is lost",
						FuncName(fn), p.Rel(w.Call.Pos()), p.Rel(r.Call.Pos()), p.Rel(o.Call.Pos())))
				}
			}
		}
	}
	return pairs, issues
}
