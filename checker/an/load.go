// Package an is the analysis library of the ontology static checker:
// loader, SSA/call-graph construction, CFG path queries and the reusable
// analyzers (A1..A15 of DESIGN.md).
package an

import (
	"fmt"
	"go/ast"
	"go/token"
	"go/types"
	"os"
	"path/filepath"
	"sort"
	"strings"

	"golang.org/x/tools/go/packages"
	"golang.org/x/tools/go/ssa"
	"golang.org/x/tools/go/ssa/ssautil"
)

// RepoMod is the module path of the repository under analysis.
const RepoMod = "github.com/ontio/ontology"

// Prog is a loaded, type-checked program with SSA.
type Prog struct {
	Dir   string
	Fset  *token.FileSet
	Roots []*packages.Package
	All   map[string]*packages.Package
	SSA   *ssa.Program

	funcIndex map[string]*ssa.Function
	cg        *CG
	allFuncs  map[*ssa.Function]bool
}

func loadEnv() []string {
	env := []string{}
	for _, e := range os.Environ() {
		k := e
		if i := strings.IndexByte(e, '='); i >= 0 {
			k = e[:i]
		}
		switch k {
		case "GOFLAGS", "GOPROXY", "GOSUMDB", "GOWORK", "GOTOOLCHAIN":
			continue
		}
		env = append(env, e)
	}
	return append(env, "GOFLAGS=-mod=mod", "GOPROXY=off", "GOSUMDB=off", "GOWORK=off", "GOTOOLCHAIN=local")
}

// Load loads the patterns from dir with full syntax for every package in the
// transitive closure, type-checks and builds SSA. Any error fails the load.
func Load(dir string, extraEnv []string, patterns ...string) (*Prog, error) {
	fset := token.NewFileSet()
	cfg := &packages.Config{
		Mode:  packages.LoadAllSyntax,
		Dir:   dir,
		Fset:  fset,
		Tests: false,
		Env:   append(loadEnv(), extraEnv...),
	}
	pkgs, err := packages.Load(cfg, patterns...)
	if err != nil {
		return nil, fmt.Errorf("packages.Load: %v", err)
	}
	if len(pkgs) == 0 {
		return nil, fmt.Errorf("no packages matched %v in %s", patterns, dir)
	}
	p := &Prog{Dir: dir, Fset: fset, Roots: pkgs, All: map[string]*packages.Package{}}
	var errs []string
	packages.Visit(pkgs, nil, func(pk *packages.Package) {
		p.All[pk.PkgPath] = pk
		// only errors in repository packages (or the fixture module) matter;
		// dependencies are vendored-by-cache and must type-check too.
		for _, e := range pk.Errors {
			errs = append(errs, fmt.Sprintf("%s: %s", pk.PkgPath, e.Error()))
		}
	})
	if len(errs) > 0 {
		sort.Strings(errs)
		if len(errs) > 10 {
			errs = append(errs[:10], fmt.Sprintf("... and %d more", len(errs)-10))
		}
		return nil, fmt.Errorf("load/type errors:\n  %s", strings.Join(errs, "\n  "))
	}
	prog, _ := ssautil.AllPackages(pkgs, ssa.InstantiateGenerics)
	prog.Build()
	p.SSA = prog
	return p, nil
}

// Rel returns the position as a path relative to the analysed directory.
func (p *Prog) Rel(pos token.Pos) string {
	if !pos.IsValid() {
		return "?"
	}
	ps := p.Fset.Position(pos)
	f := ps.Filename
	if r, err := filepath.Rel(p.Dir, f); err == nil && !strings.HasPrefix(r, "..") {
		f = r
	}
	return fmt.Sprintf("%s:%d", f, ps.Line)
}

// Pkg returns the repository package with the given path relative to the
// module root ("core/types") or a full import path.
func (p *Prog) Pkg(path string) *packages.Package {
	if pk, ok := p.All[RepoMod+"/"+path]; ok {
		return pk
	}
	if pk, ok := p.All[path]; ok {
		return pk
	}
	return nil
}

// SSAPkg returns the SSA package for a path (relative or full).
func (p *Prog) SSAPkg(path string) *ssa.Package {
	pk := p.Pkg(path)
	if pk == nil || pk.Types == nil {
		return nil
	}
	return p.SSA.Package(pk.Types)
}

// Func resolves "pkg/path.Func", "pkg/path.(*T).M" or "pkg/path.T.M" (package
// path relative to the repository module or absolute) through type
// information. Returns nil if it does not resolve.
func (p *Prog) Func(q string) *ssa.Function {
	pkgPath, name := splitQual(q)
	sp := p.SSAPkg(pkgPath)
	if sp == nil {
		return nil
	}
	if !strings.Contains(name, ".") {
		// plain function, possibly an anonymous function "F$1"
		base := name
		rest := ""
		if i := strings.IndexByte(name, '$'); i >= 0 {
			base, rest = name[:i], name[i:]
		}
		fn := sp.Func(base)
		if fn == nil {
			return nil
		}
		if rest == "" {
			return fn
		}
		return findAnon(fn, base+rest)
	}
	// method
	ptr := false
	s := name
	if strings.HasPrefix(s, "(*") {
		ptr = true
		s = strings.TrimPrefix(s, "(*")
		s = strings.Replace(s, ")", "", 1)
	}
	parts := strings.SplitN(s, ".", 2)
	if len(parts) != 2 {
		return nil
	}
	tn, mn := parts[0], parts[1]
	rest := ""
	if i := strings.IndexByte(mn, '$'); i >= 0 {
		mn, rest = mn[:i], mn[i:]
	}
	obj := sp.Pkg.Scope().Lookup(tn)
	if obj == nil {
		return nil
	}
	named, ok := obj.Type().(*types.Named)
	if !ok {
		return nil
	}
	var recv types.Type = named
	if ptr {
		recv = types.NewPointer(named)
	}
	sel := p.SSA.MethodSets.MethodSet(recv).Lookup(sp.Pkg, mn)
	if sel == nil && !ptr {
		sel = p.SSA.MethodSets.MethodSet(types.NewPointer(named)).Lookup(sp.Pkg, mn)
	}
	if sel == nil {
		return nil
	}
	fn := p.SSA.MethodValue(sel)
	if fn == nil {
		return nil
	}
	// the declared method, not a wrapper
	if fn.Synthetic != "" {
		if m, ok := sel.Obj().(*types.Func); ok {
			if d := p.SSA.FuncValue(m); d != nil {
				fn = d
			}
		}
	}
	if rest == "" {
		return fn
	}
	return findAnon(fn, fn.Name()+rest)
}

func findAnon(fn *ssa.Function, name string) *ssa.Function {
	for _, a := range fn.AnonFuncs {
		if a.Name() == name {
			return a
		}
		if r := findAnon(a, name); r != nil {
			return r
		}
	}
	return nil
}

func splitQual(q string) (pkg, name string) {
	// the package path ends at the last '/' segment's first '.'
	slash := strings.LastIndexByte(q, '/')
	dot := strings.IndexByte(q[slash+1:], '.')
	if dot < 0 {
		return q, ""
	}
	return q[:slash+1+dot], q[slash+1+dot+1:]
}

// Obj resolves "pkg/path.Name" to a package-level object.
func (p *Prog) Obj(q string) types.Object {
	pkgPath, name := splitQual(q)
	pk := p.Pkg(pkgPath)
	if pk == nil || pk.Types == nil {
		return nil
	}
	return pk.Types.Scope().Lookup(name)
}

// Method resolves "pkg/path.T.M" to the *types.Func (interface or concrete).
func (p *Prog) Method(q string) *types.Func {
	pkgPath, name := splitQual(q)
	parts := strings.SplitN(strings.NewReplacer("(*", "", ")", "").Replace(name), ".", 2)
	if len(parts) != 2 {
		return nil
	}
	pk := p.Pkg(pkgPath)
	if pk == nil || pk.Types == nil {
		return nil
	}
	obj := pk.Types.Scope().Lookup(parts[0])
	if obj == nil {
		return nil
	}
	o, _, _ := types.LookupFieldOrMethod(obj.Type(), true, pk.Types, parts[1])
	f, _ := o.(*types.Func)
	return f
}

// Field resolves "pkg/path.T.f" to the *types.Var of the struct field.
func (p *Prog) Field(q string) *types.Var {
	pkgPath, name := splitQual(q)
	parts := strings.SplitN(name, ".", 2)
	if len(parts) != 2 {
		return nil
	}
	pk := p.Pkg(pkgPath)
	if pk == nil || pk.Types == nil {
		return nil
	}
	obj := pk.Types.Scope().Lookup(parts[0])
	if obj == nil {
		return nil
	}
	o, _, _ := types.LookupFieldOrMethod(obj.Type(), true, pk.Types, parts[1])
	v, _ := o.(*types.Var)
	if v != nil && v.IsField() {
		return v
	}
	return nil
}

// InRepo reports whether fn belongs to the repository module (or, for
// fixtures, to the loaded root module).
func (p *Prog) InRepo(fn *ssa.Function) bool {
	pk := FuncPkgPath(fn)
	return strings.HasPrefix(pk, RepoMod+"/") || pk == RepoMod || strings.HasPrefix(pk, "verif/checker/fixtures")
}

// FuncPkgPath is the import path of the package that declares fn ("" if none).
func FuncPkgPath(fn *ssa.Function) string {
	if fn == nil {
		return ""
	}
	for fn.Parent() != nil {
		fn = fn.Parent()
	}
	if fn.Pkg != nil {
		return fn.Pkg.Pkg.Path()
	}
	if o := fn.Object(); o != nil && o.Pkg() != nil {
		return o.Pkg().Path()
	}
	if o := fn.Origin(); o != nil && o != fn {
		return FuncPkgPath(o)
	}
	return ""
}

// FuncName renders a function as "pkg/rel.(*T).M" with the module prefix
// stripped; it is the form used in obligation keys.
func FuncName(fn *ssa.Function) string {
	if fn == nil {
		return "<nil>"
	}
	s := fn.String()
	s = strings.ReplaceAll(s, RepoMod+"/", "")
	return s
}

// AllFuncs is the set of all functions of the program (incl. anonymous and
// instantiated ones).
func (p *Prog) AllFuncs() map[*ssa.Function]bool {
	if p.allFuncs == nil {
		p.allFuncs = ssautil.AllFunctions(p.SSA)
	}
	return p.allFuncs
}

// RepoSrcFuncs returns every source-level function (with blocks) declared in
// the repository whose package path has one of the prefixes (relative to the
// module; empty = all), sorted by name.
func (p *Prog) RepoSrcFuncs(prefixes ...string) []*ssa.Function {
	var out []*ssa.Function
	for fn := range p.AllFuncs() {
		if fn.Blocks == nil || fn.Synthetic != "" && !strings.HasPrefix(fn.Synthetic, "instance of") {
			continue
		}
		if !p.InRepo(fn) {
			continue
		}
		pk := strings.TrimPrefix(FuncPkgPath(fn), RepoMod+"/")
		ok := len(prefixes) == 0
		for _, pre := range prefixes {
			if pk == pre || strings.HasPrefix(pk, pre+"/") {
				ok = true
			}
		}
		if ok {
			out = append(out, fn)
		}
	}
	sort.Slice(out, func(i, j int) bool {
		if out[i].String() != out[j].String() {
			return out[i].String() < out[j].String()
		}
		return out[i].Pos() < out[j].Pos()
	})
	return out
}

// FuncDecl finds the AST declaration of a source function.
func (p *Prog) FuncDecl(fn *ssa.Function) *ast.FuncDecl {
	if d, ok := fn.Syntax().(*ast.FuncDecl); ok {
		return d
	}
	return nil
}

// FileOf returns the *ast.File and package containing pos.
func (p *Prog) FileOf(pos token.Pos) (*ast.File, *packages.Package) {
	tf := p.Fset.File(pos)
	if tf == nil {
		return nil, nil
	}
	for _, pk := range p.All {
		for _, f := range pk.Syntax {
			if p.Fset.File(f.Pos()) == tf {
				return f, pk
			}
		}
	}
	return nil, nil
}

// ImportClosure returns the set of package paths transitively imported by the
// given repository packages (paths relative to the module or absolute),
// including themselves.
func (p *Prog) ImportClosure(paths ...string) map[string]bool {
	out := map[string]bool{}
	var visit func(pk *packages.Package)
	visit = func(pk *packages.Package) {
		if pk == nil || out[pk.PkgPath] {
			return
		}
		out[pk.PkgPath] = true
		for _, imp := range pk.Imports {
			visit(imp)
		}
	}
	for _, q := range paths {
		visit(p.Pkg(q))
	}
	return out
}
