package an

import (
	"fmt"
	"go/token"
	"go/types"
	"strings"
	"sync"

	"golang.org/x/tools/go/ssa"
)

// ---------------------------------------------------------------------------
// Path query (interprocedural within a package)

// Query is a reachability question on a function's SSA CFG, with branch
// folding under assumptions. Paths stop *before* executing an instruction in
// Cut. Calls to functions of the same package whose body is available
// (static callees, closures invoked directly or through a parameter bound at
// an inlined call) are entered, to a bounded depth, with parameters evaluated
// in the caller's state and the call's value evaluated from the callee's
// return: a rule stated on a function keeps holding when part of its body is
// moved into a helper. Calls whose result is assumed (guards), calls selected
// by Opaque and recursive calls are not entered.
type Query struct {
	Fn     *ssa.Function
	Assume map[ssa.Value]Abs
	Cut    map[ssa.Instruction]bool
	// NonEmptyRange: on first entry (not via a back edge) a `range` loop
	// header takes its body edge. Only set with a reasoned table entry.
	NonEmptyRange bool
	// Start, if set, begins exploration after this instruction instead of at
	// the function entry. If the instruction lies in a function entered from
	// Fn, exploration begins after it in every calling context reached from
	// Fn's entry.
	Start ssa.Instruction
	// NoInline keeps the query inside Fn.
	NoInline bool
	// Opaque selects calls that are never entered.
	Opaque func(ssa.CallInstruction) bool
}

// MaxInlineDepth bounds the nesting of entered calls.
const MaxInlineDepth = 4

// maxStates bounds one exploration; beyond it the query is re-run without
// entering calls (the intraprocedural answer over-approximates reachability).
const maxStates = 60000

type frame struct {
	fn      *ssa.Function
	parent  *frame
	site    *ssa.Call
	at      pstate // caller's state at the call
	closure *ssa.MakeClosure
	depth   int
}

type frameKey struct {
	parent *frame
	site   *ssa.Call
	at     pstate
	fn     *ssa.Function
}

type pstate struct {
	fr   *frame
	pred int // index of predecessor block, -1 entry, -2 unknown
	blk  int
	seg  int // index of the first instruction executed in this state
	// set when the state resumes after an entered call returned
	ret     *ssa.Return
	retFr   *frame
	retPred int
}

type stRange struct {
	st  pstate
	end int // instructions [st.seg, end) were executed
}

// Result of a Query.
type Result struct {
	q      *Query
	root   *frame
	parent map[pstate]pstate
	seen   map[pstate]bool
	byBlk  map[*ssa.BasicBlock][]stRange
	edges  map[[2]*ssa.BasicBlock]bool
	frames map[frameKey]*frame
	// Truncated: the state budget was exhausted and the result comes from the
	// intraprocedural re-run.
	Truncated bool
	Inlined   int // number of call frames entered
}

func (q *Query) Run() *Result {
	r := q.run()
	if r.Truncated && !q.NoInline {
		q2 := *q
		q2.NoInline = true
		r = q2.run()
		r.Truncated = true
	}
	return r
}

func (q *Query) run() *Result {
	r := &Result{q: q, parent: map[pstate]pstate{}, seen: map[pstate]bool{},
		byBlk: map[*ssa.BasicBlock][]stRange{}, edges: map[[2]*ssa.BasicBlock]bool{}, frames: map[frameKey]*frame{}}
	fn := q.Fn
	r.root = &frame{fn: fn}
	if len(fn.Blocks) == 0 {
		return r
	}
	var work []pstate
	push := func(s, from pstate, hasFrom bool) {
		if r.seen[s] {
			return
		}
		r.seen[s] = true
		if hasFrom {
			r.parent[s] = from
		}
		work = append(work, s)
	}
	switch {
	case q.Start == nil:
		push(pstate{fr: r.root, pred: -1, blk: 0}, pstate{}, false)
	case q.Start.Parent() == fn || q.NoInline:
		b := q.Start.Block()
		push(pstate{fr: r.root, pred: -2, blk: b.Index, seg: instrIndex(q.Start) + 1}, pstate{}, false)
	default:
		// phase 1: the states in which Start executes, from Fn's entry (no cut)
		q1 := *q
		q1.Start, q1.Cut = nil, nil
		r1 := q1.run()
		if r1.Truncated {
			r.Truncated = true
			return r
		}
		r.frames = r1.frames
		r.root = r1.root
		idx := instrIndex(q.Start)
		for _, st := range r1.StatesAt(q.Start) {
			s := st
			s.seg = idx + 1
			s.ret, s.retFr, s.retPred = nil, nil, 0
			push(s, pstate{}, false)
		}
	}
	for len(work) > 0 {
		if len(r.seen) > maxStates {
			r.Truncated = true
			return r
		}
		st := work[len(work)-1]
		work = work[:len(work)-1]
		b := st.fr.fn.Blocks[st.blk]
		i := st.seg
		stopped := false
		for ; i < len(b.Instrs) && !stopped; i++ {
			in := b.Instrs[i]
			if q.Cut[in] {
				stopped = true
				break
			}
			switch x := in.(type) {
			case *ssa.Call:
				callee, clo := r.inlineTarget(x, st)
				if callee == nil {
					continue
				}
				key := frameKey{parent: st.fr, site: x, at: st, fn: callee}
				fr := r.frames[key]
				if fr == nil {
					fr = &frame{fn: callee, parent: st.fr, site: x, at: st, closure: clo, depth: st.fr.depth + 1}
					r.frames[key] = fr
					r.Inlined++
				}
				// the call instruction itself counts as executed
				i++
				push(pstate{fr: fr, pred: -1, blk: 0}, st, true)
				stopped = true
			case *ssa.Return:
				if st.fr.parent == nil {
					continue
				}
				cs := st.fr.at
				push(pstate{fr: st.fr.parent, pred: cs.pred, blk: cs.blk, seg: instrIndex(st.fr.site) + 1, ret: x, retFr: st.fr, retPred: st.pred}, st, true)
			}
			if stopped {
				break
			}
		}
		r.byBlk[b] = append(r.byBlk[b], stRange{st: st, end: i})
		if stopped || i < len(b.Instrs) {
			continue
		}
		for _, s := range r.succs(st) {
			r.edges[[2]*ssa.BasicBlock{b, s.fr.fn.Blocks[s.blk]}] = true
			push(s, st, true)
		}
	}
	return r
}

func instrIndex(in ssa.Instruction) int {
	for i, x := range in.Block().Instrs {
		if x == in {
			return i
		}
	}
	return -1
}

// inlineTarget decides whether the call is entered and resolves its body.
func (r *Result) inlineTarget(c *ssa.Call, st pstate) (*ssa.Function, *ssa.MakeClosure) {
	q := r.q
	if q.NoInline || st.fr.depth >= MaxInlineDepth || c.Call.IsInvoke() {
		return nil, nil
	}
	if _, ok := q.Assume[c]; ok {
		return nil, nil
	}
	if refs := c.Referrers(); refs != nil {
		for _, u := range *refs {
			if e, ok := u.(*ssa.Extract); ok {
				if _, assumed := q.Assume[e]; assumed {
					return nil, nil
				}
			}
		}
	}
	if q.Opaque != nil && q.Opaque(c) {
		return nil, nil
	}
	var callee *ssa.Function
	var clo *ssa.MakeClosure
	switch v := c.Call.Value.(type) {
	case *ssa.Function:
		callee = v
	case *ssa.MakeClosure:
		callee, _ = v.Fn.(*ssa.Function)
		clo = v
	case *ssa.Parameter:
		if a, fr := r.actual(v, st); a != nil {
			_ = fr
			switch w := a.(type) {
			case *ssa.Function:
				callee = w
			case *ssa.MakeClosure:
				callee, _ = w.Fn.(*ssa.Function)
				clo = w
			}
		}
	}
	if callee == nil || callee.Blocks == nil || !inlinable(q.Fn, callee) {
		return nil, nil
	}
	for f := st.fr; f != nil; f = f.parent {
		if f.fn == callee {
			return nil, nil
		}
	}
	return callee, clo
}

// inlinable: same package as the root (closures count with their enclosing function).
func inlinable(root, callee *ssa.Function) bool {
	if callee.Synthetic != "" || opaqueUnits[callee] {
		return false
	}
	return pkgOfFn(root) != nil && pkgOfFn(root) == pkgOfFn(callee)
}

// opaqueUnits are functions with rules of their own (the anchors of the property being checked): a query on a
// caller treats a call to one as a single step and never enters it, so that a rule about "the calls in F" keeps
// meaning F and its private helpers, not the separately specified units F uses.
var opaqueUnits = map[*ssa.Function]bool{}

// SetOpaqueUnits replaces the set of opaque units.
func SetOpaqueUnits(fns ...*ssa.Function) {
	opaqueUnits = map[*ssa.Function]bool{}
	for _, f := range fns {
		if f != nil {
			opaqueUnits[f] = true
		}
	}
	reachCache = sync.Map{}
}

// IsOpaqueUnit reports whether the property being checked named fn (it is a unit with rules of its own).
func IsOpaqueUnit(fn *ssa.Function) bool { return opaqueUnits[fn] }

// AddOpaqueUnit adds one function to the opaque units.
func AddOpaqueUnit(fn *ssa.Function) {
	if fn == nil || opaqueUnits[fn] {
		return
	}
	opaqueUnits[fn] = true
	reachCache = sync.Map{}
}

func pkgOfFn(fn *ssa.Function) *ssa.Package {
	for fn != nil {
		if fn.Pkg != nil {
			return fn.Pkg
		}
		fn = fn.Parent()
	}
	return nil
}

// actual resolves a parameter of an entered function to the argument at its call, with the caller's state.
func (r *Result) actual(p *ssa.Parameter, st pstate) (ssa.Value, pstate) {
	fr := st.fr
	if fr == nil || fr.parent == nil || p.Parent() != fr.fn {
		return nil, pstate{}
	}
	for i, fp := range fr.fn.Params {
		if fp == p && i < len(fr.site.Call.Args) {
			return fr.site.Call.Args[i], fr.at
		}
	}
	return nil, pstate{}
}

// ActualAt resolves a value that is a parameter of an entered helper to the caller's argument in the calling context
// of the given state (repeatedly); other values are returned unchanged.
func (r *Result) ActualAt(v ssa.Value, st pstate) ssa.Value {
	for i := 0; i <= MaxInlineDepth; i++ {
		p, ok := v.(*ssa.Parameter)
		if !ok {
			return v
		}
		a, cs := r.actual(p, st)
		if a == nil {
			return v
		}
		v, st = a, cs
	}
	return v
}

func (r *Result) succs(st pstate) []pstate {
	fn := st.fr.fn
	b := fn.Blocks[st.blk]
	if len(b.Instrs) == 0 {
		return nil
	}
	// (the outcome of an entered call is known only in the rest of the call's own block: carrying it into the
	// following blocks multiplies call frames - every distinct caller state is a frame - and was measured to blow
	// the state budget on the ledger store)
	mk := func(s *ssa.BasicBlock) pstate { return pstate{fr: st.fr, pred: st.blk, blk: s.Index} }
	switch t := b.Instrs[len(b.Instrs)-1].(type) {
	case *ssa.If:
		if r.q.NonEmptyRange && strings.HasPrefix(b.Comment, "range") && strings.HasSuffix(b.Comment, ".loop") {
			if st.pred >= 0 && !b.Dominates(fn.Blocks[st.pred]) {
				return []pstate{mk(b.Succs[0])}
			}
		}
		// the same traversal written as an index loop: `for i := 0; i < len(xs); i++` entered from outside
		if r.q.NonEmptyRange && st.pred >= 0 && !b.Dominates(fn.Blocks[st.pred]) {
			if body := indexLoopBody(b, t); body != nil {
				return []pstate{mk(body)}
			}
		}
		c := r.Eval(t.Cond, st)
		if v, ok := c.IsBool(); ok {
			if v {
				return []pstate{mk(b.Succs[0])}
			}
			return []pstate{mk(b.Succs[1])}
		}
		return []pstate{mk(b.Succs[0]), mk(b.Succs[1])}
	case *ssa.Jump:
		return []pstate{mk(b.Succs[0])}
	}
	return nil
}

// Reaches reports whether the instruction is reachable.
func (r *Result) Reaches(in ssa.Instruction) bool {
	return len(r.StatesAt(in)) > 0
}

// StatesAt lists the states in which the instruction executes.
func (r *Result) StatesAt(in ssa.Instruction) []pstate {
	b := in.Block()
	if b == nil {
		return nil
	}
	rs := r.byBlk[b]
	if len(rs) == 0 {
		return nil
	}
	idx := instrIndex(in)
	if idx < 0 {
		return nil
	}
	var out []pstate
	for _, sr := range rs {
		if idx >= sr.st.seg && idx < sr.end {
			out = append(out, sr.st)
		}
	}
	return out
}

// EdgeTaken reports whether the CFG edge from->to was traversed.
func (r *Result) EdgeTaken(from, to *ssa.BasicBlock) bool {
	return r.edges[[2]*ssa.BasicBlock{from, to}]
}

// Witness renders one path of blocks leading to the state.
func (r *Result) Witness(p *Prog, st pstate) string {
	var rev []string
	cur := st
	for n := 0; n < 400; n++ {
		b := cur.fr.fn.Blocks[cur.blk]
		s := fmt.Sprintf("b%d(%s)", b.Index, p.Rel(blockPos(b)))
		if cur.fr.parent != nil {
			s = cur.fr.fn.Name() + ":" + s
		}
		if len(rev) == 0 || rev[len(rev)-1] != s {
			rev = append(rev, s)
		}
		par, ok := r.parent[cur]
		if !ok {
			break
		}
		cur = par
	}
	for i, j := 0, len(rev)-1; i < j; i, j = i+1, j-1 {
		rev[i], rev[j] = rev[j], rev[i]
	}
	if len(rev) > 14 {
		rev = append(append(rev[:6:6], "..."), rev[len(rev)-7:]...)
	}
	return strings.Join(rev, " -> ")
}

// Eval evaluates v abstractly in the given state.
func (r *Result) Eval(v ssa.Value, st pstate) Abs {
	return r.eval(v, st, 0)
}

func (r *Result) eval(v ssa.Value, st pstate, depth int) Abs {
	if depth > 16 {
		return AUnknown
	}
	if a, ok := r.q.Assume[v]; ok {
		return a
	}
	if st.fr == nil {
		st.fr = r.root
	}
	switch x := v.(type) {
	case *ssa.Parameter:
		if a, cs := r.actual(x, st); a != nil {
			return r.eval(a, cs, depth+1)
		}
	case *ssa.FreeVar:
		if clo := st.fr.closure; clo != nil && x.Parent() == st.fr.fn {
			for i, fv := range st.fr.fn.FreeVars {
				if fv == x && i < len(clo.Bindings) {
					// the binding is a value of the function that made the closure; it can be
					// evaluated only if that is the caller
					if mk := clo.Parent(); mk == st.fr.parent.fn {
						return r.eval(clo.Bindings[i], st.fr.at, depth+1)
					}
				}
			}
		}
		return AUnknown
	case *ssa.Call:
		if a, ok := r.returned(x, 0, false, st, depth); ok {
			return a
		}
	case *ssa.Extract:
		if c, isCall := x.Tuple.(*ssa.Call); isCall {
			if a, ok := r.returned(c, x.Index, true, st, depth); ok {
				return a
			}
		}
	}
	if in, ok := v.(ssa.Instruction); ok && in.Parent() != st.fr.fn {
		return AUnknown
	}
	a := r.evalStruct(v, st, depth)
	if a.K != KUnknown {
		return a
	}
	return r.facts(v, st, depth)
}

// returned evaluates result idx of an entered call from the return the state resumed from.
func (r *Result) returned(c *ssa.Call, idx int, tuple bool, st pstate, depth int) (Abs, bool) {
	if st.ret == nil || st.retFr == nil || st.retFr.site != c || st.retFr.parent != st.fr {
		return AUnknown, false
	}
	if idx >= len(st.ret.Results) || (!tuple && len(st.ret.Results) != 1) {
		return AUnknown, false
	}
	rs := pstate{fr: st.retFr, pred: st.retPred, blk: st.ret.Block().Index}
	return r.eval(st.ret.Results[idx], rs, depth+1), true
}

// CallsToReach lists the calls to any of objs in fn and in the functions a query on fn may enter (the bodies of
// objs themselves are not searched).
func CallsToReach(fn *ssa.Function, objs ...*types.Func) []ssa.CallInstruction {
	var out []ssa.CallInstruction
	for _, g := range InlineReach(fn) {
		out = append(out, CallsTo(g, objs...)...)
	}
	return out
}

// SitesOf lists the static call sites of g in the functions a query on root may enter.
func SitesOf(root, g *ssa.Function) []*ssa.Call {
	var out []*ssa.Call
	for _, f := range InlineReach(root) {
		for _, k := range Calls(f) {
			if c, ok := k.(*ssa.Call); ok && c.Call.StaticCallee() == g {
				out = append(out, c)
			}
		}
	}
	return out
}

// ResolveActual follows a value that is a parameter of a helper entered from root to the argument passed at the
// helper's only call site (repeatedly); other values are returned unchanged.
func ResolveActual(root *ssa.Function, v ssa.Value) ssa.Value {
	for n := 0; n < MaxInlineDepth; n++ {
		p, ok := v.(*ssa.Parameter)
		if !ok || p.Parent() == root {
			return v
		}
		sites := SitesOf(root, p.Parent())
		if len(sites) != 1 {
			return v
		}
		idx := -1
		for i, fp := range p.Parent().Params {
			if fp == p {
				idx = i
			}
		}
		if idx < 0 || idx >= len(sites[0].Call.Args) {
			return v
		}
		v = sites[0].Call.Args[idx]
	}
	return v
}

// Deref expands a value to the values that define it across the boundaries of the private helpers a query on root
// enters: a helper's parameter stands for the arguments at its call sites, a call to a helper with one result for
// what the helper returns, a phi for its edges. Values that cannot be expanded are returned as they are.
func Deref(root *ssa.Function, v ssa.Value) []ssa.Value {
	var out []ssa.Value
	for _, vc := range DerefCtx(root, v, nil) {
		out = append(out, vc.V)
	}
	return out
}

// ValCtx is a value together with the chain of helper calls through which it was reached: a parameter of the
// innermost helper stands for the argument of that very call, not of every call of the helper.
type ValCtx struct {
	V   ssa.Value
	Ctx []*ssa.Call
	Ret *ssa.Return // set by DerefStep when V is a result of this return of an entered helper
}

// FailingReturn: the return's last result is an error that is certainly non-nil (built by an error constructor or
// a sentinel error variable).
func FailingReturn(r *ssa.Return) bool {
	if r == nil || len(r.Results) == 0 {
		return false
	}
	last := r.Results[len(r.Results)-1]
	if !isErrorType(last.Type()) {
		return false
	}
	if c, ok := last.(*ssa.Call); ok {
		if callee := c.Call.StaticCallee(); callee != nil && ErrorCtors[callee.String()] {
			return true
		}
	}
	if u, ok := last.(*ssa.UnOp); ok && u.Op == token.MUL {
		if g, isG := u.X.(*ssa.Global); isG && sentinelError(g) {
			return true
		}
	}
	return false
}

// DerefStep performs one expansion step of DerefCtx (helper parameter -> argument, helper call or tuple component ->
// returned values) without expanding phis; ok is false when v is not such a value.
func DerefStep(root *ssa.Function, v ssa.Value, ctx []*ssa.Call) (out []ValCtx, ok bool) {
	entered := map[*ssa.Function]bool{}
	for _, g := range InlineReach(root) {
		entered[g] = g != root
	}
	fromCall := func(c *ssa.Call, idx int) bool {
		callee := c.Call.StaticCallee()
		if callee == nil || !entered[callee] {
			return false
		}
		rets := Returns(callee)
		if len(rets) == 0 {
			return false
		}
		inner := append(append([]*ssa.Call{}, ctx...), c)
		for _, r := range rets {
			if idx < len(r.Results) {
				out = append(out, ValCtx{V: r.Results[idx], Ctx: inner, Ret: r})
			}
		}
		return true
	}
	switch x := v.(type) {
	case *ssa.Parameter:
		if !entered[x.Parent()] {
			return nil, false
		}
		idx := -1
		for i, fp := range x.Parent().Params {
			if fp == x {
				idx = i
			}
		}
		if idx < 0 {
			return nil, false
		}
		if len(ctx) > 0 && ctx[len(ctx)-1].Call.StaticCallee() == x.Parent() {
			s := ctx[len(ctx)-1]
			if idx < len(s.Call.Args) {
				return []ValCtx{{V: s.Call.Args[idx], Ctx: ctx[:len(ctx)-1]}}, true
			}
		}
		for _, s := range SitesOf(root, x.Parent()) {
			if idx < len(s.Call.Args) {
				out = append(out, ValCtx{V: s.Call.Args[idx]})
			}
		}
		return out, len(out) > 0
	case *ssa.Call:
		if x.Call.StaticCallee() != nil && x.Call.StaticCallee().Signature.Results().Len() == 1 && fromCall(x, 0) {
			return out, true
		}
	case *ssa.Extract:
		if c, isCall := x.Tuple.(*ssa.Call); isCall && fromCall(c, x.Index) {
			return out, true
		}
	}
	return nil, false
}

// DerefCtx is Deref with calling context (see ValCtx); ctx is the context v itself was found in.
func DerefCtx(root *ssa.Function, v ssa.Value, ctx []*ssa.Call) []ValCtx {
	entered := map[*ssa.Function]bool{}
	for _, g := range InlineReach(root) {
		entered[g] = g != root
	}
	var out []ValCtx
	type key struct {
		v   ssa.Value
		top *ssa.Call
		n   int
	}
	seen := map[key]bool{}
	var walk func(v ssa.Value, ctx []*ssa.Call, d int)
	walk = func(v ssa.Value, ctx []*ssa.Call, d int) {
		if v == nil {
			return
		}
		k := key{v: v, n: len(ctx)}
		if len(ctx) > 0 {
			k.top = ctx[len(ctx)-1]
		}
		if seen[k] {
			return
		}
		seen[k] = true
		if d > 10 {
			out = append(out, ValCtx{V: v, Ctx: ctx})
			return
		}
		switch x := v.(type) {
		case *ssa.Parameter:
			if entered[x.Parent()] {
				idx := -1
				for i, fp := range x.Parent().Params {
					if fp == x {
						idx = i
					}
				}
				if idx >= 0 && len(ctx) > 0 && ctx[len(ctx)-1].Call.StaticCallee() == x.Parent() {
					s := ctx[len(ctx)-1]
					if idx < len(s.Call.Args) {
						walk(s.Call.Args[idx], ctx[:len(ctx)-1], d+1)
						return
					}
				}
				sites := SitesOf(root, x.Parent())
				if idx >= 0 && len(sites) > 0 {
					for _, s := range sites {
						if idx < len(s.Call.Args) {
							walk(s.Call.Args[idx], nil, d+1)
						}
					}
					return
				}
			}
		case *ssa.Call:
			if callee := x.Call.StaticCallee(); callee != nil && entered[callee] && callee.Signature.Results().Len() == 1 {
				rets := Returns(callee)
				if len(rets) > 0 {
					inner := append(append([]*ssa.Call{}, ctx...), x)
					for _, r := range rets {
						walk(r.Results[0], inner, d+1)
					}
					return
				}
			}
		case *ssa.Extract:
			// one result of a helper that returns several
			if c, isCall := x.Tuple.(*ssa.Call); isCall {
				if callee := c.Call.StaticCallee(); callee != nil && entered[callee] {
					rets := Returns(callee)
					if len(rets) > 0 {
						inner := append(append([]*ssa.Call{}, ctx...), c)
						for _, r := range rets {
							if x.Index < len(r.Results) {
								walk(r.Results[x.Index], inner, d+1)
							}
						}
						return
					}
				}
			}
		case *ssa.Phi:
			for _, e := range x.Edges {
				walk(e, ctx, d+1)
			}
			return
		}
		out = append(out, ValCtx{V: v, Ctx: ctx})
	}
	walk(v, ctx, 0)
	return out
}

// InlineReach lists fn and the functions a query rooted at fn may enter: same-package static callees and the
// closures they create, to the inlining depth.
func InlineReach(fn *ssa.Function) []*ssa.Function {
	if v, ok := reachCache.Load(fn); ok {
		return v.([]*ssa.Function)
	}
	out := inlineReach(fn)
	reachCache.Store(fn, out)
	return out
}

var reachCache sync.Map

func inlineReach(fn *ssa.Function) []*ssa.Function { return InlineReachSkipping(fn, nil) }

// InlineReachSkipping is InlineReach without following the calls selected by skip.
func InlineReachSkipping(fn *ssa.Function, skip func(*ssa.Call) bool) []*ssa.Function {
	seen := map[*ssa.Function]bool{fn: true}
	out := []*ssa.Function{fn}
	type item struct {
		f *ssa.Function
		d int
	}
	work := []item{{fn, 0}}
	add := func(g *ssa.Function, d int) {
		if g == nil || seen[g] || g.Blocks == nil || !inlinable(fn, g) {
			return
		}
		seen[g] = true
		out = append(out, g)
		work = append(work, item{g, d})
	}
	for len(work) > 0 {
		it := work[0]
		work = work[1:]
		for _, b := range it.f.Blocks {
			for _, in := range b.Instrs {
				switch x := in.(type) {
				case *ssa.Call:
					if it.d < MaxInlineDepth && (skip == nil || !skip(x)) {
						add(x.Call.StaticCallee(), it.d+1)
					}
				case *ssa.MakeClosure:
					// a closure is entered when invoked directly or through a parameter of an entered callee
					if g, ok := x.Fn.(*ssa.Function); ok && it.d < MaxInlineDepth {
						add(g, it.d+1)
					}
				}
			}
		}
	}
	return out
}
