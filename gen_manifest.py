#!/usr/bin/env python3
"""Generates MANIFEST.json from the table below (kept in one place so the
manifest is always schema-valid). Run after changing which properties are claimed."""
import json, sys

# id -> (technique, level text, level note, design ref)
CLAIMED = {
 "C42": ("call-graph confinement (A4): VTA reachability from pre-execution roots to persistent-write sinks",
         "Decides a structural necessary condition for every input: in the type-checked program's refined call graph no function that writes persisted ledger state is reachable from any pre-execution entry point, and each entry point executes on an overlay it creates itself. It does not execute anything; it cannot miss a write path that exists in the source except through reflection/cgo, and it does not decide read-side effects.",
         "go/types + go/ssa + VTA(CHA) call graph of x/tools v0.29.0 are sound for non-reflective Go; eventbus actor mailboxes and logging are cut as asynchronous boundaries (table printed in evidence).",
         "DESIGN.md §4 C42"),
}

NOT_APPLICABLE = {
 "C09": "issuance additivity/total is arithmetic over generation tables; no shape condition of the code implies it (needs evaluation or a solver, outside static analysis)",
 "C10": "fee-split bound is an inequality over products/quotients of runtime stakes; no structural necessary condition is checkable statically",
 "C21": "value-level round-trip equality of numeric conversions; not decidable from code shape",
 "C26": "algorithmic correctness of merkle proofs over all tree sizes; not a shape property",
 "C28": "a theorem about integer threshold formulas for all N, C; arithmetic, not code shape",
 "C34": "quantifies over message schedules and Byzantine behaviours; model-checking territory, not static analysis",
 "C37": "data-structure invariants of k-buckets over operation histories; no guarding shape to check",
 "C38": "round-trip behaviour of wallet persistence and encryption over operation histories; no structural clause that is a necessary condition",
}

PENDING_REASON = "claimed in DESIGN.md but its static rule is not implemented/validated yet in this tree; not claimed until the check exists"

def main():
    ids = ["C%02d" % i for i in range(1, 46)]
    checks = []
    for pid in ids:
        if pid in CLAIMED:
            tech, text, note, ref = CLAIMED[pid]
            checks.append({
                "property_id": pid,
                "quick_cmd": "./run.sh %s quick" % pid,
                "thorough_cmd": "./run.sh %s thorough" % pid,
                "evidence_file": "/verif/evidence/%s.json" % pid,
                "replay_cmd_template": "./run.sh %s quick  # evidence at {path}" % pid,
                "engine": "ontocheck",
                "level_claimed": {"category": "other", "text": text, "design_ref": ref},
                "level_note": note,
                "technique": "static analysis: " + tech,
            })
    na = []
    for pid in ids:
        if pid in CLAIMED:
            continue
        na.append({"property_id": pid, "reason": NOT_APPLICABLE.get(pid, PENDING_REASON)})
    m = {
        "version": 1,
        "setup_cmd": "./build.sh",
        "hooks": {
            "guard": "verif",
            "enable": "none needed: the checks read /repo's source with go/packages; no build tag, no instrumentation",
            "baseline_off_cmd": "cd /repo && go test -json -vet=off -count=1 -timeout 25m ./...",
            "source_commits": [],
            "add_only": True,
        },
        "engines": [{
            "name": "ontocheck",
            "path": "/verif/checker",
            "serves_properties": sorted(CLAIMED),
            "kind_free_text": "repository-specific static analyzers over go/packages + go/ssa + VTA call graph (x/tools v0.29.0); no code of the repository is executed",
        }],
        "checks": checks,
        "not_applicable": na,
        "notes": "Every check is `./run.sh <id> <tier>`: it loads /repo's current working tree, type-checks, builds SSA and evaluates the property's rules; evidence is written by the checker itself. known_findings.json lists genuine defects that are reported as KNOWN-FINDING lines.",
    }
    json.dump(m, open("MANIFEST.json", "w"), indent=1)
    print("MANIFEST.json: %d claimed, %d not claimed" % (len(checks), len(na)))

main()
