#!/usr/bin/env python3
"""Generates MANIFEST.json from the table below (kept in one place so the
manifest is always schema-valid). Run after changing which properties are claimed."""
import json, sys

# id -> (technique, level text, level note, design ref)
CLAIMED = {
 "C42": ("call-graph confinement (A4): VTA reachability from pre-execution roots to persistent-write sinks",
         "Decides a structural necessary condition for every input: in the type-checked program's refined call graph no function that writes persisted ledger state is reachable from any pre-execution entry point, and each entry point executes on an overlay it creates itself. It does not execute anything; it cannot miss a write path that exists in the source except through reflection/cgo, and it does not decide read-side effects.",
         "go/types + go/ssa + VTA(CHA) call graph of x/tools v0.29.0 are sound for non-reflective Go; eventbus actor mailboxes and logging are cut as asynchronous boundaries (table printed in evidence).",
         "DESIGN.md §4 C42"),
 "C44": ("guard analysis (A2 cut-set reachability on SSA CFG with wrapper discovery) + must-pass-through on CacheDB contract functions",
         "Decides structural necessary conditions for every input: every PutContract call site is unreachable unless GetContract reported not-destroyed (for the address of the stored contract); migration/destroy mark the old address destroyed before touching storage and every loop iteration moves+deletes; NeoVM storage writes are unreachable unless checkStorageContext succeeded. Does not decide that iteration-while-writing visits every entry.",
         "Result convention of CacheDB.GetContract (item, destroyed, err); go/ssa CFG; one known finding (checkStorageContext accepts missing contracts) is listed in known_findings.json.",
         "DESIGN.md §4 C44"),
 "C06": ("guard analysis (A2) + who-may-call (A4) + same-value pairing (A13) on native ONT/ONG token code",
         "Decides for all CFG paths: balance debits happen only in Transfer/TransferedFrom, only after CheckWitness of the debited account (or witness + allowance of exactly that owner/spender), stores only after the checked subtraction succeeded, debit and credit carry the same amount and the credit is on every success path; allowance stores are witness-guarded. Does not decide sums over call sequences.",
         "Two loads of the same access path denote the same value inside one handler; SSA CFG of x/tools.",
         "DESIGN.md §4 C06"),
 "C16": ("guard analysis (A2) with all-checks-fail abstract interpretation over the transaction validator and VerifyMultiSignature",
         "Decides for all inputs the structural necessary conditions of acceptance: no success without payer membership; signer set fed only on verified edges; no iteration over signature sets completes unverified; threshold sanity guards verification; verified data is tx.Hash(); multi-signature counts only distinct verified keys; VerifyTransaction needs both checks. Not cryptographic soundness.",
         "EIP-155 transactions excluded (IsEipTx assumed false); go/ssa lowering of loops and short-circuit conditions.",
         "DESIGN.md §4 C16"),
 "C41": ("guard analysis (A2) on auth.verifyToken / verifySig and effect-guard analysis over registered handlers",
         "Decides the only-if direction for all inputs: verifyToken is true only after verifySig, only on ContainsFunc==true, never on an expired entry (expiry judged against block time, on the same element whose role is used); every state-changing handler writes only after verifySig (or while no admin is set for initContractAdmin). Does not decide the 'if' direction.",
         "Handlers are exactly those registered in RegisterAuthContract; NativeCall into the ONT ID contract is trusted to verify signatures (C45).",
         "DESIGN.md §4 C41"),
 "C45": ("effect-guard analysis (A2 lifted over helpers) with wrapper discovery from ContextRef.CheckWitness and the forall-loop idiom, over all registered ONT ID handlers",
         "Decides for all inputs and all 52 registered handlers: every path to a CacheDB write passes a successful witness check and a successful identity-state check (valid for modification, never-existed for registration, so revoked ids stay revoked); group verification checks every listed signer; revoked / non-auth keys never pass. Does not decide that the witnessed key is the configured one beyond these guards.",
         "verifyGroupSignature's signer loop is non-empty when verifyThreshold passed (table entry); handlers are those registered in RegisterIDContract.",
         "DESIGN.md §4 C45"),
 "C01": ("ordered must-pass-through sequences on SSA CFGs (A3) + call-graph confinement (A4) + a linear range rule on recoverStore's loop",
         "Decides, for every crash point, the structural mechanism recovery relies on: commit order block->event->state->height with every error aborting; batches reach LevelDB only in BatchCommit; save helpers never write directly; init runs recovery; recoverStore replays execute/save/commit in order for exactly heights stateHeight+1..blockHeight and never writes the block store; merkle file opened consistently. Does not decide that replay recomputes identical state.",
         "VTA call graph; go/ssa CFG; LevelDB's own batch atomicity.",
         "DESIGN.md §4 C01"),
 "C05": ("guard (A2), sequence (A3), same-value pairing (A13) on tx handlers + call-graph confinement of CacheDB.Commit (A4)",
         "Decides structural necessary conditions on all paths: per-tx cache reset; commit only after successful execution and charging, no failure after commit; overlay touched only for SetError/failure fee; failure fee charged on a fresh cache and reported as the charged value; contract execution can never reach CacheDB.Commit. Does not decide numeric fee equality beyond same-value.",
         "VTA call graph with eventbus/log cut; handlers are those in tx_handler.go.",
         "DESIGN.md §4 C05"),
 "C32": ("guard analysis (A2) with all-checks-fail abstract interpretation on verifyHeader",
         "Decides for all headers: acceptance needs VerifyMultiSignature over header.Hash()/Bookkeepers/SigData; every listed key is a member of the governing config; the count compared with C+1 is the size of a set keyed by key id; the member table is only updated after signature verification. Does NOT decide the magnitude of the verified-signature threshold m relative to C+1 (arithmetic).",
         "Side conditions: non-genesis header, vbft consensus type for the vbft clauses.",
         "DESIGN.md §4 C32"),
 "C39": ("guard analysis (A2) on the block intake path + call-graph confinement of executeBlock (A4) + verifyHeader rules",
         "Decides 'rejected implies no effect' structurally for every block: verifyHeader before any ledger effect in AddBlock/SubmitBlock/AddHeader; state-root comparison before submitBlock for non-empty blocks; block-root comparison before the first store effect; verifyHeader mutates only after signature verification; executeBlock reaches no persistent write. Transaction-root check is C20.",
         "Empty blocks skip the state-root comparison by design; genesis skips the block-root comparison.",
         "DESIGN.md §4 C39"),
 "C08": ("frame analysis (A5: field write sets vs snapshot/revert coverage, freshness of saved copies) + call-graph confinement (A4)",
         "Decides structurally for any nesting: every StateDB field an EVM-facing mutator writes is captured by Snapshot and restored by RevertToSnapshot; the saved memdb is on every path a fresh DeepClone (all MemDB fields copied, slices with fresh backing arrays); self-destruct set copied; logs saved as length over an append-only list; no mutator writes through to the overlay. Assumes the memdb's own map semantics.",
         "MemDB behaves as an ordered map; shared PRNG and scratch buffer exempted by table.",
         "DESIGN.md §4 C08"),
 "C13": ("repository-specific lint over SSA (A12: no unchecked int64 + - * << / on the machine-integer fast path) + guard analysis (A2)",
         "Decides that integer opcode results cannot depend on the machine-vs-big representation through silent int64 overflow: fast paths are overflow-checked primitives or non-overflowing operations; zero divisor and shift bounds guard the big-integer path; only IntValFromBigInt produces big values; executor call sites consume errors. One known finding (Div MinInt64/-1). Does not decide math/big exactness.",
         "go/ssa typing of operations; table of non-overflowing operators.",
         "DESIGN.md §4 C13"),
 "C14": ("recursion analysis (A8: SCCs of the static call graph, each cycle cut by a growing bound or by the cycle detector) + loop-completeness lint (A8-L)",
         "Decides 'a cycle at any position is rejected rather than recursed into' and 'decoding recursion is bounded' structurally: every recursive component of the NeoVM value package is justified by a growing depth/count bound or by a successful detector call, and the detector must visit every element. Seven known findings (the detector's three first-iteration returns and the four traversals that therefore overflow the stack on a=[1,a]). Does not decide round-trip equality.",
         "Static calls only (no function values in these cycles); bounds recognised as comparisons of a parameter/pointee/len with a constant.",
         "DESIGN.md §4 C14"),
 "C15": ("map-iteration-order analysis (A1) over all functions of the NeoVM executor, value and syscall packages",
         "Decides independence from Go map iteration order structurally: every range over a map is commutative, collect-then-sort (sorted before any other use) or an exists-failure exit; wall-clock/random inputs forbidden. One known finding (the detector's map branch returns the verdict of the first entry yielded). Does not decide equality of results.",
         "Effect classes of callees (pure/keyed/ordered) come from a summariser with a small table of ordered sinks.",
         "DESIGN.md §4 C15"),
 "C18": ("offset-invariant and codec-table analysis on common.ZeroCopySource/Sink (A6/A7): clamped stores, who-may-slice, writer/reader width and var-uint table agreement",
         "Decides for all byte strings: the read offset is only ever assigned a value clamped to the data length (or a guarded increment), the backing slice is sliced/indexed only with those values, non-minimal var-uints are flagged, fixed-width and var-uint tables of writer and reader agree, the io.Reader variant bounds its up-front allocation. Round-trip value equality is not decided.",
         "BackUp is unchecked by design; its call sites are constrained to constants / position differences.",
         "DESIGN.md §4 C18"),
 "C19": ("range/ordering analysis of Transaction.Deserialization (A3/A5), guard analysis of size limits (A2), decoder discipline (A7) over functions reachable from transaction decoding, strict-RLP who-may-call rule",
         "Decides for all byte strings: serialization writes exactly Raw; Raw is the consumed source range; the hash covers the range that ends before the signature section; size limits guard success; decoders consume eof/irregular and bound decoded sizes; the EIP-155 payload is decoded with the strict RLP decoder only. RLP canonicity itself is assumed.",
         "go-ethereum rlp.DecodeBytes rejects trailing bytes and non-canonical encodings.",
         "DESIGN.md §4 C19"),
 "C24": ("guard analysis of ReadMessage (A2), registry exhaustiveness (A10), decoder discipline (A7) over every function reachable from the p2p message decoders",
         "Decides for every frame/payload: allocation and acceptance only after magic, length<=MAX_PAYLOAD_LEN and checksum tests; every constant-command message type is constructed by makeEmptyMessage; every decoder (incl. nested core types) consumes irregular/eof and never sizes/slices by an unchecked decoded integer. Three genuine defects found by these rules were repaired (see known_findings.json 'fixed'). Byte-exact round trip of nested core types is C19/C20.",
         "readMessageHeader reads a fixed-size buffer (table exemption for its eof results).",
         "DESIGN.md §4 C24"),
 "C25": ("tag registry + per-tag layout agreement on the syntax tree (A10/A6), decoder discipline (A7), recursion bound (A8), narrowing-accessor lint",
         "Decides structurally: every tag has encoder and decoder with the same field layout; malformed input is rejected (eof/irregular consumed, no allocation by decoded length); decoding recursion is cut by checked reads; big integers are narrowed only under an explicit range test. Value equality after a round trip is not decided.",
         "Encoders and stringify recurse over in-memory values (table entries with reasons).",
         "DESIGN.md §4 C25"),
 "C07": ("guard and ordering analysis (A2/A3) of the EIP-155 state transition",
         "Decides for all transactions: nonce mismatches are rejected before gas is bought and before any state mutation, errors mark the block cache failed, every path after preCheck increments the sender nonce exactly once (evm.create increments before init code), the fee and UsedGas are computed from gasUsed() after the refund, the fee credit is on every path. ONG conservation as arithmetic and the gasLimit*gasPrice+value bound are not decided.",
         "CheckNonce enabled for block execution; vm/evm.StateDB interface methods classified as mutators by table.",
         "DESIGN.md §4 C07"),
 "C17": ("sibling-agreement analysis (A11) of the writers of Transaction.SignedAddr + zero-tail lint + purity of address derivation",
         "Decides necessary conditions for 'same bytes, same signer set on every node': only three functions assign the signer set, it is built by append from an empty slice, the derivation functions use no process-wide mutable state, and the validator and the sealed-block fallback must derive accounts the same way — which they do not: one known finding (confirmed with an unsorted 2-of-2 script). Equality of derived addresses as values is not decided.",
         "Address constructors are recognised by result type common.Address.",
         "DESIGN.md §4 C17"),
 "C20": ("writer/reader token-sequence agreement on the syntax tree (A6), hash field coverage (A5), guard analysis of Block.Deserialization (A2)",
         "Decides for all byte strings: Header/Block layouts agree between Serialization and Deserialization; Header.Hash covers every field except signer list, signatures and cache; duplicate transactions are rejected through a set keyed by the tx hash into which every accepted hash is inserted; acceptance requires the header's transaction root to equal ComputeMerkleRoot of the decoded hashes. Byte-exact re-encoding of public keys is not decided.",
         "Token abstraction of sink/source calls; helper methods inlined to depth 2.",
         "DESIGN.md §4 C20"),
 "C22": ("guard analysis (A2) of AddressFromBase58",
         "Decides the rejection clause for all strings: acceptance requires that re-encoding the decoded address reproduces the input string, exact payload length and version byte. That every address's own encoding decodes is behaviour of base58/big.Int and is not decided.",
         "ToBase58 is deterministic.",
         "DESIGN.md §4 C22"),
 "C23": ("guard and ordering analysis (A2/A3) of script building and parsing",
         "Decides for all key sets/scripts: multi-sig parameters validated before building/accepting, keys sorted before emission and the sorted list is what is emitted (order-free address), scripts accepted only after ExpectEOF and key-count equality. parse(build(x)) == x as a value identity is not decided.",
         "keypair.SortPublicKeys is a total order on keys.",
         "DESIGN.md §4 C23"),
 "C31": ("guard analysis (A2) on getCommitConsensus/newBlockCommitment + verified-before-counted rule (A15) over the readers of blockCommitMsg.EndorsersSig",
         "Decides necessary conditions for all message sets: a proposer is returned only where the size of a per-proposer set keyed by signer index reaches the threshold (distinct signers); one commit per committer; a received commit reaches the pool only after blockCommitMsg.Verify; every field counted toward the quorum must be signature-verified on the intake path. One known finding: endorser signatures inside commit messages are counted but never verified. The threshold formula itself (C28) is not decided.",
         "Signature primitives are sound; message intake is Server.run -> receiveFromPeer -> onConsensusMsg.",
         "DESIGN.md §4 C31"),
 "C35": ("guard analysis (A2) on TXPool.addEIPTxPool, on every VBFT call site of IncrementValidator.Verify, and a parallel-update (pairing) rule on the validator's two windows",
         "Decides structural necessary conditions for all histories: same-nonce replacement only on a strictly higher gas price of the looked-up slot; pool transactions enter a proposal / a received proposal is processed only on Verify==nil with one fresh nonce context shared by the whole selection; the validator's hash and nonce windows are always updated together; Verify rejects duplicate hashes and wrong next nonces and advances the context only after that test. Consecutive-run and duplicate freedom over whole histories are not decided.",
         "go/ssa CFG; the nonce context is the map passed as third argument of Verify.",
         "DESIGN.md §4 C35"),
 "C36": ("critical-section analysis (A14: lock/unlock typestate on the SSA CFG) + guard analysis (A2) + who-may-call (A4) on ConnectController",
         "Decides for all schedules the structural condition that makes the limits race-free: insertions into the inbound/outbound sets happen only in savePeer, inside the mutex critical section in which the size of that same set (and the per-IP count for inbound) was compared with the configured limit; removals take the same mutex; the dial-in-flight marker is released only by its acquirer. A genuine check-then-act defect found by this rule was repaired. Does not model the network or reserved-peer filtering.",
         "sync.Mutex semantics; deferred Unlock runs at function exit.",
         "DESIGN.md §4 C36"),
 "C33": ("guard analysis (A2) with all-checks-fail interpretation + sibling rule (A11) on header_sync.VerifyHeader",
         "Decides for all side-chain headers: acceptance requires the 2/3 threshold on the listed bookkeepers, membership of every listed key, pairwise distinct keys (a repeated key aborts), and VerifyMultiSignature over the header's hash/keys/signatures with threshold = number listed; headers are stored only after verification. A genuine defect (repeated bookkeeper accepted) found by the distinctness rule was repaired.",
         "Cryptographic soundness of signature verification.",
         "DESIGN.md §4 C33"),
}

NOT_APPLICABLE = {
 "C09": "issuance additivity/total is arithmetic over generation tables; no shape condition of the code implies it (needs evaluation or a solver, outside static analysis)",
 "C10": "fee-split bound is an inequality over products/quotients of runtime stakes; no structural necessary condition is checkable statically",
 "C21": "value-level round-trip equality of numeric conversions; not decidable from code shape",
 "C26": "algorithmic correctness of merkle proofs over all tree sizes; not a shape property",
 "C28": "a theorem about integer threshold formulas for all N, C; arithmetic, not code shape",
 "C34": "quantifies over message schedules and Byzantine behaviours; model-checking territory, not static analysis",
 "C37": "data-structure invariants of k-buckets over operation histories; no guarding shape to check",
 "C38": "round-trip behaviour of wallet persistence and encryption over operation histories; no structural clause that is a necessary condition",
}

PENDING_REASON = "claimed in DESIGN.md but its static rule is not implemented/validated yet in this tree; not claimed until the check exists"

def main():
    ids = ["C%02d" % i for i in range(1, 46)]
    checks = []
    for pid in ids:
        if pid in CLAIMED:
            tech, text, note, ref = CLAIMED[pid]
            checks.append({
                "property_id": pid,
                "quick_cmd": "./run.sh %s quick" % pid,
                "thorough_cmd": "./run.sh %s thorough" % pid,
                "evidence_file": "/verif/evidence/%s.json" % pid,
                "replay_cmd_template": "./run.sh %s quick  # evidence at {path}" % pid,
                "engine": "ontocheck",
                "level_claimed": {"category": "other", "text": text, "design_ref": ref},
                "level_note": note,
                "technique": "static analysis: " + tech,
            })
    na = []
    for pid in ids:
        if pid in CLAIMED:
            continue
        na.append({"property_id": pid, "reason": NOT_APPLICABLE.get(pid, PENDING_REASON)})
    m = {
        "version": 1,
        "setup_cmd": "./build.sh",
        "hooks": {
            "guard": "verif",
            "enable": "none needed: the checks read /repo's source with go/packages; no build tag, no instrumentation",
            "baseline_off_cmd": "cd /repo && go test -json -vet=off -count=1 -timeout 25m ./...",
            "source_commits": [],
            "add_only": True,
        },
        "engines": [{
            "name": "ontocheck",
            "path": "/verif/checker",
            "serves_properties": sorted(CLAIMED),
            "kind_free_text": "repository-specific static analyzers over go/packages + go/ssa + VTA call graph (x/tools v0.29.0); no code of the repository is executed",
        }],
        "checks": checks,
        "not_applicable": na,
        "notes": "Every check is `./run.sh <id> <tier>`: it loads /repo's current working tree, type-checks, builds SSA and evaluates the property's rules; evidence is written by the checker itself. known_findings.json lists genuine defects that are reported as KNOWN-FINDING lines.",
    }
    json.dump(m, open("MANIFEST.json", "w"), indent=1)
    print("MANIFEST.json: %d claimed, %d not claimed" % (len(checks), len(na)))

main()
