#!/bin/sh
# usage: seedcheck.sh <seed id> <property>...   -- applies seeded/<id>/patch.diff to a scratch
# worktree (never /repo) and runs the given property checks against it.
set -u
here=$(cd "$(dirname "$0")" && pwd)
seed=$1; shift
wt=${SEED_WT:-/tmp/triage}
sv=/tmp/verif-scratch-$(basename "$wt")
if [ ! -d "$wt" ]; then git -C /repo worktree add -q --detach "$wt" HEAD; fi
git -C "$wt" checkout -q --detach "$(git -C /repo rev-parse HEAD)" 2>/dev/null
git -C "$wt" checkout -q -- . && git -C "$wt" clean -fdq
git -C "$wt" apply "$here/seeded/$seed/patch.diff" || { echo "patch does not apply"; exit 2; }
mkdir -p $sv/evidence; ln -sfn "$here/checker" $sv/checker; cp "$here/known_findings.json" $sv/
bin=${ONTOCHECK_BIN:-"$here/bin/ontocheck"}
[ -n "${ONTOCHECK_BIN:-}" ] || "$here/build.sh" || exit 2
rc=0
for p in "$@"; do
	"$bin" -prop "$p" -tier "${TIER:-quick}" -repo "$wt" -verif $sv | cut -c1-600 | grep -v "^  analysed" | head -${LINES_MAX:-25}
done
git -C "$wt" checkout -q -- . && git -C "$wt" clean -fdq
