#!/bin/sh
# usage: benigncheck.sh <id> <property>...  -- applies benign/<id>/patch.diff (a behaviour-preserving refactor) to a
# scratch worktree (never /repo) and runs the given checks against it; they must stay silent.
set -u
here=$(cd "$(dirname "$0")" && pwd)
id=$1; shift
wt=${SEED_WT:-/tmp/triage2}
sv=/tmp/verif-scratch-$(basename "$wt")
if [ ! -d "$wt" ]; then git -C /repo worktree add -q --detach "$wt" HEAD; fi
git -C "$wt" checkout -q --detach "$(git -C /repo rev-parse HEAD)" 2>/dev/null
git -C "$wt" checkout -q -- . && git -C "$wt" clean -fdq
git -C "$wt" apply "$here/benign/$id/patch.diff" || { echo "patch does not apply"; exit 2; }
mkdir -p $sv/evidence; ln -sfn "$here/checker" $sv/checker; cp "$here/known_findings.json" $sv/
bin=${ONTOCHECK_BIN:-"$here/bin/ontocheck"}
for p in "$@"; do
	"$bin" -prop "$p" -tier quick -repo "$wt" -verif $sv | cut -c1-700 | grep -v "^  analysed" | grep -v "^KNOWN" | head -${LINES_MAX:-14}
done
git -C "$wt" checkout -q -- . && git -C "$wt" clean -fdq
