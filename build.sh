#!/bin/sh
# Builds the checker offline from files on disk only.
set -eu
here=$(cd "$(dirname "$0")" && pwd)
export GOFLAGS=-mod=mod GOPROXY=off GOSUMDB=off GOTOOLCHAIN=local
unset GOWORK
mkdir -p "$here/bin" "$here/evidence"
cd "$here/checker"
tmp="$here/bin/.ontocheck.$$"
go build -o "$tmp" ./cmd/ontocheck
mv -f "$tmp" "$here/bin/ontocheck"
