#!/bin/sh
# usage: run.sh <property id> [quick|thorough]
# Decides one property on /repo's current working tree by static analysis.
set -u
here=$(cd "$(dirname "$0")" && pwd)
export GOFLAGS=-mod=mod GOPROXY=off GOSUMDB=off GOTOOLCHAIN=local
unset GOWORK
prop=$1
tier=${2:-${VERIF_TIER:-quick}}
bin="$here/bin/ontocheck"
if [ ! -x "$bin" ] || [ -n "$(find "$here/checker" -name '*.go' -newer "$bin" -print -quit 2>/dev/null)" ]; then
	"$here/build.sh" || { echo "VIOLATION property=$prop replay=$here/build.sh (checker build failed)"; exit 1; }
fi
exec "$bin" -prop "$prop" -tier "$tier" -repo "${VERIF_REPO:-/repo}" -verif "$here"
